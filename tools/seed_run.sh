#!/bin/bash
# development aid: apply a filed seed to /repo, run the given checks (quick), undo.  usage: tools/seed_run.sh <seed id> <Cxx>...
cd /verif
id=$1; shift
git -C /repo apply /verif/seeded/$id/patch.diff || { echo "[$id] patch does not apply"; exit 2; }
for p in "$@"; do
  out=$(./check $p --tier quick 2>&1); rc=$?
  echo "[$id] check $p exit=$rc $(echo "$out" | grep -c '^VIOLATION') violation lines; $(echo "$out" | grep '^VIOLATION' | head -1 | cut -c1-160)"
done
git -C /repo checkout -- .
python3 translate/gen_lean.py /repo >/dev/null
