#!/usr/bin/env python3
"""Development aid (not a registered check): confirm a seeded change in a scratch worktree, run the
checks against it in /repo, undo it, and file it under /verif/seeded/<id>/.

usage: tools/try_seed.py <seed dir with patch.diff demo.py notes.md> <id> <Cxx> [more props...]
"""
import json, os, shutil, subprocess, sys, time

def sh(cmd, cwd=None, timeout=3600):
    p = subprocess.run(cmd, shell=isinstance(cmd, str), cwd=cwd, stdout=subprocess.PIPE, stderr=subprocess.STDOUT, timeout=timeout)
    return p.returncode, p.stdout.decode(errors="replace")

def main():
    src, sid, props = sys.argv[1], sys.argv[2], sys.argv[3:]
    patch = os.path.abspath(os.path.join(src, "patch.diff"))
    demo = os.path.abspath(os.path.join(src, "demo.py"))
    wt = "/tmp/wt_confirm"
    if not os.path.exists(wt):
        rc, out = sh(f"git -C /repo worktree add -q --detach {wt} HEAD"); assert rc == 0, out
    sh(f"git -C {wt} checkout -q --detach $(git -C /repo rev-parse HEAD) && git -C {wt} checkout -- . && git -C {wt} clean -fdq")
    meta = {"id": sid, "breaks": props[0], "checked_with": props, "ran": []}
    rc, out = sh(f"git -C {wt} apply {patch}"); assert rc == 0, out
    shutil.copy(demo, os.path.join(wt, "_demo.py"))
    rc_t, out_t = sh("/venv/bin/python -m pytest -q -p no:cacheprovider -x 2>&1 | tail -1", cwd=wt)
    rc_d, out_d = sh("/venv/bin/python _demo.py 2>&1 | tail -3", cwd=wt)
    rc_d = subprocess.run(["/venv/bin/python", "_demo.py"], cwd=wt, stdout=subprocess.DEVNULL, stderr=subprocess.DEVNULL).returncode
    sh(f"git -C {wt} apply -R {patch}")
    rc_c = subprocess.run(["/venv/bin/python", "_demo.py"], cwd=wt, stdout=subprocess.DEVNULL, stderr=subprocess.DEVNULL).returncode
    os.remove(os.path.join(wt, "_demo.py"))
    meta["tests_with_change"] = out_t.strip().split("\n")[-1]
    meta["demo_exit_with_change"] = rc_d
    meta["demo_exit_without_change"] = rc_c
    confirmed = ("81 passed" in out_t) and rc_d != 0 and rc_c == 0
    meta["confirmed"] = confirmed
    print(f"[{sid}] tests: {meta['tests_with_change']} | demo with change exit={rc_d} | without exit={rc_c} | confirmed={confirmed}")
    results = {}
    if confirmed:
        rc, out = sh(f"git -C /repo apply {patch}"); assert rc == 0, out
        try:
            for p in props:
                t0 = time.time()
                rc, out = sh(["./check", p, "--tier", "quick"], cwd="/verif")
                lines = [l for l in out.split("\n") if l.startswith("VIOLATION") or l.startswith("KNOWN") or "TOOL FAILURE" in l]
                results[p] = {"exit": rc, "lines": lines[:4], "wall_s": round(time.time() - t0, 1)}
                print(f"   check {p}: exit={rc} {lines[:2]}")
        finally:
            sh("git -C /repo checkout -- .")
        # restore generated files / driver for the clean tree
        sh("python3 translate/gen_lean.py /repo", cwd="/verif")
    meta["check_results"] = results
    meta["caught_by"] = [p for p, r in results.items() if r["exit"] == 1]
    dst = os.path.join("/verif/seeded", sid)
    os.makedirs(dst, exist_ok=True)
    for f in ("patch.diff", "demo.py", "notes.md"):
        if os.path.exists(os.path.join(src, f)):
            shutil.copy(os.path.join(src, f), os.path.join(dst, f))
    notes = open(os.path.join(src, "notes.md")).read() if os.path.exists(os.path.join(src, "notes.md")) else ""
    meta["needs_to_manifest"] = notes[:1500]
    meta["what_i_ran"] = "scratch worktree /tmp/wt_confirm: git apply patch; pytest (81 expected); demo.py (must fail); revert; demo.py (must pass). Then git -C /repo apply patch; ./check <prop> --tier quick for each listed property; git -C /repo checkout -- ."
    json.dump(meta, open(os.path.join(dst, "meta.json"), "w"), indent=1)

main()
