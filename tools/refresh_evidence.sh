#!/bin/bash
# Development aid: re-run every quick check on the clean tree so that the committed evidence files
# describe a passing run (run before committing after any experiment that applied a patch to /repo).
cd "$(dirname "$0")/.."
test -z "$(git -C /repo status --porcelain)" || { echo "/repo is not clean"; exit 2; }
rc=0
for c in $(python3 -c "import json;print(' '.join(x['property_id'] for x in json.load(open('MANIFEST.json'))['checks']))"); do
  ./check $c --tier quick 2>&1 | grep -v "^WARNING" | tail -1
  [ "${PIPESTATUS[0]}" = "0" ] || rc=1
done
exit $rc
