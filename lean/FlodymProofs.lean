import FlodymProofs.Lemmas.Core
import FlodymProofs.Lemmas.Einsum
import FlodymProofs.Lemmas.Arith
import FlodymProofs.Lemmas.Cast
import FlodymProofs.Props.C01
