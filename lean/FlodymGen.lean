import FlodymGen.Subscripts
