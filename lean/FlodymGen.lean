import FlodymGen.Subscripts
import FlodymGen.GaussLobatto
import FlodymGen.Constants
import FlodymGen.IOSites
