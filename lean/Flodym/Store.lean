import Flodym.SubArray
import Flodym.Validators
/-!
# Tier 3 — a store of arrays under handles, operation histories, buffers

`SStore` is the value view (what every array holds); `Heap` is the identity view (which numpy
buffer a handle's values live in). The driver's store (`Flodym/Driver/ArrayCmds.lean`) combines
both: results of operations are allocated with `Heap.allocFresh`, in-place assignments use
`Heap.write`.
-/
namespace Flodym

variable {α : Type}

structure SStore (α : Type) where
  arrs : List (Nat × FArr α) := []

def SStore.get? (s : SStore α) (h : Nat) : Option (FArr α) := (s.arrs.find? (·.1 == h)).map (·.2)
def SStore.put (s : SStore α) (h : Nat) (x : FArr α) : SStore α :=
  { arrs := (h, x) :: s.arrs.filter (·.1 != h) }

/-- one public call -/
inductive SOp (α : Type) where
  /-- a constructor, operator, reduction, cast, slice read, import …: computes a new array from the
  store and binds it to `h`; `none` = the call raises -/
  | new (h : Nat) (f : SStore α → Option (FArr α))
  /-- `x[key] = rhs`, `x.set_values(v)` on the array bound to `h` -/
  | assign (h : Nat) (f : FArr α → SStore α → Option (FArr α))

def SStore.step (s : SStore α) : SOp α → SStore α
  | .new h f => match f s with
    | some x => s.put h x
    | none => s
  | .assign h f => match s.get? h with
    | some x => (match f x s with
      | some x' => s.put h x'
      | none => s)
    | none => s

def SStore.run (s : SStore α) (ops : List (SOp α)) : SStore α := ops.foldl SStore.step s

/-- `FlodymArray.full(dims, c)` goes through the constructor -/
def FArr.full? (dims : DimSet) (c : α) : Option (FArr α) := FArr.mk? dims (ND.full (DimSet.shape dims) c)

/-! ## buffers -/

structure Heap (β : Type) where
  buf : Nat → Option β
  owner : Nat → Option Nat
  next : Nat

namespace Heap
variable {β : Type}

def read (h : Heap β) (hd : Nat) : Option β := (h.owner hd).bind h.buf

/-- the result of an operation gets a buffer nobody else has -/
def allocFresh (h : Heap β) (hd : Nat) (c : β) : Heap β :=
  { buf := fun b => if b = h.next then some c else h.buf b
    owner := fun x => if x = hd then some h.next else h.owner x
    next := h.next + 1 }

/-- an in-place write through handle `hd` -/
def write (h : Heap β) (hd : Nat) (c : β) : Heap β :=
  match h.owner hd with
  | some b => { h with buf := fun b' => if b' = b then some c else h.buf b' }
  | none => h

end Heap
end Flodym
