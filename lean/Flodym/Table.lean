import Flodym.Array
import Flodym.Build
import FlodymGen.IOSites
/-!
# Tier 5 — tables: `to_df` and the `DataFrameToFlodymDataConverter` pipeline (`from_df`,
`set_values_from_df`)

A DataFrame is a list of column labels and a list of rows of cells, plus how its index looks. pandas
primitives (`reset_index`, `unique`, `rename`, `melt`, `pivot`, `duplicated`, `isin`, `map`,
`astype(float)`) are *modelled*, step by step in the order the converter calls them; the tie to the
real pandas is the `table` correspondence stream. `none` = "Python raises".
-/
namespace Flodym.Table
open Flodym DimSet

inductive Cell where
  | num (q : Rat) (isFloat : Bool)     -- Python int (isFloat = false) or float
  | str (s : String)
  | nan                                -- float NaN / None
deriving Repr, Inhabited, DecidableEq

/-- Python `==` (and dict / set membership): 2000 == 2000.0, NaN equals nothing -/
def Cell.pyEq : Cell → Cell → Bool
  | .num a _, .num b _ => a == b
  | .str a, .str b => a == b
  | _, _ => false

def Cell.ofItem : Item → Cell
  | .int i => .num i false
  | .str s => .str s

def containsPy (l : List Cell) (c : Cell) : Bool := l.any (·.pyEq c)

/-- `len(set(a).symmetric_difference(set(b))) == 0` -/
def setEq (a b : List Cell) : Bool := a.all (containsPy b) && b.all (containsPy a)

/-- Python's `str(float)` for the floats the generators write (integers and short decimal fractions) -/
def showFloat (q : Rat) : String :=
  if q.den == 1 then s!"{q.num}.0"
  else if 1000000 % q.den == 0 then
    let scaled := (q.num.natAbs * (1000000 / q.den))
    let ip := scaled / 1000000
    let fp := scaled % 1000000
    let digits := (toString (1000000 + fp)).toList.drop 1
    let digits := (digits.reverse.dropWhile (· == '0')).reverse
    (if q.num < 0 then "-" else "") ++ toString ip ++ "." ++ String.ofList digits
  else "<float>"

/-- `dim.dtype(a)`; `none` = ValueError -/
def convCell (dt : DType) : Cell → Option Cell
  | .num q isF =>
    match dt with
    | .int => some (.num (Int.tdiv q.num q.den) false)            -- int(2.7) = 2
    | .str => some (.str (if isF then showFloat q else toString q.num))
  | .str s =>
    match dt with
    | .int => (Build.intOfText? s).map fun i => .num i false
    | .str => some (.str s)
  | .nan =>
    match dt with
    | .int => none                                                 -- int(nan) raises ValueError
    | .str => some (.str "nan")

/-- `DataFrameToFlodymDataConverter.same_items` -/
def sameItems (arr : List Cell) (d : Dim) : Bool :=
  match d.dtype with
  | some dt =>
    match arr.mapM (convCell dt) with
    | none => false
    | some a =>
      -- a float that changes under the conversion (2000.7 → 2000) is not an item (D26 repair)
      if Gen.sameItemsRejectsFractions && (List.zip arr a).any (fun p => match p.1, p.2 with
          | .num q true, .num q' _ => q != q'
          | _, _ => false) then false
      else setEq a (d.items.map Cell.ofItem)
  | none => setEq arr (d.items.map Cell.ofItem)

structure DF where
  cols : List Cell
  rows : List (List Cell)
deriving Repr, Inhabited

/-- how the index of the frame handed in looks; its levels are the leading columns of `DF` -/
inductive IndexKind where
  | range                    -- default RangeIndex: nothing to reset
  | named (k : Nat)          -- MultiIndex or named Index: `k` leading columns, already named
  | unnamed (int64 : Bool)   -- one unnamed level in column 0, of dtype int64 or not
deriving Repr, DecidableEq

namespace DF

/-- position of the column labelled `name`; a repeated label makes `df[name]` a frame and the
converter's next call on it raises -/
def colIdx? (df : DF) (name : Cell) : Option Nat :=
  match (List.range df.cols.length).filter (fun j => (df.cols.getD j .nan).pyEq name) with
  | [j] => some j
  | _ => none

def column (df : DF) (j : Nat) : List Cell := df.rows.map (·.getD j .nan)

def rename (df : DF) (old new : Cell) : DF :=
  { df with cols := df.cols.map fun c => if c.pyEq old then new else c }

def dropCol (df : DF) (j : Nat) : DF :=
  { cols := df.cols.eraseIdx j, rows := df.rows.map (·.eraseIdx j) }

def addCol (df : DF) (name : Cell) (v : Cell) : DF :=
  { cols := df.cols ++ [name], rows := df.rows.map (· ++ [v]) }

end DF

/-- `Series.unique()`: first occurrences -/
def unique (l : List Cell) : List Cell :=
  l.foldl (fun acc c => if containsPy acc c then acc else acc ++ [c]) []

def isIntCell : Cell → Bool
  | .num q false => q.den == 1
  | _ => false

def cellInt : Cell → Int
  | .num q _ => q.num
  | _ => 0

/-- `_reset_non_default_index` -/
def resetIndex (kind : IndexKind) (df : DF) : DF :=
  match kind with
  | .range => df
  | .named _ => df
  | .unnamed int64 =>
    let idx := df.column 0
    if int64 && idx.all isIntCell then
      -- int64 index: only reset when it looks like calendar years
      let ints := idx.map cellInt
      if !ints.isEmpty && ints.all (· ≥ 1700) && ints.all (· ≤ 2300) then
        { df with cols := Cell.str "index" :: df.cols.drop 1 }
      else df.dropCol 0
    else { df with cols := Cell.str "index" :: df.cols.drop 1 }

/-! ## the converter -/

structure Conv where
  df : DF
  dimCols : List String

def isDimCol (dimCols : List String) : Cell → Bool
  | .str s => dimCols.contains s
  | _ => false

/-- a column labelled with a dimension's letter gets the dimension's name -/
def renameLetter (dims : DimSet) : Cell → Cell
  | .str s =>
    match dims.find? (fun d => d.letter.toString == s) with
    | some d => .str d.name
    | none => .str s
  | c => c

/-- the name of the dimension a column label stands for, if any -/
def dimColName? (dims : DimSet) : Cell → Option String
  | .str s => if (names dims).contains s then some s else none
  | _ => none

/-- `_get_dim_columns_by_name_or_letter` -/
def byNameOrLetter (dims : DimSet) (df : DF) : Conv :=
  { df := { cols := df.cols.map (renameLetter dims), rows := df.rows },
    dimCols := (df.cols.map (renameLetter dims)).filterMap (dimColName? dims) }

/-- `_check_if_first_row_are_items` (with the guard added by the D19 repair) -/
def firstRowItems? (dims : DimSet) (c : Conv) : Option Conv :=
  match c.df.cols with
  | [] => none
  | columnName :: _ =>
    if Gen.firstRowGuard && isDimCol c.dimCols columnName then some c else
    match c.df.colIdx? columnName with
    | none => none
    | some j =>
      let extended := columnName :: unique (c.df.column j)
      dims.foldlM (fun (c : Conv) d =>
        if sameItems extended d then
          if !c.dimCols.isEmpty then none else
          some { c with df := { cols := (List.range c.df.cols.length).map fun i => Cell.str s!"column {i}",
                                rows := c.df.cols :: c.df.rows } }
        else some c) c

/-- `_check_if_dim_column_by_items` for one column (skipping identified dimensions: D20 repair);
the flag says whether the column was taken for a dimension (or already was one) -/
def byItemsOne? (dims : DimSet) (c : Conv) (cn : Cell) : Option (Conv × Bool) :=
  if isDimCol c.dimCols cn then some (c, true) else
  match c.df.colIdx? cn with
  | none => none
  | some j =>
    let items := unique (c.df.column j)
    match dims.find? (fun d => !(Gen.byItemsSkipsIdentified && c.dimCols.contains d.name) && sameItems items d) with
    | some d => some ({ df := c.df.rename cn (.str d.name), dimCols := c.dimCols ++ [d.name] }, true)
    | none => some (c, false)         -- a value column

/-- `_check_for_dim_columns_by_items`: over the column labels as they were when the loop started;
after a value column the loop goes on (D16 repair) — or, on a tree without the repair, stops -/
def byItems? (dims : DimSet) (c : Conv) : Option Conv :=
  (c.df.cols.foldlM (fun (st : Conv × Bool) cn =>
      if st.2 then some st else
      (byItemsOne? dims st.1 cn).map fun r => (r.1, !r.2 && !Gen.byItemsContinues)) (c, false)).map (·.1)

inductive Format where
  | long (valueCol : Cell)
  | wide (d : Dim)
deriving Repr

/-- `_check_value_columns` -/
def valueColumns? (dims : DimSet) (c : Conv) : Option (Conv × Format) :=
  let valueCols := c.df.cols.filter fun col => !(isDimCol c.dimCols col)
  match dims.find? (sameItems valueCols) with
  | some d =>
    let df := match d.dtype with
      | some dt => valueCols.foldl (fun df col => match convCell dt col with
          | some n => df.rename col n
          | none => df) c.df
      | none => c.df
    some ({ c with df := df }, .wide d)
  | none =>
    match valueCols with
    | [v] => some (c, .long v)
    | _ => none

/-- `_df_to_long_format`: pandas' `melt` -/
def melt? (c : Conv) (d : Dim) : Option Conv :=
  let items := d.items.map Cell.ofItem
  let idIdx := (List.range c.df.cols.length).filter fun j => !(containsPy items (c.df.cols.getD j .nan))
  let idCols := idIdx.map fun j => c.df.cols.getD j .nan
  -- `value_name`/`var_name` must not clash with a remaining column
  if containsPy idCols (.str "value") || containsPy idCols (.str d.name) then none else
  match items.mapM c.df.colIdx? with
  | none => none
  | some js =>
    some { df := { cols := idCols ++ [.str d.name, .str "value"],
                   rows := (List.zip items js).flatMap fun (p : Cell × Nat) =>
                     c.df.rows.map fun r => idIdx.map (fun j => r.getD j .nan) ++ [p.1, r.getD p.2 .nan] },
           dimCols := c.dimCols ++ [d.name] }

/-- `_check_missing_dim_columns` -/
def missingDims? (dims : DimSet) (c : Conv) : Option Conv :=
  (dims.filter fun d => !(c.dimCols.contains d.name)).foldlM (fun (c : Conv) d =>
    match d.items with
    | [it] => some { df := c.df.addCol (.str d.name) (Cell.ofItem it), dimCols := c.dimCols ++ [d.name] }
    | _ => none) c

/-- text of a number as pandas' `astype(float64)` reads it (plain decimals only) -/
def floatOfText? (s : String) : Option Rat :=
  let cs := s.toList
  let neg := cs.head? == some '-'
  let body := Build.stripDash cs
  let a := body.takeWhile (· != '.')
  let rest := body.dropWhile (· != '.')
  let frac := rest.drop 1
  if rest.length > 0 && frac.isEmpty && a.isEmpty then none else
  let ai := if a.isEmpty then some 0 else Build.natOfDigits? a
  let fi := if frac.isEmpty then some 0 else Build.natOfDigits? frac
  if a.isEmpty && frac.isEmpty then none else
  match ai, fi with
  | some x, some y =>
    let q : Rat := (x : Rat) + (y : Rat) / ((10 : Rat) ^ frac.length)
    some (if neg then -q else q)
  | _, _ => none

/-- value cells as float64: `some none` = NaN, `none` = ValueError -/
def valueOfCell? : Cell → Option (Option Rat)
  | .num q _ => some (some q)
  | .nan => some none
  | .str s => (floatOfText? s).map some

/-- a long table with the dimension columns in array order -/
structure LongTable where
  rows : List (List Cell × Option Rat)
deriving Repr

/-- a float label whose value the conversion would change (2000.7 → 2000) is kept as it is, hence
treated like any other unknown item (D30 repair; regenerated from `_as_item`) -/
def keepsLabel (c : Cell) (dt : DType) : Bool :=
  match c, dt with
  | .num q true, .int => Gen.convertKeepsFractionalLabels && q.den != 1
  | _, _ => false

/-- `df[dim.name].map(…)` for a typed dimension; untyped dimensions keep their cells -/
def convLabel (d : Dim) (c : Cell) : Option Cell :=
  match d.dtype with
  | some dt => if keepsLabel c dt then some c else convCell dt c
  | none => some c

/-- `_convert_type` and `_sort_columns` -/
def toLong? (dims : DimSet) (c : Conv) (valueCol : Cell) : Option LongTable := do
  let js ← dims.mapM fun d => c.df.colIdx? (.str d.name)
  let jv ← c.df.colIdx? valueCol
  let rows ← c.df.rows.mapM fun r => do
    let labels ← (List.zip dims js).mapM fun (p : Dim × Nat) => convLabel p.1 (r.getD p.2 .nan)
    let v ← valueOfCell? (r.getD jv .nan)
    some (labels, v)
  some { rows := rows }

/-- equality of labels for `DataFrame.duplicated()`: NaN labels count as equal -/
def labelEq (a b : Cell) : Bool := a.pyEq b || (a == .nan && b == .nan)
def labelsEq (a b : List Cell) : Bool := a.length == b.length && (List.zip a b).all fun p => labelEq p.1 p.2

def hasDuplicates : List (List Cell) → Bool
  | [] => false
  | r :: rs => rs.any (labelsEq r) || hasDuplicates rs

def itemPos? (d : Dim) (c : Cell) : Option Nat :=
  let i := (d.items.map Cell.ofItem).findIdx (·.pyEq c)
  if i < d.items.length then some i else none

def rowKnown (dims : DimSet) (labels : List Cell) : Bool :=
  (List.zip dims labels).all fun p => (itemPos? p.1 p.2).isSome

/-- positions of a row's labels in the dimensions' item lists -/
def positions? (dims : DimSet) (labels : List Cell) : Option (List Nat) :=
  (List.zip dims labels).mapM fun p => itemPos? p.1 p.2

/-- rows with unknown items: an error, or (allow_extra_values) dropped -/
def keepRows? (dims : DimSet) (rows : List (List Cell × Option Rat)) (allowExtra : Bool) :
    Option (List (List Cell × Option Rat)) :=
  if allowExtra then some (rows.filter fun r => rowKnown dims r.1)
  else if rows.all (fun r => rowKnown dims r.1) then some rows else none

/-- missing rows / NaN values: an error, or (allow_missing_values) zero -/
def fillRows? (dims : DimSet) (rows : List (List Cell × Option Rat)) (allowMissing : Bool) :
    Option (List (List Cell × Rat)) :=
  if allowMissing then some (rows.map fun r => (r.1, r.2.getD 0))
  else if rows.length != (shape dims).prod then none
  else rows.mapM fun r => r.2.map fun v => (r.1, v)

def placeRows (dims : DimSet) (rows : List (List Cell × Rat)) : List (List Nat × Rat) :=
  rows.filterMap fun r => (positions? dims r.1).map fun idx => (idx, r.2)

/-- `values = zeros; values[tuple(fill_indices)] = fill_values` -/
def placedGet (placed : List (List Nat × Rat)) (idx : List Nat) : Rat :=
  match placed.reverse.find? (·.1 == idx) with
  | some r => r.2
  | none => 0

/-- `_check_data_complete`: the decision logic and the placement -/
def complete? (dims : DimSet) (t : LongTable) (allowMissing allowExtra : Bool) : Option (ND Rat) :=
  if hasDuplicates (t.rows.map (·.1)) then none else
  (keepRows? dims t.rows allowExtra).bind fun rows =>
    (fillRows? dims rows allowMissing).map fun rows =>
      ({ shape := shape dims, get := placedGet (placeRows dims rows) } : ND Rat)

/-- `DataFrameToFlodymDataConverter(df, array, …).target_values` -/
def convert? (dims : DimSet) (kind : IndexKind) (df : DF) (allowMissing allowExtra : Bool) : Option (ND Rat) := do
  let df := resetIndex kind df
  let c := byNameOrLetter dims df
  let c ← firstRowItems? dims c
  let c ← byItems? dims c
  let (c, fmt) ← valueColumns? dims c
  let (c, valueCol) ← match fmt with
    | .long v => some (c, v)
    | .wide d => (melt? c d).map fun c => (c, Cell.str "value")
  let c ← missingDims? dims c
  let t ← toLong? dims c valueCol
  complete? dims t allowMissing allowExtra

/-- `FlodymArray.from_df(dims, df, …)` -/
def fromDf? (dims : DimSet) (kind : IndexKind) (df : DF) (allowMissing allowExtra : Bool) : Option (FArr Rat) := do
  if !(decide (letters dims).Nodup) then none else
  let v ← convert? dims kind df allowMissing allowExtra
  FArr.mk? dims v

/-- `set_values_from_df`: the converter runs first; only then are the values replaced -/
def setValuesFromDf? (x : FArr Rat) (kind : IndexKind) (df : DF) (allowMissing allowExtra : Bool) : Option (FArr Rat) :=
  (convert? x.dims kind df allowMissing allowExtra).map fun v => { x with values := v }

/-! ## `to_df` -/

def labelsOf (dims : DimSet) (idx : List Nat) : List Cell :=
  (List.zip dims idx).map fun p => Cell.ofItem (p.1.items.getD p.2 default)

/-- the long frame: one row per entry in storage order (sparse: the non-zero ones) -/
def toDfLong (x : FArr Rat) (sparse : Bool) : DF :=
  { cols := (names x.dims).map Cell.str ++ [.str "value"],
    rows := (allIdx (shape x.dims)).filterMap fun idx =>
      let v := x.values.get idx
      if sparse && v == 0 then none else some (labelsOf x.dims idx ++ [.num v true]) }

/-- order of labels inside one index level, as pandas sorts them; `none` = not comparable -/
def cellLt? : Cell → Cell → Option Bool
  | .num a _, .num b _ => some (decide (a < b))
  | .str a, .str b => some (decide (a < b))
  | _, _ => none

def labelsLt? : List Cell → List Cell → Option Bool
  | a :: as, b :: bs =>
    if a.pyEq b then labelsLt? as bs else cellLt? a b
  | [], _ :: _ => some true
  | _, _ => some false

def comparable (l : List Cell) : Bool :=
  l.all (fun c => match c with | .num _ _ => true | _ => false) ||
  l.all (fun c => match c with | .str _ => true | _ => false)

def insertSorted (lt : List Cell → List Cell → Bool) (x : List Cell) : List (List Cell) → List (List Cell)
  | [] => [x]
  | y :: ys => if lt x y then x :: y :: ys else y :: insertSorted lt x ys

def sortLabels (l : List (List Cell)) : List (List Cell) :=
  l.foldl (fun acc x => insertSorted (fun a b => (labelsLt? a b).getD false) x acc) []

def uniqueLabels (l : List (List Cell)) : List (List Cell) :=
  l.foldl (fun acc r => if acc.any (labelsEq r) then acc else acc ++ [r]) []

/-- `to_df(index, dim_to_columns, sparse)`; the result and the number of index levels -/
def toDf? (x : FArr Rat) (index : Bool) (dimToColumns : Option String) (sparse : Bool) : Option (DF × IndexKind) :=
  if x.dims.isEmpty then none else      -- `MultiIndex.from_product([])` raises (D21)
  let long := toDfLong x sparse
  match dimToColumns with
  | none => some (long, if index then .named x.dims.length else .range)
  | some key =>
    match lookup? x.dims key with
    | none => none
    | some d =>
      let pos := x.dims.idxOf d
      let others := (List.range x.dims.length).filter (· != pos)
      if others.isEmpty then none else   -- pandas' pivot with an empty index raises
      -- every level is sorted: its labels must be mutually comparable
      if !(x.dims.all fun d' => comparable (d'.items.map Cell.ofItem)) then none else
      let keyOf : List Cell → List Cell := fun r => others.map fun j => r.getD j .nan
      let rowKeys := sortLabels (uniqueLabels (long.rows.map keyOf))
      let colKeys := (sortLabels (uniqueLabels (long.rows.map fun r => [r.getD pos .nan]))).map (·.headD .nan)
      let cell : List Cell → Cell → Cell := fun rk ck =>
        match long.rows.find? (fun r => labelsEq (keyOf r) rk && labelEq (r.getD pos .nan) ck) with
        | some r => r.getD x.dims.length .nan
        | none => .nan
      let otherNames := others.map fun j => Cell.str ((names x.dims).getD j "")
      -- `reset_index` cannot insert a level whose name is already a column label
      if !index && otherNames.any (containsPy colKeys) then none else
      some ({ cols := otherNames ++ colKeys,
              rows := rowKeys.map fun rk => rk ++ colKeys.map (cell rk) },
            if index then .named others.length else .range)

end Flodym.Table
