import Flodym.Array
import FlodymGen.Constants
/-!
# Tier 1 — `SubArrayHandler`, `__getitem__`, `__setitem__`, `split`, `items_where`, stacking

The handler turns a key into a numpy index tuple (`List Ix`) exactly as the Python does
(`_get_def_dict`, `_init_dims_out`, `_init_ids`, `_convert_lists_to_meshgrid`) and hands it to the
model of numpy indexing. What entry ends up where, by label, is a theorem (Props/C06, C05).
-/
namespace Flodym
open DimSet

/-- the value a key gives for one dimension -/
inductive Sel where
  | item (it : Item)           -- a single item
  | dim (d : Dim)              -- a `Dimension` holding a subset of the items
  | list (its : List Item)     -- a list of items (writes only)
deriving Repr, Inhabited

/-- what stands between the square brackets -/
inductive Key where
  | ellipsis
  | dict (kvs : List (String × Sel))    -- keyed by dimension letter or name, in dict order
  | tuple (its : List Item)
  | single (it : Item)
  | slice                               -- a numpy-style slice: refused
deriving Repr, Inhabited

def Sel.isIterable : Sel → Bool
  | .list _ => true
  | _ => false

namespace SubArray

/-- `_get_key_single_item`: the letter of the unique dimension holding the item -/
def keySingleItem? (dims : DimSet) (it : Item) : Option Char :=
  match dims.filter (fun d => d.items.contains it) with
  | [d] => some d.letter
  | _ => none

/-- `_to_dict_tuple`: group the items by dimension in first-occurrence order; a single item per
dimension is unwrapped -/
def toDictTuple? (dims : DimSet) (its : List Item) : Option (List (String × Sel)) := do
  let keyed ← its.mapM (fun it => (keySingleItem? dims it).map (fun l => (l, it)))
  let ks := (keyed.map (·.1)).eraseDups
  some (ks.map fun k =>
    let vs := (keyed.filter (·.1 == k)).map (·.2)
    (k.toString, match vs with | [v] => Sel.item v | _ => Sel.list vs))

/-- `_get_def_dict` -/
def defDict? (dims : DimSet) : Key → Option (List (String × Sel))
  | .ellipsis => some []
  | .dict kvs => some kvs
  | .tuple its => toDictTuple? dims its
  | .single it => (keySingleItem? dims it).map fun l => [(l.toString, Sel.item it)]
  | .slice => none

/-- `_init_dims_out`: in dict order, a `Dimension` value replaces, a single item drops -/
def dimsOut? (dims : DimSet) : List (String × Sel) → Option DimSet
  | [] => some dims
  | (k, .dim d) :: rest => (replace? dims k d).bind (dimsOut? · rest)
  | (k, .item _) :: rest => (drop? dims k).bind (dimsOut? · rest)
  | (_, .list _) :: rest => dimsOut? dims rest

/-- `_set_ids_single_dim` for one entry of the dict -/
def idsSingle? (dims : DimSet) (k : String) (s : Sel) : Option (Nat × Ix) := do
  let d ← lookup? dims k
  let ix ← match s with
    | .dim sub => if sub.isSubset d then (sub.items.mapM d.index?).map Ix.list else none
    | .list its => (its.mapM d.index?).map Ix.list
    | .item it => (d.index? it).map Ix.int
  let pos ← index? dims k
  some (pos, ix)

/-- `_init_ids` before the mesh conversion -/
def idsRaw? (dims : DimSet) (dd : List (String × Sel)) : Option (List Ix) :=
  dd.foldlM (fun ids (kv : String × Sel) => (idsSingle? dims kv.1 kv.2).map fun (p, ix) => ids.set p ix)
    (dims.map fun _ => Ix.all)

def meshGo (n : Nat) : List Ix → Nat → List Ix
  | [], _ => []
  | .list l :: t, k => Ix.mesh l k n :: meshGo n t (k + 1)
  | o :: t, k => o :: meshGo n t k

def isListIx : Ix → Bool
  | .list _ => true
  | _ => false

/-- slices become `list(range(len))` -/
def fullLists (dims : DimSet) (ids : List Ix) : List Ix :=
  List.zipWith (fun (ix : Ix) (d : Dim) => match ix with
      | .all => Ix.list (List.range d.len) | o => o) ids dims

/-- `_convert_lists_to_meshgrid` (repaired form: whenever there is a list): slices become
`list(range(len))`, then every list becomes its `np.ix_` component -/
def convertMesh (dims : DimSet) (ids : List Ix) : List Ix :=
  if ids.any isListIx then
    meshGo ((fullLists dims ids).filter isListIx).length (fullLists dims ids) 0
  else ids

structure Handler where
  defDict : List (String × Sel)
  invalid : Bool
  dimsOut : DimSet
  ids : List Ix

/-- `SubArrayHandler.__init__` -/
def handler? (dims : DimSet) (key : Key) : Option Handler := do
  let dd ← defDict? dims key
  let dout ← dimsOut? dims dd
  let raw ← idsRaw? dims dd
  some { defDict := dd, invalid := dd.any (·.2.isIterable), dimsOut := dout, ids := convertMesh dims raw }

end SubArray

variable {α : Type}

namespace FArr
open SubArray

/-- `x[key]` -/
def getitem? (x : FArr α) (key : Key) : Option (FArr α) := do
  let h ← handler? x.dims key
  if h.invalid then none else
  let v ← x.values.index? h.ids
  mk? h.dimsOut v

/-- does the key address the whole array? Then an ndarray on the right goes through `set_values`
(exact shape). `...` always; the empty dict and the empty tuple when the source says so
(`Gen.emptyKeyIsWholeArray`, the D31 repair) -/
def _root_.Flodym.Key.whole (emptyToo : Bool) : Key → Bool
  | .ellipsis => true
  | .dict [] => emptyToo
  | .tuple [] => emptyToo
  | _ => false

/-- right-hand side of an assignment -/
inductive Rhs (α : Type) where
  | arr (y : FArr α)
  | nd (v : ND α)
  | num (c : α)

variable [Add α] [OfNat α 0]

/-- `x[key] = rhs`; returns the new state of `x` -/
def setitem? (x : FArr α) (key : Key) (rhs : Rhs α) : Option (FArr α) := do
  let h ← handler? x.dims key
  let plan ← indexPlan x.values.shape h.ids
  match rhs with
  | .arr y =>
    let v ← y.sumValuesToL? (DimSet.letters h.dimsOut)
    let vb ← v.broadcastTo? plan.shape
    let nv ← x.values.indexSet? h.ids vb
    some ⟨x.dims, nv⟩
  | .nd v =>
    if key.whole Gen.emptyKeyIsWholeArray then
      mk? x.dims v                        -- `set_values(copy(item))`: exact shape, never broadcast
    else
      let vb ← v.broadcastTo? plan.shape
      let nv ← x.values.indexSet? h.ids vb
      some ⟨x.dims, nv⟩
  | .num c =>
    let nv ← x.values.indexSet? h.ids (ND.full plan.shape c)
    some ⟨x.dims, nv⟩

/-- `split(dim_letter)` -/
def split? (x : FArr α) (k : String) : Option (List (Item × FArr α)) := do
  let d ← lookup? x.dims k
  d.items.mapM fun it => (x.getitem? (.dict [(k, .item it)])).map fun a => (it, a)

/-- `items_where(condition)`: label tuples of the entries meeting the condition, in C order -/
def itemsWhere (x : FArr α) (cond : α → Bool) : List (List Item) :=
  ((allIdx x.values.shape).filter (fun idx => cond (x.values.get idx))).map fun idx =>
    List.zipWith (fun (d : Dim) i => d.items.getD i default) x.dims idx

/-- `flodym_array_stack(arrays, dimension)` -/
def stack? (xs : List (FArr α)) (d : Dim) : Option (FArr α) := do
  let x0 ← xs.head?
  let dims ← expandBy? x0.dims [d]
  let init : FArr α := ⟨dims, ND.full (DimSet.shape dims) 0⟩
  (List.zip d.items xs).foldlM (fun acc (p : Item × FArr α) =>
    acc.setitem? (.dict [(d.letter.toString, .item p.1)]) (.arr p.2)) init

end FArr
end Flodym
