import Flodym.Np.ND
/-!
# numpy indexing with tuples of `int | slice(None) | list | np.ix_ mesh component`

This is the rule of numpy's "combining advanced and basic indexing": every int, list and mesh
component is an *advanced* index; all advanced indices are broadcast together to a shape `B`;
when the advanced indices are adjacent the axes of `B` replace them in place, otherwise they are
moved to the front, followed by the sliced axes in order. Modelled, validated by `np-semantics`.
-/
namespace Flodym

inductive Ix where
  | int (i : Nat)
  | all                                   -- slice(None)
  | list (ids : List Nat)                 -- a Python list of positions
  | mesh (ids : List Nat) (k n : Nat)     -- k-th of n components of `np.ix_`: shape (1,..,len,..,1)
deriving Repr, DecidableEq, Inhabited

def Ix.isAdv : Ix → Bool
  | .all => false
  | _ => true

def Ix.isArr : Ix → Bool
  | .list _ => true
  | .mesh _ _ _ => true
  | _ => false

/-- positions of the advanced indices form one contiguous block -/
def advAdjacent (ixs : List Ix) : Bool :=
  let flags := ixs.map Ix.isAdv
  let trimmed := (flags.dropWhile (!·)).reverse.dropWhile (!·)
  trimmed.all id

def listLens (ixs : List Ix) : List Nat :=
  ixs.filterMap fun | .list ids => some ids.length | _ => none

def meshInfos (ixs : List Ix) : List (Nat × Nat × Nat) :=
  ixs.filterMap fun | .mesh ids k n => some (ids.length, k, n) | _ => none

/-- broadcast shape of the advanced indices. flodym produces either no array index, exactly one
list, or only mesh components of one `np.ix_` call (plus ints); other mixes are refused. -/
def bshape (ixs : List Ix) : Option (List Nat) :=
  match listLens ixs, meshInfos ixs with
  | [], [] => some []
  | [n], [] => some [n]
  | [], (m :: ms) =>
    if (m :: ms).all (fun x => x.2.2 == m.2.2) && ((m :: ms).map (·.2.1)) == List.range m.2.2
    then some ((m :: ms).map (·.1)) else none
  | _, _ => none

structure IndexPlan where
  shape : List Nat
  /-- result index ↦ source index -/
  src : List Nat → List Nat

/-- source index for basic indexing: ints fix their axis, slices consume result coordinates -/
def srcBasic : List Ix → List Nat → List Nat
  | .int i :: t, r => i :: srcBasic t r
  | .all :: t, j :: r => j :: srcBasic t r
  | _, _ => []

/-- source index when array indices are present: `b` = coordinates on the broadcast axes,
`sl` = coordinates on the sliced axes -/
def srcAdv (b : List Nat) : List Ix → List Nat → List Nat
  | .int i :: t, sl => i :: srcAdv b t sl
  | .all :: t, j :: sl => j :: srcAdv b t sl
  | .list ids :: t, sl => ids.getD (b.getD 0 0) 0 :: srcAdv b t sl
  | .mesh ids k _ :: t, sl => ids.getD (b.getD k 0) 0 :: srcAdv b t sl
  | _, _ => []

def ixOk : Ix → Nat → Bool
  | .int i, n => decide (i < n)
  | .all, _ => true
  | .list ids, n => ids.all (· < n)
  | .mesh ids _ _, n => ids.all (· < n)

def ixInBounds (ixs : List Ix) (shape : List Nat) : Bool :=
  (List.zipWith ixOk ixs shape).all id

def sliceLens (ixs : List Ix) (shape : List Nat) : List Nat :=
  (List.zipWith (fun (ix : Ix) n => (ix, n)) ixs shape).filterMap
        fun | (.all, n) => some n | _ => none

/-- how `a[ixs]` is laid out, for `a.shape = shape`. `none` = numpy raises IndexError. -/
def indexPlan (shape : List Nat) (ixs : List Ix) : Option IndexPlan :=
  if ixs.length ≠ shape.length then none else
  if !ixInBounds ixs shape then none else
  match bshape ixs with
  | none => none
  | some B =>
    let sl := sliceLens ixs shape
    if !(ixs.any Ix.isArr) then
      -- basic indexing: ints drop their axis, slices stay in order
      some { shape := sl, src := srcBasic ixs }
    else
      let nB := B.length
      let pre := (ixs.takeWhile (!·.isAdv)).length       -- slices before the first advanced index
      let adj := advAdjacent ixs
      some { shape := if adj then sl.take pre ++ B ++ sl.drop pre else B ++ sl
             src := fun r =>
               let b := if adj then (r.drop pre).take nB else r.take nB
               let s := if adj then r.take pre ++ r.drop (pre + nB) else r.drop nB
               srcAdv b ixs s }

variable {α : Type}

/-- `a[ixs]` (read) -/
def ND.index? (a : ND α) (ixs : List Ix) : Option (ND α) :=
  (indexPlan a.shape ixs).map fun p => { shape := p.shape, get := fun r => a.get (p.src r) }

/-- `a[ixs] = v` where `v` already has the region's shape: every addressed entry is overwritten
(the last write wins should two result positions address one entry) -/
def ND.indexSet? (a : ND α) (ixs : List Ix) (v : ND α) : Option (ND α) :=
  match indexPlan a.shape ixs with
  | none => none
  | some p =>
    if p.shape ≠ v.shape then none else
    some { shape := a.shape
           get := fun idx =>
             match (allIdx p.shape).reverse.find? (fun r => p.src r == idx) with
             | some r => v.get r
             | none => a.get idx }

/-- is the result of a read a view of the source buffer? (basic indexing only) -/
def indexIsView (ixs : List Ix) : Bool := !(ixs.any Ix.isArr)

end Flodym
