/-!
# Tier 0 — positional arrays and the numpy primitives flodym calls

`ND α` is numpy's `ndarray` seen as a shape and a total lookup function (index tuple ↦ entry).
Everything here is *modelled, not verified*: the definitions state what the installed numpy is
assumed to do; the `np-semantics` correspondence stream compares them with numpy itself.
The file is import-free so that the driver links as a `lean_exe`.
-/
namespace Flodym

/-- assignment of an item position to every dimension letter -/
abbrev Env := Char → Nat

def Env.set (e : Env) (l : Char) (i : Nat) : Env := fun c => if c = l then i else e c
def Env.zero : Env := fun _ => 0

/-- bind subscript letters to a positional index tuple -/
def bind : List Char → List Nat → Env → Env
  | l :: ls, i :: is, e => bind ls is (e.set l i)
  | _, _, e => e

structure ND (α : Type) where
  shape : List Nat
  get : List Nat → α

/-- all index tuples of a shape in row-major (C) order -/
def allIdx : List Nat → List (List Nat)
  | [] => [[]]
  | n :: ns => (List.range n).flatMap fun i => (allIdx ns).map (i :: ·)

def prodList (l : List Nat) : Nat := l.foldr (· * ·) 1

/-- row-major offset of an index tuple -/
def flatIndex : List Nat → List Nat → Nat
  | _ :: ns, i :: is => i * prodList ns + flatIndex ns is
  | _, _ => 0

variable {α : Type}

/-- `ndarray.flatten()` -/
def ND.toList (a : ND α) : List α := (allIdx a.shape).map a.get

/-- `np.array(data).reshape(shape)`; used for I/O and memoisation only -/
def ND.ofFlat (shape : List Nat) (data : Array α) (dflt : α) : ND α :=
  { shape := shape, get := fun idx => data.getD (flatIndex shape idx) dflt }

def ND.memo (a : ND α) (dflt : α) : ND α := ND.ofFlat a.shape a.toList.toArray dflt

def ND.full (shape : List Nat) (c : α) : ND α := { shape := shape, get := fun _ => c }

def ND.map {β : Type} (f : α → β) (a : ND α) : ND β := { shape := a.shape, get := fun i => f (a.get i) }

/-- elementwise binary operation on arrays of *equal* shape (the only case flodym relies on) -/
def ND.zipWith? {β γ : Type} (f : α → β → γ) (a : ND α) (b : ND β) : Option (ND γ) :=
  if a.shape = b.shape then some { shape := a.shape, get := fun i => f (a.get i) (b.get i) } else none

section sums
variable [Add α] [OfNat α 0]

def sumRange (n : Nat) (f : Nat → α) : α := (List.range n).foldr (fun i acc => f i + acc) 0

/-- nested sum over letters with sizes -/
def sumOver : List (Char × Nat) → (Env → α) → Env → α
  | [], f, e => f e
  | (l, n) :: ls, f, e => sumRange n (fun i => sumOver ls f (e.set l i))

def sizeOfLetter (sub : List Char) (shape : List Nat) (l : Char) : Nat :=
  shape.getD (sub.idxOf l) 0

/-- one-operand `np.einsum(f"{s}->{out}", a)` for distinct letters: transpose and/or sum -/
def einsum1Raw (s out : List Char) (a : ND α) : ND α :=
  let size := sizeOfLetter s a.shape
  let summed := (s.filter (fun l => !(out.contains l))).map (fun l => (l, size l))
  { shape := out.map size
    get := fun idx => sumOver summed (fun e => a.get (s.map e)) (bind out idx Env.zero) }

/-- numpy rejects: wrong number of subscripts, an output letter that is no input letter, a repeated
output letter. (Repeated *input* letters would take a diagonal; flodym never produces them since
dimension letters are unique; the model refuses them.) -/
def einsum1Ok (s out : List Char) (a : ND α) : Bool :=
  s.length == a.shape.length && decide s.Nodup && decide out.Nodup && out.all (s.contains ·)

def einsum1 (s out : List Char) (a : ND α) : Option (ND α) :=
  if einsum1Ok s out a then some (einsum1Raw s out a) else none

variable [Mul α]

/-- two-operand `np.einsum(f"{s1},{s2}->{out}", a, b)` -/
def einsum2Raw (s1 s2 out : List Char) (a b : ND α) : ND α :=
  let size := fun l => if l ∈ s1 then sizeOfLetter s1 a.shape l else sizeOfLetter s2 b.shape l
  let summed := ((s1 ++ s2).eraseDups.filter (fun l => !(out.contains l))).map (fun l => (l, size l))
  { shape := out.map size
    get := fun idx =>
      sumOver summed (fun e => a.get (s1.map e) * b.get (s2.map e)) (bind out idx Env.zero) }

/-- letters shared by both operands must have equal sizes (numpy would broadcast a size-1 axis;
flodym never relies on that, the model refuses it) -/
def einsum2Ok (s1 s2 out : List Char) (a b : ND α) : Bool :=
  s1.length == a.shape.length && s2.length == b.shape.length &&
  decide s1.Nodup && decide s2.Nodup && decide out.Nodup &&
  out.all (fun l => s1.contains l || s2.contains l) &&
  s1.all (fun l => !(s2.contains l) || sizeOfLetter s1 a.shape l == sizeOfLetter s2 b.shape l)

def einsum2 (s1 s2 out : List Char) (a b : ND α) : Option (ND α) :=
  if einsum2Ok s1 s2 out a b then some (einsum2Raw s1 s2 out a b) else none

end sums

def newaxisShape : List Bool → List Nat → List Nat
  | true :: ks, n :: ns => n :: newaxisShape ks ns
  | false :: ks, ns => 1 :: newaxisShape ks ns
  | _, _ => []

def newaxisSrc : List Bool → List Nat → List Nat
  | true :: ks, i :: is => i :: newaxisSrc ks is
  | false :: ks, _ :: is => newaxisSrc ks is
  | _, _ => []

/-- `a[index]` where `index` has `slice(None)` for kept axes and `np.newaxis` for new ones:
`keep` lists, per result axis, whether it consumes a source axis (`true`) or is a new size-1 axis -/
def ND.newaxisIndex (a : ND α) (keep : List Bool) : ND α :=
  { shape := newaxisShape keep a.shape, get := fun idx => a.get (newaxisSrc keep idx) }

/-- `np.tile(a, reps)` with `reps.length = a.ndim` -/
def ND.tile (a : ND α) (reps : List Nat) : ND α :=
  { shape := List.zipWith (· * ·) a.shape reps
    get := fun idx => a.get (List.zipWith (fun i n => if n = 0 then 0 else i % n) idx a.shape) }

section cumsum
variable [Add α] [OfNat α 0]
/-- `np.cumsum(a, axis)` -/
def ND.cumsum (a : ND α) (axis : Nat) : ND α :=
  { shape := a.shape
    get := fun idx => sumRange (idx.getD axis 0 + 1) (fun i => a.get (idx.set axis i)) }

/-- `a.sum(axis)` -/
def ND.sumAxis (a : ND α) (axis : Nat) : ND α :=
  { shape := a.shape.eraseIdx axis
    get := fun idx => sumRange (a.shape.getD axis 0) (fun i => a.get (idx.insertIdx axis i)) }
end cumsum

/-- numpy broadcasting of `v` to `shape` as used by `a[ids] = v`: align trailing axes, a size-1 (or
missing leading) axis is repeated -/
def ND.broadcastTo? (v : ND α) (shape : List Nat) : Option (ND α) :=
  let nv := v.shape.length
  let n := shape.length
  -- assignment to a single element (`a[i, j] = v`): numpy wants a 0-d value, not a sequence
  if n = 0 ∧ nv ≠ 0 then none else
  if nv ≤ n then
    let lead := n - nv
    let tgt := shape.drop lead
    if (List.zipWith (fun a b => a == b || a == 1) v.shape tgt).all id then
      some { shape := shape
             get := fun idx => v.get (List.zipWith (fun i s => if s == 1 then 0 else i) (idx.drop lead) v.shape) }
    else none
  else
    -- extra leading axes of the value must all be 1
    let lead := nv - n
    if (v.shape.take lead).all (· == 1) &&
       (List.zipWith (fun a b => a == b || a == 1) (v.shape.drop lead) shape).all id then
      some { shape := shape
             get := fun idx => v.get (List.replicate lead 0 ++
               List.zipWith (fun i s => if s == 1 then 0 else i) idx (v.shape.drop lead)) }
    else none

end Flodym
