/-!
# Tier 1 — `dimensions.py`: `Dimension`, `DimensionSet` (pure layer)

A line-by-line transcription of the public methods; `none` stands for "Python raises".
Object identity of the underlying `dim_list` (who shares which list) is Tier 3 (`Heap.lean`).
-/
namespace Flodym

inductive Item where
  | int (i : Int)
  | str (s : String)
deriving DecidableEq, Repr, Inhabited

inductive DType where
  | int | str
deriving DecidableEq, Repr, Inhabited

def Item.hasType : Item → DType → Bool
  | .int _, .int => true
  | .str _, .str => true
  | _, _ => false

structure Dim where
  letter : Char
  name : String
  items : List Item
  dtype : Option DType := none
deriving DecidableEq, Repr, Inhabited

/-- pydantic field constraints and `items_have_datatype` -/
def Dim.valid (d : Dim) : Bool :=
  decide (2 ≤ d.name.length) &&
  match d.dtype with
  | none => true
  | some t => d.items.all (·.hasType t)

def Dim.len (d : Dim) : Nat := d.items.length

/-- `Dimension.index(item)`: position of the first equal item -/
def Dim.index? (d : Dim) (it : Item) : Option Nat :=
  let i := d.items.idxOf it
  if i < d.items.length then some i else none

/-- `set(self.items).issubset(other.items)` -/
def Dim.isSubset (d o : Dim) : Bool := d.items.all (o.items.contains ·)

abbrev DimSet := List Dim

namespace DimSet

def letters (ds : DimSet) : List Char := ds.map (·.letter)
def names (ds : DimSet) : List String := ds.map (·.name)
def shape (ds : DimSet) : List Nat := ds.map (·.len)
def ndim (ds : DimSet) : Nat := ds.length
def totalSize (ds : DimSet) : Nat := (shape ds).foldr (· * ·) 1
def string (ds : DimSet) : List Char := letters ds

/-- constructor: `no_repeated_dimensions` -/
def mk? (ds : List Dim) : Option DimSet :=
  if (letters ds).Nodup then some ds else none

def keyMatches (d : Dim) (key : String) : Bool :=
  d.name == key || d.letter.toString == key

/-- `_full_mapping[key]`: the dict is built in list order, so a later dimension with the same key
wins -/
def lookup? (ds : DimSet) (key : String) : Option Dim :=
  ds.reverse.find? (keyMatches · key)

def contains (ds : DimSet) (key : String) : Bool := (lookup? ds key).isSome

/-- `dims[i]` with Python's negative indices -/
def getIdx? (ds : DimSet) (i : Int) : Option Dim :=
  if 0 ≤ i then ds[i.toNat]? else
    if (-i).toNat ≤ ds.length then ds[ds.length - (-i).toNat]? else none

def size? (ds : DimSet) (key : String) : Option Nat := (lookup? ds key).map (·.len)

/-- `dims.index(key)` -/
def index? (ds : DimSet) (key : String) : Option Nat :=
  (lookup? ds key).bind fun d =>
    let i := ds.idxOf d
    if i < ds.length then some i else none

/-- `get_subset(dims)`: a copy, or a newly constructed (validated) set of the selected dimensions -/
def getSubset? (ds : DimSet) : Option (List String) → Option DimSet
  | none => some ds
  | some keys => (keys.mapM (lookup? ds)).bind mk?

/-- `expand_by(added, inplace=False)` -/
def expandBy? (ds : DimSet) (added : List Dim) : Option DimSet :=
  if added.all (fun d => !((letters ds).contains d.letter)) then mk? (ds ++ added) else none

/-- `expand_by(added, inplace=True)` on the pinned tree extends the list without validating it;
the repaired code rejects a clash among the added dimensions (D7) -/
def expandByInplace? (ds : DimSet) (added : List Dim) : Option DimSet :=
  if added.all (fun d => !((letters ds).contains d.letter)) && decide (letters added).Nodup
  then some (ds ++ added) else none

def intersectWith (ds other : DimSet) : DimSet :=
  ds.filter (fun d => (letters other).contains d.letter)

def differenceWith (ds other : DimSet) : DimSet :=
  ds.filter (fun d => !((letters other).contains d.letter))

def unionWith? (ds other : DimSet) : Option DimSet :=
  expandBy? ds (other.filter (fun d => !((letters ds).contains d.letter)))

/-- `__add__` -/
def add? (ds other : DimSet) : Option DimSet :=
  if !(intersectWith ds other).isEmpty then none else unionWith? ds other

def xor? (ds other : DimSet) : Option DimSet :=
  unionWith? (differenceWith ds other) (differenceWith other ds)

/-- `_check_additional_dim` -/
def checkAdditional (ds : DimSet) (d : Dim) : Bool := !((letters ds).contains d.letter)

def append? (ds : DimSet) (d : Dim) : Option DimSet :=
  if checkAdditional ds d then add? ds [d] else none
def appendInplace? (ds : DimSet) (d : Dim) : Option DimSet :=
  if checkAdditional ds d then some (ds ++ [d]) else none

def prepend? (ds : DimSet) (d : Dim) : Option DimSet :=
  if checkAdditional ds d then add? [d] ds else none
def prependInplace? (ds : DimSet) (d : Dim) : Option DimSet :=
  if checkAdditional ds d then some (d :: ds) else none

/-- Python's `list.insert(index, x)` (negative and out-of-range indices clamp) -/
def pyInsertPos (len : Nat) (i : Int) : Nat :=
  if 0 ≤ i then min i.toNat len else len - min (-i).toNat len

def insertInplace? (ds : DimSet) (i : Int) (d : Dim) : Option DimSet :=
  if checkAdditional ds d then some (ds.insertIdx (pyInsertPos ds.length i) d) else none
def insert? (ds : DimSet) (i : Int) (d : Dim) : Option DimSet :=
  (insertInplace? ds i d).bind mk?

/-- `drop(key)`; in place and out of place compute the same list -/
def drop? (ds : DimSet) (key : String) : Option DimSet :=
  (lookup? ds key).map fun d => ds.erase d

/-- `replace(key, new_dim)`: refuses a new letter already present (also the replaced one) -/
def replace? (ds : DimSet) (key : String) (d : Dim) : Option DimSet :=
  if (letters ds).contains d.letter then none else
    (index? ds key).map fun i => ds.set i d

end DimSet
end Flodym
