import Flodym.Np.ND
import Flodym.Np.Index
import Flodym.Dims
import FlodymGen.Subscripts
/-!
# Tier 1 — `flodym_arrays.py`: `FlodymArray` (pure layer)

The model mirrors the *mechanism*: where flodym builds an einsum subscript string from dimension
letters, the model builds the same subscripts (from the generated templates in
`FlodymGen.Subscripts`) and hands them to the model of einsum. What that means at the level of
labels is a theorem (`FlodymProofs/Props`), not a definition. `none` = "Python raises".
-/
namespace Flodym
open DimSet

structure FArr (α : Type) where
  dims : DimSet
  values : ND α

variable {α : Type}

namespace FArr

def letters (x : FArr α) : List Char := DimSet.letters x.dims

/-- constructor: pydantic re-runs the `DimensionSet` validators on the passed set (distinct
letters), then `_check_value_format` (shape of values = shape of dims) -/
def mk? (dims : DimSet) (v : ND α) : Option (FArr α) :=
  if (DimSet.letters dims).Nodup ∧ v.shape = DimSet.shape dims then some ⟨dims, v⟩ else none

/-- a dimension given as letter/name string or as `Dimension` object -/
inductive DimKey where
  | str (s : String)
  | dim (d : Dim)
deriving Repr

/-- `_get_dim_letter` -/
def getDimLetter? (x : FArr α) : DimKey → Option Char
  | .dim d => some d.letter
  | .str s => (lookup? x.dims s).map (·.letter)

/-- `_tuple_to_letters` -/
def tupleToLetters? (x : FArr α) (ks : List DimKey) : Option (List Char) := ks.mapM x.getDimLetter?

section ring
variable [Add α] [OfNat α 0]

/-- `sum_values_to(result_dims)` (letters already resolved) -/
def sumValuesToL? (x : FArr α) (out : List Char) : Option (ND α) :=
  einsum1 (Gen.sumToIn x.letters out) (Gen.sumToOut x.letters out) x.values

def sumValuesTo? (x : FArr α) (ks : List DimKey) : Option (ND α) :=
  (x.tupleToLetters? ks).bind x.sumValuesToL?

/-- `sum_to(result_dims)` -/
def sumTo? (x : FArr α) (ks : List DimKey) : Option (FArr α) := do
  let ls ← x.tupleToLetters? ks
  let dims ← getSubset? x.dims (some (ls.map (·.toString)))
  let v ← x.sumValuesToL? ls
  mk? dims v

/-- `sum_values_over` / `sum_over(sum_over_dims)` -/
def sumOver? (x : FArr α) (ks : List DimKey) : Option (FArr α) := do
  let so ← x.tupleToLetters? ks
  -- `sum_values_over` resolves the (already resolved) letters once more: a foreign letter raises
  let so ← x.tupleToLetters? (so.map fun l => .str l.toString)
  let res := x.letters.filter (fun l => !(so.contains l))
  let dims ← getSubset? x.dims (some (res.map (·.toString)))
  let v ← einsum1 (Gen.sumOverIn x.letters res) (Gen.sumOverOut x.letters res) x.values
  mk? dims v

/-- `cast_values_to(target_dims)`: reorder by einsum, insert new axes, tile -/
def castValuesTo? (x : FArr α) (target : DimSet) : Option (ND α) :=
  if !(x.letters.all ((DimSet.letters target).contains ·)) then none else do
    let tl := DimSet.letters target
    let v ← einsum1 (Gen.castIn x.letters tl) (Gen.castOut x.letters tl) x.values
    let keep := tl.map (x.letters.contains ·)
    let multiple := target.map (fun d => if x.letters.contains d.letter then 1 else d.len)
    some ((v.newaxisIndex keep).tile multiple)

def castTo? (x : FArr α) (target : DimSet) : Option (FArr α) :=
  (x.castValuesTo? target).bind (mk? target)

/-- `cumsum(dim_letter)`: `dims.letters.index(letter)` accepts letters only -/
def cumsum? (x : FArr α) (l : Char) : Option (FArr α) :=
  let i := x.letters.idxOf l
  if i < x.letters.length then mk? x.dims (x.values.cumsum i) else none

/-- `sum_values()` -/
def sumValues (x : FArr α) : α := x.values.toList.foldr (· + ·) 0

variable [Mul α] [OfNat α 1]

/-- `_prepare_other` for a plain number: an array of x's own dimensions, `other * np.ones(shape)` -/
def ofNumber? (x : FArr α) (c : α) : Option (FArr α) :=
  mk? x.dims ((ND.full (DimSet.shape x.dims) (1 : α)).map (fun o => c * o))

/-- the right operand of an operator: an array or a plain number -/
inductive Operand (α : Type) where
  | arr (y : FArr α)
  | num (c : α)

def prepareOther? (x : FArr α) : Operand α → Option (FArr α)
  | .arr y => some y
  | .num c => x.ofNumber? c

/-- `__add__`, `__sub__`, `minimum`, `maximum`: both operands summed to the common dimensions
(x's order), then combined elementwise -/
def addLike? (f : α → α → α) (x : FArr α) (o : Operand α) : Option (FArr α) := do
  let y ← x.prepareOther? o
  let dimsOut := intersectWith x.dims y.dims
  let a ← x.sumValuesToL? (DimSet.letters dimsOut)
  let b ← y.sumValuesToL? (DimSet.letters dimsOut)
  let v ← ND.zipWith? f a b
  mk? dimsOut v

/-- `__mul__`: one einsum over the union of the dimensions -/
def mul? (x : FArr α) (o : Operand α) : Option (FArr α) := do
  let y ← x.prepareOther? o
  let dimsOut ← unionWith? x.dims y.dims
  let v ← einsum2 (Gen.mulIn1 x.letters y.letters (DimSet.letters dimsOut))
                  (Gen.mulIn2 x.letters y.letters (DimSet.letters dimsOut))
                  (Gen.mulOut x.letters y.letters (DimSet.letters dimsOut)) x.values y.values
  mk? dimsOut v

variable [Div α]

/-- `__truediv__`: the same einsum with `1.0 / other.values` -/
def div? (x : FArr α) (o : Operand α) : Option (FArr α) := do
  let y ← x.prepareOther? o
  let dimsOut ← unionWith? x.dims y.dims
  let v ← einsum2 (Gen.divIn1 x.letters y.letters (DimSet.letters dimsOut))
                  (Gen.divIn2 x.letters y.letters (DimSet.letters dimsOut))
                  (Gen.divOut x.letters y.letters (DimSet.letters dimsOut))
                  x.values (y.values.map (fun b => (1 : α) / b))
  mk? dimsOut v

/-- `__pow__` with the elementwise power `powf` (numpy's `**`) -/
def pow? (powf : α → α → α) (x : FArr α) (o : Operand α) : Option (FArr α) := do
  let y ← x.prepareOther? o
  if y.letters.any (fun l => !(x.letters.contains l)) then none else
  let p ← y.castTo? x.dims
  let v ← ND.zipWith? powf x.values p.values
  mk? x.dims v

variable [Neg α]

def neg? (x : FArr α) : Option (FArr α) := mk? x.dims (x.values.map (fun a => -a))
/-- `apply(func)` for a shape-preserving elementwise function -/
def mapValues? (f : α → α) (x : FArr α) : Option (FArr α) := mk? x.dims (x.values.map f)

/-- `__radd__`, `__rsub__`, `__rmul__`, `__rtruediv__` with a number on the left -/
def radd? (x : FArr α) (c : α) : Option (FArr α) := addLike? (· + ·) x (.num c)
def rsub? (x : FArr α) (c : α) : Option (FArr α) := (neg? x).bind fun nx => addLike? (· + ·) nx (.num c)
def rmul? (x : FArr α) (c : α) : Option (FArr α) := mul? x (.num c)
def rdiv? (x : FArr α) (c : α) : Option (FArr α) :=
  (mk? x.dims (x.values.map (fun a => (1 : α) / a))).bind fun inv => mul? inv (.num c)

/-- `get_shares_over(dim_letters)` -/
def getSharesOver? (x : FArr α) (ls : List Char) : Option (FArr α) :=
  if !(ls.all (x.letters.contains ·)) then none else
  if x.letters.all (ls.contains ·) then div? x (.num x.sumValues)
  else (x.sumOver? (ls.map (fun l => .str l.toString))).bind fun t => div? x (.arr t)

end ring

/-- `FlodymArray.full(dims, c)`, `full_like(other, c)` -/
def full (dims : DimSet) (c : α) : FArr α := ⟨dims, ND.full (DimSet.shape dims) c⟩
/-- `FlodymArray.scalar(c)` -/
def scalar (c : α) : FArr α := ⟨[], ND.full [] c⟩

end FArr
end Flodym
