import Flodym.Dims
import FlodymGen.Constants
/-!
# Validators of `Stock`, `DynamicStockModel`, `LifetimeModel` (construction-time refusals)
Transcribed from the `model_validator`s; which attributes are compared is regenerated from the
source (`Gen.stockValidatorCompares`).
-/
namespace Flodym
open DimSet

/-- `validate_stock_arrays`, `init_lifetime_model`, `validate_time_first_dim` -/
def stockAccepts (dims : DimSet) (timeLetter : Char) (arrayDims : List DimSet) (lifetimeDims : List DimSet) : Bool :=
  let same : DimSet → Bool := fun d =>
    if Gen.stockValidatorComparesFullDims then d == dims else letters d == letters dims
  arrayDims.all same && lifetimeDims.all same && (letters dims).head? == some timeLetter &&
  -- a lifetime model handed in must itself have been constructible
  lifetimeDims.all (fun d => (letters d).head? == some timeLetter || !Gen.lifetimeRequiresTimeFirst)

/-- `LifetimeModel` validators: time first, `inflow_at` one of the allowed values -/
def lifetimeAccepts (dims : DimSet) (timeLetter : Char) (inflowAt : String) : Bool :=
  ((letters dims).head? == some timeLetter || !Gen.lifetimeRequiresTimeFirst) &&
  (lookup? dims timeLetter.toString).isSome && Gen.inflowAtAllowed.contains inflowAt

end Flodym
