import Flodym.Dims
import Flodym.Validators
/-!
# Tier 4 — building a system from definitions and files
`processes.py`, `flow_helper.py`, `flow_naming.py`, `stock_helper.py`, `mfa_definition.py`,
`Dimension.from_np`, and the cell typing of the CSV reader (pandas' per-column inference, modelled).
`none` = "Python raises".
-/
namespace Flodym.Build
open Flodym DimSet

/-! ## processes -/

structure ProcessM where
  name : String
  id : Nat
deriving DecidableEq, Repr

/-- insertion into a Python dict: an existing key keeps its position and gets the new value -/
def dictPut {β : Type} (d : List (String × β)) (k : String) (v : β) : List (String × β) :=
  if d.any (·.1 == k) then d.map (fun e => if e.1 == k then (k, v) else e) else d ++ [(k, v)]

def dictGet? {β : Type} (d : List (String × β)) (k : String) : Option β := (d.find? (·.1 == k)).map (·.2)

/-- the common shape of the `make_*` loops: build every entry, put it under its name -/
def buildDict {α β : Type} (l : List α) (f : α → Option (String × β)) : Option (List (String × β)) :=
  l.foldlM (fun d a => (f a).map fun kv => dictPut d kv.1 kv.2) []

/-- `Process(name, id)`: the process with id 0 must be called "sysenv" -/
def mkProcess? (name : String) (id : Nat) : Option ProcessM :=
  if id == 0 && name != Gen.sysenvName then none else some { name := name, id := id }

/-- `make_processes`: numbered in the listed order -/
def makeProcesses? (names : List String) : Option (List (String × ProcessM)) :=
  buildDict (List.zip (List.range names.length) names) fun p => (mkProcess? p.2 p.1).map fun pr => (p.2, pr)

/-! ## flows -/

inductive Naming where
  | arrow | noSpaces | ids
deriving DecidableEq, Repr

def replaceSpaces (s : String) : String := String.ofList (s.toList.map fun c => if c == ' ' then '_' else c)

/-- `flow_naming.py` -/
def flowName (n : Naming) (f t : ProcessM) : String :=
  match n with
  | .arrow => s!"{f.name} => {t.name}"
  | .noSpaces => s!"{replaceSpaces f.name}_to_{replaceSpaces t.name}"
  | .ids => s!"F{f.id}_{t.id}"

structure FlowDef where
  fromName : String
  toName : String
  letters : List String          -- as given: every entry must be a single character
  nameOverride : Option String := none

structure FlowM where
  name : String
  fromP : ProcessM
  toP : ProcessM
  dims : DimSet                  -- the values are all zero
deriving Repr

/-- `DefinitionWithDimLetters.check_dimensions` -/
def lettersOk (ls : List String) : Bool := ls.all (fun l => l.length == 1)

/-- one flow of `make_empty_flows` -/
def flowOf? (procs : List (String × ProcessM)) (dims : DimSet) (naming : Naming) (fd : FlowDef) : Option FlowM := do
  let f ← dictGet? procs fd.fromName
  let t ← dictGet? procs fd.toName
  let name := match fd.nameOverride with | some n => n | none => flowName naming f t
  let sub ← getSubset? dims (some fd.letters)
  some { name := name, fromP := f, toP := t, dims := sub }

/-- `make_empty_flows` -/
def makeEmptyFlows? (procs : List (String × ProcessM)) (defs : List FlowDef) (dims : DimSet) (naming : Naming) :
    Option (List (String × FlowM)) :=
  buildDict defs fun fd => (flowOf? procs dims naming fd).map fun fl => (fl.name, fl)

/-! ## stocks -/

inductive StockClass where
  | flowDriven | inflowDriven | stockDriven
deriving DecidableEq, Repr

/-- does the class have a `lifetime_model` field? -/
def StockClass.hasLifetime : StockClass → Bool
  | .flowDriven => false
  | _ => true

def StockClass.hasSolver : StockClass → Bool
  | .stockDriven => true
  | _ => false

structure StockDef where
  name : String
  process : Option String
  letters : List String
  timeLetter : String
  cls : StockClass
  lifetime : Option String       -- name of the lifetime model class
  solver : String := "manual"

/-- validators of `StockDefinition`: known solver; a lifetime model exactly when the class uses one -/
def StockDef.valid (sd : StockDef) : Bool :=
  lettersOk sd.letters && Gen.solverNames.contains sd.solver &&
  (sd.lifetime.isSome == sd.cls.hasLifetime)

structure StockM where
  name : String
  cls : StockClass
  lifetime : Option String
  solver : Option String         -- only the stock-driven class has one
  timeLetter : String
  process : Option ProcessM
  dims : DimSet
deriving Repr

/-- `processes[name]`, or no process at all -/
def resolveProc? (procs : List (String × ProcessM)) : Option String → Option (Option ProcessM)
  | none => some none
  | some p => (dictGet? procs p).map some

def timeChar? (s : String) : Option Char :=
  match s.toList with
  | [c] => some c
  | _ => none

/-- one stock of `make_empty_stocks`, including the construction-time validators of the lifetime
model (built first, over the same dims) and the stock (time first) -/
def stockOf? (procs : List (String × ProcessM)) (dims : DimSet) (sd : StockDef) : Option StockM :=
  match getSubset? dims (some sd.letters), resolveProc? procs sd.process, timeChar? sd.timeLetter with
  | some sub, some proc, some tl =>
    if sd.lifetime.isSome && !(lifetimeAccepts sub tl "middle") then none else
    if !(stockAccepts sub tl [] []) then none else
    some { name := sd.name, cls := sd.cls, lifetime := sd.lifetime,
           solver := if sd.cls.hasSolver then some sd.solver else none,
           timeLetter := sd.timeLetter, process := proc, dims := sub }
  | _, _, _ => none

/-- `make_empty_stocks` -/
def makeEmptyStocks? (defs : List StockDef) (procs : List (String × ProcessM)) (dims : DimSet) :
    Option (List (String × StockM)) :=
  buildDict defs fun sd => (stockOf? procs dims sd).map fun st => (st.name, st)

/-! ## the whole definition -/

structure ParamDef where
  name : String
  letters : List String

structure MFADef where
  dimLetters : List String       -- letters of the defined dimensions
  processes : List String
  flows : List FlowDef
  stocks : List StockDef
  params : List ParamDef

/-- validators of the definition classes, as far as they can fail -/
def MFADef.valid (d : MFADef) : Bool :=
  d.flows.all (fun f => lettersOk f.letters) && d.stocks.all StockDef.valid &&
  d.params.all (fun p => lettersOk p.letters) &&
  -- `check_dimension_letters`
  (d.flows.all (fun f => f.letters.all d.dimLetters.contains) &&
   d.stocks.all (fun s => s.letters.all d.dimLetters.contains) &&
   d.params.all (fun p => p.letters.all d.dimLetters.contains))

def StockClass.pyName : StockClass → String
  | .flowDriven => "SimpleFlowDrivenStock"
  | .inflowDriven => "InflowDrivenDSM"
  | .stockDriven => "StockDrivenDSM"

def showLetters (ls : List String) : String := if ls.isEmpty then "()" else "+".intercalate ls

/-- `MFADefinition.to_dfs()`: one table per non-empty kind of definition (name, columns, one row per
definition with its field values in field order) -/
def defTables (dims : List Dim) (d : MFADef) : List (String × List String × List (List String)) :=
  let all : List (String × List String × List (List String)) :=
    [("dimensions", ["name", "letter", "dtype"], dims.map fun x =>
        [x.name, x.letter.toString, match x.dtype with | some .int => "int" | some .str => "str" | none => "str"]),
     ("processes", ["name"], d.processes.map fun p => [p]),
     ("flows", ["dim_letters", "from_process_name", "to_process_name", "name_override"], d.flows.map fun f =>
        [showLetters f.letters, f.fromName, f.toName, f.nameOverride.getD "None"]),
     ("stocks", ["dim_letters", "name", "process_name", "time_letter", "subclass", "lifetime_model_class", "solver"],
        d.stocks.map fun s => [showLetters s.letters, s.name, s.process.getD "None", s.timeLetter, s.cls.pyName,
                               s.lifetime.getD "None", s.solver]),
     ("parameters", ["dim_letters", "name"], d.params.map fun p => [showLetters p.letters, p.name])]
  all.filter fun t => !t.2.2.isEmpty

structure SystemM where
  processes : List (String × ProcessM)
  flows : List (String × FlowM)
  stocks : List (String × StockM)
  params : List (String × DimSet)

/-- `MFASystem.from_data_reader` once dimensions are read: parameters (their dims), processes, flows,
stocks, in this order -/
def buildSystem? (d : MFADef) (dims : DimSet) (naming : Naming) : Option SystemM :=
  if !d.valid then none else do
    let params ← buildDict d.params fun p => (getSubset? dims (some p.letters)).map fun sub => (p.name, sub)
    let procs ← makeProcesses? d.processes
    let flows ← makeEmptyFlows? procs d.flows dims naming
    let stocks ← makeEmptyStocks? d.stocks procs dims
    some { processes := procs, flows := flows, stocks := stocks, params := params }

/-! ## dimension files -/

inductive Cell where
  | int (i : Int)
  | str (s : String)
  | float (text : String)        -- a non-integer number, kept as its text
deriving DecidableEq, Repr, Inhabited

def digitVal? (c : Char) : Option Nat := if '0' ≤ c ∧ c ≤ '9' then some (c.toNat - 48) else none

/-- a non-empty run of decimal digits -/
def natOfDigits? (cs : List Char) : Option Nat :=
  if cs.isEmpty then none else cs.foldlM (fun acc c => (digitVal? c).map fun d => acc * 10 + d) 0

/-- `-?[0-9]+` (what the generator writes; Python's `int()` also takes `+`, `_` and blanks: not modelled) -/
def intOfChars? : List Char → Option Int
  | '-' :: r => (natOfDigits? r).map fun n => -(n : Int)
  | cs => (natOfDigits? cs).map Int.ofNat

def intOfText? (s : String) : Option Int := intOfChars? s.toList

def isIntText (s : String) : Bool := (intOfText? s).isSome

def stripDash : List Char → List Char
  | '-' :: r => r
  | cs => cs

/-- `-?[0-9]*\.?[0-9]*` with at least one digit: what pandas reads as a number -/
def isNumText (s : String) : Bool :=
  let cs := stripDash s.toList
  let allDigits : List Char → Bool := fun l => l.all fun c => (digitVal? c).isSome
  let a := cs.takeWhile (· != '.')
  match cs.dropWhile (· != '.') with
  | [] => !a.isEmpty && allDigits a
  | _ :: b => allDigits a && allDigits b && !(a.isEmpty && b.isEmpty)

/-- pandas' `read_csv(header=None)` types every *column* on its own: all integers → int64, all
numbers → float64, otherwise the cells stay text (modelled) -/
def csvColumnCells (col : List String) : List Cell :=
  if col.all isIntText then col.map (fun s => Cell.int ((intOfText? s).getD 0))
  else if col.all isNumText then col.map (fun s => if isIntText s then Cell.float (s ++ ".0") else Cell.float s)
  else col.map Cell.str

def transpose (rows : List (List String)) : List (List String) :=
  match rows with
  | [] => []
  | r :: _ => (List.range r.length).map fun j => rows.map fun row => row.getD j ""

/-- the cells `read_csv` yields for a rectangular grid of texts, row by row -/
def csvCells (rows : List (List String)) : List (List Cell) :=
  let cols := (transpose rows).map csvColumnCells
  (List.range rows.length).map fun i => cols.map fun c => c.getD i default

/-- `definition.dtype(item)` for `int` / `str` -/
def convertCell (dt : DType) (c : Cell) : Option Item :=
  match dt, c with
  | .int, .int i => some (.int i)
  | .int, .str s => (intOfText? s).map Item.int                              -- int("2000")
  | .int, .float t =>
    -- int(2.7) truncates towards zero
    (intOfChars? (t.toList.takeWhile (· != '.'))).map Item.int
  | .str, .int i => some (.str (toString i))
  | .str, .str s => some (.str s)
  | .str, .float t => some (.str t)

/-- `Dimension.from_np(data, definition)`: one row or one column, an optional header equal to the
dimension's name is dropped, items in file order converted to the declared type -/
def fromNp? (cells : List (List Cell)) (name : String) (letter : Char) (dt : DType) : Option Dim :=
  let nrows := cells.length
  let ncols := (cells.head?.map List.length).getD 0
  if nrows > 1 && ncols > 1 then none else
  let flat := cells.flatten
  match flat with
  | [] => none                                   -- `data[0]` on an empty list
  | first :: rest =>
    let body := if first == Cell.str name then rest else flat
    (body.mapM (convertCell dt)).bind fun items =>
      let d : Dim := { letter := letter, name := name, items := items, dtype := some dt }
      if d.valid then some d else none

end Flodym.Build
