import Flodym.Driver.ArrayCmds
import Flodym.System
/-!
# Driver commands for stream `system` (mass balance and flow checks); values may be `nan`
-/
namespace Flodym.Driver
open Flodym

def parseFV? (t : String) : Option FV :=
  if t == "nan" then some .nan else (parseRat? t).map FV.num

def showFV : FV → String
  | .num q => showRat q
  | .nan => "nan"

def showFArrFV (x : FArr FV) : String :=
  s!"A {showDimSet x.dims} {showShape x.values.shape} | {" ".intercalate (x.values.toList.map showFV)}"

structure SysState where
  sys : SysM := { processes := [], flows := [], stocks := [] }

def mkFVArr (dims : DimSet) (vals : List String) : Option (FArr FV) := do
  let vs ← vals.mapM parseFV?
  if vs.length ≠ prodList (DimSet.shape dims) then none else
  FArr.mk? dims (ND.ofFlat (DimSet.shape dims) vs.toArray (.num 0))

def splitBar (toks : List String) : List (List String) :=
  let rec go : List String → List String → List (List String) → List (List String)
    | [], cur, acc => (cur.reverse :: acc).reverse
    | "|" :: t, cur, acc => go t [] (cur.reverse :: acc)
    | x :: t, cur, acc => go t (x :: cur) acc
  go toks [] []

def showOutcome : CheckOutcome → String
  | .ok => "ok"
  | .raised => "raised"
  | .warned ns => "warned " ++ ",".intercalate ns
  | .crashed => "crashed"

def sysStep (st : Store) (s : SysState) (toks : List String) : Option (SysState × String) :=
  match toks with
  | ["sys_begin"] => some ({}, "ok")
  | "procs" :: names => some ({ s with sys := { s.sys with processes := names } }, "ok")
  | "flow" :: name :: fp :: tp :: ds :: vals =>
    some (match (do mkFVArr (← st.dset? ds) vals) with
      | some a => ({ s with sys := { s.sys with flows := s.sys.flows ++ [{ name := name, fromP := fp, toP := tp, arr := a }] } }, "ok")
      | none => (s, "err"))
  | "stock" :: name :: proc :: ds :: rest =>
    some (match st.dset? ds, splitBar rest with
      | some dims, [a, b, c] =>
        match mkFVArr dims a, mkFVArr dims b, mkFVArr dims c with
        | some x, some y, some z =>
          ({ s with sys := { s.sys with stocks := s.sys.stocks ++
              [{ name := name, process := if proc == "-" then none else some proc, stock := x, inflow := y, outflow := z }] } }, "ok")
        | _, _, _ => (s, "err")
      | _, _ => (s, "err"))
  | ["sys_scale", f] =>
    -- every flow and stock value multiplied in place: the system object stays the same one
    some (match parseRat? f with
      | some q =>
        let sc (a : FArr FV) : FArr FV := ⟨a.dims, (a.values.map (· * FV.num q)).memo (.num 0)⟩
        ({ s with sys := { s.sys with
            flows := s.sys.flows.map (fun fl => { fl with arr := sc fl.arr }),
            stocks := s.sys.stocks.map (fun st => { st with stock := sc st.stock, inflow := sc st.inflow, outflow := sc st.outflow }) } }, "ok")
      | none => (s, "err"))
  | ["balance"] =>
    some (s, match massBalance s.sys with
      | some bs => "ok " ++ " ; ".intercalate (bs.map fun b => s!"{b.1}={showFArrFV ⟨b.2.dims, b.2.values.memo (.num 0)⟩}")
      | none => "err")
  | ["cmb", tol, r] =>
    let t := if tol == "-" then some none else (parseFV? tol).map some
    some (s, match t with
      | some tt => showOutcome (checkMassBalance (.num Gen.massBalanceFactor) (.num Gen.eps64) s.sys tt (r == "1"))
      | none => "err")
  | ["cf", exc, r] =>
    let ex := if exc == "-" then [] else splitC exc ','
    some (s, showOutcome (checkFlows (.num Gen.checkFlowsFactor) (.num Gen.eps64) s.sys ex (r == "1")))
  | ["tol"] =>
    some (s, match absoluteFloatPrecision (.num Gen.eps64) s.sys with
      | some p => "ok " ++ showFV p
      | none => "err")
  | _ => none

end Flodym.Driver
