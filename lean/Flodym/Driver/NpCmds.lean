import Flodym.Driver.ArrayCmds
/-!
# Driver commands for stream `np-semantics`: the modelled numpy primitives against numpy itself
-/
namespace Flodym.Driver
open Flodym

def parseIx? (t : String) : Option Ix :=
  if t == ":" then some .all else
  match t.toList with
  | 'i' :: r => (String.ofList r).toNat?.map Ix.int
  | 'l' :: r =>
    let body := String.ofList r
    if body == "" then some (.list []) else ((splitC body ',').mapM String.toNat?).map Ix.list
  | 'm' :: r =>
    let body := String.ofList r
    if body == "" then some (.mesh [] 0 0) else ((splitC body ',').mapM String.toNat?).map (fun l => Ix.mesh l 0 0)
  | _ => none

/-- number the mesh components (`np.ix_` over all `m…` tokens, in order) -/
def numberMeshes (ixs : List Ix) : List Ix :=
  let n := (ixs.filter fun | .mesh _ _ _ => true | _ => false).length
  let rec go : List Ix → Nat → List Ix
    | [], _ => []
    | .mesh l _ _ :: t, k => .mesh l k n :: go t (k + 1)
    | o :: t, k => o :: go t k
  go ixs 0

def putND (s : Store) (h : String) (r : Option (ND Rat)) (extra : String := "") : Store × String :=
  match parseHandle? h, r with
  | some hn, some v => let v := v.memo 0; (s.put hn (.nd v), "ok " ++ showND v ++ extra)
  | _, _ => (s, "err")

def npStep (s : Store) (toks : List String) : Option (Store × String) :=
  match toks with
  | "nd" :: h :: sh :: vals =>
    some (putND s h (do
      let shape ← parseShape? sh
      let vs ← vals.mapM parseRat?
      if vs.length ≠ prodList shape then none else some (ND.ofFlat shape vs.toArray 0)))
  | ["np", "einsum1", h, i, o, a] =>
    some (putND s h (do einsum1 (if i == "-" then [] else i.toList) (if o == "-" then [] else o.toList) (← s.nd? a)))
  | ["np", "einsum2", h, i1, i2, o, a, b] =>
    let f := fun (x : String) => if x == "-" then [] else x.toList
    some (putND s h (do einsum2 (f i1) (f i2) (f o) (← s.nd? a) (← s.nd? b)))
  | "np" :: "index" :: h :: a :: ixs =>
    match ixs.mapM parseIx? with
    | none => some (s, "err")
    | some ix =>
      let ix := numberMeshes ix
      some (putND s h (do (← s.nd? a).index? ix) s!" view={indexIsView ix}")
  | "np" :: "indexset" :: a :: v :: ixs =>
    match ixs.mapM parseIx?, parseHandle? a with
    | some ix, some hn =>
      let ix := numberMeshes ix
      some (match (do
          let arr ← s.nd? a
          let val ← s.nd? v
          let plan ← indexPlan arr.shape ix
          let vb ← val.broadcastTo? plan.shape
          arr.indexSet? ix vb) with
        | some r => let r := r.memo 0; (s.put hn (.nd r), "ok " ++ showND r)
        | none => (s, "err"))
    | _, _ => some (s, "err")
  | ["np", "tile", h, a, reps] =>
    some (putND s h (do
      let r ← parseShape? reps
      let arr ← s.nd? a
      if r.length ≠ arr.shape.length then none else some (arr.tile r)))
  | ["np", "cumsum", h, a, ax] =>
    some (putND s h (do
      let arr ← s.nd? a
      let k ← ax.toNat?
      if k < arr.shape.length then some (arr.cumsum k) else none))
  | ["np", "sumaxis", h, a, ax] =>
    some (putND s h (do
      let arr ← s.nd? a
      let k ← ax.toNat?
      if k < arr.shape.length then some (arr.sumAxis k) else none))
  | ["np", "newaxis", h, a, flags] =>
    some (putND s h (do
      let arr ← s.nd? a
      let keep := flags.toList.map (· == '1')
      if (keep.filter id).length ≠ arr.shape.length then none else some (arr.newaxisIndex keep)))
  | ["np", "bcast", h, a, sh] =>
    some (putND s h (do (← s.nd? a).broadcastTo? (← parseShape? sh)))
  | _ => none

end Flodym.Driver
