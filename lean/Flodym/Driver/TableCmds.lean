import Flodym.Driver.ArrayCmds
import Flodym.Driver.BuildCmds
import Flodym.Table
/-!
# Driver commands for stream `table` (`to_df`, `from_df`, `set_values_from_df`)

A frame on one line: `K R|U|N<k>  C <n> <n cells>  R <m> <m*n cells>`; cells `i<int>`, `f<rat>`
(float), `s<text, blanks as ~>`, `n` (NaN/None).
-/
namespace Flodym.Driver
open Flodym Flodym.Table

def parseTCell? (t : String) : Option Cell :=
  match t.toList with
  | ['n'] => some .nan
  | 'i' :: r => (String.ofList r).toInt?.map fun i => .num i false
  | 'f' :: r => (parseRat? (String.ofList r)).map fun q => .num q true
  | 's' :: r => some (.str (untilde (String.ofList r)))
  | _ => none

def showTCell : Cell → String
  | .nan => "n"
  | .num q false => "i" ++ showRat q
  | .num q true => "f" ++ showRat q
  | .str s => "s" ++ tilde s

def showKind : IndexKind → String
  | .range => "R"
  | .unnamed true => "U"
  | .unnamed false => "V"
  | .named k => s!"N{k}"

def parseKind? (t : String) : Option IndexKind :=
  match t.toList with
  | ['R'] => some .range
  | ['U'] => some (.unnamed true)
  | ['V'] => some (.unnamed false)
  | 'N' :: r => (String.ofList r).toNat?.map .named
  | _ => none

def showDF (df : DF) (k : IndexKind) : String :=
  (s!"K {showKind k} C {df.cols.length} " ++ " ".intercalate (df.cols.map showTCell) ++
  s!" R {df.rows.length} " ++ " ".intercalate (df.rows.flatten.map showTCell)).trimAsciiEnd.toString

def parseDF? (toks : List String) : Option (DF × IndexKind) :=
  match toks with
  | "K" :: k :: "C" :: n :: rest => do
    let kind ← parseKind? k
    let n ← n.toNat?
    let cols ← (rest.take n).mapM parseTCell?
    if cols.length ≠ n then none else
    match rest.drop n with
    | "R" :: m :: cells => do
      let m ← m.toNat?
      let cs ← (cells.filter (· != "")).mapM parseTCell?
      if cs.length ≠ m * n then none else
      some ({ cols := cols, rows := if n = 0 then List.replicate m [] else chunk cs n }, kind)
    | _ => none
  | _ => none

def tableStep (s : Store) (toks : List String) : Option (Store × String) :=
  match toks with
  | ["todf", x, idx, col, sparse] =>
    some (s, match s.arr? x with
      | some a =>
        match toDf? a (idx == "1") (if col == "-" then none else some (untilde col)) (sparse == "1") with
        | some (df, k) => "ok " ++ showDF df k
        | none => "err"
      | none => "err")
  | "fromdf" :: h :: ds :: miss :: extra :: rest =>
    some (putArr s h (do
      let dims ← s.dset? ds
      let (df, k) ← parseDF? rest
      fromDf? dims k df (miss == "1") (extra == "1")))
  | "setdf" :: x :: miss :: extra :: rest =>
    some (match parseHandle? x, (do
        let a ← s.arr? x
        let (df, k) ← parseDF? rest
        setValuesFromDf? a k df (miss == "1") (extra == "1")) with
      | some hn, some nx => (s.putFresh hn (memoArr nx), "ok " ++ showArr nx)
      | _, _ => (s, "err"))
  | _ => none

end Flodym.Driver
