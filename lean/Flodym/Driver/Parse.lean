import Flodym.SubArray
/-!
# Line-protocol driver: tokens, numbers, items, dimensions, printing
-/
namespace Flodym.Driver
open Flodym

def strDrop (s : String) (n : Nat) : String := String.ofList (s.toList.drop n)
def strTake (s : String) (n : Nat) : String := String.ofList (s.toList.take n)
def splitC (s : String) (c : Char) : List String :=
  let rec go : List Char → List Char → List String → List String
    | [], cur, acc => (String.ofList cur.reverse :: acc).reverse
    | x :: xs, cur, acc => if x == c then go xs [] (String.ofList cur.reverse :: acc) else go xs (x :: cur) acc
  go s.toList [] []

def tokens (line : String) : List String :=
  (splitC (String.ofList (line.toList.filter (fun c => c != '\n' && c != '\r'))) ' ').filter (· != "")

def parseRat? (s : String) : Option Rat :=
  match splitC s '/' with
  | [a] => a.toInt?.map (fun (i : Int) => (i : Rat))
  | [a, b] => do
    let n ← a.toInt?
    let d ← b.toNat?
    if d = 0 then none else some ((n : Rat) / (d : Rat))
  | _ => none

def showRat (q : Rat) : String :=
  if q.den = 1 then toString q.num else s!"{q.num}/{q.den}"

def parseHandle? (s : String) : Option Nat :=
  if s.toList.head? = some '$' then (strDrop s 1).toNat? else none

/-- items: `i<int>` or `s<text>` -/
def parseItem? (s : String) : Option Item :=
  match s.toList with
  | 'i' :: r => (String.ofList r).toInt?.map Item.int
  | 'j' :: r => (String.ofList r).toInt?.map Item.int   -- a numpy integer label: equal to the int item
  | 's' :: r => some (Item.str (String.ofList r))
  | _ => none

def showItem : Item → String
  | .int i => s!"i{i}"
  | .str s => s!"s{s}"

def parseItems? (s : String) : Option (List Item) :=
  if s == "" then some [] else (splitC s ',').mapM parseItem?

/-- `D:<letter>:<name>:<i|s|n>:<item>,<item>,…` -/
def parseDim? (s : String) : Option Dim :=
  match splitC s ':' with
  | ["D", l, name, ty, items] => do
    let letter ← match l.toList with | [c] => some c | _ => none
    let dt ← match ty with | "i" => some (some DType.int) | "s" => some (some DType.str) | "n" => some none | _ => none
    let its ← parseItems? items
    some { letter := letter, name := name, items := its, dtype := dt }
  | _ => none

def showDim (d : Dim) : String :=
  let ty := match d.dtype with | some .int => "i" | some .str => "s" | none => "n"
  s!"D:{d.letter}:{d.name}:{ty}:{",".intercalate (d.items.map showItem)}"

def showDimSet (ds : DimSet) : String := "[" ++ " ".intercalate (ds.map showDim) ++ "]"

def showShape (sh : List Nat) : String := if sh.isEmpty then "-" else ",".intercalate (sh.map toString)
def parseShape? (s : String) : Option (List Nat) :=
  if s == "-" then some [] else (splitC s ',').mapM String.toNat?

def showND (v : ND Rat) : String :=
  s!"{showShape v.shape} | {" ".intercalate (v.toList.map showRat)}"

def showArr (x : FArr Rat) : String := s!"A {showDimSet x.dims} {showND x.values}"

end Flodym.Driver
