import Flodym.Driver.SysCmds
import Flodym.Driver.TableCmds
import Flodym.Export
/-!
# Driver commands for streams `export` and `plot`
-/
namespace Flodym.Driver
open Flodym Flodym.Export

structure ExportState where
  dims : DimSet := []
  cfg : SankeyCfg := {}

def fvToRat? (x : FArr FV) : Option (FArr Rat) :=
  if x.values.toList.any FV.isNan then none else
  some ⟨x.dims, (x.values.map fun v => match v with | .num q => q | .nan => 0).memo 0⟩

def sortStrings (l : List String) : List String := (l.toArray.qsort (· < ·)).toList

def showLetters (ls : List Char) : String := ",".intercalate (ls.map (·.toString))

def showDict (d : ExportDict) : String :=
  let arrs (l : List (String × FArr FV)) := " ;; ".intercalate (l.map fun p => s!"{p.1}={showFArrFV ⟨p.2.dims, p.2.values.memo (.num 0)⟩}")
  "DN " ++ ",".intercalate (d.dimensionNames.map fun p => s!"{p.1}:{p.2}") ++
  " | DI " ++ ";".intercalate (d.dimensionItems.map fun p => s!"{p.1}={",".intercalate (p.2.map showItem)}") ++
  " | P " ++ ",".intercalate d.processes ++
  " | F " ++ arrs d.flows ++
  " | FD " ++ ";".intercalate (d.flowDimensions.map fun p => s!"{p.1}={showLetters p.2}") ++
  " | FP " ++ ";".intercalate (d.flowProcesses.map fun p => s!"{p.1}={p.2.1}>{p.2.2}") ++
  " | S " ++ arrs d.stocks ++
  " | SD " ++ ";".intercalate (d.stockDimensions.map fun p => s!"{p.1}={showLetters p.2}") ++
  " | SP " ++ ";".intercalate (d.stockProcesses.map fun p => s!"{p.1}={p.2}")

def dfOf? (x : FArr FV) : Option String := do
  let r ← fvToRat? x
  let (df, k) ← Table.toDf? r true none false
  some (showDF df k)

def exportStep (s : SysState) (st : Store) (e : ExportState) (toks : List String) : Option (ExportState × String) :=
  let m : MFA := { dims := e.dims, sys := s.sys }
  -- names as the user wrote them (the protocol writes blanks as `~`)
  let flowsU : List FlowM := m.sys.flows.map fun f => { f with name := untilde f.name }
  let stocksU : List StockM := m.sys.stocks.map fun k => { k with name := untilde k.name }
  let mU : MFA := { dims := e.dims, sys := { processes := m.sys.processes, flows := flowsU, stocks := stocksU } }
  match toks with
  | ["x_dims", h] =>
    some (match st.dset? h with
      | some d => ({ e with dims := d }, "ok")
      | none => (e, "err"))
  | ["x_dict"] => some (e, "ok " ++ showDict (convertToDict m))
  | ["x_pickle"] => some (e, "ok " ++ showDict (convertToDict m))      -- what the pickle file holds
  | ["x_dictpd"] =>
    some (e, match m.sys.flows.mapM (fun f => (dfOf? f.arr).map fun t => s!"{f.name}={t}"),
                   m.sys.stocks.mapM (fun k => (dfOf? k.stock).map fun t => s!"{k.name}={t}") with
      | some fs, some ss => "ok F " ++ " ;; ".intercalate fs ++ " | S " ++ " ;; ".intercalate ss
      | _, _ => "err")
  | ["x_files", "flows"] =>
    some (e, if m.sys.flows.all (fun f => (dfOf? f.arr).isSome) then
        ("ok " ++ " ".intercalate (sortStrings (flowFiles mU).eraseDups)).trimAsciiEnd.toString else "err")
  | ["x_files", "stocks", w] =>
    let files := stockFiles mU (w == "1")
    some (e, if files.all (fun p => (dfOf? p.2).isSome) then
        ("ok " ++ " ".intercalate (sortStrings (files.map (·.1)).eraseDups)).trimAsciiEnd.toString else "err")
  | ["x_csvback", w] =>
    let show? (name : String) (a : FArr FV) : Option String := do
      let r ← fvToRat? a
      -- CSV text carries no types: in a dimension without dtype whose items are of mixed type the
      -- numbers come back as texts and are not found among the items (finding D29)
      let mixed (d : Dim) : Bool := d.dtype.isNone &&
        d.items.any (fun i => match i with | .int _ => true | .str _ => false) &&
        d.items.any (fun i => match i with | .int _ => false | .str _ => true)
      if r.dims.isEmpty || r.dims.any mixed then none else some s!"{name}={showArr r}"
    some (e, match m.sys.flows.mapM (fun f => show? (toValidFileName (untilde f.name) ++ ".csv") f.arr),
                   (stockFiles mU (w == "1")).mapM
                     (fun p => show? p.1 p.2) with
      | some fs, some ss => "ok F " ++ " ;; ".intercalate fs ++ " | S " ++ " ;; ".intercalate ss
      | _, _ => "err")
  | ["k_begin"] => some ({ e with cfg := {} }, "ok")
  | "k_slice" :: kvs =>
    some (match kvs.mapM (fun kv => match splitC kv '=' with
        | [k, v] => (parseItem? v).map fun it => (k, it)
        | _ => none) with
      | some l => ({ e with cfg := { e.cfg with slice := l } }, "ok")
      | none => (e, "err"))
  | "k_exclude_procs" :: ps => some ({ e with cfg := { e.cfg with excludeProcesses := ps } }, "ok")
  | "k_exclude_flows" :: fs => some ({ e with cfg := { e.cfg with excludeFlows := fs } }, "ok")
  | ["k_split", f, dimKey, n] =>
    some (match n.toNat? with
      | some k => ({ e with cfg := { e.cfg with split := e.cfg.split ++ [(f, dimKey, k)] } }, "ok")
      | none => (e, "err"))
  | ["k_sankey"] =>
    some (e, match sankey? m e.cfg with
      | some (nodes, links) =>
        "ok N " ++ ",".intercalate nodes ++ " | L " ++
          " ; ".intercalate (links.map fun l => s!"{l.source}>{l.target}:{showFV l.value}:{showTCell l.label}")
      | none => "err")
  | ["p_lines", _, a, intra, sub, line, x] =>
    some (e, match st.arr? a, (if x == "-" then some none else (st.arr? x).map some) with
      | some arr, some xa =>
        match plotLines? arr { intra := intra, subplot := if sub == "-" then none else some sub,
                               linecolor := if line == "-" then none else some line } xa with
        | some ls => "ok " ++ " ; ".intercalate (ls.map fun l =>
            s!"s{l.subplot}l{l.line} {(l.label.map fun it => match it with | .int i => toString i | .str t => tilde t).getD "-"} X {",".intercalate (l.x.map showTCell)} Y {",".intercalate (l.y.map showRat)}")
        | none => "err"
      | _, _ => "err")
  | _ => none

end Flodym.Driver
