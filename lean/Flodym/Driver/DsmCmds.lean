import Flodym.Driver.Parse
import Flodym.Stocks
import FlodymGen.GaussLobatto
import Flodym.History
/-!
# Driver commands for the streams `dsm` / `dsm-history`: time grid, quadrature, survival tables,
stock models (K = Rat)
-/
namespace Flodym.Driver
open Flodym Flodym.DSM

structure DsmState where
  n : Nat := 0
  it : Array Rat := #[]
  Q : List (Rat × Rat) := []
  m : Nat := 1
  /-- survival values by (q, c): a flat array over (t - c, j) -/
  sv : List ((Nat × Nat) × Array Rat) := []
  /-- the survival table, materialised once all values are known -/
  sfArr : Array Rat := #[]
  /-- stream `dsm-history`: survival tables per parameter set, and the object under test -/
  psets : List (Nat × Array Rat) := []
  hist : Option (Hist.HState Nat (Array Rat) (String × Array Rat) String) := none

def DsmState.itf (s : DsmState) : Nat → Rat := fun k => s.it.getD k 0

def DsmState.Sq (s : DsmState) : Nat → Nat → Nat → Nat → Rat := fun q c t j =>
  match s.sv.find? (fun e => e.1 == (q, c)) with
  | some e => e.2.getD ((t - c) * s.m + j) 0
  | none => 0

/-- printing only: a rational with a huge numerator/denominator is printed rounded (towards zero)
to about 96 significant bits — far below the comparison tolerance; small ones are printed exactly.
(Converting thousand-digit integers to decimal text dominated the run time otherwise.) -/
def showRatApprox (q : Rat) : String :=
  let n := q.num.natAbs
  let d := q.den
  if n < 2 ^ 128 && d < 2 ^ 128 then showRat q else
  let ln := Nat.log2 n
  let ld := Nat.log2 d
  -- choose s such that (n * 2^s) / d has about 96 bits
  let s : Int := 96 - ((ln : Int) - (ld : Int))
  let (num, den) : Nat × Nat :=
    if s ≥ 0 then ((n <<< s.toNat) / d, 2 ^ s.toNat) else (n / (d <<< (-s).toNat), 1)
  let sign := if q.num < 0 then "-" else ""
  if den == 1 then s!"{sign}{num}" else s!"{sign}{num}/{den}"

def showRats (l : List Rat) : String := " ".intercalate (l.map showRatApprox)

def table2 (n m : Nat) (f : Nat → Nat → Rat) : List Rat :=
  (List.range n).flatMap fun t => (List.range m).map fun j => f t j
def table3 (n m : Nat) (f : Nat → Nat → Nat → Rat) : List Rat :=
  (List.range n).flatMap fun t => (List.range n).flatMap fun c => (List.range m).map fun j => f t c j

def arr2 (m : Nat) (a : Array Rat) : Nat → Nat → Rat := fun t j => a.getD (t * m + j) 0
def arr3 (n m : Nat) (a : Array Rat) : Nat → Nat → Nat → Rat := fun t c j => a.getD ((t * n + c) * m + j) 0


def DsmState.sf (s : DsmState) : Nat → Nat → Nat → Rat := arr3 s.n s.m s.sfArr

/-- `get_quad_points_and_weights`, from the regenerated constants and tables -/
def quadPoints (inflowAt : String) (npts : Int) : Option (List (Rat × Rat)) :=
  if npts > (Gen.maxQuadPts : Int) then none
  else if npts > (Gen.quadAbove : Int) then
    let nodes := Gen.glNodes npts.toNat
    let ws := Gen.glWeights npts.toNat
    if nodes.isEmpty || nodes.length != ws.length then none
    else some (List.zip (nodes.map Gen.quadNode) (ws.map Gen.quadWeight))
  else
    (Gen.inflowAtTable.find? (·.1 == inflowAt)).map fun e => [(e.2.1, e.2.2)]

def ratAbs' (a : Rat) : Rat := if a < 0 then -a else a

def splitSemi (toks : List String) : List (List String) :=
  let rec go : List String → List String → List (List String) → List (List String)
    | [], cur, acc => (cur.reverse :: acc).reverse
    | ";" :: t, cur, acc => go t [] (cur.reverse :: acc)
    | x :: t, cur, acc => go t (x :: cur) acc
  go toks [] []

/-- the results of `compute()` for the object under test, printed -/
def histCompute (s : DsmState) (d : String × Array Rat) (sfA pdfA : Array Rat) : String :=
  let sf := arr3 s.n s.m sfA
  let pdf := arr3 s.n s.m pdfA
  if d.1 == "idsm" then
    let r := inflowDrivenWith s.itf s.n (arr2 s.m d.2) sf pdf
    s!"ok S {showRats (table2 s.n s.m r.stock)} | O {showRats (table2 s.n s.m r.outflow)} | SC {showRats (table3 s.n s.m r.stockByCohort)} | OC {showRats (table3 s.n s.m r.outflowByCohort)}"
  else
    let stock := arr2 s.m d.2
    let iwpTab : Array Rat := (table2 s.n s.m (sdInflowWP s.n stock sf)).toArray
    let r := stockDrivenFromWith s.itf s.n stock sf pdf (arr2 s.m iwpTab)
    s!"ok I {showRats (table2 s.n s.m r.inflow)} | O {showRats (table2 s.n s.m r.outflow)} | SC {showRats (table3 s.n s.m r.stockByCohort)} | OC {showRats (table3 s.n s.m r.outflowByCohort)}"

/-- one step of the cache state machine (`Flodym/History.lean`) instantiated for the driver;
which caches `set_prms` discards comes from the regenerated constants -/
def histStep (s : DsmState) (h : Hist.HState Nat (Array Rat) (String × Array Rat) String)
    (op : Hist.HOp Nat (String × Array Rat)) :
    Hist.HState Nat (Array Rat) (String × Array Rat) String × Bool :=
  Hist.stepE
    -- a parameter set declared unusable (`psetbad k`) has no table: building it raises
    (fun k => (s.psets.find? (·.1 == k)).map (·.2))
    (fun sfA => (table3 s.n s.m (pdfTable (arr3 s.n s.m sfA))).toArray)
    (histCompute s) Gen.setPrmsResetsSf Gen.setPrmsResetsPdf Gen.failedBuildDiscarded
    (Array.replicate (s.n * s.n * s.m) 0) Gen.setPrmsAtomic h op

/-- `InflowDrivenDSM(...).compute()`; the driver itself is shown again at the end (it must be what was given) -/
def runIdsm (s : DsmState) (vals : List String) (k : Nat) : String :=
  match vals.mapM parseRat? with
  | some vs =>
    let f : Rat := 1 / (2 : Rat) ^ k
    let g : Rat := (2 : Rat) ^ k
    let inflow := (vs.map (· * f)).toArray
    let r := inflowDriven s.itf s.n (arr2 s.m inflow) s.sf
    let sc (l : List Rat) := l.map (· * g)
    s!"ok S {showRats (sc (table2 s.n s.m r.stock))} | O {showRats (sc (table2 s.n s.m r.outflow))} | SC {showRats (sc (table3 s.n s.m r.stockByCohort))} | OC {showRats (sc (table3 s.n s.m r.outflowByCohort))} | D {showRats (sc inflow.toList)}"
  | none => "err"

/-- `StockDrivenDSM(...).compute()` -/
def runSdsm (s : DsmState) (vals : List String) (k : Nat) : String :=
  match vals.mapM parseRat? with
  | some vs =>
    let f : Rat := 1 / (2 : Rat) ^ k
    let g : Rat := (2 : Rat) ^ k
    let stockA := (vs.map (· * f)).toArray
    let stock := arr2 s.m stockA
    -- `stockDriven` = `stockDrivenFrom … (sdInflowWP …)`; the solver's table is materialised
    -- (as an array value first: a function-valued `let` would be re-evaluated per entry)
    let iwpTab : Array Rat := (table2 s.n s.m (sdInflowWP s.n stock s.sf)).toArray
    let r := stockDrivenFrom s.itf s.n stock s.sf (arr2 s.m iwpTab)
    let sc (l : List Rat) := l.map (· * g)
    s!"ok I {showRats (sc (table2 s.n s.m r.inflow))} | O {showRats (sc (table2 s.n s.m r.outflow))} | SC {showRats (sc (table3 s.n s.m r.stockByCohort))} | OC {showRats (sc (table3 s.n s.m r.outflowByCohort))} | D {showRats (sc stockA.toList)}"
  | none => "err"

def dsmStep (s : DsmState) (toks : List String) : Option (DsmState × String) :=
  match toks with
  | "grid" :: nt :: items =>
    some (match nt.toNat?, items.mapM parseRat? with
      | some n, some its =>
        if n < 3 || its.length != n then ({ s with n := 0 }, "err") else
        let s' := { s with n := n, it := its.toArray, sv := [] }
        let b := (List.range (n + 1)).map (bounds s'.itf n)
        let d := (List.range n).map (dt s'.itf n)
        (s', s!"ok B {showRats b} | DT {showRats d}")
      | _, _ => (s, "err"))
  | ["quad", ia, np] =>
    some (match np.toInt? with
      | some k =>
        if !(Gen.inflowAtAllowed.contains ia) then (s, "err") else
        match quadPoints ia k with
        | some Q => ({ s with Q := Q, sv := [] }, s!"ok E {showRats (Q.map (·.1))} | W {showRats (Q.map (·.2))}")
        | none => (s, "err")
      | none => (s, "err"))
  | "note" :: _ => some (s, "ok")      -- information for the search oracles only
  | ["m", mt] => some (match mt.toNat? with | some m => ({ s with m := m, sv := [] }, "ok") | none => (s, "err"))
  | "sval" :: qt :: ct :: vals =>
    some (match qt.toNat?, ct.toNat?, vals.mapM parseRat? with
      | some q, some c, some vs =>
        let eta := (s.Q.getD q (0, 0)).1
        let ages := (List.range (s.n - c)).map fun k => age s.itf s.n eta c (c + k)
        ({ s with sv := ((q, c), vs.toArray) :: s.sv.filter (fun e => e.1 != (q, c)) }, s!"ok A {showRats ages}")
      | _, _, _ => (s, "err"))
  | ["sf"] =>
    let tab := table3 s.n s.m (sfTable s.Q s.Sq)
    some ({ s with sfArr := tab.toArray }, "ok " ++ showRats tab)
  | ["pdf"] =>
    some (s, "ok " ++ showRats (table3 s.n s.m (pdfTable s.sf)))
  | "idsm" :: vals => some (s, runIdsm s vals 0)
  | "sdsm" :: vals => some (s, runSdsm s vals 0)
  -- the same with a driver of magnitude 2^-k (given as `vals`, meaning `vals * 2^-k`); results are
  -- shown multiplied by 2^k so that they are compared at the scale of `vals`
  | "idsmx" :: k :: vals => some (s, runIdsm s vals (k.toNat?.getD 0))
  | "sdsmx" :: k :: vals => some (s, runSdsm s vals (k.toNat?.getD 0))
  | "fds" :: rest =>
    some (match (splitSemi rest).map (·.mapM parseRat?) with
      | [some a, some b] =>
        (s, "ok S " ++ showRats (table2 s.n s.m (flowDrivenStock s.itf s.n (arr2 s.m a.toArray) (arr2 s.m b.toArray))))
      | _ => (s, "err"))
  | "bal" :: rest =>
    some (match (splitSemi rest).map (·.mapM parseRat?) with
      | [some st, some a, some b] =>
        let bal := stockBalance s.itf s.n (arr2 s.m st.toArray) (arr2 s.m a.toArray) (arr2 s.m b.toArray)
        let agg := balanceAggregate s.n s.m bal
        let verdict := match checkStockBalance Gen.stockBalanceRaise Gen.stockBalanceNote s.n s.m bal with
          | .raise => "raise" | .note => "note" | .ok => "ok"
        (s, s!"ok B {showRats (table2 s.n s.m bal)} | agg {showRat agg} | {verdict}")
      | _ => (s, "err"))
  -- ---- stream dsm-history ------------------------------------------------------------------
  | ["psetend", kt] =>
    -- the `sval` lines since the last `quad`/`m`/`psetend` belong to parameter set k
    some (match kt.toNat? with
      | some k =>
        let tab := (table3 s.n s.m (sfTable s.Q s.Sq)).toArray
        ({ s with psets := (k, tab) :: s.psets.filter (·.1 != k), sv := [] }, "ok")
      | none => (s, "err"))
  | "h_new" :: kind :: kt :: vals =>
    some (match kt.toNat?, vals.mapM parseRat? with
      | some k, some vs => ({ s with hist := some { prm := k, driver := (kind, vs.toArray) } }, "ok")
      | _, _ => (s, "err"))
  | ["psetbad", kt] =>
    some (match kt.toNat? with
      | some k => ({ s with psets := s.psets.filter (·.1 != k), sv := [] }, "ok")
      | none => (s, "err"))
  | "h_setprms" :: [kt] =>
    some (match kt.toNat?, s.hist with
      | some k, some h =>
        ({ s with hist := some (histStep s h (.setPrms k)).1 }, "ok")
      | _, _ => (s, "err"))
  | ["h_setprms_fail", kt] =>
    -- a `set_prms` call that raises; `kt` names the parameter set the object would hold had the values
    -- converted before the failure been stored already
    some (match kt.toNat?, s.hist with
      | some k, some h => ({ s with hist := some (histStep s h (.setPrmsFailed k)).1 }, "err")
      | _, _ => (s, "err"))
  | "h_setdriver" :: vals =>
    some (match vals.mapM parseRat?, s.hist with
      | some vs, some h => ({ s with hist := some (histStep s h (.setDriver (h.driver.1, vs.toArray))).1 }, "ok")
      | _, _ => (s, "err"))
  | ["h_readsf"] =>
    some (match s.hist with
      | some h =>
        let (h', ok) := histStep s h .readSf
        ({ s with hist := some h' }, if ok then "ok " ++ showRats ((h'.sf.getD #[]).toList) else "err")
      | none => (s, "err"))
  | ["h_readpdf"] =>
    some (match s.hist with
      | some h =>
        let (h', ok) := histStep s h .readPdf
        ({ s with hist := some h' }, if ok then "ok " ++ showRats ((h'.pdf.getD #[]).toList) else "err")
      | none => (s, "err"))
  | ["h_compute"] =>
    some (match s.hist with
      | some h =>
        let (h', ok) := histStep s h .compute
        ({ s with hist := some h' }, if ok then h'.res.getD "err" else "err")
      | none => (s, "err"))
  | _ => none

end Flodym.Driver
