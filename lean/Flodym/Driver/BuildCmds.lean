import Flodym.Driver.ArrayCmds
import Flodym.Build
import FlodymGen.IOSites
/-!
# Driver commands for stream `build` (systems from definitions and dimension files)
-/
namespace Flodym.Driver
open Flodym Flodym.Build

structure BuildState where
  dimHandles : List String := []
  procs : List String := []
  flows : List FlowDef := []
  stocks : List StockDef := []
  params : List (ParamDef × List String) := []
  naming : Naming := .arrow
  defLetters : Option (List String) := none

def tilde (s : String) : String := String.ofList (s.toList.map fun c => if c == ' ' then '~' else c)
def untilde (s : String) : String := String.ofList (s.toList.map fun c => if c == '~' then ' ' else c)

def parseCell? (t : String) : Option Cell :=
  match t.toList with
  | 'i' :: r => (String.ofList r).toInt?.map Cell.int
  | 's' :: r => some (Cell.str (untilde (String.ofList r)))
  | 'f' :: r => some (Cell.float (String.ofList r))
  | _ => none

def chunk {β : Type} (l : List β) (n : Nat) : List (List β) :=
  if n = 0 then [] else
  let rec go (fuel : Nat) (l : List β) : List (List β) :=
    match fuel, l with
    | 0, _ => []
    | _, [] => []
    | f + 1, l => l.take n :: go f (l.drop n)
  go l.length l

def lettersOf (t : String) : List String := if t == "-" then [] else splitC t ','

def parseCls? : String → Option StockClass
  | "fds" => some .flowDriven | "idsm" => some .inflowDriven | "sdsm" => some .stockDriven
  -- a user's subclass of a stock class: the same fields, hence the same treatment
  | "idsmsub" => some .inflowDriven | "sdsmsub" => some .stockDriven | _ => none

def showCls : StockClass → String
  | .flowDriven => "fds" | .inflowDriven => "idsm" | .stockDriven => "sdsm"

def showSystem (sys : SystemM) (paramVals : List (String × List String)) : String :=
  let ps := ",".intercalate (sys.processes.map fun p => s!"{tilde p.1}:{p.2.id}")
  let fs := " ; ".intercalate (sys.flows.map fun f =>
    s!"{tilde f.1}:{tilde f.2.fromP.name}>{tilde f.2.toP.name}:{showDimSet f.2.dims}:zero")
  let ss := " ; ".intercalate (sys.stocks.map fun st =>
    s!"{tilde st.1}:{showCls st.2.cls}:{st.2.lifetime.getD "none"}:{st.2.solver.getD "none"}:{st.2.timeLetter}:{(st.2.process.map (tilde ·.name)).getD "none"}:{showDimSet st.2.dims}")
  let rs := " ; ".intercalate (sys.params.map fun p =>
    s!"{tilde p.1}:{showDimSet p.2}:{" ".intercalate ((paramVals.find? (·.1 == p.1)).map (·.2) |>.getD [])}")
  s!"ok P {ps} | F {fs} | S {ss} | R {rs}"

def buildStep (st : Store) (b : BuildState) (toks : List String) : Option (BuildState × String) :=
  match toks with
  | ["b_begin"] => some ({}, "ok")
  | ["b_route", _] => some (b, "ok")       -- how the implementation is driven (direct / csv / xlsx)
  | "b_dims" :: hs => some ({ b with dimHandles := hs }, "ok")
  | "b_defletters" :: ls => some ({ b with defLetters := some ls }, "ok")
  | "b_procs" :: names => some ({ b with procs := names.map untilde }, "ok")
  | ["b_naming", n] =>
    some (match n with
      | "arrow" => ({ b with naming := .arrow }, "ok")
      | "nospaces" => ({ b with naming := .noSpaces }, "ok")
      | "ids" => ({ b with naming := .ids }, "ok")
      | _ => (b, "err"))
  | ["b_flow", f, t, ls, ov] =>
    some ({ b with flows := b.flows ++ [{ fromName := untilde f, toName := untilde t, letters := lettersOf ls,
                                          nameOverride := if ov == "-" then none else if ov == "<empty>" then some "" else some (untilde ov) }] }, "ok")
  | ["b_stock", name, proc, ls, tl, cls, lm, solver] =>
    some (match parseCls? cls with
      | some c =>
        ({ b with stocks := b.stocks ++ [{ name := untilde name, process := if proc == "-" then none else some (untilde proc),
                                           -- `-`: no time letter given, the definition's default applies
                                           letters := lettersOf ls, timeLetter := if tl == "-" then Gen.stockDefaultTimeLetter else tl, cls := c,
                                           lifetime := if lm == "none" then none else some lm, solver := solver }] }, "ok")
      | none => (b, "err"))
  | "b_param" :: name :: ls :: vals =>
    some ({ b with params := b.params ++ [({ name := untilde name, letters := lettersOf ls }, vals)] }, "ok")
  | ["b_build"] =>
    some (b, match b.dimHandles.mapM st.dim? with
      | none => "err"
      | some dl =>
        match DimSet.mk? dl with
        | none => "err"
        | some dims =>
          let d : MFADef := { dimLetters := b.defLetters.getD (dims.map (·.letter.toString)), processes := b.procs,
                              flows := b.flows, stocks := b.stocks, params := b.params.map (·.1) }
          -- parameter values: numbers, as many as the listed dimensions have entries
          let vals := b.params.mapM fun p => (p.2.mapM parseRat?).map fun qs => (p.1.name, qs.map showRat)
          match buildSystem? d dims b.naming, vals with
          | some sys, some pv =>
            if sys.params.all (fun p => ((pv.find? (·.1 == p.1)).map (·.2.length)) == some (DimSet.shape p.2).prod)
            then showSystem sys pv ++ " | D " ++ ",".intercalate (dims.map (·.letter.toString)) else "err"
          | _, _ => "err")
  | ["b_todfs"] =>
    some (b, match b.dimHandles.mapM st.dim? with
      | none => "err"
      | some dl =>
        let d : MFADef := { dimLetters := b.defLetters.getD (dl.map (·.letter.toString)), processes := b.procs,
                            flows := b.flows, stocks := b.stocks, params := b.params.map (·.1) }
        if !d.valid then "err" else
        "ok " ++ " || ".intercalate ((defTables dl d).map fun t =>
          s!"{t.1}: {",".intercalate t.2.1} | " ++ " ; ".intercalate (t.2.2.map fun r => ",".intercalate (r.map tilde))))
  | ["b_processes"] =>
    some (b, match makeProcesses? b.procs with
      | some ps => "ok " ++ ",".intercalate (ps.map fun p => s!"{tilde p.1}:{p.2.id}")
      | none => "err")
  | "b_dimfile" :: fmt :: name :: letter :: dt :: nr :: nc :: cells =>
    let cells := cells.filter (· != "")
    some (b, match letter.toList, nr.toNat?, nc.toNat? with
      | [l], some r, some c =>
        let dtype := if dt == "i" then DType.int else DType.str
        let grid : Option (List (List Cell)) :=
          if fmt == "csv" then
            -- cells are the texts in the file
            let texts := cells.map fun t => untilde (strDrop t 2)
            if texts.length ≠ r * c then none else some (csvCells (chunk texts c))
          else
            (cells.mapM parseCell?).bind fun cs => if cs.length ≠ r * c then none else some (chunk cs c)
        match grid.bind fun g => fromNp? g (untilde name) l dtype with
        | some d => "ok " ++ tilde (showDim d)
        | none => "err"
      | _, _, _ => "err")
  | _ => none

end Flodym.Driver
