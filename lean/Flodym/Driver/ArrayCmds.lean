import Flodym.Driver.Parse
/-!
# Driver commands for the array tier (streams `array-ops`, `index`, `dims`, `np-semantics`)
-/
namespace Flodym.Driver
open Flodym Flodym.FArr Flodym.DimSet

inductive Obj where
  | dim (d : Dim)
  | dset (ds : DimSet)
  | arr (x : FArr Rat)
  | nd (v : ND Rat)

structure Store where
  objs : List (Nat × Obj) := []

def Store.get? (s : Store) (h : Nat) : Option Obj := (s.objs.find? (·.1 == h)).map (·.2)
def Store.put (s : Store) (h : Nat) (o : Obj) : Store := { objs := (h, o) :: s.objs.filter (·.1 != h) }

def Store.dim? (s : Store) (t : String) : Option Dim := do
  match ← s.get? (← parseHandle? t) with | .dim d => some d | _ => none
def Store.dset? (s : Store) (t : String) : Option DimSet := do
  match ← s.get? (← parseHandle? t) with | .dset d => some d | _ => none
def Store.arr? (s : Store) (t : String) : Option (FArr Rat) := do
  match ← s.get? (← parseHandle? t) with | .arr x => some x | _ => none
def Store.nd? (s : Store) (t : String) : Option (ND Rat) := do
  match ← s.get? (← parseHandle? t) with | .nd x => some x | _ => none

def memoArr (x : FArr Rat) : FArr Rat := ⟨x.dims, x.values.memo 0⟩

def parseOperand? (s : Store) (t : String) : Option (Operand Rat) :=
  if strTake t 2 == "n:" then (parseRat? (strDrop t 2)).map Operand.num
  else (s.arr? t).map Operand.arr

def parseDimKey? (s : Store) (t : String) : Option DimKey :=
  if strTake t 2 == "k:" then some (.str (strDrop t 2))
  else if strTake t 2 == "d:" then (s.dim? (strDrop t 2)).map DimKey.dim
  else none

def parseSel? (s : Store) (t : String) : Option Sel :=
  let body := strDrop t 2
  match strTake t 2 with
  | "i:" => (parseItem? body).map Sel.item
  | "d:" => (s.dim? body).map Sel.dim
  | "l:" => (parseItems? body).map Sel.list
  | _ => none

def parseKey? (s : Store) (t : String) : Option Key :=
  if t == "E" then some .ellipsis
  else if t == "S" then some .slice
  else
    let body := strDrop t 2
    match strTake t 2 with
    | "I:" => (parseItem? body).map Key.single
    | "T:" => (parseItems? body).map Key.tuple
    | "K:" =>
      if body == "" then some (.dict []) else
      ((splitC body ';').mapM fun kv =>
        match splitC kv '=' with
        | [k, v] => (parseSel? s v).map fun sel => (k, sel)
        | _ => none).map Key.dict
    | _ => none

def parseNDLit? (t : String) : Option (ND Rat) :=
  match splitC t ':' with
  | ["nd", sh, vals] => do
    let shape ← parseShape? sh
    let vs ← if vals == "" then some [] else (splitC vals ',').mapM parseRat?
    if vs.length ≠ prodList shape then none else
    some (ND.ofFlat shape vs.toArray 0)
  | _ => none

def parseRhs? (s : Store) (t : String) : Option (Rhs Rat) :=
  if strTake t 2 == "n:" then (parseRat? (strDrop t 2)).map Rhs.num
  else if strTake t 3 == "nd:" then (parseNDLit? t).map Rhs.nd
  else match s.nd? t with
    | some v => some (Rhs.nd v)      -- an ndarray object: its *value* is assigned (a copy)
    | none => (s.arr? t).map Rhs.arr

def ratAbs (a : Rat) : Rat := if a < 0 then -a else a
def ratSign (a : Rat) : Rat := if 0 < a then 1 else if a < 0 then -1 else 0
/-- numpy `**` restricted to the exponents the generators use (non-negative integers) -/
def ratPow (a b : Rat) : Rat := if b.den = 1 ∧ 0 ≤ b.num then a ^ b.num.toNat else 0

/-- store a freshly computed array under handle `h` and print it -/
def putArr (s : Store) (h : String) (r : Option (FArr Rat)) : Store × String :=
  match parseHandle? h, r with
  | some hn, some x => let x := memoArr x; (s.put hn (.arr x), "ok " ++ showArr x)
  | _, _ => (s, "err")

def putDset (s : Store) (h : String) (r : Option DimSet) : Store × String :=
  match parseHandle? h, r with
  | some hn, some d => (s.put hn (.dset d), "ok " ++ showDimSet d)
  | _, _ => (s, "err")

def optStr {β : Type} (r : Option β) (f : β → String) : String :=
  match r with | some x => "ok " ++ f x | none => "err"

def dumpAll (s : Store) : String :=
  let objs := s.objs.reverse.filter (fun o => match o.2 with | .arr _ => true | .dset _ => true | _ => false)
  let sorted := objs.toArray.qsort (fun a b => a.1 < b.1) |>.toList
  "; ".intercalate (sorted.map fun (h, o) => match o with
    | .arr x => s!"${h}={showArr x}"
    | .dset d => s!"${h}={showDimSet d}"
    | _ => "")

def arrayStep (s : Store) (toks : List String) : Option (Store × String) :=
  match toks with
  | ["dim", h, d] =>
    some (match parseHandle? h, parseDim? d with
      | some hn, some dim => if dim.valid then (s.put hn (.dim dim), "ok") else (s, "err")
      | _, _ => (s, "err"))
  | "dset" :: h :: ds =>
    some (putDset s h ((ds.mapM s.dim?).bind DimSet.mk?))
  | "arr" :: h :: ds :: sh :: vals =>
    some (putArr s h (do
      let dims ← s.dset? ds
      let shape ← parseShape? sh
      let vs ← vals.mapM parseRat?
      if vs.length ≠ prodList shape then none else
      FArr.mk? dims (ND.ofFlat shape vs.toArray 0)))
  | ["full", h, ds, c] =>
    some (putArr s h (do some (FArr.full (← s.dset? ds) (← parseRat? c))))
  | ["scalar", h, c] => some (putArr s h ((parseRat? c).map FArr.scalar))
  | ["copy", h, x] => some (putArr s h (s.arr? x))
  | "sumto" :: h :: x :: ks => some (putArr s h (do (← s.arr? x).sumTo? (← ks.mapM (parseDimKey? s))))
  | "sumover" :: h :: x :: ks => some (putArr s h (do (← s.arr? x).sumOver? (← ks.mapM (parseDimKey? s))))
  | [op, h, x, y] =>
    let bin (f : FArr Rat → Operand Rat → Option (FArr Rat)) :=
      some (putArr s h (do f (← s.arr? x) (← parseOperand? s y)))
    let rnum (f : FArr Rat → Rat → Option (FArr Rat)) :=
      some (putArr s h (do f (← s.arr? x) (← parseRat? (strDrop y 2))))
    match op with
    | "add" => bin (addLike? (· + ·))
    | "sub" => bin (addLike? (· - ·))
    | "min" => bin (addLike? min)
    | "max" => bin (addLike? max)
    | "mul" => bin mul?
    | "div" => bin div?
    | "pow" => bin (pow? ratPow)
    | "radd" => rnum radd?
    | "rsub" => rnum rsub?
    | "rmul" => rnum rmul?
    | "rdiv" => rnum rdiv?
    | "castto" => some (putArr s h (do (← s.arr? x).castTo? (← s.dset? y)))
    | "cumsum" => some (putArr s h (do
        let l ← match y.toList with | [c] => some c | _ => none
        (← s.arr? x).cumsum? l))
    | "shares" => some (putArr s h (do (← s.arr? x).getSharesOver? (if y == "-" then [] else y.toList)))
    | "getitem" => some (putArr s h (do (← s.arr? x).getitem? (← parseKey? s y)))
    | _ => none
  | [op, h, x] =>
    let un (f : FArr Rat → Option (FArr Rat)) := some (putArr s h ((s.arr? x).bind f))
    match op with
    | "neg" => un neg?
    | "abs" => un (mapValues? ratAbs)
    | "absm" => un (mapValues? ratAbs)
    | "sign" => un (mapValues? ratSign)
    | _ => none
  | _ => none

def arrayStep2 (s : Store) (toks : List String) : Option (Store × String) :=
  match toks with
  | ["setitem", x, k, rhs] =>
    some (match parseHandle? x, (do (← s.arr? x).setitem? (← parseKey? s k) (← parseRhs? s rhs)) with
      | some hn, some nx => let nx := memoArr nx; (s.put hn (.arr nx), "ok " ++ showArr nx)
      | _, _ => (s, "err"))
  | ["setvalues", x, rhs] =>
    -- `x.set_values(ndarray)`: exact shape only
    some (match parseHandle? x, (do
        let a ← s.arr? x
        let v ← parseNDLit? rhs
        FArr.mk? a.dims v) with
      | some hn, some nx => (s.put hn (.arr (memoArr nx)), "ok " ++ showArr nx)
      | _, _ => (s, "err"))
  | ["split", x, k] =>
    some (s, optStr (do (← s.arr? x).split? k) fun ps =>
      " ;; ".intercalate (ps.map fun (it, a) => showItem it ++ " " ++ showArr (memoArr a)))
  | "stack" :: h :: d :: xs =>
    some (putArr s h (do FArr.stack? (← xs.mapM s.arr?) (← s.dim? d)))
  | ["itemswhere", x, cmp, c] =>
    some (s, optStr (do
      let a ← s.arr? x
      let q ← parseRat? c
      let f : Rat → Bool ← match cmp with
        | "lt" => some (fun v => decide (v < q))
        | "gt" => some (fun v => decide (q < v))
        | "ne" => some (fun v => v != q)
        | _ => none
      some (a.itemsWhere f)) fun rows =>
        "|".intercalate (rows.map fun r => ",".intercalate (r.map showItem)))
  | ["ndwrite", v, pos, c] =>
    -- modify an ndarray object in place: nothing else in the store may change
    some (match parseHandle? v, s.nd? v, pos.toNat?, parseRat? c with
      | some hn, some a, some p, some q =>
        let flat := a.toList.toArray
        if p < flat.size then
          let a' := ND.ofFlat a.shape (flat.set! p q) 0
          (s.put hn (.nd a'), "ok " ++ showND a')
        else (s, "err")
      | _, _, _, _ => (s, "err"))
  | ["dump", x] => some (s, optStr (s.arr? x) showArr)
  | ["dumpall"] => some (s, "ok " ++ dumpAll s)
  | _ => none

/-- dimension-set commands (stream `dims`) -/
def dimsStep (s : Store) (toks : List String) : Option (Store × String) :=
  match toks with
  | "ds" :: op :: args =>
    let bin (f : DimSet → DimSet → Option DimSet) : Option (Store × String) :=
      match args with
      | [h, a, b] => some (putDset s h (do f (← s.dset? a) (← s.dset? b)))
      | _ => none
    match op, args with
    | "union", _ => bin unionWith?
    | "inter", _ => bin (fun x y => some (intersectWith x y))
    | "diff", _ => bin (fun x y => some (differenceWith x y))
    | "xor", _ => bin xor?
    | "add", _ => bin add?
    | "subset", h :: a :: keys => some (putDset s h (do getSubset? (← s.dset? a) (some keys)))
    | "copy", [h, a] => some (putDset s h (s.dset? a))
    | "subsetnone", [h, a] => some (putDset s h (do getSubset? (← s.dset? a) none))
    | "expand", h :: a :: ds => some (putDset s h (do expandBy? (← s.dset? a) (← ds.mapM s.dim?)))
    | "expand!", a :: ds => some (putDset s a (do expandByInplace? (← s.dset? a) (← ds.mapM s.dim?)))
    | "append", [h, a, d] => some (putDset s h (do append? (← s.dset? a) (← s.dim? d)))
    | "append!", [a, d] => some (putDset s a (do appendInplace? (← s.dset? a) (← s.dim? d)))
    | "prepend", [h, a, d] => some (putDset s h (do prepend? (← s.dset? a) (← s.dim? d)))
    | "prepend!", [a, d] => some (putDset s a (do prependInplace? (← s.dset? a) (← s.dim? d)))
    | "insert", [h, a, i, d] => some (putDset s h (do insert? (← s.dset? a) (← i.toInt?) (← s.dim? d)))
    | "insert!", [a, i, d] => some (putDset s a (do insertInplace? (← s.dset? a) (← i.toInt?) (← s.dim? d)))
    | "drop", [h, a, k] => some (putDset s h (do (drop? (← s.dset? a) k).bind DimSet.mk?))
    | "drop!", [a, k] => some (putDset s a (do drop? (← s.dset? a) k))
    | "replace", [h, a, k, d] =>
      some (putDset s h (do (replace? (← s.dset? a) k (← s.dim? d)).bind DimSet.mk?))
    | "replace!", [a, k, d] => some (putDset s a (do replace? (← s.dset? a) k (← s.dim? d)))
    | "query", [a] =>
      -- everything the read-only interface reports, in one line
      some (s, optStr (s.dset? a) fun d =>
        s!"letters={String.ofList (letters d)} names={",".intercalate (names d)} shape={showShape (shape d)} ndim={ndim d} total={totalSize d} bool={!d.isEmpty}")
    | "lookup", [a, k] => some (s, optStr (do lookup? (← s.dset? a) k) showDim)
    | "getidx", [a, i] => some (s, optStr (do getIdx? (← s.dset? a) (← i.toInt?)) showDim)
    | "index", [a, k] => some (s, optStr (do index? (← s.dset? a) k) toString)
    | "size", [a, k] => some (s, optStr (do size? (← s.dset? a) k) toString)
    | "contains", [a, k] => some (s, optStr (s.dset? a) fun d => toString (contains d k))
    | "ofarr", [h, x] => some (putDset s h ((s.arr? x).map (·.dims)))
    | _, _ => none
  | _ => none

end Flodym.Driver
