import Flodym.Driver.Parse
import Flodym.Validators
import Flodym.Store
/-!
# Driver commands for the array tier (streams `array-ops`, `index`, `dims`, `np-semantics`)
-/
namespace Flodym.Driver
open Flodym Flodym.FArr Flodym.DimSet

/-- a numpy view: which buffer, its own shape, and where each of its entries lives in the buffer -/
structure View where
  buf : Nat
  shape : List Nat
  src : List Nat → List Nat

inductive Obj where
  | dim (d : Dim)
  | dset (ds : DimSet)
  | harr (dims : DimSet) (v : View)      -- a FlodymArray: its own dimension set, values = a view
  | nd (v : ND Rat)

/-- Tier 3 store: objects by handle, numpy buffers by identity. Results of operations get a fresh
buffer; the only flodym operations that return a *view* of their source are `sum_to`/`sum_over`
when nothing is summed (numpy's einsum returns a view for a pure transposition). -/
structure Store where
  objs : List (Nat × Obj) := []
  bufs : List (Nat × ND Rat) := []
  nextBuf : Nat := 0

def Store.get? (s : Store) (h : Nat) : Option Obj := (s.objs.find? (·.1 == h)).map (·.2)
def Store.put (s : Store) (h : Nat) (o : Obj) : Store := { s with objs := (h, o) :: s.objs.filter (·.1 != h) }
def Store.buf (s : Store) (b : Nat) : ND Rat := ((s.bufs.find? (·.1 == b)).map (·.2)).getD (ND.full [] 0)

def Store.readView (s : Store) (v : View) : ND Rat :=
  let base := s.buf v.buf
  { shape := v.shape, get := fun idx => base.get (v.src idx) }

/-- allocate a fresh buffer holding `a` -/
def Store.alloc (s : Store) (a : ND Rat) : Store × View :=
  let a := a.memo 0
  ({ s with bufs := (s.nextBuf, a) :: s.bufs, nextBuf := s.nextBuf + 1 },
   { buf := s.nextBuf, shape := a.shape, src := id })

/-- write new contents through a view into its buffer (in place): every array sharing the buffer
sees the change -/
def Store.writeView (s : Store) (v : View) (nv : ND Rat) : Store :=
  let base := s.buf v.buf
  let idxs := allIdx v.shape
  let nb : ND Rat := { shape := base.shape,
                        get := fun b => match idxs.find? (fun i => v.src i == b) with
                          | some i => nv.get i
                          | none => base.get b }
  { s with bufs := (v.buf, nb.memo 0) :: s.bufs.filter (·.1 != v.buf) }

def Store.dim? (s : Store) (t : String) : Option Dim := do
  match ← s.get? (← parseHandle? t) with | .dim d => some d | _ => none
def Store.dset? (s : Store) (t : String) : Option DimSet := do
  match ← s.get? (← parseHandle? t) with | .dset d => some d | _ => none
def Store.harr? (s : Store) (t : String) : Option (DimSet × View) := do
  match ← s.get? (← parseHandle? t) with | .harr d v => some (d, v) | _ => none
def Store.arr? (s : Store) (t : String) : Option (FArr Rat) := do
  let (d, v) ← s.harr? t
  some ⟨d, s.readView v⟩
def Store.nd? (s : Store) (t : String) : Option (ND Rat) := do
  match ← s.get? (← parseHandle? t) with | .nd x => some x | _ => none

/-- store an array under handle `hn` with a fresh buffer -/
def Store.putFresh (s : Store) (hn : Nat) (x : FArr Rat) : Store :=
  let (s1, v) := s.alloc x.values
  s1.put hn (.harr x.dims v)

def memoArr (x : FArr Rat) : FArr Rat := ⟨x.dims, x.values.memo 0⟩

def parseOperand? (s : Store) (t : String) : Option (Operand Rat) :=
  -- `n:` a Python number, `I:` a numpy integer scalar, `F:` a numpy float32 scalar: numbers all the same
  if strTake t 2 == "n:" || strTake t 2 == "I:" || strTake t 2 == "F:" then (parseRat? (strDrop t 2)).map Operand.num
  else (s.arr? t).map Operand.arr

def parseDimKey? (s : Store) (t : String) : Option DimKey :=
  if strTake t 2 == "k:" then some (.str (strDrop t 2))
  else if strTake t 2 == "d:" then (s.dim? (strDrop t 2)).map DimKey.dim
  else none

def parseSel? (s : Store) (t : String) : Option Sel :=
  let body := strDrop t 2
  match strTake t 2 with
  | "i:" => (parseItem? body).map Sel.item
  | "d:" => (s.dim? body).map Sel.dim
  | "l:" => (parseItems? body).map Sel.list
  | "g:" => (parseItems? body).map Sel.list      -- a one-shot iterable of the same items
  | _ => none

def parseKey? (s : Store) (t : String) : Option Key :=
  if t == "E" then some .ellipsis
  else if t == "S" then some .slice
  else
    let body := strDrop t 2
    match strTake t 2 with
    | "I:" => (parseItem? body).map Key.single
    | "T:" => (parseItems? body).map Key.tuple
    | "K:" =>
      if body == "" then some (.dict []) else
      ((splitC body ';').mapM fun kv =>
        match splitC kv '=' with
        | [k, v] => (parseSel? s v).map fun sel => (k, sel)
        | _ => none).map Key.dict
    | _ => none

def parseNDLit? (t : String) : Option (ND Rat) :=
  match splitC t ':' with
  | ["nd", sh, vals] => do
    let shape ← parseShape? sh
    let vs ← if vals == "" then some [] else (splitC vals ',').mapM parseRat?
    if vs.length ≠ prodList shape then none else
    some (ND.ofFlat shape vs.toArray 0)
  | _ => none

def parseRhs? (s : Store) (t : String) : Option (Rhs Rat) :=
  if strTake t 2 == "n:" then (parseRat? (strDrop t 2)).map Rhs.num
  else if strTake t 3 == "nd:" then (parseNDLit? t).map Rhs.nd
  else match s.nd? t with
    | some v => some (Rhs.nd v)      -- an ndarray object: its *value* is assigned (a copy)
    | none => (s.arr? t).map Rhs.arr

def ratAbs (a : Rat) : Rat := if a < 0 then -a else a
def ratSign (a : Rat) : Rat := if 0 < a then 1 else if a < 0 then -1 else 0
/-- numpy `**` restricted to the exponents the generators use (non-negative integers) -/
def ratPow (a b : Rat) : Rat := if b.den = 1 ∧ 0 ≤ b.num then a ^ b.num.toNat else 0

/-- store a freshly computed array under handle `h` and print it -/
def putArr (s : Store) (h : String) (r : Option (FArr Rat)) : Store × String :=
  match parseHandle? h, r with
  | some hn, some x => let x := memoArr x; (s.putFresh hn x, "ok " ++ showArr x)
  | _, _ => (s, "err")

/-- result of `sum_to` / `sum_over`: when nothing is summed numpy's einsum returns a transposed
*view* of the source's buffer; otherwise a fresh array -/
def putReduced (s : Store) (h x : String) (r : Option (FArr Rat)) : Store × String :=
  match parseHandle? h, r, s.harr? x with
  | some hn, some res, some (dx, vx) =>
    let res := memoArr res
    -- (a 0-d einsum result is a numpy scalar, re-wrapped by the constructor: no view)
    if res.dims.length == dx.length && dx.length != 0 then
      let lx := DimSet.letters dx
      let lr := DimSet.letters res.dims
      let view : View := { buf := vx.buf, shape := res.values.shape,
                           src := fun idx => vx.src (lx.map (bind lr idx Env.zero)) }
      (s.put hn (.harr res.dims view), "ok " ++ showArr res)
    else (s.putFresh hn res, "ok " ++ showArr res)
  | _, _, _ => (s, "err")

def putDset (s : Store) (h : String) (r : Option DimSet) : Store × String :=
  match parseHandle? h, r with
  | some hn, some d => (s.put hn (.dset d), "ok " ++ showDimSet d)
  | _, _ => (s, "err")

def optStr {β : Type} (r : Option β) (f : β → String) : String :=
  match r with | some x => "ok " ++ f x | none => "err"

def dumpAll (s : Store) : String :=
  let objs := s.objs.reverse.filter (fun o => match o.2 with | .harr _ _ => true | .dset _ => true | _ => false)
  let sorted := objs.toArray.qsort (fun a b => a.1 < b.1) |>.toList
  " ; ".intercalate (sorted.map fun (h, o) => match o with
    | .harr d v => s!"${h}={showArr (memoArr ⟨d, s.readView v⟩)}"
    | .dset d => s!"${h}={showDimSet d}"
    | _ => "")

def arrayStep (s : Store) (toks : List String) : Option (Store × String) :=
  match toks with
  | ["dim", h, d] =>
    some (match parseHandle? h, parseDim? d with
      | some hn, some dim => if dim.valid then (s.put hn (.dim dim), "ok") else (s, "err")
      | _, _ => (s, "err"))
  | ["dimfrom", h, src, d] =>
    -- a dimension derived from one in use (`model_copy(update={"items": …})`): the dimension the token describes
    some (match parseHandle? h, s.dim? src, parseDim? d with
      | some hn, some _, some dim => if dim.valid then (s.put hn (.dim dim), "ok") else (s, "err")
      | _, _, _ => (s, "err"))
  | "dset" :: h :: ds =>
    some (putDset s h ((ds.mapM s.dim?).bind DimSet.mk?))
  | "sarr" :: _ :: h :: ds :: sh :: vals =>
    -- a Parameter / StockArray / Flow: the same constructor contract as the base class
    some (putArr s h (do
      let dims ← s.dset? ds
      let shape ← parseShape? sh
      let vs ← vals.mapM parseRat?
      if vs.length ≠ prodList shape then none else
      FArr.mk? dims (ND.ofFlat shape vs.toArray 0)))
  | "iarr" :: h :: ds :: sh :: vals =>
    -- the same array, held with an integer dtype by the implementation
    some (putArr s h (do
      let dims ← s.dset? ds
      let shape ← parseShape? sh
      let vs ← vals.mapM parseRat?
      if vs.length ≠ prodList shape then none else
      FArr.mk? dims (ND.ofFlat shape vs.toArray 0)))
  | "arr" :: h :: ds :: sh :: vals =>
    some (putArr s h (do
      let dims ← s.dset? ds
      let shape ← parseShape? sh
      let vs ← vals.mapM parseRat?
      if vs.length ≠ prodList shape then none else
      FArr.mk? dims (ND.ofFlat shape vs.toArray 0)))
  | ["full", h, ds, c] =>
    some (putArr s h (do FArr.full? (← s.dset? ds) (← parseRat? c)))
  -- `full(dims, ndarray)` / `full_like(x, ndarray)` with an ndarray of the complete shape: a new
  -- array holding a copy of its values
  | ["fullnd", h, ds, v] => some (putArr s h (do FArr.mk? (← s.dset? ds) (← s.nd? v)))
  | ["fulllike", h, x, v] => some (putArr s h (do FArr.mk? (← s.arr? x).dims (← s.nd? v)))
  | ["scalar", h, c] => some (putArr s h ((parseRat? c).map FArr.scalar))
  | ["copy", h, x] => some (putArr s h (s.arr? x))
  | "sumto" :: h :: x :: ks => some (putReduced s h x (do (← s.arr? x).sumTo? (← ks.mapM (parseDimKey? s))))
  | "sumover" :: h :: x :: ks => some (putReduced s h x (do (← s.arr? x).sumOver? (← ks.mapM (parseDimKey? s))))
  | [op, h, x, y] =>
    let bin (f : FArr Rat → Operand Rat → Option (FArr Rat)) :=
      some (putArr s h (do f (← s.arr? x) (← parseOperand? s y)))
    let rnum (f : FArr Rat → Rat → Option (FArr Rat)) :=
      some (putArr s h (do f (← s.arr? x) (← parseRat? (strDrop y 2))))
    match op with
    | "add" => bin (addLike? (· + ·))
    | "sub" => bin (addLike? (· - ·))
    | "min" => bin (addLike? min)
    | "max" => bin (addLike? max)
    | "mul" => bin mul?
    | "div" =>
      -- numpy's inf/nan for a zero divisor is not modelled: both sides report `divzero`
      let zero := match parseOperand? s y with
        | some (.num c) => c == 0
        | some (.arr a) => a.values.toList.any (· == 0)
        | none => false
      if zero = true then some (s, "divzero") else bin div?
    | "pow" => bin (pow? ratPow)
    | "radd" => rnum radd?
    | "rsub" => rnum rsub?
    | "rmul" => rnum rmul?
    | "rdiv" =>
      if ((s.arr? x).map fun a => a.values.toList.any (· == 0)).getD false then some (s, "divzero")
      else rnum rdiv?
    | "castto" => some (putArr s h (do (← s.arr? x).castTo? (← s.dset? y)))
    | "cumsum" => some (putArr s h (do
        let l ← match y.toList with | [c] => some c | _ => none
        (← s.arr? x).cumsum? l))
    | "shares" =>
      let ls := if y == "-" then [] else y.toList
      let zero := match s.arr? x with
        | some a =>
          if ls.all (a.letters.contains ·) then
            if a.letters.all (ls.contains ·) then a.sumValues == 0
            else ((a.sumOver? (ls.map fun l => .str l.toString)).map fun t => t.values.toList.any (· == 0)).getD false
          else false
        | none => false
      if zero = true then some (s, "divzero") else
      some (putArr s h (do (← s.arr? x).getSharesOver? ls))
    | "getitem" => some (putArr s h (do (← s.arr? x).getitem? (← parseKey? s y)))
    | _ => none
  | [op, h, x] =>
    let un (f : FArr Rat → Option (FArr Rat)) := some (putArr s h ((s.arr? x).bind f))
    match op with
    | "neg" => un neg?
    | "abs" => un (mapValues? ratAbs)
    | "absm" => un (mapValues? ratAbs)
    | "sign" => un (mapValues? ratSign)
    | _ => none
  | _ => none

def arrayStep2 (s : Store) (toks : List String) : Option (Store × String) :=
  match toks with
  | ["setitem", x, k, rhs] =>
    some (match parseHandle? x, s.harr? x, parseKey? s k, parseRhs? s rhs with
      | some hn, some (d, v), some key, some r =>
        match (⟨d, s.readView v⟩ : FArr Rat).setitem? key r with
        | some nx =>
          let nx := memoArr nx
          -- `x[...] = ndarray` (and, D31, `x[{}] = …`, `x[()] = …`) goes through `set_values`, which rebinds `values` to the (copied)
          -- array; every other assignment writes into the existing buffer
          let rebinding := match r with | .nd _ => key.whole Gen.emptyKeyIsWholeArray | _ => false
          if rebinding then (s.putFresh hn nx, "ok " ++ showArr nx)
          else (s.writeView v nx.values, "ok " ++ showArr nx)
        | none => (s, "err")
      | _, _, _, _ => (s, "err"))
  | ["setvalues", x, rhs] =>
    -- `x.set_values(ndarray)`: exact shape only
    some (match parseHandle? x, (do
        let a ← s.arr? x
        let v ← parseNDLit? rhs
        FArr.mk? a.dims v) with
      | some hn, some nx => (s.putFresh hn (memoArr nx), "ok " ++ showArr nx)
      | _, _ => (s, "err"))
  | ["split", x, k] =>
    some (s, optStr (do (← s.arr? x).split? k) fun ps =>
      -- the parts are arrays of their own (fresh buffers): the harness's write-through probe finds them independent
      " ;; ".intercalate (ps.map fun (it, a) => showItem it ++ " " ++ showArr (memoArr a)) ++ " | independent")
  | "stack" :: h :: d :: xs =>
    some (putArr s h (do FArr.stack? (← xs.mapM s.arr?) (← s.dim? d)))
  | ["itemswhere", x, cmp, c] =>
    some (s, optStr (do
      let a ← s.arr? x
      let q ← parseRat? c
      let f : Rat → Bool ← match cmp with
        | "lt" => some (fun v => decide (v < q))
        | "gt" => some (fun v => decide (q < v))
        | "ne" => some (fun v => v != q)
        | _ => none
      some (a.itemsWhere f)) fun rows =>
        "|".intercalate (rows.map fun r => ",".intercalate (r.map showItem)))
  | ["ndwrite", v, pos, c] =>
    -- modify an ndarray object in place: nothing else in the store may change
    some (match parseHandle? v, s.nd? v, pos.toNat?, parseRat? c with
      | some hn, some a, some p, some q =>
        let flat := a.toList.toArray
        if p < flat.size then
          let a' := ND.ofFlat a.shape (flat.set! p q) 0
          (s.put hn (.nd a'), "ok " ++ showND a')
        else (s, "err")
      | _, _, _, _ => (s, "err"))
  | ["absi", x] =>
    -- `x.abs(inplace=True)`: `self.values = np.abs(self.values)` — the array gets a new buffer
    some (match parseHandle? x, s.arr? x with
      | some hn, some a =>
        let nx : FArr Rat := ⟨a.dims, (a.values.map ratAbs).memo 0⟩
        (s.putFresh hn nx, "ok " ++ showArr nx)
      | _, _ => (s, "err"))
  | ["signi", x] =>
    some (match parseHandle? x, s.arr? x with
      | some hn, some a =>
        let nx : FArr Rat := ⟨a.dims, (a.values.map ratSign).memo 0⟩
        (s.putFresh hn nx, "ok " ++ showArr nx)
      | _, _ => (s, "err"))
  | ["probe_write", x, pos, c] =>
    -- write into the values of one array (`x.values.flat[pos] = c`): only that array changes
    some (match s.harr? x, pos.toNat?, parseRat? c with
      | some (d, v), some p, some q =>
        let cur := s.readView v
        let flat := cur.toList.toArray
        if p < flat.size then
          let nv := ND.ofFlat cur.shape (flat.set! p q) 0
          (s.writeView v nv, "ok " ++ showArr ⟨d, nv⟩)
        else (s, "err")
      | _, _, _ => (s, "err"))
  | ["probe_dims", x, d] =>
    -- edit the dimension set of one array in place (`x.dims.append(d, inplace=True)`)
    some (match parseHandle? x, s.harr? x, s.dim? d with
      | some hn, some (dx, v), some dim =>
        match appendInplace? dx dim with
        | some ds => (s.put hn (.harr ds v), "ok " ++ showArr (memoArr ⟨ds, s.readView v⟩) ++ " | others_unaffected")
        | none => (s, "err")
      | _, _, _ => (s, "err"))
  | "mkstock" :: ds :: tl :: rest =>
    -- Stock(dims, time_letter, [inflow/outflow/stock arrays], [lifetime model dims]): accepted or refused
    some (s, match s.dset? ds, tl.toList with
      | some dims, [t] =>
        -- `a:$h`: wrapped into a StockArray over its own dimensions; `p:stock:$h`: a StockArray handed over as
        -- it is; `p:other:$h`: an object of another array class as it is (the fields are typed: refused)
        let arrs := (rest.filter (fun r => strTake r 2 == "a:") |>.map (fun r => (s.arr? (strDrop r 2)).map (·.dims))) ++
          (rest.filter (fun r => strTake r 8 == "p:stock:") |>.map (fun r => (s.arr? (strDrop r 8)).map (·.dims)))
        let lms := rest.filter (fun r => strTake r 2 == "l:") |>.map (fun r => s.dset? (strDrop r 2))
        if rest.any (fun r => strTake r 8 == "p:other:") then "err" else
        if arrs.any Option.isNone || lms.any Option.isNone then "err" else
        if stockAccepts dims t (arrs.filterMap id) (lms.filterMap id) then "ok" else "err"
      | _, _ => "err")
  | ["mklt", ds, tl, ia] =>
    some (s, match s.dset? ds, tl.toList with
      | some dims, [t] => if lifetimeAccepts dims t ia then "ok" else "err"
      | _, _ => "err")
  | ["mkltp", ds, tl, ia, x] =>
    -- a lifetime model whose mean is given as an array: it is cast to the model's dimensions (by letter)
    some (s, match s.dset? ds, tl.toList, s.arr? x with
      | some dims, [t], some a =>
        if lifetimeAccepts dims t ia && (a.castTo? dims).isSome then "ok" else "err"
      | _, _, _ => "err")
  | ["dump", x] => some (s, optStr (s.arr? x) showArr)
  | ["dumpall"] => some (s, "ok " ++ dumpAll s)
  | _ => none

/-- dimension-set commands (stream `dims`) -/
def dimsStep (s : Store) (toks : List String) : Option (Store × String) :=
  match toks with
  | "ds" :: op :: args =>
    let bin (f : DimSet → DimSet → Option DimSet) : Option (Store × String) :=
      match args with
      | [h, a, b] => some (putDset s h (do f (← s.dset? a) (← s.dset? b)))
      | _ => none
    match op, args with
    | "union", _ => bin unionWith?
    | "inter", _ => bin (fun x y => some (intersectWith x y))
    | "diff", _ => bin (fun x y => some (differenceWith x y))
    | "xor", _ => bin xor?
    | "add", _ => bin add?
    -- `Dimension + DimensionSet` (= the one-element set plus the other) and `Dimension + Dimension`
    | "dimadd", [h, d, b] => some (putDset s h (do add? [← s.dim? d] (← s.dset? b)))
    | "dimadd2", [h, d1, d2] => some (putDset s h (do DimSet.mk? [← s.dim? d1, ← s.dim? d2]))
    | "subset", h :: a :: keys => some (putDset s h (do getSubset? (← s.dset? a) (some keys)))
    | "subsetiter", h :: a :: keys => some (putDset s h (do getSubset? (← s.dset? a) (some keys)))
    | "copy", [h, a] => some (putDset s h (s.dset? a))
    | "subsetnone", [h, a] => some (putDset s h (do getSubset? (← s.dset? a) none))
    | "expand", h :: a :: ds => some (putDset s h (do expandBy? (← s.dset? a) (← ds.mapM s.dim?)))
    | "expand!", a :: ds => some (putDset s a (do expandByInplace? (← s.dset? a) (← ds.mapM s.dim?)))
    | "append", [h, a, d] => some (putDset s h (do append? (← s.dset? a) (← s.dim? d)))
    | "append!", [a, d] => some (putDset s a (do appendInplace? (← s.dset? a) (← s.dim? d)))
    | "prepend", [h, a, d] => some (putDset s h (do prepend? (← s.dset? a) (← s.dim? d)))
    | "prepend!", [a, d] => some (putDset s a (do prependInplace? (← s.dset? a) (← s.dim? d)))
    | "insert", [h, a, i, d] => some (putDset s h (do insert? (← s.dset? a) (← i.toInt?) (← s.dim? d)))
    | "insert!", [a, i, d] => some (putDset s a (do insertInplace? (← s.dset? a) (← i.toInt?) (← s.dim? d)))
    | "drop", [h, a, k] => some (putDset s h (do (drop? (← s.dset? a) k).bind DimSet.mk?))
    | "drop!", [a, k] => some (putDset s a (do drop? (← s.dset? a) k))
    | "replace", [h, a, k, d] =>
      some (putDset s h (do (replace? (← s.dset? a) k (← s.dim? d)).bind DimSet.mk?))
    | "replace!", [a, k, d] => some (putDset s a (do replace? (← s.dset? a) k (← s.dim? d)))
    | "query", [a] =>
      -- everything the read-only interface reports, in one line
      some (s, optStr (s.dset? a) fun d =>
        s!"letters={String.ofList (letters d)} names={",".intercalate (names d)} shape={showShape (shape d)} ndim={ndim d} total={totalSize d} bool={!d.isEmpty}")
    | "lookup", [a, k] => some (s, optStr (do lookup? (← s.dset? a) k) showDim)
    | "getidx", [a, i] => some (s, optStr (do getIdx? (← s.dset? a) (← i.toInt?)) showDim)
    | "index", [a, k] => some (s, optStr (do index? (← s.dset? a) k) toString)
    | "size", [a, k] => some (s, optStr (do size? (← s.dset? a) k) toString)
    | "contains", [a, k] => some (s, optStr (s.dset? a) fun d => toString (contains d k))
    | "ofarr", [h, x] => some (putDset s h ((s.arr? x).map (·.dims)))
    | _, _ => none
  | _ => none

end Flodym.Driver
