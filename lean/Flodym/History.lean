import FlodymGen.Constants
/-!
# Tier 3 (caches) — a lifetime model with cached tables inside a stock that is recomputed

`P` parameters, `T` tables, `D` driver arrays, `R` results. `tbl p` is the survival table for
parameters `p` (what `compute_survival_factor` builds), `pdfOf sf` the outflow table
(`compute_outflow_pdf`), `F d sf pdf` the results of `compute()` for driver `d`.
The transitions transcribe the properties `sf` / `pdf` (`if self._sf is None: …`), `set_prms`
(which tables it discards is regenerated from the source: `Gen.setPrmsResetsSf/Pdf`) and `compute`.
-/
namespace Flodym.Hist

structure HState (P T D R : Type) where
  prm : P
  sf : Option T := none
  pdf : Option T := none
  driver : D
  res : Option R := none

inductive HOp (P D : Type) where
  | setPrms (p : P)
  | setDriver (d : D)
  | readSf
  | readPdf
  | compute
  /-- a `set_prms` call that raises (one of the values cannot be cast to the model's dimensions).
  `p'` = the parameters the object would hold if the values converted before the failure had already
  been stored (the first parameter new, the second old) -/
  | setPrmsFailed (p' : P)

variable {P T D R : Type}

/-- the property `sf`: compute on first use, then reuse -/
def ensureSf (tbl : P → T) (s : HState P T D R) : HState P T D R × T :=
  match s.sf with
  | some t => (s, t)
  | none => ({ s with sf := some (tbl s.prm) }, tbl s.prm)

/-- the property `pdf`: built from `self.sf` on first use, then reused -/
def ensurePdf (tbl : P → T) (pdfOf : T → T) (s : HState P T D R) : HState P T D R × T :=
  match s.pdf with
  | some t => (s, t)
  | none =>
    let (s1, sf) := ensureSf tbl s
    ({ s1 with pdf := some (pdfOf sf) }, pdfOf sf)

def step (tbl : P → T) (pdfOf : T → T) (F : D → T → T → R) (resetSf resetPdf : Bool)
    (s : HState P T D R) : HOp P D → HState P T D R
  | .setPrms p => { s with prm := p, sf := if resetSf then none else s.sf,
                            pdf := if resetPdf then none else s.pdf }
  | .setDriver d => { s with driver := d }
  | .readSf => (ensureSf tbl s).1
  | .readPdf => (ensurePdf tbl pdfOf s).1
  | .compute =>
    let (s1, sf) := ensureSf tbl s
    let (s2, pdf) := ensurePdf tbl pdfOf s1
    { s2 with res := some (F s2.driver sf pdf) }
  | .setPrmsFailed _ => s      -- a refused call changes nothing (see `stepE` for the alternative)

/-- a freshly built object with the same inputs -/
def fresh (tbl : P → T) (pdfOf : T → T) (F : D → T → T → R) (p : P) (d : D) : R :=
  F d (tbl p) (pdfOf (tbl p))

/-! ## table builds that can fail

`tbl p = none`: the parameters are unusable and `compute_survival_factor` raises. `discard` says
whether the property then leaves no table behind (`Gen.failedBuildDiscarded`, regenerated from the
`try … except: self._sf = None; raise` in the source); otherwise the half-built table `junk` stays
in the cache (the code before D28: an array of zeros). Every operation also reports whether the
call returned (`true`) or raised (`false`). -/

def ensureSfE (tbl : P → Option T) (discard : Bool) (junk : T) (s : HState P T D R) :
    HState P T D R × Option T :=
  match s.sf with
  | some t => (s, some t)
  | none =>
    match tbl s.prm with
    | some t => ({ s with sf := some t }, some t)
    | none => (if discard then s else { s with sf := some junk }, none)

def ensurePdfE (tbl : P → Option T) (pdfOf : T → T) (discard : Bool) (junk : T) (s : HState P T D R) :
    HState P T D R × Option T :=
  match s.pdf with
  | some t => (s, some t)
  | none =>
    match ensureSfE tbl discard junk s with
    | (s1, some sf) => ({ s1 with pdf := some (pdfOf sf) }, some (pdfOf sf))
    | (s1, none) => (if discard then s1 else { s1 with pdf := some junk }, none)

def stepE (tbl : P → Option T) (pdfOf : T → T) (F : D → T → T → R) (resetSf resetPdf discard : Bool)
    (junk : T) (atomic : Bool) (s : HState P T D R) : HOp P D → HState P T D R × Bool
  -- `atomic` (`Gen.setPrmsAtomic`): every value is converted before any is stored; otherwise the
  -- failed call leaves the partly updated parameters behind, with the tables of the old ones (D32)
  | .setPrmsFailed p' => (if atomic then s else { s with prm := p' }, false)
  | .setPrms p => ({ s with prm := p, sf := if resetSf then none else s.sf,
                             pdf := if resetPdf then none else s.pdf }, true)
  | .setDriver d => ({ s with driver := d }, true)
  | .readSf => let r := ensureSfE tbl discard junk s; (r.1, r.2.isSome)
  | .readPdf => let r := ensurePdfE tbl pdfOf discard junk s; (r.1, r.2.isSome)
  | .compute =>
    match ensureSfE tbl discard junk s with
    | (s1, none) => (s1, false)
    | (s1, some sf) =>
      match ensurePdfE tbl pdfOf discard junk s1 with
      | (s2, none) => (s2, false)
      | (s2, some pdf) => ({ s2 with res := some (F s2.driver sf pdf) }, true)

/-- a freshly built object with the same inputs: its `compute` raises iff the table build does -/
def freshE (tbl : P → Option T) (pdfOf : T → T) (F : D → T → T → R) (p : P) (d : D) : Option R :=
  (tbl p).map fun sf => F d sf (pdfOf sf)

end Flodym.Hist
