import FlodymGen.Constants
/-!
# Tier 3 (caches) — a lifetime model with cached tables inside a stock that is recomputed

`P` parameters, `T` tables, `D` driver arrays, `R` results. `tbl p` is the survival table for
parameters `p` (what `compute_survival_factor` builds), `pdfOf sf` the outflow table
(`compute_outflow_pdf`), `F d sf pdf` the results of `compute()` for driver `d`.
The transitions transcribe the properties `sf` / `pdf` (`if self._sf is None: …`), `set_prms`
(which tables it discards is regenerated from the source: `Gen.setPrmsResetsSf/Pdf`) and `compute`.
-/
namespace Flodym.Hist

structure HState (P T D R : Type) where
  prm : P
  sf : Option T := none
  pdf : Option T := none
  driver : D
  res : Option R := none

inductive HOp (P D : Type) where
  | setPrms (p : P)
  | setDriver (d : D)
  | readSf
  | readPdf
  | compute

variable {P T D R : Type}

/-- the property `sf`: compute on first use, then reuse -/
def ensureSf (tbl : P → T) (s : HState P T D R) : HState P T D R × T :=
  match s.sf with
  | some t => (s, t)
  | none => ({ s with sf := some (tbl s.prm) }, tbl s.prm)

/-- the property `pdf`: built from `self.sf` on first use, then reused -/
def ensurePdf (tbl : P → T) (pdfOf : T → T) (s : HState P T D R) : HState P T D R × T :=
  match s.pdf with
  | some t => (s, t)
  | none =>
    let (s1, sf) := ensureSf tbl s
    ({ s1 with pdf := some (pdfOf sf) }, pdfOf sf)

def step (tbl : P → T) (pdfOf : T → T) (F : D → T → T → R) (resetSf resetPdf : Bool)
    (s : HState P T D R) : HOp P D → HState P T D R
  | .setPrms p => { s with prm := p, sf := if resetSf then none else s.sf,
                            pdf := if resetPdf then none else s.pdf }
  | .setDriver d => { s with driver := d }
  | .readSf => (ensureSf tbl s).1
  | .readPdf => (ensurePdf tbl pdfOf s).1
  | .compute =>
    let (s1, sf) := ensureSf tbl s
    let (s2, pdf) := ensurePdf tbl pdfOf s1
    { s2 with res := some (F s2.driver sf pdf) }

/-- a freshly built object with the same inputs -/
def fresh (tbl : P → T) (pdfOf : T → T) (F : D → T → T → R) (p : P) (d : D) : R :=
  F d (tbl p) (pdfOf (tbl p))

end Flodym.Hist
