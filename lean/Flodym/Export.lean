import Flodym.System
import Flodym.Table
import FlodymGen.IOSites
/-!
# Tier 4 — export (`export/data_writer.py`, `export/helper.py`), Sankey links (`export/sankey.py`)
and the line decomposition of the array plotters (`export/array_plotter.py`)
-/
namespace Flodym.Export
open Flodym DimSet

/-! ## file names -/

def isWordChar (c : Char) : Bool := c.isAlphanum || c == '_'
def isSpaceChar (c : Char) : Bool := c == ' ' || c == '\t' || c == '\n' || c == '\r' || c.toNat == 11 || c.toNat == 12

def stripDashUnderscore (l : List Char) : List Char :=
  let p : Char → Bool := fun c => c == '-' || c == '_'
  ((l.dropWhile p).reverse.dropWhile p).reverse

/-- `to_valid_file_name` on ASCII text (NFKD leaves ASCII alone; characters outside ASCII that have no
ASCII decomposition are dropped by `encode("ascii", "ignore")` — decompositions are not modelled) -/
def toValidFileName (s : String) : String :=
  let ascii := s.toList.filter (·.toNat < 128)
  let lowered := ascii.map Char.toLower
  let kept := lowered.filter fun c => isWordChar c || isSpaceChar c || c == '-'
  let repl := kept.map fun c => if c == '-' || isSpaceChar c then '_' else c
  String.ofList (stripDashUnderscore repl)

/-! ## the exported dictionary -/

structure MFA where
  dims : DimSet
  sys : SysM

structure ExportDict where
  dimensionNames : List (String × String)          -- letter ↦ name
  dimensionItems : List (String × List Item)       -- name ↦ items
  processes : List String
  flows : List (String × FArr FV)
  flowDimensions : List (String × List Char)
  flowProcesses : List (String × String × String)
  stocks : List (String × FArr FV)
  stockDimensions : List (String × List Char)
  stockProcesses : List (String × String)

/-- `convert_to_dict(mfa, "numpy")` -/
def convertToDict (m : MFA) : ExportDict :=
  { dimensionNames := m.dims.map fun d => (d.letter.toString, d.name),
    dimensionItems := m.dims.map fun d => (d.name, d.items),
    processes := m.sys.processes,
    flows := m.sys.flows.map fun f => (f.name, f.arr),
    flowDimensions := m.sys.flows.map fun f => (f.name, f.arr.letters),
    flowProcesses := m.sys.flows.map fun f => (f.name, f.fromP, f.toP),
    stocks := m.sys.stocks.map fun s => (s.name, s.stock),
    stockDimensions := m.sys.stocks.map fun s => (s.name, s.stock.letters),
    stockProcesses := m.sys.stocks.filterMap fun s => s.process.map fun p => (s.name, p) }

/-- the files `export_mfa_flows_to_csv` writes -/
def flowFiles (m : MFA) : List String := m.sys.flows.map fun f => toValidFileName f.name ++ ".csv"

/-- the files `export_mfa_stocks_to_csv` writes, with what each holds -/
def stockFiles (m : MFA) (withInAndOut : Bool) : List (String × FArr FV) :=
  m.sys.stocks.flatMap fun s =>
    -- quantity names as the source spells them (`Gen.stockCsvAttributes`)
    let q : Nat → String := fun i => Gen.stockCsvAttributes.getD i "?"
    [(toValidFileName s.name ++ "_" ++ q 0 ++ ".csv", s.stock)] ++
    (if withInAndOut then [(toValidFileName s.name ++ "_" ++ q 1 ++ ".csv", s.inflow),
                           (toValidFileName s.name ++ "_" ++ q 2 ++ ".csv", s.outflow)] else [])

/-! ## Sankey links -/

structure SankeyCfg where
  slice : List (String × Item) := []                 -- dimension letter ↦ item
  split : List (String × String × Nat) := []         -- flow name ↦ (dimension, number of colours given)
  excludeProcesses : List String := Gen.sankeyDefaultExclude
  excludeFlows : List String := []

structure Link where
  source : Nat
  target : Nat
  value : FV
  label : Table.Cell          -- the flow's name, or the item of the split dimension

def procId (m : MFA) (name : String) : Option Nat :=
  let i := m.sys.processes.idxOf name
  if i < m.sys.processes.length then some i else none

def shownProcesses (m : MFA) (cfg : SankeyCfg) : List String :=
  m.sys.processes.filter fun p => !(cfg.excludeProcesses.contains p)

def flowShown (cfg : SankeyCfg) (f : FlowM) : Bool :=
  !(cfg.excludeFlows.contains f.name || cfg.excludeProcesses.contains f.fromP || cfg.excludeProcesses.contains f.toP)

def sankeyFlows (m : MFA) (cfg : SankeyCfg) : List FlowM := m.sys.flows.filter (flowShown cfg)

/-- the validators of `PlotlySankeyPlotter` -/
def sankeyValid (m : MFA) (cfg : SankeyCfg) : Bool :=
  cfg.slice.all (fun kv => (letters m.dims).any (·.toString == kv.1)) &&
  cfg.excludeProcesses.all m.sys.processes.contains &&
  cfg.excludeFlows.all (fun f => m.sys.flows.any (·.name == f)) &&
  (sankeyFlows m cfg).all fun f =>
    match cfg.split.find? (·.1 == f.name) with
    | none => true
    | some (_, dimKey, ncol) =>
      (lookup? f.arr.dims dimKey).isSome &&
      match lookup? m.dims dimKey with
      | some d => decide (d.len ≤ ncol)
      | none => false

/-- `_append_flow` -/
def flowLinks? (m : MFA) (cfg : SankeyCfg) (f : FlowM) : Option (List Link) := do
  let shown := shownProcesses m cfg
  let idOf : String → Option Nat := fun p =>
    let i := shown.idxOf p
    if i < shown.length then some i else none
  let source ← idOf f.fromP
  let target ← idOf f.toP
  let sliceKvs := cfg.slice.filter fun kv => f.arr.letters.any (·.toString == kv.1)
  let fSlice ← f.arr.getitem? (.dict (sliceKvs.map fun kv => (kv.1, Sel.item kv.2)))
  match cfg.split.find? (·.1 == f.name) with
  | some (_, dimKey, ncol) =>
    let d ← lookup? m.dims dimKey
    let values ← fSlice.sumValuesToL? [d.letter]
    -- `zip(labels, colors, values)` stops at the shortest
    let n := min d.items.length (min ncol (values.shape.headD 0))
    some ((List.range n).map fun i =>
      { source := source, target := target, value := values.get [i], label := Table.Cell.ofItem (d.items.getD i default) })
  | none =>
    some [{ source := source, target := target, value := fSlice.sumValues, label := .str f.name }]

/-- `PlotlySankeyPlotter(...).plot()`: node labels and links -/
def sankey? (m : MFA) (cfg : SankeyCfg) : Option (List String × List Link) :=
  if !sankeyValid m cfg then none else
  ((sankeyFlows m cfg).mapM (flowLinks? m cfg)).map fun ls => (shownProcesses m cfg, ls.flatten)

/-! ## array plotters: which lines are drawn -/

structure PlotCfg where
  intra : String
  subplot : Option String := none
  linecolor : Option String := none

structure Line where
  subplot : Nat
  line : Nat
  label : Option Item
  x : List Table.Cell
  y : List Rat

/-- `check_dims` -/
def plotValid (a : FArr Rat) (cfg : PlotCfg) (xArr : Option (FArr Rat)) : Bool :=
  let given := [cfg.linecolor, cfg.subplot, some cfg.intra].filterMap id
  given.all (fun k => (lookup? a.dims k).isSome) &&
  (names a.dims).all (fun n => given.any fun k => ((lookup? a.dims k).map (·.name)) == some n) &&
  match xArr with
  | some x => (names x.dims).all fun n => (lookup? a.dims n).isSome
  | none => true

/-- `_dict_of_slices` -/
def slices? {α : Type} (a : FArr α) (k : Option String) : Option (List (Option Item × FArr α)) :=
  match k with
  | none => some [(none, a)]
  | some key => (a.split? key).map fun ps => ps.map fun p => (some p.1, p.2)

/-- the lines both plotters draw: for every subplot item and line item, x and y along the chosen
dimension. Without an x array the x-data are the dimension's items (the code casts the item array to
the array's dimensions and slices it like the values: by C07 every slice is the item list again) -/
def plotLines? (a : FArr Rat) (cfg : PlotCfg) (xArr : Option (FArr Rat)) : Option (List Line) := do
  if !plotValid a cfg xArr then none else
  let intraDim ← lookup? a.dims cfg.intra
  let xCast ← match xArr with
    | some x => (x.castTo? a.dims).map some
    | none => some none
  let subs ← slices? a cfg.subplot
  let xsubs ← match xCast with
    | some x => (slices? x cfg.subplot).map fun l => l.map fun p => some p.2
    | none => some (subs.map fun _ => none)
  let per ← (List.zip (List.range subs.length) (List.zip subs xsubs)).mapM fun (p : Nat × (Option Item × FArr Rat) × Option (FArr Rat)) => do
    let lines ← slices? p.2.1.2 cfg.linecolor
    let xlines ← match p.2.2 with
      | some x => (slices? x cfg.linecolor).map fun l => l.map fun q => some q.2
      | none => some (lines.map fun _ => none)
    (List.zip (List.range lines.length) (List.zip lines xlines)).mapM fun (q : Nat × (Option Item × FArr Rat) × Option (FArr Rat)) =>
      -- the assertion: exactly the intra-line dimension is left
      if names q.2.1.2.dims != [intraDim.name] then none else
      some ({ subplot := p.1, line := q.1, label := q.2.1.1,
              x := match q.2.2 with
                | some x => x.values.toList.map fun v => Table.Cell.num v true
                | none => intraDim.items.map Table.Cell.ofItem,
              y := q.2.1.2.values.toList } : Line)
  some per.flatten

end Flodym.Export
