import Flodym.Np.ND
import FlodymGen.Subscripts
import FlodymGen.Constants
/-!
# Tier 2 — `lifetime_models.py` and `stocks.py` over an arbitrary field `K`

Arrays are functions of the time index `t` (and cohort `c`) and of `j`, the position among the
flattened non-time label combinations: the einsum subscripts `"t...,t->t..."`,
`"c...,tc...->tc..."`, `"tc...,t->tc..."` (regenerated from the source, see `FlodymGen.Subscripts`)
act on every `j` separately — that is what the ellipsis means. The scipy survival functions are a
parameter `S` of the model (see DESIGN.md, trusted base).
-/
namespace Flodym.DSM

variable {K : Type} [Add K] [Sub K] [Mul K] [Div K] [OfNat K 0] [OfNat K 1]

/-! ## `UnevenTimeDim` -/

/-- `middle[k] = (items[k] + items[k+1]) / 2.0` -/
def mid (it : Nat → K) (k : Nat) : K := (it k + it (k + 1)) / (1 + 1)

/-- `compute_t_bounds`: midpoints, the first and last interval mirroring their neighbour
(`n` = number of time items, at least 3) -/
def bounds (it : Nat → K) (n : Nat) (k : Nat) : K :=
  if k = 0 then mid it 0 - (mid it 1 - mid it 0)
  else if k < n then mid it (k - 1)
  else mid it (n - 2) + (mid it (n - 2) - mid it (n - 3))

/-- `interval_lengths = np.diff(bounds)` -/
def dt (it : Nat → K) (n : Nat) (k : Nat) : K := bounds it n (k + 1) - bounds it n k

/-! ## the einsum patterns with an ellipsis used by the stock classes -/

inductive EllPattern where
  | scaleByT        -- "t...,t->t..."   : out[t,j]   = a[t,j]   * v[t]
  | cohort          -- "c...,tc...->tc...": out[t,c,j] = a[c,j]   * b[t,c,j]
  | cohortScaleByT  -- "tc...,t->tc..." : out[t,c,j] = a[t,c,j] * v[t]
deriving DecidableEq, Repr

/-- the meaning numpy gives to the literal subscripts found in the source; an unknown string is
not understood (the model, and with it every theorem that unfolds it, then fails to build) -/
def parsePattern (s : String) : Option EllPattern :=
  if s == "t...,t->t..." then some .scaleByT
  else if s == "c...,tc...->tc..." then some .cohort
  else if s == "tc...,t->tc..." then some .cohortScaleByT
  else none

def scaleByT (sub : String) (a : Nat → Nat → K) (v : Nat → K) : Nat → Nat → K :=
  match parsePattern sub with
  | some .scaleByT => fun t j => a t j * v t
  | _ => fun _ _ => 0

def cohortMul (sub : String) (a : Nat → Nat → K) (b : Nat → Nat → Nat → K) : Nat → Nat → Nat → K :=
  match parsePattern sub with
  | some .cohort => fun t c j => a c j * b t c j
  | _ => fun _ _ _ => 0

def cohortScaleByT (sub : String) (a : Nat → Nat → Nat → K) (v : Nat → K) : Nat → Nat → Nat → K :=
  match parsePattern sub with
  | some .cohortScaleByT => fun t c j => a t c j * v t
  | _ => fun _ _ _ => 0

/-- `_to_whole_period` / `_to_annual` -/
def toWholePeriod (it : Nat → K) (n : Nat) (a : Nat → Nat → K) : Nat → Nat → K :=
  scaleByT Gen.wholePeriodSub a (dt it n)
def toAnnual (it : Nat → K) (n : Nat) (a : Nat → Nat → K) : Nat → Nat → K :=
  scaleByT Gen.annualSub a (fun t => 1 / dt it n t)

/-! ## lifetime models -/

def sumList (l : List K) : K := l.foldr (· + ·) 0

/-- `_remaining_ages(m, eta)`: age at the end of year `t` of what entered cohort `c` at the
instant `eta` of its interval -/
def age (it : Nat → K) (n : Nat) (eta : K) (c t : Nat) : K :=
  bounds it n (t + 1) - (eta * bounds it n (c + 1) + (1 - eta) * bounds it n c)

/-- `compute_survival_factor`: `Sq q c t j` is what `_survival_by_year_id` returns for quadrature
point `q`, cohort `c`, year `t`, label `j`; `Q` = quadrature points and weights -/
def sfTable (Q : List (K × K)) (Sq : Nat → Nat → Nat → Nat → K) (t c j : Nat) : K :=
  if t < c then 0 else sumList ((List.range Q.length).map fun q => (Q.getD q (0, 0)).2 * Sq q c t j)

/-- `compute_outflow_pdf` -/
def pdfTable (sf : Nat → Nat → Nat → K) (t c j : Nat) : K :=
  if t < c then 0 else if t = c then 1 - sf c c j else sf (t - 1) c j - sf t c j

/-! ## stocks -/

/-- sum over cohorts `.sum(axis=1)` -/
def sumCohorts (n : Nat) (a : Nat → Nat → Nat → K) (t j : Nat) : K := sumRange n (fun c => a t c j)

structure DsmResult (K : Type) where
  stock : Nat → Nat → K
  inflow : Nat → Nat → K
  outflow : Nat → Nat → K
  stockByCohort : Nat → Nat → Nat → K
  outflowByCohort : Nat → Nat → Nat → K

/-- `DynamicStockModel._compute_outflow` (repaired form, D1) -/
def computeOutflow (it : Nat → K) (n : Nat) (inflow : Nat → Nat → K) (pdf : Nat → Nat → Nat → K) :
    (Nat → Nat → Nat → K) × (Nat → Nat → K) :=
  let inflowPerPeriod := toWholePeriod it n inflow
  let obcPerPeriod := cohortMul Gen.outflowCohortSub inflowPerPeriod pdf
  let obc := cohortScaleByT Gen.outflowAnnualSub obcPerPeriod (fun t => 1 / dt it n t)
  (obc, sumCohorts n obc)

/-- `InflowDrivenDSM.compute`, given the survival table and the outflow table the lifetime model
hands out (`lifetime_model.sf`, `lifetime_model.pdf`) -/
def inflowDrivenWith (it : Nat → K) (n : Nat) (inflow : Nat → Nat → K) (sf pdf : Nat → Nat → Nat → K) :
    DsmResult K :=
  let inflowPerPeriod := toWholePeriod it n inflow
  let sbc := cohortMul Gen.stockCohortSub inflowPerPeriod sf
  let (obc, outflow) := computeOutflow it n inflow pdf
  { stock := sumCohorts n sbc, inflow := inflow, outflow := outflow,
    stockByCohort := sbc, outflowByCohort := obc }

/-- `InflowDrivenDSM.compute` with the outflow table derived from the survival table -/
def inflowDriven (it : Nat → K) (n : Nat) (inflow : Nat → Nat → K) (sf : Nat → Nat → Nat → K) :
    DsmResult K :=
  inflowDrivenWith it n inflow sf (pdfTable sf)

/-- `_compute_inflow_manual`: forward substitution, row by row; `fuel` rows are computed -/
def inflowWholePeriodManual (stock : Nat → Nat → K) (sf : Nat → Nat → Nat → K) (j : Nat) :
    Nat → List K
  | 0 => []
  | i + 1 =>
    let prev := inflowWholePeriodManual stock sf j i
    let s := sumList ((List.range i).map fun c => sf i c j * prev.getD c 0)
    prev ++ [(stock i j - s) / sf i i j]

/-- the whole-period inflow found by the manual solver, as a table -/
def sdInflowWP (n : Nat) (stock : Nat → Nat → K) (sf : Nat → Nat → Nat → K) : Nat → Nat → K :=
  fun t j => (inflowWholePeriodManual stock sf j n).getD t 0

/-- the rest of `StockDrivenDSM.compute`, given the whole-period inflow `iwp` and the tables -/
def stockDrivenFromWith (it : Nat → K) (n : Nat) (stock : Nat → Nat → K) (sf pdf : Nat → Nat → Nat → K)
    (iwp : Nat → Nat → K) : DsmResult K :=
  let inflow := toAnnual it n iwp
  let sbc := cohortMul Gen.sdCohortSub (toWholePeriod it n inflow) sf
  let (obc, outflow) := computeOutflow it n inflow pdf
  { stock := stock, inflow := inflow, outflow := outflow, stockByCohort := sbc, outflowByCohort := obc }

def stockDrivenFrom (it : Nat → K) (n : Nat) (stock : Nat → Nat → K) (sf : Nat → Nat → Nat → K)
    (iwp : Nat → Nat → K) : DsmResult K :=
  stockDrivenFromWith it n stock sf (pdfTable sf) iwp

/-- `StockDrivenDSM.compute` with the manual solver -/
def stockDriven (it : Nat → K) (n : Nat) (stock : Nat → Nat → K) (sf : Nat → Nat → Nat → K) :
    DsmResult K :=
  stockDrivenFrom it n stock sf (sdInflowWP n stock sf)

/-- `SimpleFlowDrivenStock.compute`: cumulative net inflow over whole periods -/
def flowDrivenStock (it : Nat → K) (n : Nat) (inflow outflow : Nat → Nat → K) (t j : Nat) : K :=
  sumRange (t + 1) (fun s => toWholePeriod it n (fun t j => inflow t j - outflow t j) s j)

/-- `get_stock_balance` (repaired form, D2): dt·(inflow − outflow) − (stock(t) − stock(t−1)) -/
def stockBalance (it : Nat → K) (n : Nat) (stock inflow outflow : Nat → Nat → K) (t j : Nat) : K :=
  toWholePeriod it n (fun t j => inflow t j - outflow t j) t j
    - (stock t j - (if t = 0 then 0 else stock (t - 1) j))

/-! ## `check_stock_balance` -/

inductive BalanceVerdict where
  | ok | note | raise
deriving DecidableEq, Repr

section check
variable [LT K] [DecidableLT K] [Neg K]

def absK (a : K) : K := if a < 0 then -a else a
def maxK (a b : K) : K := if a < b then b else a

/-- `np.max(np.abs(balance).sum(axis=0))` over `n` time steps and `m` label columns -/
def balanceAggregate (n m : Nat) (bal : Nat → Nat → K) : K :=
  ((List.range m).map fun j => sumRange n (fun t => absK (bal t j))).foldl maxK 0

/-- `check_stock_balance` with the thresholds found in the source (`Gen.stockBalanceRaise`,
`Gen.stockBalanceNote`, passed in as elements of `K`) -/
def checkStockBalance (thrRaise thrNote : K) (n m : Nat) (bal : Nat → Nat → K) : BalanceVerdict :=
  let agg := balanceAggregate n m bal
  if thrRaise < agg then .raise else if thrNote < agg then .note else .ok

end check

end Flodym.DSM
