import Flodym.SubArray
import FlodymGen.Constants
/-!
# Tier 4 — `mfa_system.py`: mass balance, default tolerance, `check_mass_balance`, `check_flows`

Values are `FV`: a rational or NaN with IEEE-like propagation (NaN absorbs in + − ×, every
comparison with NaN is false). The balance of a process is computed exactly as the Python does:
contribution lists in dict order, then Python's `sum()` — a left fold that starts from the integer
0 through `__radd__` — using the array arithmetic of Tier 1 (so dimensions are matched by label).
-/
namespace Flodym

inductive FV where
  | num (q : Rat)
  | nan
deriving DecidableEq, Repr, Inhabited

namespace FV
instance : Add FV := ⟨fun a b => match a, b with | .num x, .num y => .num (x + y) | _, _ => .nan⟩
instance : Sub FV := ⟨fun a b => match a, b with | .num x, .num y => .num (x - y) | _, _ => .nan⟩
instance : Mul FV := ⟨fun a b => match a, b with | .num x, .num y => .num (x * y) | _, _ => .nan⟩
instance : Div FV := ⟨fun a b => match a, b with | .num x, .num y => .num (x / y) | _, _ => .nan⟩
instance : Neg FV := ⟨fun a => match a with | .num x => .num (-x) | .nan => .nan⟩
instance : OfNat FV 0 := ⟨.num 0⟩
instance : OfNat FV 1 := ⟨.num 1⟩

def abs : FV → FV
  | .num x => .num (if x < 0 then -x else x)
  | .nan => .nan

/-- `a > b` on floats: false when either is NaN -/
def gt : FV → FV → Bool
  | .num x, .num y => decide (y < x)
  | _, _ => false

/-- `a <= b` on floats: false when either is NaN -/
def le : FV → FV → Bool
  | .num x, .num y => decide (x ≤ y)
  | _, _ => false

def lt (a b : FV) : Bool := gt b a

def isNan : FV → Bool
  | .nan => true
  | _ => false
end FV

/-- `np.max(a)`: NaN if any entry is NaN, else the largest entry; `none` for an empty array
(numpy raises) -/
def npMaxStep (cur y : FV) : FV :=
  if cur.isNan then cur else if y.isNan then y else if y.gt cur then y else cur

def npMax (l : List FV) : Option FV :=
  match l with
  | [] => none
  | x :: xs => some (xs.foldl npMaxStep x)

/-- Python's builtin `max(iterable, default=d)` on floats: keeps the current maximum unless the next
element compares greater (a NaN is kept or dropped depending on its position) -/
def pyMax (l : List FV) (dflt : FV) : FV :=
  match l with
  | [] => dflt
  | x :: xs => xs.foldl (fun cur y => if y.gt cur then y else cur) x

structure FlowM where
  name : String
  fromP : String
  toP : String
  arr : FArr FV

structure StockM where
  name : String
  process : Option String
  stock : FArr FV
  inflow : FArr FV
  outflow : FArr FV

structure SysM where
  processes : List String
  flows : List FlowM
  stocks : List StockM

/-- Python's `sum(parts)`: `0 + parts[0]` goes through `__radd__` (= `parts[0] + 0`), then `+` -/
def pySum (parts : List (FArr FV)) : Option (FArr FV) :=
  match parts with
  | [] => some (FArr.scalar 0)          -- repaired form (D13): an empty list is a zero balance
  | p :: ps => do
    let first ← FArr.radd? p 0
    ps.foldlM (fun acc q => FArr.addLike? (· + ·) acc (.arr q)) first

/-- append `x` to the contribution list of process `p`; `none` = KeyError -/
def addContribution (cs : List (String × List (FArr FV))) (p : String) (x : FArr FV) :
    Option (List (String × List (FArr FV))) :=
  if cs.any (·.1 == p) then some (cs.map fun c => if c.1 == p then (c.1, c.2 ++ [x]) else c) else none

/-- `_get_mass_balance`: contributions per process (dict order), then summed -/
def massBalance (sys : SysM) : Option (List (String × FArr FV)) := do
  let init : List (String × List (FArr FV)) := sys.processes.map (·, [])
  let afterFlows ← sys.flows.foldlM (fun cs f => do
      let neg ← FArr.neg? f.arr
      let cs1 ← addContribution cs f.fromP neg
      addContribution cs1 f.toP f.arr) init
  let afterStocks ← sys.stocks.foldlM (fun cs st =>
      match st.process with
      | none => some cs
      | some p => do
        let change ← FArr.addLike? (· - ·) st.inflow (.arr st.outflow)
        let negChange ← FArr.neg? change
        let cs1 ← addContribution cs p negChange
        addContribution cs1 Gen.sysenvName change) afterFlows
  afterStocks.mapM fun c => (pySum c.2).map fun b => (c.1, b)

/-- `np.max(np.abs(a.values))` -/
def maxAbs (a : FArr FV) : Option FV := npMax (a.values.toList.map FV.abs)

/-- `_max_abs(values)` (D33 repair): the largest absolute entry among those that are numbers, 0 if none -/
def maxAbsNoNan (a : FArr FV) : FV :=
  pyMax ((a.values.toList.filter (fun v => !v.isNan)).map FV.abs) 0

/-- the magnitude of one flow / stock as the tolerance sees it (`Gen.toleranceIgnoresNan`, regenerated) -/
def magnitude (a : FArr FV) : Option FV :=
  if Gen.toleranceIgnoresNan then some (maxAbsNoNan a) else maxAbs a

/-- `_absolute_float_precision` (repaired form, D11): eps × max(largest |flow|, largest |stock|),
with 0 for an empty collection -/
def absoluteFloatPrecision (eps : FV) (sys : SysM) : Option FV := do
  let fl ← sys.flows.mapM (fun f => magnitude f.arr)
  let st ← sys.stocks.mapM (fun s => magnitude s.stock)
  -- without `default=0.0` Python's max raises on an empty list
  if !Gen.toleranceDefaultsZero && (fl.isEmpty || st.isEmpty) then none else
  let mf := pyMax fl 0
  let ms := pyMax st 0
  some (eps * (if ms.gt mf then ms else mf))

inductive CheckOutcome where
  | ok
  | raised
  | warned (names : List String)
  | crashed            -- an exception other than the check's own ValueError
deriving DecidableEq, Repr

/-- `check_mass_balance(tolerance, raise_error)`; `factor` is the regenerated constant 100 -/
def checkMassBalance (factor eps : FV) (sys : SysM) (tol : Option FV) (raiseError : Bool) : CheckOutcome :=
  match (match tol with | some t => some t | none => (absoluteFloatPrecision eps sys).map (factor * ·)) with
  | none => .crashed
  | some tolerance =>
    match massBalance sys with
    | none => .crashed
    | some balances =>
      match balances.mapM (fun b => (maxAbs b.2).map fun e => (b.1, e)) with
      | none => .crashed
      | some errs =>
        -- repaired form (D12): `not e <= tolerance`, so a NaN balance is a failure
        let failed := errs.filter (fun e =>
          if Gen.massBalanceNanFails then !(e.2.le tolerance) else e.2.gt tolerance)
        if failed.isEmpty then .ok
        else if raiseError then .raised else .warned (failed.map (·.1))

/-- the flows `check_flows` looks at: not excepted by their own name nor by one of their processes -/
def shownFlows (sys : SysM) (exceptions : List String) : List FlowM :=
  (sys.flows.filter (fun f => !(exceptions.contains f.name))).filter
    (fun f => !(exceptions.contains f.fromP) && !(exceptions.contains f.toP))

def nanFlows (fl : List FlowM) : List FlowM := fl.filter (fun f => f.arr.values.toList.any FV.isNan)
def negFlows (tolerance : FV) (fl : List FlowM) : List FlowM :=
  fl.filter (fun f => f.arr.values.toList.any (fun v => v.lt (-tolerance)))

/-- `check_flows(exceptions, raise_error)` -/
def checkFlows (factor eps : FV) (sys : SysM) (exceptions : List String) (raiseError : Bool) : CheckOutcome :=
  let flows := shownFlows sys exceptions
  if raiseError && !(nanFlows flows).isEmpty then .raised else
  match absoluteFloatPrecision eps sys with
  | none => .crashed
  | some p =>
    if raiseError && !(negFlows (factor * p) flows).isEmpty then .raised else
    let flagged := (nanFlows flows).map (·.name) ++ (negFlows (factor * p) flows).map (·.name)
    if flagged.isEmpty then .ok else .warned flagged

end Flodym
