import Flodym.Np.ND
import Flodym.Np.Index
import Flodym.Dims
import Flodym.Array
import Flodym.SubArray
import Flodym.Stocks
import Flodym.History
import Flodym.Store
