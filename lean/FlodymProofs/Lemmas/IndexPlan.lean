import FlodymProofs.Lemmas.Core
/-!
# Layer A — what numpy's indexing rule does with the index tuples flodym builds (core Lean only)

`DSel` says what a key asks of one dimension; `S : List DSel` is aligned with the dimension list.
The theorems unfold the model of numpy's placement rule (`indexPlan`) for the two regimes flodym
produces: only ints and slices (basic indexing), or — whenever a list is present — ints and the
components of one `np.ix_` call.
-/
namespace Flodym
open DimSet

/-- what a key asks of one dimension -/
inductive DSel where
  | keep                              -- not mentioned: `slice(None)`
  | item (p : Nat)                    -- a single item, at position p
  | sub (d' : Dim) (ps : List Nat)    -- a subset `Dimension` d' (or list) whose items sit at positions ps
deriving Inhabited

def DSel.toIx : DSel → Ix
  | .keep => .all
  | .item p => .int p
  | .sub _ ps => .list ps

def DSel.isSub : DSel → Bool
  | .sub _ _ => true
  | _ => false

/-- the selector is meaningful for dimension `d` -/
def DSel.OK (d : Dim) : DSel → Prop
  | .keep => True
  | .item p => p < d.len
  | .sub d' ps => ps.length = d'.len ∧ ∀ p ∈ ps, p < d.len

/-- dimensions of the result: single selections dropped, subset selections replaced -/
def outDims : DimSet → List DSel → DimSet
  | d :: D, .keep :: S => d :: outDims D S
  | _ :: D, .item _ :: S => outDims D S
  | _ :: D, .sub d' _ :: S => d' :: outDims D S
  | _, _ => []

/-- the source index tuple addressed by the result labels `e` -/
def liftIdx : DimSet → List DSel → Env → List Nat
  | d :: D, .keep :: S, e => e d.letter :: liftIdx D S e
  | _ :: D, .item p :: S, e => p :: liftIdx D S e
  | _ :: D, .sub d' ps :: S, e => ps.getD (e d'.letter) 0 :: liftIdx D S e
  | _, _, _ => []

def SelsOK : DimSet → List DSel → Prop
  | d :: D, s :: S => s.OK d ∧ SelsOK D S
  | [], [] => True
  | _, _ => False

theorem SelsOK.length : ∀ {D : DimSet} {S : List DSel}, SelsOK D S → S.length = D.length
  | [], [], _ => rfl
  | _ :: D, _ :: S, h => by simp [SelsOK.length (D := D) (S := S) h.2]
  | [], _ :: _, h => by cases h
  | _ :: _, [], h => by cases h

/-! ## regime 1: no subset/list selector — basic indexing -/

theorem basic_inBounds : ∀ (D : DimSet) (S : List DSel), SelsOK D S → (∀ s ∈ S, s.isSub = false) →
    ixInBounds (S.map DSel.toIx) (DimSet.shape D) = true
  | [], [], _, _ => rfl
  | d :: D, s :: S, h, hn => by
    have ih := basic_inBounds D S h.2 (fun s' hs' => hn s' (by simp [hs']))
    simp only [ixInBounds, List.map_cons, DimSet.shape, List.zipWith_cons_cons, List.all_cons,
      Bool.and_eq_true] at ih ⊢
    refine ⟨?_, ih⟩
    cases s with
    | keep => rfl
    | item p => simpa [DSel.toIx, DSel.OK, ixOk] using h.1
    | sub d' ps => have := hn (.sub d' ps) (by simp); simp [DSel.isSub] at this
  | [], _ :: _, h, _ => by cases h
  | _ :: _, [], h, _ => by cases h

theorem basic_noArr (S : List DSel) (hn : ∀ s ∈ S, s.isSub = false) :
    (S.map DSel.toIx).any Ix.isArr = false := by
  rw [List.any_eq_false]
  intro ix hix
  obtain ⟨s, hs, rfl⟩ := List.mem_map.mp hix
  cases s with
  | keep => simp [DSel.toIx, Ix.isArr]
  | item p => simp [DSel.toIx, Ix.isArr]
  | sub d' ps => have := hn _ hs; simp [DSel.isSub] at this

theorem basic_bshape (S : List DSel) (hn : ∀ s ∈ S, s.isSub = false) :
    bshape (S.map DSel.toIx) = some [] := by
  unfold bshape
  have h1 : listLens (S.map DSel.toIx) = [] := by
    unfold listLens
    rw [List.filterMap_eq_nil_iff]
    intro ix hix
    obtain ⟨s, hs, rfl⟩ := List.mem_map.mp hix
    cases s with
    | keep => rfl
    | item p => rfl
    | sub d' ps => have := hn _ hs; simp [DSel.isSub] at this
  have h2 : meshInfos (S.map DSel.toIx) = [] := by
    unfold meshInfos
    rw [List.filterMap_eq_nil_iff]
    intro ix hix
    obtain ⟨s, hs, rfl⟩ := List.mem_map.mp hix
    cases s <;> rfl
  rw [h1, h2]

theorem basic_sliceLens : ∀ (D : DimSet) (S : List DSel), SelsOK D S → (∀ s ∈ S, s.isSub = false) →
    sliceLens (S.map DSel.toIx) (DimSet.shape D) = DimSet.shape (outDims D S)
  | [], [], _, _ => rfl
  | d :: D, s :: S, h, hn => by
    have ih := basic_sliceLens D S h.2 (fun s' hs' => hn s' (by simp [hs']))
    unfold sliceLens at ih ⊢
    cases s with
    | keep =>
      simp only [List.map_cons, DimSet.shape, List.zipWith_cons_cons, DSel.toIx, List.filterMap_cons, outDims]
      simp only [DimSet.shape] at ih
      rw [ih]
    | item p =>
      simp only [List.map_cons, DimSet.shape, List.zipWith_cons_cons, DSel.toIx, List.filterMap_cons, outDims]
      simp only [DimSet.shape] at ih
      rw [ih]
    | sub d' ps => have := hn (.sub d' ps) (by simp); simp [DSel.isSub] at this
  | [], _ :: _, h, _ => by cases h
  | _ :: _, [], h, _ => by cases h

theorem basic_src : ∀ (D : DimSet) (S : List DSel) (e : Env), SelsOK D S → (∀ s ∈ S, s.isSub = false) →
    srcBasic (S.map DSel.toIx) ((letters (outDims D S)).map e) = liftIdx D S e
  | [], [], _, _, _ => rfl
  | d :: D, s :: S, e, h, hn => by
    have ih := basic_src D S e h.2 (fun s' hs' => hn s' (by simp [hs']))
    cases s with
    | keep =>
      simp only [List.map_cons, DSel.toIx, outDims, letters, srcBasic, liftIdx]
      simp only [letters] at ih
      rw [ih]
    | item p =>
      simp only [List.map_cons, DSel.toIx, outDims, srcBasic, liftIdx]
      rw [ih]
    | sub d' ps => have := hn (.sub d' ps) (by simp); simp [DSel.isSub] at this
  | [], _ :: _, _, h, _ => by cases h
  | _ :: _, [], _, h, _ => by cases h

/-- basic indexing: the plan numpy follows for ints and slices -/
theorem indexPlan_basic (D : DimSet) (S : List DSel) (h : SelsOK D S)
    (hn : ∀ s ∈ S, s.isSub = false) :
    ∃ p, indexPlan (DimSet.shape D) (S.map DSel.toIx) = some p ∧
      p.shape = DimSet.shape (outDims D S) ∧
      ∀ e, p.src ((letters (outDims D S)).map e) = liftIdx D S e := by
  refine ⟨{ shape := sliceLens (S.map DSel.toIx) (DimSet.shape D), src := srcBasic (S.map DSel.toIx) },
    ?_, basic_sliceLens D S h hn, fun e => basic_src D S e h hn⟩
  unfold indexPlan
  have hlen : (S.map DSel.toIx).length = (DimSet.shape D).length := by
    simp [DimSet.shape, h.length]
  simp only [hlen, ne_eq, not_true_eq_false, if_false, basic_inBounds D S h hn, Bool.not_true,
    Bool.false_eq_true, basic_bshape S hn, basic_noArr S hn, Bool.not_false, if_true]

end Flodym

namespace Flodym
open DimSet SubArray

/-! ## regime 2: at least one subset/list selector — ints and `np.ix_` meshes only -/

/-- the index tuple after `_convert_lists_to_meshgrid` -/
def meshIxs (n : Nat) : DimSet → List DSel → Nat → List Ix
  | d :: D, .keep :: S, k => .mesh (List.range d.len) k n :: meshIxs n D S (k + 1)
  | _ :: D, .item p :: S, k => .int p :: meshIxs n D S k
  | _ :: D, .sub _ ps :: S, k => .mesh ps k n :: meshIxs n D S (k + 1)
  | _, _, _ => []

/-- slices turned into full lists -/
def listIxs : DimSet → List DSel → List Ix
  | d :: D, .keep :: S => .list (List.range d.len) :: listIxs D S
  | _ :: D, .item p :: S => .int p :: listIxs D S
  | _ :: D, .sub _ ps :: S => .list ps :: listIxs D S
  | _, _ => []

theorem zipWith_listIxs : ∀ (D : DimSet) (S : List DSel), SelsOK D S →
    fullLists D (S.map DSel.toIx) = listIxs D S
  | [], [], _ => rfl
  | d :: D, s :: S, h => by
    have ih := zipWith_listIxs D S h.2
    unfold fullLists at ih ⊢
    cases s <;> simp only [List.map_cons, List.zipWith_cons_cons, DSel.toIx, listIxs, ih]
  | [], _ :: _, h => by cases h
  | _ :: _, [], h => by cases h

theorem meshGo_listIxs (n : Nat) : ∀ (D : DimSet) (S : List DSel) (k : Nat), SelsOK D S →
    meshGo n (listIxs D S) k = meshIxs n D S k
  | [], [], _, _ => rfl
  | d :: D, s :: S, k, h => by
    cases s with
    | keep => simp only [listIxs, meshGo, meshIxs, meshGo_listIxs n D S (k + 1) h.2]
    | item p => simp only [listIxs, meshGo, meshIxs, meshGo_listIxs n D S k h.2]
    | sub d' ps => simp only [listIxs, meshGo, meshIxs, meshGo_listIxs n D S (k + 1) h.2]
  | [], _ :: _, _, h => by cases h
  | _ :: _, [], _, h => by cases h

theorem count_lists_listIxs : ∀ (D : DimSet) (S : List DSel), SelsOK D S →
    ((listIxs D S).filter isListIx).length = (outDims D S).length
  | [], [], _ => rfl
  | d :: D, s :: S, h => by
    have ih := count_lists_listIxs D S h.2
    cases s <;> simp [listIxs, outDims, List.filter_cons, isListIx, ih]
  | [], _ :: _, h => by cases h
  | _ :: _, [], h => by cases h

theorem any_list_of_sub : ∀ (S : List DSel), (∃ s ∈ S, s.isSub = true) →
    (S.map DSel.toIx).any isListIx = true := by
  intro S ⟨s, hs, hsub⟩
  rw [List.any_eq_true]
  refine ⟨s.toIx, List.mem_map_of_mem hs, ?_⟩
  cases s with
  | sub d' ps => rfl
  | keep => simp [DSel.isSub] at hsub
  | item p => simp [DSel.isSub] at hsub

/-- what `_convert_lists_to_meshgrid` produces when a list is present -/
theorem convertMesh_eq (D : DimSet) (S : List DSel) (h : SelsOK D S) (hs : ∃ s ∈ S, s.isSub = true) :
    convertMesh D (S.map DSel.toIx) = meshIxs (outDims D S).length D S 0 := by
  unfold convertMesh
  rw [if_pos (any_list_of_sub S hs)]
  rw [zipWith_listIxs D S h, count_lists_listIxs D S h, meshGo_listIxs _ D S 0 h]

theorem mesh_inBounds (n : Nat) : ∀ (D : DimSet) (S : List DSel) (k : Nat), SelsOK D S →
    ixInBounds (meshIxs n D S k) (DimSet.shape D) = true
  | [], [], _, _ => rfl
  | d :: D, s :: S, k, h => by
    cases s with
    | keep =>
      have ih := mesh_inBounds n D S (k + 1) h.2
      simp only [ixInBounds, meshIxs, DimSet.shape, List.map_cons, List.zipWith_cons_cons,
        List.all_cons, Bool.and_eq_true] at ih ⊢
      refine ⟨?_, ih⟩
      show (List.range d.len).all (fun x => decide (x < d.len)) = true
      rw [List.all_eq_true]
      intro x hx
      simpa using hx
    | item p =>
      have ih := mesh_inBounds n D S k h.2
      simp only [ixInBounds, meshIxs, DimSet.shape, List.map_cons, List.zipWith_cons_cons,
        List.all_cons, Bool.and_eq_true] at ih ⊢
      exact ⟨by simpa [DSel.OK, ixOk] using h.1, ih⟩
    | sub d' ps =>
      have ih := mesh_inBounds n D S (k + 1) h.2
      simp only [ixInBounds, meshIxs, DimSet.shape, List.map_cons, List.zipWith_cons_cons,
        List.all_cons, Bool.and_eq_true] at ih ⊢
      refine ⟨?_, ih⟩
      have := h.1.2
      simpa [ixOk, List.all_eq_true] using this
  | [], _ :: _, _, h => by cases h
  | _ :: _, [], _, h => by cases h

theorem mesh_listLens (n : Nat) : ∀ (D : DimSet) (S : List DSel) (k : Nat),
    listLens (meshIxs n D S k) = []
  | [], _, _ => by cases ‹List DSel› <;> rfl
  | _ :: _, [], _ => rfl
  | d :: D, s :: S, k => by
    cases s with
    | keep => simpa [meshIxs, listLens] using mesh_listLens n D S (k + 1)
    | item p => simpa [meshIxs, listLens] using mesh_listLens n D S k
    | sub d' ps => simpa [meshIxs, listLens] using mesh_listLens n D S (k + 1)

theorem mesh_meshInfos (n : Nat) : ∀ (D : DimSet) (S : List DSel) (k : Nat), SelsOK D S →
    (meshInfos (meshIxs n D S k)).map (·.1) = DimSet.shape (outDims D S) ∧
    (meshInfos (meshIxs n D S k)).map (·.2.1) = List.range' k (outDims D S).length ∧
    ∀ m ∈ meshInfos (meshIxs n D S k), m.2.2 = n
  | [], [], _, _ => ⟨rfl, rfl, fun _ hm => by cases hm⟩
  | d :: D, s :: S, k, h => by
    cases s with
    | keep =>
      obtain ⟨h1, h2, h3⟩ := mesh_meshInfos n D S (k + 1) h.2
      refine ⟨?_, ?_, ?_⟩
      · simp only [meshIxs, meshInfos, List.filterMap_cons, List.map_cons, outDims, DimSet.shape]
        simp only [meshInfos, DimSet.shape] at h1
        rw [h1]; simp [Dim.len]
      · simp only [meshIxs, meshInfos, List.filterMap_cons, List.map_cons, outDims, List.length_cons,
          List.range'_succ]
        simp only [meshInfos] at h2
        rw [h2]
      · intro m hm
        simp only [meshIxs, meshInfos, List.filterMap_cons, List.mem_cons] at hm
        rcases hm with rfl | hm
        · rfl
        · exact h3 m hm
    | item p =>
      obtain ⟨h1, h2, h3⟩ := mesh_meshInfos n D S k h.2
      exact ⟨by simpa [meshIxs, meshInfos, outDims] using h1,
             by simpa [meshIxs, meshInfos, outDims] using h2,
             by simpa [meshIxs, meshInfos] using h3⟩
    | sub d' ps =>
      obtain ⟨h1, h2, h3⟩ := mesh_meshInfos n D S (k + 1) h.2
      refine ⟨?_, ?_, ?_⟩
      · simp only [meshIxs, meshInfos, List.filterMap_cons, List.map_cons, outDims, DimSet.shape]
        simp only [meshInfos, DimSet.shape] at h1
        rw [h1, h.1.1]
      · simp only [meshIxs, meshInfos, List.filterMap_cons, List.map_cons, outDims, List.length_cons,
          List.range'_succ]
        simp only [meshInfos] at h2
        rw [h2]
      · intro m hm
        simp only [meshIxs, meshInfos, List.filterMap_cons, List.mem_cons] at hm
        rcases hm with rfl | hm
        · rfl
        · exact h3 m hm
  | [], _ :: _, _, h => by cases h
  | _ :: _, [], _, h => by cases h

end Flodym
