import FlodymProofs.Lemmas.Core
/-!
# Layer A — what numpy's indexing rule does with the index tuples flodym builds (core Lean only)

`DSel` says what a key asks of one dimension; `S : List DSel` is aligned with the dimension list.
The theorems unfold the model of numpy's placement rule (`indexPlan`) for the two regimes flodym
produces: only ints and slices (basic indexing), or — whenever a list is present — ints and the
components of one `np.ix_` call.
-/
namespace Flodym
open DimSet

/-- what a key asks of one dimension -/
inductive DSel where
  | keep                              -- not mentioned: `slice(None)`
  | item (p : Nat)                    -- a single item, at position p
  | sub (d' : Dim) (ps : List Nat)    -- a subset `Dimension` d' (or list) whose items sit at positions ps
deriving Inhabited, DecidableEq

def DSel.toIx : DSel → Ix
  | .keep => .all
  | .item p => .int p
  | .sub _ ps => .list ps

def DSel.isSub : DSel → Bool
  | .sub _ _ => true
  | _ => false

/-- the selector is meaningful for dimension `d` -/
def DSel.OK (d : Dim) : DSel → Prop
  | .keep => True
  | .item p => p < d.len
  | .sub d' ps => ps.length = d'.len ∧ ∀ p ∈ ps, p < d.len

/-- dimensions of the result: single selections dropped, subset selections replaced -/
def outDims : DimSet → List DSel → DimSet
  | d :: D, .keep :: S => d :: outDims D S
  | _ :: D, .item _ :: S => outDims D S
  | _ :: D, .sub d' _ :: S => d' :: outDims D S
  | _, _ => []

/-- the source index tuple addressed by the result labels `e` -/
def liftIdx : DimSet → List DSel → Env → List Nat
  | d :: D, .keep :: S, e => e d.letter :: liftIdx D S e
  | _ :: D, .item p :: S, e => p :: liftIdx D S e
  | _ :: D, .sub d' ps :: S, e => ps.getD (e d'.letter) 0 :: liftIdx D S e
  | _, _, _ => []

def SelsOK : DimSet → List DSel → Prop
  | d :: D, s :: S => s.OK d ∧ SelsOK D S
  | [], [] => True
  | _, _ => False

instance (d : Dim) : (s : DSel) → Decidable (s.OK d)
  | .keep => isTrue trivial
  | .item p => inferInstanceAs (Decidable (p < d.len))
  | .sub d' ps => inferInstanceAs (Decidable (ps.length = d'.len ∧ ∀ p ∈ ps, p < d.len))

instance : (D : DimSet) → (S : List DSel) → Decidable (SelsOK D S)
  | [], [] => isTrue trivial
  | d :: D, s :: S =>
    have : Decidable (SelsOK D S) := instDecidableSelsOK D S
    inferInstanceAs (Decidable (s.OK d ∧ SelsOK D S))
  | [], _ :: _ => isFalse (fun h => h)
  | _ :: _, [] => isFalse (fun h => h)

theorem SelsOK.length : ∀ {D : DimSet} {S : List DSel}, SelsOK D S → S.length = D.length
  | [], [], _ => rfl
  | _ :: D, _ :: S, h => by simp [SelsOK.length (D := D) (S := S) h.2]
  | [], _ :: _, h => by cases h
  | _ :: _, [], h => by cases h

/-! ## regime 1: no subset/list selector — basic indexing -/

theorem basic_inBounds : ∀ (D : DimSet) (S : List DSel), SelsOK D S → (∀ s ∈ S, s.isSub = false) →
    ixInBounds (S.map DSel.toIx) (DimSet.shape D) = true
  | [], [], _, _ => rfl
  | d :: D, s :: S, h, hn => by
    have ih := basic_inBounds D S h.2 (fun s' hs' => hn s' (by simp [hs']))
    simp only [ixInBounds, List.map_cons, DimSet.shape, List.zipWith_cons_cons, List.all_cons,
      Bool.and_eq_true] at ih ⊢
    refine ⟨?_, ih⟩
    cases s with
    | keep => rfl
    | item p => simpa [DSel.toIx, DSel.OK, ixOk] using h.1
    | sub d' ps => have := hn (.sub d' ps) (by simp); simp [DSel.isSub] at this
  | [], _ :: _, h, _ => by cases h
  | _ :: _, [], h, _ => by cases h

theorem basic_noArr (S : List DSel) (hn : ∀ s ∈ S, s.isSub = false) :
    (S.map DSel.toIx).any Ix.isArr = false := by
  rw [List.any_eq_false]
  intro ix hix
  obtain ⟨s, hs, rfl⟩ := List.mem_map.mp hix
  cases s with
  | keep => simp [DSel.toIx, Ix.isArr]
  | item p => simp [DSel.toIx, Ix.isArr]
  | sub d' ps => have := hn _ hs; simp [DSel.isSub] at this

theorem basic_bshape (S : List DSel) (hn : ∀ s ∈ S, s.isSub = false) :
    bshape (S.map DSel.toIx) = some [] := by
  unfold bshape
  have h1 : listLens (S.map DSel.toIx) = [] := by
    unfold listLens
    rw [List.filterMap_eq_nil_iff]
    intro ix hix
    obtain ⟨s, hs, rfl⟩ := List.mem_map.mp hix
    cases s with
    | keep => rfl
    | item p => rfl
    | sub d' ps => have := hn _ hs; simp [DSel.isSub] at this
  have h2 : meshInfos (S.map DSel.toIx) = [] := by
    unfold meshInfos
    rw [List.filterMap_eq_nil_iff]
    intro ix hix
    obtain ⟨s, hs, rfl⟩ := List.mem_map.mp hix
    cases s <;> rfl
  rw [h1, h2]

theorem basic_sliceLens : ∀ (D : DimSet) (S : List DSel), SelsOK D S → (∀ s ∈ S, s.isSub = false) →
    sliceLens (S.map DSel.toIx) (DimSet.shape D) = DimSet.shape (outDims D S)
  | [], [], _, _ => rfl
  | d :: D, s :: S, h, hn => by
    have ih := basic_sliceLens D S h.2 (fun s' hs' => hn s' (by simp [hs']))
    unfold sliceLens at ih ⊢
    cases s with
    | keep =>
      simp only [List.map_cons, DimSet.shape, List.zipWith_cons_cons, DSel.toIx, List.filterMap_cons, outDims]
      simp only [DimSet.shape] at ih
      rw [ih]
    | item p =>
      simp only [List.map_cons, DimSet.shape, List.zipWith_cons_cons, DSel.toIx, List.filterMap_cons, outDims]
      simp only [DimSet.shape] at ih
      rw [ih]
    | sub d' ps => have := hn (.sub d' ps) (by simp); simp [DSel.isSub] at this
  | [], _ :: _, h, _ => by cases h
  | _ :: _, [], h, _ => by cases h

theorem basic_src : ∀ (D : DimSet) (S : List DSel) (e : Env), SelsOK D S → (∀ s ∈ S, s.isSub = false) →
    srcBasic (S.map DSel.toIx) ((letters (outDims D S)).map e) = liftIdx D S e
  | [], [], _, _, _ => rfl
  | d :: D, s :: S, e, h, hn => by
    have ih := basic_src D S e h.2 (fun s' hs' => hn s' (by simp [hs']))
    cases s with
    | keep =>
      simp only [List.map_cons, DSel.toIx, outDims, letters, srcBasic, liftIdx]
      simp only [letters] at ih
      rw [ih]
    | item p =>
      simp only [List.map_cons, DSel.toIx, outDims, srcBasic, liftIdx]
      rw [ih]
    | sub d' ps => have := hn (.sub d' ps) (by simp); simp [DSel.isSub] at this
  | [], _ :: _, _, h, _ => by cases h
  | _ :: _, [], _, h, _ => by cases h

/-- basic indexing: the plan numpy follows for ints and slices -/
theorem indexPlan_basic (D : DimSet) (S : List DSel) (h : SelsOK D S)
    (hn : ∀ s ∈ S, s.isSub = false) :
    ∃ p, indexPlan (DimSet.shape D) (S.map DSel.toIx) = some p ∧
      p.shape = DimSet.shape (outDims D S) ∧
      ∀ e, p.src ((letters (outDims D S)).map e) = liftIdx D S e := by
  refine ⟨{ shape := sliceLens (S.map DSel.toIx) (DimSet.shape D), src := srcBasic (S.map DSel.toIx) },
    ?_, basic_sliceLens D S h hn, fun e => basic_src D S e h hn⟩
  unfold indexPlan
  have hlen : (S.map DSel.toIx).length = (DimSet.shape D).length := by
    simp [DimSet.shape, h.length]
  simp only [hlen, ne_eq, not_true_eq_false, if_false, basic_inBounds D S h hn, Bool.not_true,
    Bool.false_eq_true, basic_bshape S hn, basic_noArr S hn, Bool.not_false, if_true]

end Flodym

namespace Flodym
open DimSet SubArray

/-! ## regime 2: at least one subset/list selector — ints and `np.ix_` meshes only -/

/-- the index tuple after `_convert_lists_to_meshgrid` -/
def meshIxs (n : Nat) : DimSet → List DSel → Nat → List Ix
  | d :: D, .keep :: S, k => .mesh (List.range d.len) k n :: meshIxs n D S (k + 1)
  | _ :: D, .item p :: S, k => .int p :: meshIxs n D S k
  | _ :: D, .sub _ ps :: S, k => .mesh ps k n :: meshIxs n D S (k + 1)
  | _, _, _ => []

/-- slices turned into full lists -/
def listIxs : DimSet → List DSel → List Ix
  | d :: D, .keep :: S => .list (List.range d.len) :: listIxs D S
  | _ :: D, .item p :: S => .int p :: listIxs D S
  | _ :: D, .sub _ ps :: S => .list ps :: listIxs D S
  | _, _ => []

theorem zipWith_listIxs : ∀ (D : DimSet) (S : List DSel), SelsOK D S →
    fullLists D (S.map DSel.toIx) = listIxs D S
  | [], [], _ => rfl
  | d :: D, s :: S, h => by
    have ih := zipWith_listIxs D S h.2
    unfold fullLists at ih ⊢
    cases s <;> simp only [List.map_cons, List.zipWith_cons_cons, DSel.toIx, listIxs, ih]
  | [], _ :: _, h => by cases h
  | _ :: _, [], h => by cases h

theorem meshGo_listIxs (n : Nat) : ∀ (D : DimSet) (S : List DSel) (k : Nat), SelsOK D S →
    meshGo n (listIxs D S) k = meshIxs n D S k
  | [], [], _, _ => rfl
  | d :: D, s :: S, k, h => by
    cases s with
    | keep => simp only [listIxs, meshGo, meshIxs, meshGo_listIxs n D S (k + 1) h.2]
    | item p => simp only [listIxs, meshGo, meshIxs, meshGo_listIxs n D S k h.2]
    | sub d' ps => simp only [listIxs, meshGo, meshIxs, meshGo_listIxs n D S (k + 1) h.2]
  | [], _ :: _, _, h => by cases h
  | _ :: _, [], _, h => by cases h

theorem count_lists_listIxs : ∀ (D : DimSet) (S : List DSel), SelsOK D S →
    ((listIxs D S).filter isListIx).length = (outDims D S).length
  | [], [], _ => rfl
  | d :: D, s :: S, h => by
    have ih := count_lists_listIxs D S h.2
    cases s <;> simp [listIxs, outDims, List.filter_cons, isListIx, ih]
  | [], _ :: _, h => by cases h
  | _ :: _, [], h => by cases h

theorem any_list_of_sub : ∀ (S : List DSel), (∃ s ∈ S, s.isSub = true) →
    (S.map DSel.toIx).any isListIx = true := by
  intro S ⟨s, hs, hsub⟩
  rw [List.any_eq_true]
  refine ⟨s.toIx, List.mem_map_of_mem hs, ?_⟩
  cases s with
  | sub d' ps => rfl
  | keep => simp [DSel.isSub] at hsub
  | item p => simp [DSel.isSub] at hsub

/-- what `_convert_lists_to_meshgrid` produces when a list is present -/
theorem convertMesh_eq (D : DimSet) (S : List DSel) (h : SelsOK D S) (hs : ∃ s ∈ S, s.isSub = true) :
    convertMesh D (S.map DSel.toIx) = meshIxs (outDims D S).length D S 0 := by
  unfold convertMesh
  rw [if_pos (any_list_of_sub S hs)]
  rw [zipWith_listIxs D S h, count_lists_listIxs D S h, meshGo_listIxs _ D S 0 h]

theorem mesh_inBounds (n : Nat) : ∀ (D : DimSet) (S : List DSel) (k : Nat), SelsOK D S →
    ixInBounds (meshIxs n D S k) (DimSet.shape D) = true
  | [], [], _, _ => rfl
  | d :: D, s :: S, k, h => by
    cases s with
    | keep =>
      have ih := mesh_inBounds n D S (k + 1) h.2
      simp only [ixInBounds, meshIxs, DimSet.shape, List.map_cons, List.zipWith_cons_cons,
        List.all_cons, Bool.and_eq_true] at ih ⊢
      refine ⟨?_, ih⟩
      show (List.range d.len).all (fun x => decide (x < d.len)) = true
      rw [List.all_eq_true]
      intro x hx
      simpa using hx
    | item p =>
      have ih := mesh_inBounds n D S k h.2
      simp only [ixInBounds, meshIxs, DimSet.shape, List.map_cons, List.zipWith_cons_cons,
        List.all_cons, Bool.and_eq_true] at ih ⊢
      exact ⟨by simpa [DSel.OK, ixOk] using h.1, ih⟩
    | sub d' ps =>
      have ih := mesh_inBounds n D S (k + 1) h.2
      simp only [ixInBounds, meshIxs, DimSet.shape, List.map_cons, List.zipWith_cons_cons,
        List.all_cons, Bool.and_eq_true] at ih ⊢
      refine ⟨?_, ih⟩
      have := h.1.2
      simpa [ixOk, List.all_eq_true] using this
  | [], _ :: _, _, h => by cases h
  | _ :: _, [], _, h => by cases h

theorem mesh_listLens (n : Nat) : ∀ (D : DimSet) (S : List DSel) (k : Nat),
    listLens (meshIxs n D S k) = []
  | [], _, _ => by cases ‹List DSel› <;> rfl
  | _ :: _, [], _ => rfl
  | d :: D, s :: S, k => by
    cases s with
    | keep => simpa [meshIxs, listLens] using mesh_listLens n D S (k + 1)
    | item p => simpa [meshIxs, listLens] using mesh_listLens n D S k
    | sub d' ps => simpa [meshIxs, listLens] using mesh_listLens n D S (k + 1)

theorem mesh_meshInfos (n : Nat) : ∀ (D : DimSet) (S : List DSel) (k : Nat), SelsOK D S →
    (meshInfos (meshIxs n D S k)).map (·.1) = DimSet.shape (outDims D S) ∧
    (meshInfos (meshIxs n D S k)).map (·.2.1) = List.range' k (outDims D S).length ∧
    ∀ m ∈ meshInfos (meshIxs n D S k), m.2.2 = n
  | [], [], _, _ => ⟨rfl, rfl, fun _ hm => by cases hm⟩
  | d :: D, s :: S, k, h => by
    cases s with
    | keep =>
      obtain ⟨h1, h2, h3⟩ := mesh_meshInfos n D S (k + 1) h.2
      refine ⟨?_, ?_, ?_⟩
      · simp only [meshIxs, meshInfos, List.filterMap_cons, List.map_cons, outDims, DimSet.shape]
        simp only [meshInfos, DimSet.shape] at h1
        rw [h1]; simp [Dim.len]
      · simp only [meshIxs, meshInfos, List.filterMap_cons, List.map_cons, outDims, List.length_cons,
          List.range'_succ]
        simp only [meshInfos] at h2
        rw [h2]
      · intro m hm
        simp only [meshIxs, meshInfos, List.filterMap_cons, List.mem_cons] at hm
        rcases hm with rfl | hm
        · rfl
        · exact h3 m hm
    | item p =>
      obtain ⟨h1, h2, h3⟩ := mesh_meshInfos n D S k h.2
      exact ⟨by simpa [meshIxs, meshInfos, outDims] using h1,
             by simpa [meshIxs, meshInfos, outDims] using h2,
             by simpa [meshIxs, meshInfos] using h3⟩
    | sub d' ps =>
      obtain ⟨h1, h2, h3⟩ := mesh_meshInfos n D S (k + 1) h.2
      refine ⟨?_, ?_, ?_⟩
      · simp only [meshIxs, meshInfos, List.filterMap_cons, List.map_cons, outDims, DimSet.shape]
        simp only [meshInfos, DimSet.shape] at h1
        rw [h1, h.1.1]
      · simp only [meshIxs, meshInfos, List.filterMap_cons, List.map_cons, outDims, List.length_cons,
          List.range'_succ]
        simp only [meshInfos] at h2
        rw [h2]
      · intro m hm
        simp only [meshIxs, meshInfos, List.filterMap_cons, List.mem_cons] at hm
        rcases hm with rfl | hm
        · rfl
        · exact h3 m hm
  | [], _ :: _, _, h => by cases h
  | _ :: _, [], _, h => by cases h

end Flodym

namespace Flodym
open DimSet SubArray

theorem mesh_allAdv (n : Nat) : ∀ (D : DimSet) (S : List DSel) (k : Nat),
    ∀ ix ∈ meshIxs n D S k, ix.isAdv = true
  | [], S, _ => by cases S <;> (intro ix h; cases h)
  | _ :: _, [], _ => by intro ix h; cases h
  | d :: D, s :: S, k => by
    intro ix h
    cases s with
    | keep =>
      simp only [meshIxs, List.mem_cons] at h
      rcases h with rfl | h
      · rfl
      · exact mesh_allAdv n D S (k + 1) ix h
    | item p =>
      simp only [meshIxs, List.mem_cons] at h
      rcases h with rfl | h
      · rfl
      · exact mesh_allAdv n D S k ix h
    | sub d' ps =>
      simp only [meshIxs, List.mem_cons] at h
      rcases h with rfl | h
      · rfl
      · exact mesh_allAdv n D S (k + 1) ix h

theorem takeWhile_notAdv_nil (l : List Ix) (h : ∀ ix ∈ l, ix.isAdv = true) :
    l.takeWhile (fun ix => !ix.isAdv) = [] := by
  cases l with
  | nil => rfl
  | cons a t => simp [List.takeWhile_cons, h a (by simp)]

theorem advAdjacent_allAdv (l : List Ix) (h : ∀ ix ∈ l, ix.isAdv = true) : advAdjacent l = true := by
  unfold advAdjacent
  have hflags : ∀ b ∈ l.map Ix.isAdv, b = true := by
    intro b hb
    obtain ⟨ix, hix, rfl⟩ := List.mem_map.mp hb
    exact h ix hix
  rw [List.all_eq_true]
  intro b hb
  have h1 : b ∈ ((l.map Ix.isAdv).dropWhile (!·)).reverse :=
    (List.dropWhile_sublist _).subset hb
  have h2 : b ∈ (l.map Ix.isAdv).dropWhile (!·) := List.mem_reverse.mp h1
  have h3 : b ∈ l.map Ix.isAdv := (List.dropWhile_sublist _).subset h2
  simpa using hflags b h3

theorem sliceLens_allAdv : ∀ (l : List Ix) (sh : List Nat), (∀ ix ∈ l, ix.isAdv = true) →
    sliceLens l sh = []
  | [], _, _ => by simp [sliceLens]
  | _ :: _, [], _ => by simp [sliceLens]
  | a :: t, n :: sh, h => by
    have ih := sliceLens_allAdv t sh (fun ix hix => h ix (by simp [hix]))
    unfold sliceLens at ih ⊢
    simp only [List.zipWith_cons_cons, List.filterMap_cons]
    have ha := h a (by simp)
    cases a with
    | all => simp [Ix.isAdv] at ha
    | int i => simpa using ih
    | list l => simpa using ih
    | mesh l k m => simpa using ih

theorem mesh_anyArr (n : Nat) : ∀ (D : DimSet) (S : List DSel) (k : Nat), SelsOK D S →
    (∃ s ∈ S, s.isSub = true) → (meshIxs n D S k).any Ix.isArr = true
  | [], [], _, _, hs => by obtain ⟨s, hs, _⟩ := hs; cases hs
  | d :: D, s :: S, k, h, hs => by
    cases s with
    | keep => simp [meshIxs, Ix.isArr]
    | sub d' ps => simp [meshIxs, Ix.isArr]
    | item p =>
      obtain ⟨s, hs1, hs2⟩ := hs
      have : s ∈ S := by
        rcases List.mem_cons.mp hs1 with rfl | h'
        · simp [DSel.isSub] at hs2
        · exact h'
      simp only [meshIxs, List.any_cons, Bool.or_eq_true]
      right
      exact mesh_anyArr n D S k h.2 ⟨s, this, hs2⟩
  | [], _ :: _, _, h, _ => by cases h
  | _ :: _, [], _, h, _ => by cases h

/-- source index of the mesh regime: `b` holds the result coordinates; the k-th mesh reads `b[k]` -/
theorem mesh_src (n : Nat) : ∀ (D : DimSet) (S : List DSel) (k : Nat) (b : List Nat) (e : Env),
    SelsOK D S → Valid (outDims D S) e → b.drop k = (letters (outDims D S)).map e →
    srcAdv b (meshIxs n D S k) [] = liftIdx D S e
  | [], [], _, _, _, _, _, _ => rfl
  | d :: D, s :: S, k, b, e, h, hv, hb => by
    cases s with
    | keep =>
      simp only [outDims, letters, List.map_cons] at hb
      have hk : b.getD k 0 = e d.letter := by
        have : (b.drop k).head? = some (e d.letter) := by rw [hb]; rfl
        rw [List.head?_drop] at this
        simp [List.getD_eq_getElem?_getD, this]
      have hb' : b.drop (k + 1) = (letters (outDims D S)).map e := by
        have := congrArg List.tail hb
        simpa [List.tail_drop, letters] using this
      have hv' : Valid (outDims D S) e := fun d' hd' => hv d' (by simp [outDims, hd'])
      have hlt : e d.letter < d.len := hv d (by simp [outDims])
      simp only [meshIxs, srcAdv, liftIdx, hk]
      rw [mesh_src n D S (k + 1) b e h.2 hv' hb']
      congr 1
      rw [List.getD_eq_getElem?_getD, List.getElem?_range hlt]; rfl
    | item p =>
      simp only [outDims] at hb hv
      simp only [meshIxs, srcAdv, liftIdx]
      rw [mesh_src n D S k b e h.2 hv hb]
    | sub d' ps =>
      simp only [outDims, letters, List.map_cons] at hb
      have hk : b.getD k 0 = e d'.letter := by
        have : (b.drop k).head? = some (e d'.letter) := by rw [hb]; rfl
        rw [List.head?_drop] at this
        simp [List.getD_eq_getElem?_getD, this]
      have hb' : b.drop (k + 1) = (letters (outDims D S)).map e := by
        have := congrArg List.tail hb
        simpa [List.tail_drop, letters] using this
      have hv' : Valid (outDims D S) e := fun d'' hd'' => hv d'' (by simp [outDims, hd''])
      simp only [meshIxs, srcAdv, liftIdx, hk]
      rw [mesh_src n D S (k + 1) b e h.2 hv' hb']
  | [], _ :: _, _, _, _, h, _, _ => by cases h
  | _ :: _, [], _, _, _, h, _, _ => by cases h

theorem meshIxs_length (n : Nat) : ∀ (D : DimSet) (S : List DSel) (k : Nat), SelsOK D S →
    (meshIxs n D S k).length = D.length
  | [], [], _, _ => rfl
  | d :: D, s :: S, k, h => by
    cases s <;> simp [meshIxs, meshIxs_length n D S _ h.2]
  | [], _ :: _, _, h => by cases h
  | _ :: _, [], _, h => by cases h

/-- numpy's rule when *every* index is advanced (ints and array indices, at least one array):
the broadcast axes are the whole result -/
theorem indexPlan_allAdv (shape : List Nat) (ixs : List Ix) (B : List Nat)
    (hlen : ixs.length = shape.length) (hin : ixInBounds ixs shape = true)
    (hB : bshape ixs = some B) (harr : ixs.any Ix.isArr = true)
    (hadv : ∀ ix ∈ ixs, ix.isAdv = true) :
    indexPlan shape ixs = some { shape := B, src := fun r => srcAdv (r.take B.length) ixs (r.drop B.length) } := by
  unfold indexPlan
  simp only [hlen, ne_eq, not_true_eq_false, if_false, hin, Bool.not_true,
    Bool.false_eq_true, hB, harr, takeWhile_notAdv_nil ixs hadv,
    advAdjacent_allAdv ixs hadv, sliceLens_allAdv ixs _ hadv, if_true, List.length_nil,
    List.take_zero, List.drop_zero, List.nil_append, List.append_nil, Nat.zero_add]

/-- the plan numpy follows for ints and `np.ix_` meshes: the broadcast axes (one per kept or
subset dimension, in order) are the whole result -/
theorem indexPlan_mesh (D : DimSet) (S : List DSel) (h : SelsOK D S) (hs : ∃ s ∈ S, s.isSub = true) :
    ∃ p, indexPlan (DimSet.shape D) (convertMesh D (S.map DSel.toIx)) = some p ∧
      p.shape = DimSet.shape (outDims D S) ∧
      ∀ e, Valid (outDims D S) e → p.src ((letters (outDims D S)).map e) = liftIdx D S e := by
  rw [convertMesh_eq D S h hs]
  obtain ⟨n, hn⟩ : ∃ n, n = (outDims D S).length := ⟨_, rfl⟩
  rw [← hn]
  obtain ⟨ixs, hixs⟩ : ∃ ixs, ixs = meshIxs n D S 0 := ⟨_, rfl⟩
  obtain ⟨hm1, hm2, hm3⟩ := mesh_meshInfos n D S 0 h
  have hadv := mesh_allAdv n D S 0
  rw [← hixs] at hm1 hm2 hm3 hadv ⊢
  have hB : bshape ixs = some (DimSet.shape (outDims D S)) := by
    unfold bshape
    rw [hixs, mesh_listLens n D S 0, ← hixs]
    cases hmi : meshInfos ixs with
    | nil =>
      exfalso
      rw [hmi] at hm1
      have hlen : (outDims D S).length = 0 := by
        have := congrArg List.length hm1
        simpa [DimSet.shape] using this.symm
      obtain ⟨s, hsS, hsub⟩ := hs
      exact absurd hlen (outDims_pos D S h s hsS hsub)
    | cons m ms =>
      have hall : ∀ x ∈ m :: ms, x.2.2 = n := by rw [← hmi]; exact hm3
      have hnn : m.2.2 = n := hall m (by simp)
      have h1 : (m :: ms).all (fun x => x.2.2 == m.2.2) = true := by
        rw [List.all_eq_true]; intro x hx; simp [hall x hx, hnn]
      have h2 : ((m :: ms).map (·.2.1) == List.range m.2.2) = true := by
        rw [← hmi, hm2, hnn, beq_iff_eq, hn, List.range_eq_range']
      simp only [h1, h2, Bool.and_self, if_true]
      rw [← hmi, hm1]
  have hlen : ixs.length = (DimSet.shape D).length := by
    rw [hixs, meshIxs_length n D S 0 h]; simp [DimSet.shape]
  have hin : ixInBounds ixs (DimSet.shape D) = true := by rw [hixs]; exact mesh_inBounds n D S 0 h
  have harr : ixs.any Ix.isArr = true := by rw [hixs]; exact mesh_anyArr n D S 0 h hs
  refine ⟨_, indexPlan_allAdv _ ixs _ hlen hin hB harr hadv, rfl, ?_⟩
  intro e hv
  have hl : ((letters (outDims D S)).map e).length = (DimSet.shape (outDims D S)).length := by
    simp [letters, DimSet.shape]
  show srcAdv (((letters (outDims D S)).map e).take (DimSet.shape (outDims D S)).length) ixs
      (((letters (outDims D S)).map e).drop (DimSet.shape (outDims D S)).length) = _
  rw [← hl, List.take_length, List.drop_length, hixs]
  exact mesh_src n D S 0 _ e h hv (by simp)
where
  outDims_pos : ∀ (D : DimSet) (S : List DSel), SelsOK D S → ∀ s ∈ S, s.isSub = true →
      (outDims D S).length ≠ 0
    | [], [], _, s, hs, _ => by cases hs
    | d :: D, s0 :: S, h, s, hs, hsub => by
      cases s0 with
      | keep => simp [outDims]
      | sub d' ps => simp [outDims]
      | item p =>
        have : s ∈ S := by
          rcases List.mem_cons.mp hs with rfl | h'
          · simp [DSel.isSub] at hsub
          · exact h'
        simpa [outDims] using outDims_pos D S h.2 s this hsub
    | [], _ :: _, h, _, _, _ => by cases h
    | _ :: _, [], h, _, _, _ => by cases h

end Flodym
