import FlodymProofs.Lemmas.Fubini
import FlodymProofs.Lemmas.Reduce
/-!
# Grand totals, summing back after a cast, shares
-/
namespace Flodym
open DimSet

variable {α : Type}

/-- all (letter, length) pairs of a dimension list -/
def allPairs (D : DimSet) : List (Char × Nat) := D.map (fun d => (d.letter, d.len))

theorem allPairs_fst (D : DimSet) : (allPairs D).map Prod.fst = letters D := by
  simp [allPairs, letters, Function.comp_def]

theorem summedOf_fst (D : DimSet) (keep : List Char) :
    (summedOf D keep).map Prod.fst = (letters D).filter (fun l => !(keep.contains l)) := by
  unfold summedOf
  rw [List.map_map, ← letters_filter D (fun l => !(keep.contains l))]
  rfl

theorem dims_nodup_of_letters {D : DimSet} (h : (letters D).Nodup) : D.Nodup :=
  List.Nodup.of_map _ h

theorem dim_eq_of_letter {D : DimSet} (h : (letters D).Nodup) {d d' : Dim} (hd : d ∈ D) (hd' : d' ∈ D)
    (hl : d.letter = d'.letter) : d = d' :=
  compatible_self D h d hd d' hd' hl

/-- the requested dimensions followed by the summed ones are a rearrangement of all of x's -/
theorem perm_split (D ds : DimSet) (hD : (letters D).Nodup) (hds : ∀ d ∈ ds, d ∈ D)
    (hnd : (letters ds).Nodup) :
    (allPairs ds ++ summedOf D (letters ds)).Perm (allPairs D) := by
  unfold allPairs summedOf
  rw [← List.map_append]
  apply List.Perm.map
  rw [List.perm_ext_iff_of_nodup]
  · intro d
    simp only [List.mem_append, List.mem_filter]
    constructor
    · rintro (h | ⟨h, _⟩)
      · exact hds d h
      · exact h
    · intro h
      by_cases hl : d.letter ∈ letters ds
      · left
        obtain ⟨d', hd', hl'⟩ := mem_letters.mp hl
        have := dim_eq_of_letter hD (hds d' hd') h hl'
        rw [← this]; exact hd'
      · right
        exact ⟨h, by simpa using hl⟩
  · apply List.Nodup.append (dims_nodup_of_letters hnd)
      ((dims_nodup_of_letters hD).filter _)
    intro d hd1 hd2
    have := (List.mem_filter.mp hd2).2
    have hl : d.letter ∈ letters ds := mem_letters.mpr ⟨d, hd1, rfl⟩
    simp [hl] at this
  · exact dims_nodup_of_letters hD

section monoid
variable [AddCommMonoid α]

/-- grand total of an array: the sum of all its entries, by label -/
def total (x : FArr α) (e : Env) : α := sumOver (allPairs x.dims) x.at e

/-- summing to any selection of dimensions preserves the grand total -/
theorem total_sumTo (x r : FArr α) (hx : WF x) (ds : DimSet) (hds : ∀ d ∈ ds, d ∈ x.dims)
    (hnd : (letters ds).Nodup) (hrd : r.dims = ds) (hr : ∀ e, r.at e = margin x (letters ds) e) (e : Env) :
    total r e = total x e := by
  unfold total
  rw [hrd]
  have : (fun e' => r.at e') = fun e' => sumOver (summedOf x.dims (letters ds)) x.at e' := by
    funext e'; rw [hr e']; rfl
  show sumOver (allPairs ds) (fun e' => r.at e') e = _
  rw [this, ← sumOver_append]
  apply sumOver_perm (perm_split x.dims ds hx.1 hds hnd)
  rw [List.map_append, allPairs_fst, summedOf_fst]
  rw [List.nodup_append]
  refine ⟨hnd, hx.1.filter _, ?_⟩
  intro a ha b hb hab
  subst hab
  have := (List.mem_filter.mp hb).2
  simp [ha] at this

end monoid

section semiring
variable [Semiring α]

/-- number of label combinations of the dimensions of `T` that `x` does not have -/
def addedCount (x : FArr α) (T : DimSet) : ℕ := ((summedOf T x.letters).map Prod.snd).prod

/-- summing a cast array back to the source's dimensions gives the source times the number of
added label combinations -/
theorem margin_castTo (x r : FArr α) (T : DimSet) (hrd : r.dims = T)
    (hr : ∀ e, Valid T e → r.at e = x.at e) (e : Env) (hv : Valid T e) (hT : (letters T).Nodup) :
    margin r x.letters e = (addedCount x T : α) * x.at e := by
  unfold margin addedCount
  rw [hrd]
  rw [← sumOver_const (summedOf T x.letters) (x.at e) e]
  -- along the sum, the environment stays valid for T and unchanged on x's letters
  apply sumOver_congr _ _ _ e (fun e' => Valid T e' ∧ EqOn x.letters e e') ⟨hv, EqOn.refl _ _⟩
  · intro e' l n i ⟨hv', heq⟩ hm hi
    obtain ⟨d, hd, hdl⟩ := List.mem_map.mp hm
    obtain ⟨hdT, hnot⟩ := List.mem_filter.mp hd
    simp only [Prod.mk.injEq] at hdl
    obtain ⟨rfl, rfl⟩ := hdl
    constructor
    · intro d' hd'
      by_cases hdd : d'.letter = d.letter
      · have := dim_eq_of_letter hT hd' hdT hdd
        rw [this, Env.set_same]; exact hi
      · rw [Env.set_ne _ _ hdd]; exact hv' d' hd'
    · intro c hc
      have : c ≠ d.letter := by
        intro h; subst h
        simp [FArr.letters] at hnot hc
        exact hnot hc
      rw [Env.set_ne _ _ this]; exact heq c hc
  · intro e' ⟨hv', heq⟩
    rw [hr e' hv']
    unfold FArr.at
    rw [map_congr_mem (fun c hc => (heq c hc).symm)]

end semiring
end Flodym

namespace Flodym
open DimSet
variable {α : Type}

/-! ## `sum_values()` (numpy sum over the flattened values) is the grand total by label -/
section
variable [AddCommMonoid α]

/-- positional nested sum over a shape -/
def posSum : List Nat → (List Nat → α) → α
  | [], g => g []
  | n :: ns, g => sumRange n (fun i => posSum ns (fun r => g (i :: r)))

theorem foldr_add_append (l1 l2 : List α) :
    (l1 ++ l2).foldr (· + ·) 0 = l1.foldr (· + ·) 0 + l2.foldr (· + ·) 0 := by
  induction l1 with
  | nil => simp
  | cons a l1 ih => simp [List.foldr_cons, ih, add_assoc]

theorem foldr_flatMap_range (n : Nat) (h : Nat → List α) :
    ((List.range n).flatMap h).foldr (· + ·) 0 = sumRange n (fun i => (h i).foldr (· + ·) 0) := by
  rw [sumRange_eq]
  induction n with
  | zero => simp
  | succ n ih =>
    rw [List.range_succ, List.flatMap_append, foldr_add_append, ih, Finset.sum_range_succ]
    simp

theorem foldr_allIdx (ns : List Nat) (g : List Nat → α) :
    ((allIdx ns).map g).foldr (· + ·) 0 = posSum ns g := by
  induction ns generalizing g with
  | nil => simp [allIdx, posSum]
  | cons n ns ih =>
    simp only [allIdx, posSum, List.map_flatMap]
    rw [foldr_flatMap_range]
    apply sumRange_congr
    intro i _
    rw [List.map_map]
    exact ih (fun r => g (i :: r))

theorem sumOver_allPairs (D : DimSet) (hnd : (letters D).Nodup) (g : List Nat → α) (e : Env) :
    sumOver (allPairs D) (fun e' => g ((letters D).map e')) e = posSum (DimSet.shape D) g := by
  induction D generalizing g e with
  | nil => rfl
  | cons d D ih =>
    simp only [letters, List.map_cons] at hnd
    rw [List.nodup_cons] at hnd
    simp only [allPairs, List.map_cons, sumOver, DimSet.shape, posSum]
    apply sumRange_congr
    intro i _
    have := ih hnd.2 (fun r => g (i :: r)) (e.set d.letter i)
    simp only [allPairs, DimSet.shape] at this
    rw [← this]
    apply sumOver_congr _ _ _ _ (fun e' => e' d.letter = i) (Env.set_same _ _ _)
    · intro e' l n j he hm _
      have hl : l ∈ letters D := by
        obtain ⟨d', hd', h⟩ := List.mem_map.mp hm
        simp only [Prod.mk.injEq] at h
        exact mem_letters.mpr ⟨d', hd', h.1⟩
      have hne : d.letter ≠ l := fun h => hnd.1 (by rw [h]; exact hl)
      rw [Env.set_ne _ _ hne]; exact he
    · intro e' he
      simp only [letters, List.map_cons, he]

theorem sumValues_eq_total (x : FArr α) (hx : WF x) (e : Env) : x.sumValues = total x e := by
  unfold FArr.sumValues ND.toList total FArr.at FArr.letters
  rw [foldr_allIdx, hx.2]
  exact (sumOver_allPairs x.dims hx.1 x.values.get e).symm

end
end Flodym
