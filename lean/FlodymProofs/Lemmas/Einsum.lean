import FlodymProofs.Lemmas.Core
/-!
# What the einsum mechanism means by label (core Lean only)
-/
namespace Flodym
open DimSet

variable {α : Type}

section
variable [Add α] [OfNat α 0]

/-- one-operand einsum, read at the index tuple that `e` gives to the output letters -/
theorem einsum1Raw_get (s out : List Char) (a : ND α) (e : Env) (hout : out.Nodup) :
    (einsum1Raw s out a).get (out.map e) =
      sumOver ((s.filter (fun l => !(out.contains l))).map (fun l => (l, sizeOfLetter s a.shape l)))
        (fun e' => a.get (s.map e')) e := by
  unfold einsum1Raw
  simp only
  apply sumOver_env_congr _ _ s
  · intro e1 e2 h
    rw [map_congr_mem h]
  · intro c hc hnot
    have hcout : c ∈ out := by
      by_cases hco : c ∈ out
      · exact hco
      · exfalso
        apply hnot
        simp only [List.map_map, List.mem_map, List.mem_filter, Function.comp]
        exact ⟨c, ⟨hc, by simp [hco]⟩, rfl⟩
    exact bind_map_self out e Env.zero hout c hcout

theorem einsum1Raw_shape (s out : List Char) (a : ND α) :
    (einsum1Raw s out a).shape = out.map (sizeOfLetter s a.shape) := rfl

/-- the list of (letter, size) pairs einsum sums over = the dimensions of `x` not kept -/
theorem summed_eq_summedOf (x : FArr α) (hx : WF x) (out : List Char) :
    ((x.letters.filter (fun l => !(out.contains l))).map
        (fun l => (l, sizeOfLetter x.letters x.values.shape l)))
      = summedOf x.dims out := by
  unfold summedOf FArr.letters
  rw [← letters_filter x.dims (fun l => !(out.contains l))]
  unfold letters
  rw [List.map_map]
  apply List.map_congr_left
  intro d hd
  have hd' : d ∈ x.dims := (List.mem_filter.mp hd).1
  simp only [Function.comp]
  rw [hx.2]
  have := sizeOfLetter_dims x.dims hx.1 d hd'
  unfold letters at this
  rw [this]

theorem einsum1Ok_of (x : FArr α) (hx : WF x) (out : List Char) (hnd : out.Nodup)
    (hsub : ∀ l ∈ out, l ∈ x.letters) :
    einsum1Ok x.letters out x.values = true := by
  unfold einsum1Ok
  have hlen : x.letters.length = x.values.shape.length := by
    rw [hx.2]; simp [FArr.letters, letters, DimSet.shape]
  simp only [Bool.and_eq_true, beq_iff_eq, decide_eq_true_eq, List.all_eq_true,
    List.contains_iff_mem]
  exact ⟨⟨⟨hlen, hx.1⟩, hnd⟩, hsub⟩

/-- `sum_values_to`: defined exactly when the requested letters are distinct letters of `x`; the
result has the requested axes in the requested order and holds the marginal sums -/
theorem sumValuesToL_spec (x : FArr α) (hx : WF x) (out : List Char) (hnd : out.Nodup)
    (hsub : ∀ l ∈ out, l ∈ x.letters) :
    ∃ v, x.sumValuesToL? out = some v ∧
      v.shape = out.map (sizeOfLetter x.letters x.values.shape) ∧
      ∀ e, v.get (out.map e) = margin x out e := by
  refine ⟨einsum1Raw x.letters out x.values, ?_, rfl, ?_⟩
  · unfold FArr.sumValuesToL? einsum1 Gen.sumToIn Gen.sumToOut
    rw [einsum1Ok_of x hx out hnd hsub]; rfl
  · intro e
    rw [einsum1Raw_get _ _ _ _ hnd, summed_eq_summedOf x hx]
    rfl

end

/-- size of a letter of a sub-list of dimensions, as einsum reports it for the output shape -/
theorem map_size_eq_shape (x : FArr α) (hx : WF x) (D : DimSet) (hD : ∀ d ∈ D, d ∈ x.dims) :
    (letters D).map (sizeOfLetter x.letters x.values.shape) = DimSet.shape D := by
  unfold letters DimSet.shape
  rw [List.map_map]
  apply List.map_congr_left
  intro d hd
  simp only [Function.comp]
  rw [hx.2]
  exact sizeOfLetter_dims x.dims hx.1 d (hD d hd)

end Flodym
