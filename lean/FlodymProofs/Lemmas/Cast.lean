import FlodymProofs.Lemmas.Arith
/-!
# `cast_to` (einsum reorder → `np.newaxis` index → `np.tile`) and `__pow__` (core Lean only)
-/
namespace Flodym
open DimSet

variable {α : Type}

/-! ## list lemmas for the newaxis / tile mechanism -/

theorem newaxisShape_filter {β : Type} (T : List β) (p : β → Bool) (len : β → Nat) :
    newaxisShape (T.map p) ((T.filter p).map len) = T.map (fun d => if p d then len d else 1) := by
  induction T with
  | nil => simp [newaxisShape]
  | cons d T ih =>
    by_cases h : p d
    · simp [List.filter_cons, h, newaxisShape, ih]
    · simp only [Bool.not_eq_true] at h
      simp [List.filter_cons, h, newaxisShape, ih]

theorem newaxisSrc_filter {β : Type} (T : List β) (p : β → Bool) (g : β → Nat) :
    newaxisSrc (T.map p) (T.map (fun d => if p d then g d else 0)) = (T.filter p).map g := by
  induction T with
  | nil => simp [newaxisSrc]
  | cons d T ih =>
    by_cases h : p d
    · simp [List.filter_cons, h, newaxisSrc, ih]
    · simp only [Bool.not_eq_true] at h
      simp [List.filter_cons, h, newaxisSrc, ih]

theorem tile_index {β : Type} (T : List β) (p : β → Bool) (g len : β → Nat)
    (h : ∀ d ∈ T, p d = true → g d < len d) :
    List.zipWith (fun i n => if n = 0 then 0 else i % n) (T.map g)
        (T.map (fun d => if p d then len d else 1))
      = T.map (fun d => if p d then g d else 0) := by
  induction T with
  | nil => simp
  | cons d T ih =>
    simp only [List.map_cons, List.zipWith_cons_cons]
    rw [ih (fun d' hd' => h d' (by simp [hd']))]
    congr 1
    by_cases hp : p d
    · have hlt := h d (by simp) hp
      have hne : len d ≠ 0 := by omega
      simp [hp, hne, Nat.mod_eq_of_lt hlt]
    · simp only [Bool.not_eq_true] at hp
      simp [hp, Nat.mod_one]

theorem zipWith_mul_shape {β : Type} (T : List β) (p : β → Bool) (len : β → Nat) :
    List.zipWith (· * ·) (T.map (fun d => if p d then len d else 1))
        (T.map (fun d => if p d then 1 else len d)) = T.map len := by
  induction T with
  | nil => simp
  | cons d T ih =>
    simp only [List.map_cons, List.zipWith_cons_cons, ih]
    congr 1
    by_cases hp : p d <;> simp [hp]

section
variable [Add α] [OfNat α 0]

theorem einsum1_eq_some (s out : List Char) (a : ND α) (h : einsum1Ok s out a = true) :
    einsum1 s out a = some (einsum1Raw s out a) := by
  unfold einsum1; rw [if_pos h]

/-- one-operand einsum whose output carries every input letter: a pure transposition -/
theorem einsum1Raw_get_full (s out : List Char) (a : ND α) (e : Env) (hout : out.Nodup)
    (h : ∀ l ∈ s, l ∈ out) :
    (einsum1Raw s out a).get (out.map e) = a.get (s.map e) := by
  rw [einsum1Raw_get _ _ _ _ hout]
  have : (s.filter (fun l => !(out.contains l))) = [] := by
    rw [List.filter_eq_nil_iff]
    intro l hl
    simp [h l hl]
  rw [this]; rfl

/-- `cast_to(target)`: defined when the target holds every dimension of `x`; the result has the
target's dimensions and replicates every entry along the added dimensions -/
theorem castTo_spec (x : FArr α) (T : DimSet) (hx : WF x) (hT : (letters T).Nodup)
    (hc : Compatible x.dims T) (hsub : ∀ l ∈ x.letters, l ∈ letters T) :
    ∃ r, x.castTo? T = some r ∧ r.dims = T ∧ WF r ∧ ∀ e, Valid T e → r.at e = x.at e := by
  let p : Dim → Bool := fun d => x.letters.contains d.letter
  let out := (letters T).filter (fun l => x.letters.contains l)
  have hout_eq : out = (T.filter p).map (·.letter) := by
    show (letters T).filter _ = _
    rw [← letters_filter T (fun l => x.letters.contains l)]; rfl
  have hout_nd : out.Nodup := List.Pairwise.filter _ hT
  have hout_sub : ∀ l ∈ out, l ∈ x.letters := by
    intro l hl
    simpa using (List.mem_filter.mp hl).2
  have hfull : ∀ l ∈ x.letters, l ∈ out := by
    intro l hl
    exact List.mem_filter.mpr ⟨hsub l hl, by simpa using hl⟩
  let v := einsum1Raw x.letters out x.values
  -- every kept dimension of the target is the dimension of x with that letter
  have hmem : ∀ d ∈ T.filter p, d ∈ x.dims := by
    intro d hd
    obtain ⟨hdT, hp⟩ := List.mem_filter.mp hd
    have : d.letter ∈ x.letters := by simpa [p] using hp
    obtain ⟨d', hd', hl⟩ := mem_letters.mp this
    have := hc d' hd' d hdT hl
    rw [← this]; exact hd'
  have hvshape : v.shape = (T.filter p).map (·.len) := by
    show out.map _ = _
    rw [hout_eq, List.map_map]
    apply List.map_congr_left
    intro d hd
    simp only [Function.comp]
    rw [hx.2]
    exact sizeOfLetter_dims x.dims hx.1 d (hmem d hd)
  let keep := (letters T).map (fun l => x.letters.contains l)
  have hkeep : keep = T.map p := by
    show (letters T).map _ = _
    simp [letters, p, Function.comp_def]
  let multiple := T.map (fun d => if x.letters.contains d.letter then 1 else d.len)
  let w := (v.newaxisIndex keep).tile multiple
  have hwshape : w.shape = DimSet.shape T := by
    show List.zipWith (· * ·) (newaxisShape keep v.shape) multiple = _
    rw [hkeep, hvshape, newaxisShape_filter]
    exact zipWith_mul_shape T p (·.len)
  refine ⟨⟨T, w⟩, ?_, rfl, ⟨hT, hwshape⟩, ?_⟩
  · unfold FArr.castTo? FArr.castValuesTo?
    have hall : x.letters.all (fun l => (letters T).contains l) = true := by
      rw [List.all_eq_true]; intro l hl; simpa using hsub l hl
    simp only [hall, Bool.not_true, Bool.false_eq_true, if_false, Gen.castIn, Gen.castOut]
    rw [einsum1_eq_some _ _ _ (einsum1Ok_of x hx out hout_nd hout_sub)]
    simp only [Option.bind_eq_bind, Option.bind_some]
    exact FArr.mk?_eq_some _ _ hT hwshape
  · intro e hv
    show (v.newaxisIndex keep).get (List.zipWith (fun i n => if n = 0 then 0 else i % n)
      ((letters T).map e) (v.newaxisIndex keep).shape) = _
    have hsh : (v.newaxisIndex keep).shape = T.map (fun d => if p d then d.len else 1) := by
      show newaxisShape keep v.shape = _
      rw [hkeep, hvshape, newaxisShape_filter]
    rw [hsh]
    have hle : (letters T).map e = T.map (fun d => e d.letter) := by
      simp [letters, Function.comp_def]
    rw [hle, tile_index T p (fun d => e d.letter) (·.len) (fun d hd _ => hv d hd)]
    show v.get (newaxisSrc keep _) = _
    rw [hkeep, newaxisSrc_filter]
    have : (T.filter p).map (fun d => e d.letter) = out.map e := by
      rw [hout_eq, List.map_map]; rfl
    rw [this]
    exact einsum1Raw_get_full _ _ _ e hout_nd hfull

theorem castTo_rejects (x : FArr α) (T : DimSet) (h : ∃ l ∈ x.letters, l ∉ letters T) :
    x.castTo? T = none := by
  unfold FArr.castTo? FArr.castValuesTo?
  have : x.letters.all (fun l => (letters T).contains l) = false := by
    rw [List.all_eq_false]
    obtain ⟨l, hl, hn⟩ := h
    exact ⟨l, hl, by simpa using hn⟩
  rw [this]; rfl

variable [Mul α] [OfNat α 1]

/-- `x ** y` for two arrays -/
theorem pow_arr_spec (powf : α → α → α) (x y : FArr α) (hx : WF x) (hy : WF y)
    (hc : Compatible x.dims y.dims) (hsub : ∀ l ∈ y.letters, l ∈ x.letters) :
    ∃ r, FArr.pow? powf x (.arr y) = some r ∧ r.dims = x.dims ∧ WF r ∧
      ∀ e, Valid x.dims e → r.at e = powf (x.at e) (y.at e) := by
  have hc' : Compatible y.dims x.dims := fun d hd d' hd' hl => (hc d' hd' d hd hl.symm).symm
  obtain ⟨p, hp1, hp2, hp3, hp4⟩ := castTo_spec y x.dims hy hx.1 hc' hsub
  have hshape : x.values.shape = p.values.shape := by rw [hx.2, hp3.2, hp2]
  refine ⟨⟨x.dims, { shape := x.values.shape, get := fun i => powf (x.values.get i) (p.values.get i) }⟩,
    ?_, rfl, ⟨hx.1, hx.2⟩, ?_⟩
  · unfold FArr.pow? FArr.prepareOther?
    have hany : y.letters.any (fun l => !(x.letters.contains l)) = false := by
      rw [List.any_eq_false]; intro l hl; simpa using hsub l hl
    simp only [Option.bind_eq_bind, Option.bind_some, hany, Bool.false_eq_true, if_false]
    rw [hp1]
    simp only [Option.bind_some, ND.zipWith?, hshape, if_true]
    exact FArr.mk?_eq_some _ _ hx.1 (by simpa [hshape] using hx.2)
  · intro e hv
    show powf (x.values.get (x.letters.map e)) (p.values.get (x.letters.map e)) = _
    have hpl : p.letters = x.letters := by unfold FArr.letters; rw [hp2]
    have := hp4 e hv
    unfold FArr.at at this
    rw [hpl] at this
    rw [this]; rfl

theorem pow_arr_rejects (powf : α → α → α) (x y : FArr α)
    (h : ∃ l ∈ y.letters, l ∉ x.letters) : FArr.pow? powf x (.arr y) = none := by
  unfold FArr.pow? FArr.prepareOther?
  have hany : y.letters.any (fun l => !(x.letters.contains l)) = true := by
    rw [List.any_eq_true]
    obtain ⟨l, hl, hn⟩ := h
    exact ⟨l, hl, by simpa using hn⟩
  simp only [Option.bind_eq_bind, Option.bind_some]
  rw [hany]; rfl

end
end Flodym
