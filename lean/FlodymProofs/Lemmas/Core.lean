import Flodym.SubArray
/-!
# Helper lemmas (core Lean only): environments, `bind`, `sumOver`, sizes, label view
-/
namespace Flodym
open DimSet

variable {α : Type}

/-! ## the label view used by all array theorems -/

/-- entry of `x` under the labels chosen by `e` -/
def FArr.at (x : FArr α) (e : Env) : α := x.values.get (x.letters.map e)

/-- `e` picks an existing item position for every dimension of `D` -/
def Valid (D : DimSet) (e : Env) : Prop := ∀ d ∈ D, e d.letter < d.len

/-- well-formed array: distinct letters, values shaped like the dimensions -/
def WF (x : FArr α) : Prop := x.letters.Nodup ∧ x.values.shape = DimSet.shape x.dims

/-- "the dimensions come from one common dimension set": equal letters mean equal dimensions -/
def Compatible (D D' : DimSet) : Prop := ∀ d ∈ D, ∀ d' ∈ D', d.letter = d'.letter → d = d'

instance (x : FArr α) : Decidable (WF x) := by unfold WF; exact inferInstance
instance (D D' : DimSet) : Decidable (Compatible D D') := by unfold Compatible; exact inferInstance
instance (D : DimSet) (e : Env) : Decidable (Valid D e) := by unfold Valid; exact inferInstance

/-- the (letter, length) pairs of the dimensions of `D` whose letter is not in `keep` -/
def summedOf (D : DimSet) (keep : List Char) : List (Char × Nat) :=
  (D.filter (fun d => !(keep.contains d.letter))).map (fun d => (d.letter, d.len))

section
variable [Add α] [OfNat α 0]
/-- marginal sum: `x` summed over all its dimensions whose letter is not in `keep` -/
def margin (x : FArr α) (keep : List Char) (e : Env) : α :=
  sumOver (summedOf x.dims keep) x.at e
end

/-! ## environments -/

def EqOn (L : List Char) (e e' : Env) : Prop := ∀ c ∈ L, e c = e' c

theorem EqOn.refl (L : List Char) (e : Env) : EqOn L e e := fun _ _ => rfl

theorem Env.set_same (e : Env) (l : Char) (i : Nat) : (e.set l i) l = i := by simp [Env.set]
theorem Env.set_ne (e : Env) {l c : Char} (i : Nat) (h : c ≠ l) : (e.set l i) c = e c := by
  simp [Env.set, h]

theorem bind_apply_notin (ls : List Char) (is : List Nat) (e : Env) (c : Char) (h : c ∉ ls) :
    bind ls is e c = e c := by
  induction ls generalizing is e with
  | nil => simp [bind]
  | cons l ls ih =>
    cases is with
    | nil => simp [bind]
    | cons i is =>
      simp only [bind]
      have hc : c ≠ l := by intro h'; exact h (by simp [h'])
      have : c ∉ ls := by intro h'; exact h (by simp [h'])
      rw [ih is _ this]; simp [Env.set, hc]

theorem bind_map_self (ls : List Char) (e e0 : Env) (hnd : ls.Nodup) (c : Char) (hc : c ∈ ls) :
    bind ls (ls.map e) e0 c = e c := by
  induction ls generalizing e0 with
  | nil => cases hc
  | cons l ls ih =>
    simp only [List.map, bind]
    rw [List.nodup_cons] at hnd
    by_cases h : c = l
    · subst h
      rw [bind_apply_notin _ _ _ _ hnd.1]; simp [Env.set]
    · have : c ∈ ls := by
        cases hc with
        | head => exact absurd rfl h
        | tail _ h' => exact h'
      exact ih _ hnd.2 this

theorem map_congr_mem {s : List Char} {e e' : Env} (h : ∀ c ∈ s, e c = e' c) : s.map e = s.map e' :=
  List.map_congr_left h

/-! ## nested sums -/
section sums
variable [Add α] [OfNat α 0]

theorem sumRange_congr (n : Nat) (f g : Nat → α) (h : ∀ i, i < n → f i = g i) :
    sumRange n f = sumRange n g := by
  unfold sumRange
  have : ∀ (l : List Nat), (∀ i ∈ l, i < n) →
      l.foldr (fun i acc => f i + acc) 0 = l.foldr (fun i acc => g i + acc) 0 := by
    intro l hl
    induction l with
    | nil => rfl
    | cons a t ih =>
      simp only [List.foldr_cons]
      rw [h a (hl a (by simp)), ih (fun i hi => hl i (by simp [hi]))]
  exact this _ (fun i hi => by simpa using hi)

/-- the summed function may be replaced by one that agrees with it on every environment that
extends the base environment by in-range positions of the summed letters -/
theorem sumOver_congr (ls : List (Char × Nat)) (f g : Env → α) (e : Env)
    (P : Env → Prop) (hP : P e)
    (hset : ∀ e' l n i, P e' → (l, n) ∈ ls → i < n → P (e'.set l i))
    (h : ∀ e', P e' → f e' = g e') :
    sumOver ls f e = sumOver ls g e := by
  induction ls generalizing e with
  | nil => exact h e hP
  | cons p ls ih =>
    obtain ⟨l, n⟩ := p
    simp only [sumOver]
    apply sumRange_congr
    intro i hi
    apply ih
    · exact hset e l n i hP (by simp) hi
    · intro e' l' n' i' hp hm hi'
      exact hset e' l' n' i' hp (by simp [hm]) hi'

/-- a nested sum only looks at the base environment on the letters the summand depends on,
minus the letters it binds itself -/
theorem sumOver_env_congr (ls : List (Char × Nat)) (f : Env → α) (S : List Char)
    (hf : ∀ e e', EqOn S e e' → f e = f e') (e e' : Env)
    (h : ∀ c ∈ S, c ∉ ls.map Prod.fst → e c = e' c) :
    sumOver ls f e = sumOver ls f e' := by
  induction ls generalizing e e' with
  | nil =>
    simp only [sumOver]
    apply hf
    intro c hc
    exact h c hc (by simp)
  | cons p ls ih =>
    obtain ⟨l, n⟩ := p
    simp only [sumOver]
    apply sumRange_congr
    intro i _
    apply ih
    intro c hc hnot
    by_cases hcl : c = l
    · subst hcl; simp [Env.set]
    · rw [Env.set_ne _ _ hcl, Env.set_ne _ _ hcl]
      apply h c hc
      simp only [List.map_cons, List.mem_cons, not_or]
      exact ⟨hcl, hnot⟩

end sums

/-! ## sizes of letters -/

theorem sizeOfLetter_cons_ne (l c : Char) (s : List Char) (n : Nat) (sh : List Nat) (h : c ≠ l) :
    sizeOfLetter (l :: s) (n :: sh) c = sizeOfLetter s sh c := by
  unfold sizeOfLetter
  have : (l :: s).idxOf c = s.idxOf c + 1 := by
    rw [List.idxOf_cons]
    have : (l == c) = false := by simp [Ne.symm h]
    simp [this]
  rw [this]; simp

theorem sizeOfLetter_cons_self (l : Char) (s : List Char) (n : Nat) (sh : List Nat) :
    sizeOfLetter (l :: s) (n :: sh) l = n := by
  unfold sizeOfLetter; simp [List.idxOf_cons]

/-- in a dimension list with distinct letters the size einsum sees for a letter is the length of
that dimension -/
theorem sizeOfLetter_dims (D : DimSet) (hnd : (letters D).Nodup) (d : Dim) (hd : d ∈ D) :
    sizeOfLetter (letters D) (DimSet.shape D) d.letter = d.len := by
  induction D with
  | nil => cases hd
  | cons d0 D ih =>
    simp only [letters, DimSet.shape, List.map_cons] at hnd ⊢
    rw [List.nodup_cons] at hnd
    cases hd with
    | head => exact sizeOfLetter_cons_self _ _ _ _
    | tail _ h =>
      have hne : d.letter ≠ d0.letter := by
        intro heq
        apply hnd.1
        rw [← heq]
        exact List.mem_map_of_mem h
      rw [sizeOfLetter_cons_ne _ _ _ _ _ hne]
      exact ih hnd.2 h

theorem letters_filter (D : DimSet) (p : Char → Bool) :
    letters (D.filter (fun d => p d.letter)) = (letters D).filter p := by
  simp [letters, List.filter_map, Function.comp_def]

theorem mem_letters {D : DimSet} {c : Char} : c ∈ letters D ↔ ∃ d ∈ D, d.letter = c := by
  simp [letters]

end Flodym
