import Flodym.System
import FlodymProofs.Lemmas.Totals
import FlodymProofs.Lemmas.Arith
/-!
# The mass balance of a process: Python's `sum()` over contribution arrays, by label
-/
open Finset BigOperators
namespace Flodym
open DimSet

/-! ## floats with NaN form a commutative monoid under `+` (NaN absorbs) -/

instance : AddCommMonoid FV where
  add := (· + ·)
  zero := 0
  add_assoc a b c := by
    cases a <;> cases b <;> cases c <;> simp only [HAdd.hAdd, Add.add] <;> try rfl
    · congr 1; exact Rat.add_assoc _ _ _
  zero_add a := by
    cases a
    · show FV.num (0 + _) = _; congr 1; exact Rat.zero_add _
    · rfl
  add_zero a := by
    cases a
    · show FV.num (_ + 0) = _; congr 1; exact Rat.add_zero _
    · rfl
  add_comm a b := by
    cases a <;> cases b <;> simp only [HAdd.hAdd, Add.add] <;> try rfl
    · congr 1; exact Rat.add_comm _ _
  nsmul := nsmulRec

variable {α : Type} [AddCommMonoid α]

/-- summing a marginal further = the marginal over fewer dimensions: `A` are dimensions of `x`
(distinct letters), `L' ⊆ letters A` -/
theorem margin_of_margin (x : FArr α) (hx : WF x) (A : DimSet) (hA : ∀ d ∈ A, d ∈ x.dims)
    (hAn : (letters A).Nodup) (L' : List Char) (hL : ∀ l ∈ L', l ∈ letters A) (e : Env) :
    sumOver (summedOf A L') (fun e' => margin x (letters A) e') e = margin x L' e := by
  unfold margin
  rw [← sumOver_append]
  apply sumOver_perm
  · -- the two lists of (letter, length) pairs are rearrangements of each other
    unfold summedOf
    rw [← List.map_append]
    apply List.Perm.map
    rw [List.perm_ext_iff_of_nodup]
    · intro d
      simp only [List.mem_append, List.mem_filter]
      constructor
      · rintro (⟨hdA, hnot⟩ | ⟨hdx, hnot⟩)
        · exact ⟨hA d hdA, hnot⟩
        · refine ⟨hdx, ?_⟩
          simp only [Bool.not_eq_true', List.contains_eq_mem, decide_eq_false_iff_not] at hnot ⊢
          exact fun h => hnot (hL _ h)
      · rintro ⟨hdx, hnot⟩
        by_cases hl : d.letter ∈ letters A
        · left
          obtain ⟨d', hd', hl'⟩ := mem_letters.mp hl
          have := dim_eq_of_letter hx.1 (hA d' hd') hdx hl'
          exact ⟨this ▸ hd', hnot⟩
        · right
          exact ⟨hdx, by simpa using hl⟩
    · apply List.Nodup.append ((dims_nodup_of_letters hAn).filter _) ((dims_nodup_of_letters hx.1).filter _)
      intro d hd1 hd2
      have h1 := (List.mem_filter.mp hd1).1
      have h2 := (List.mem_filter.mp hd2).2
      have : d.letter ∈ letters A := mem_letters.mpr ⟨d, h1, rfl⟩
      simp [this] at h2
    · exact (dims_nodup_of_letters hx.1).filter _
  · rw [List.map_append, summedOf_fst, summedOf_fst, List.nodup_append]
    refine ⟨hAn.filter _, hx.1.filter _, ?_⟩
    intro a ha b hb hab
    subst hab
    have h1 := (List.mem_filter.mp ha).1
    have h2 := (List.mem_filter.mp hb).2
    simp [h1] at h2

end Flodym

namespace Flodym
open DimSet

section
variable {α : Type} [AddCommMonoid α]

theorem sumOver_list_sum {β : Type} (ls : List (Char × Nat)) (l : List β) (f : β → Env → α) (e0 : Env) :
    sumOver ls (fun e => (l.map (fun c => f c e)).sum) e0 = (l.map (fun c => sumOver ls (f c) e0)).sum := by
  induction l with
  | nil => simp only [List.map_nil, List.sum_nil]; exact sumOver_zero ls e0
  | cons c l ih =>
    simp only [List.map_cons, List.sum_cons]
    rw [sumOver_add, ih]

end

/-- what the running sum knows after some contributions -/
structure AccInv (done : List (FArr FV)) (acc : FArr FV) : Prop where
  wf : WF acc
  sub : ∀ c ∈ done, ∀ d ∈ acc.dims, d ∈ c.dims
  at_eq : ∀ e, acc.at e = (done.map fun c => margin c acc.letters e).sum

theorem FV.zero_mul_one : (0 : FV) * 1 = 0 := by
  show FV.num (0 * 1) = FV.num 0
  congr 1
  exact Rat.zero_mul 1

/-- one `+` of Python's `sum()` -/
theorem acc_step (done : List (FArr FV)) (acc q : FArr FV) (hinv : AccInv done acc) (hq : WF q)
    (hdone : ∀ c ∈ done, WF c) (hc : Compatible acc.dims q.dims) :
    ∃ acc', FArr.addLike? (· + ·) acc (.arr q) = some acc' ∧ AccInv (done ++ [q]) acc' ∧
      acc'.dims = intersectWith acc.dims q.dims := by
  obtain ⟨r, h1, h2, h3, h4⟩ := addLike_arr_spec (· + ·) acc q hinv.wf hq hc
  refine ⟨r, h1, ⟨h3, ?_, ?_⟩, h2⟩
  · intro c hcm d hd
    rw [h2] at hd
    rcases List.mem_append.mp hcm with hcd | hcq
    · exact hinv.sub c hcd d (intersect_sub_left _ _ d hd)
    · simp only [List.mem_singleton] at hcq
      subst hcq
      exact intersect_sub_right _ _ hc d hd
  · intro e
    rw [h4 e, List.map_append, List.sum_append]
    simp only [List.map_cons, List.map_nil, List.sum_cons, List.sum_nil, add_zero]
    congr 1
    -- the accumulator's marginal = the sum of the contributions' marginals
    unfold margin
    have hfun : acc.at = fun e' => (done.map fun c => margin c acc.letters e').sum := funext hinv.at_eq
    rw [hfun, sumOver_list_sum]
    congr 1
    apply List.map_congr_left
    intro c hcm
    have hsubL : ∀ l ∈ r.letters, l ∈ letters acc.dims := by
      intro l hl
      unfold FArr.letters at hl
      rw [h2] at hl
      obtain ⟨d, hd, rfl⟩ := mem_letters.mp hl
      exact mem_letters.mpr ⟨d, intersect_sub_left _ _ d hd, rfl⟩
    exact margin_of_margin c (hdone c hcm) acc.dims (hinv.sub c hcm) hinv.wf.1 r.letters hsubL e

/-- the whole fold -/
theorem acc_fold (qs : List (FArr FV)) : ∀ (done : List (FArr FV)) (acc : FArr FV), AccInv done acc →
    (∀ c ∈ done, WF c) → (∀ q ∈ qs, WF q) → (∀ q ∈ qs, Compatible acc.dims q.dims) →
    ∃ r, qs.foldlM (fun a q => FArr.addLike? (· + ·) a (.arr q)) acc = some r ∧ AccInv (done ++ qs) r ∧
      r.dims = qs.foldl (fun D q => intersectWith D q.dims) acc.dims := by
  induction qs with
  | nil =>
    intro done acc hinv _ _ _
    exact ⟨acc, rfl, by simpa using hinv, rfl⟩
  | cons q qs ih =>
    intro done acc hinv hdone hqs hcs
    obtain ⟨acc', h1, h2, h3⟩ := acc_step done acc q hinv (hqs q (by simp)) hdone (hcs q (by simp))
    have hdone' : ∀ c ∈ done ++ [q], WF c := by
      intro c hc
      rcases List.mem_append.mp hc with h | h
      · exact hdone c h
      · simp only [List.mem_singleton] at h; subst h; exact hqs _ (by simp)
    have hcs' : ∀ q' ∈ qs, Compatible acc'.dims q'.dims := by
      intro q' hq' d hd d' hd' hl
      rw [h3] at hd
      exact hcs q' (by simp [hq']) d (intersect_sub_left _ _ d hd) d' hd' hl
    obtain ⟨r, hr1, hr2, hr3⟩ := ih (done ++ [q]) acc' h2 hdone' (fun q' hq' => hqs q' (by simp [hq'])) hcs'
    refine ⟨r, ?_, by simpa using hr2, ?_⟩
    · simp only [List.foldlM_cons, h1, Option.bind_eq_bind, Option.bind_some]; exact hr1
    · rw [hr3, h3]; rfl

/-- **Python's `sum()` over the contributions of a process**: the result lives on the dimensions
common to all contributions (in the first one's order) and its entry under labels `e` is the sum of
all contributions, each summed over its other dimensions, matched by label -/
theorem pySum_spec (p : FArr FV) (ps : List (FArr FV)) (hp : WF p) (hps : ∀ q ∈ ps, WF q)
    (hc : ∀ q ∈ ps, Compatible p.dims q.dims) :
    ∃ r, pySum (p :: ps) = some r ∧
      r.dims = ps.foldl (fun D q => intersectWith D q.dims) p.dims ∧ WF r ∧
      ∀ e, r.at e = ((p :: ps).map fun c => margin c r.letters e).sum := by
  obtain ⟨a0, h1, h2, h3, h4⟩ := addLike_num_spec (· + ·) p hp (0 : FV)
  have hinv0 : AccInv [p] a0 := by
    refine ⟨h3, ?_, ?_⟩
    · intro c hcm d hd
      simp only [List.mem_singleton] at hcm
      subst hcm
      rw [h2] at hd; exact hd
    · intro e
      simp only [List.map_cons, List.map_nil, List.sum_cons, List.sum_nil, add_zero]
      have hl : a0.letters = p.letters := by unfold FArr.letters; rw [h2]
      rw [h4 e, FV.zero_mul_one, add_zero, hl, margin_self]
  have hc0 : ∀ q ∈ ps, Compatible a0.dims q.dims := by rw [h2]; exact hc
  obtain ⟨r, hr1, hr2, hr3⟩ := acc_fold ps [p] a0 hinv0 (by simpa using hp) hps hc0
  refine ⟨r, ?_, by rw [hr3, h2], hr2.wf, ?_⟩
  · unfold pySum FArr.radd?
    simp only [Option.bind_eq_bind, h1, Option.bind_some]
    exact hr1
  · intro e
    have := hr2.at_eq e
    simpa using this

end Flodym
