import Flodym.Table
import FlodymProofs.Lemmas.GetSet
import Mathlib.Data.List.Perm.Subperm
import Mathlib.Data.List.Nodup
/-!
# Lemmas for the table tier: index tuples, the placement stage of the DataFrame converter
-/
namespace Flodym
open DimSet

theorem length_allIdx : ∀ (shape : List Nat), (allIdx shape).length = shape.prod
  | [] => rfl
  | n :: ns => by
    have ih := length_allIdx ns
    have : ∀ (k : Nat), ((List.range k).flatMap fun i => (allIdx ns).map (i :: ·)).length = k * ns.prod := by
      intro k
      induction k with
      | zero => simp
      | succ k ihk =>
        rw [List.range_succ, List.flatMap_append, List.length_append, ihk]
        simp [ih, Nat.succ_mul]
    simp only [allIdx, this, List.prod_cons]

theorem allIdx_nodup : ∀ (shape : List Nat), (allIdx shape).Nodup
  | [] => by simp [allIdx]
  | n :: ns => by
    have ih := allIdx_nodup ns
    simp only [allIdx]
    rw [List.nodup_flatMap]
    refine ⟨?_, ?_⟩
    · intro i _
      exact ih.map (fun a b h => by simpa using h)
    · apply List.Pairwise.imp_of_mem (R := fun a b => a ≠ b)
      · intro a b _ _ hab
        intro l h1 h2
        simp only [List.mem_map] at h1 h2
        obtain ⟨r1, _, rfl⟩ := h1
        obtain ⟨r2, _, h⟩ := h2
        simp only [List.cons.injEq] at h
        exact hab h.1.symm
      · exact List.nodup_range

end Flodym

namespace Flodym.Table
open Flodym DimSet

/-! ## Python equality of cells -/

theorem pyEq_ofItem_iff (a b : Item) : (Cell.ofItem a).pyEq (Cell.ofItem b) = true ↔ a = b := by
  cases a <;> cases b <;> simp [Cell.ofItem, Cell.pyEq]

theorem pyEq_trans_item (a b : Cell) (it : Item) (h1 : a.pyEq (Cell.ofItem it) = true) (h2 : b.pyEq (Cell.ofItem it) = true) :
    a.pyEq b = true := by
  cases a <;> cases b <;> cases it <;> simp_all [Cell.ofItem, Cell.pyEq]

theorem pyEq_symm (a b : Cell) : a.pyEq b = b.pyEq a := by
  cases a <;> cases b <;> simp [Cell.pyEq, eq_comm]

/-- position of an item of a dimension whose items are distinct -/
theorem itemPos_ofItem (d : Dim) (hnd : d.items.Nodup) (i : Nat) (hi : i < d.items.length) :
    itemPos? d (Cell.ofItem d.items[i]) = some i := by
  unfold itemPos?
  have hfind : (d.items.map Cell.ofItem).findIdx (·.pyEq (Cell.ofItem d.items[i])) = i := by
    rw [List.findIdx_eq (by simpa using hi)]
    refine ⟨?_, ?_⟩
    · simp [(pyEq_ofItem_iff _ _).mpr rfl]
    · intro j hj
      simp only [List.getElem_map]
      have : d.items[j]'(by omega) ≠ d.items[i] := by
        intro h
        have := (List.Nodup.getElem_inj_iff hnd).mp h
        omega
      cases hc : (Cell.ofItem (d.items[j]'(by omega))).pyEq (Cell.ofItem d.items[i])
      · rfl
      · exact absurd ((pyEq_ofItem_iff _ _).mp hc) this
  rw [hfind, if_pos hi]

/-- a cell found at position `i` equals (in Python's sense) the `i`-th item -/
theorem itemPos_spec (d : Dim) (c : Cell) (i : Nat) (h : itemPos? d c = some i) :
    ∃ hi : i < d.items.length, (Cell.ofItem d.items[i]).pyEq c = true := by
  unfold itemPos? at h
  simp only at h
  split at h
  · rename_i hlt
    cases h
    refine ⟨hlt, ?_⟩
    have hlt' : (d.items.map Cell.ofItem).findIdx (·.pyEq c) < (d.items.map Cell.ofItem).length := by simpa using hlt
    have := List.findIdx_getElem (w := hlt')
    simpa using this
  · cases h

end Flodym.Table

namespace Flodym.Table
open Flodym DimSet

/-! ## labels and positions -/

theorem pyEq_trans (a b c : Cell) (h1 : a.pyEq b = true) (h2 : b.pyEq c = true) : a.pyEq c = true := by
  cases a <;> cases b <;> cases c <;> simp_all [Cell.pyEq]

/-- cells that are equal as labels sit at the same position of a dimension -/
theorem itemPos_congr (d : Dim) (a b : Cell) (h : labelEq a b = true) : itemPos? d a = itemPos? d b := by
  unfold labelEq at h
  rcases Bool.or_eq_true_iff.mp h with h | h
  · unfold itemPos?
    have : (fun x : Cell => x.pyEq a) = (fun x : Cell => x.pyEq b) := by
      funext x
      cases hx : x.pyEq a
      · cases hxb : x.pyEq b
        · rfl
        · have := pyEq_trans x b a hxb (by rw [pyEq_symm]; exact h)
          rw [hx] at this; cases this
      · exact (pyEq_trans x a b hx h).symm
    rw [this]
  · simp only [Bool.and_eq_true, beq_iff_eq] at h
    rw [h.1, h.2]

theorem positions_congr : ∀ (dims : DimSet) (a b : List Cell), labelsEq a b = true →
    positions? dims a = positions? dims b := by
  intro dims a b h
  unfold labelsEq at h
  simp only [Bool.and_eq_true, beq_iff_eq, List.all_eq_true] at h
  obtain ⟨hlen, hall⟩ := h
  unfold positions?
  induction dims generalizing a b with
  | nil => simp
  | cons d ds ih =>
    cases a with
    | nil => cases b with
      | nil => rfl
      | cons _ _ => simp at hlen
    | cons x xs =>
      cases b with
      | nil => simp at hlen
      | cons y ys =>
        simp only [List.zip_cons_cons, List.mapM_cons]
        rw [itemPos_congr d x y (hall (x, y) (by simp))]
        rw [ih xs ys (by simpa using hlen) (fun p hp => hall p (by simp [hp]))]

/-- two label lists (one per dimension) at the same positions are equal as labels -/
theorem labelsEq_of_positions : ∀ (dims : DimSet) (a b : List Cell) (idx : List Nat),
    a.length = dims.length → b.length = dims.length →
    positions? dims a = some idx → positions? dims b = some idx → labelsEq a b = true := by
  intro dims
  induction dims with
  | nil =>
    intro a b idx ha hb _ _
    simp only [List.length_nil, List.length_eq_zero_iff] at ha hb
    subst ha hb; rfl
  | cons d ds ih =>
    intro a b idx ha hb h1 h2
    cases a with
    | nil => simp at ha
    | cons x xs =>
      cases b with
      | nil => simp at hb
      | cons y ys =>
        unfold positions? at h1 h2
        simp only [List.zip_cons_cons, List.mapM_cons, Option.bind_eq_bind] at h1 h2
        cases hx : itemPos? d x with
        | none => rw [hx] at h1; cases h1
        | some i =>
          cases hy : itemPos? d y with
          | none => rw [hy] at h2; cases h2
          | some j =>
            rw [hx] at h1; rw [hy] at h2
            cases hxs : (List.zip ds xs).mapM (fun p => itemPos? p.1 p.2) with
            | none => rw [hxs] at h1; cases h1
            | some is =>
              cases hys : (List.zip ds ys).mapM (fun p => itemPos? p.1 p.2) with
              | none => rw [hys] at h2; cases h2
              | some js =>
                rw [hxs] at h1; rw [hys] at h2
                simp only [Option.bind_some, Option.pure_def, Option.some.injEq] at h1 h2
                subst h1
                simp only [List.cons.injEq] at h2
                obtain ⟨hij, hjs⟩ := h2
                subst hij hjs
                have hrec := ih xs ys js (by simpa using ha) (by simpa using hb) hxs hys
                obtain ⟨hi, hxi⟩ := itemPos_spec d x j hx
                obtain ⟨_, hyi⟩ := itemPos_spec d y j hy
                have hxy : x.pyEq y = true := by
                  have h1' : x.pyEq (Cell.ofItem d.items[j]) = true := by rw [pyEq_symm]; exact hxi
                  have h2' : y.pyEq (Cell.ofItem d.items[j]) = true := by rw [pyEq_symm]; exact hyi
                  exact pyEq_trans_item x y _ h1' h2'
                unfold labelsEq at hrec ⊢
                simp only [Bool.and_eq_true, beq_iff_eq, List.all_eq_true] at hrec ⊢
                refine ⟨by simpa using hrec.1, ?_⟩
                intro p hp
                simp only [List.zip_cons_cons, List.mem_cons] at hp
                rcases hp with rfl | hp
                · simp [labelEq, hxy]
                · exact hrec.2 p hp

theorem hasDuplicates_false_iff (l : List (List Cell)) :
    hasDuplicates l = false ↔ l.Pairwise (fun a b => labelsEq a b = false) := by
  induction l with
  | nil => simp [hasDuplicates]
  | cons r rs ih =>
    simp only [hasDuplicates, Bool.or_eq_false_iff, List.pairwise_cons, ih]
    constructor
    · rintro ⟨h1, h2⟩
      refine ⟨?_, h2⟩
      intro b hb
      have := List.any_eq_false.mp h1 b hb
      simpa using this
    · rintro ⟨h1, h2⟩
      refine ⟨?_, h2⟩
      rw [List.any_eq_false]
      intro b hb
      simp [h1 b hb]

/-- positions of known labels form an index tuple of the array -/
theorem positions_mem_allIdx (dims : DimSet) (a : List Cell) (idx : List Nat) (ha : a.length = dims.length)
    (h : positions? dims a = some idx) : idx ∈ allIdx (shape dims) := by
  induction dims generalizing a idx with
  | nil =>
    simp only [List.length_nil, List.length_eq_zero_iff] at ha
    subst ha
    simp [positions?] at h
    subst h
    simp [shape, allIdx]
  | cons d ds ih =>
    cases a with
    | nil => simp at ha
    | cons x xs =>
      unfold positions? at h
      simp only [List.zip_cons_cons, List.mapM_cons, Option.bind_eq_bind] at h
      cases hx : itemPos? d x with
      | none => rw [hx] at h; cases h
      | some i =>
        rw [hx] at h
        cases hxs : (List.zip ds xs).mapM (fun p => itemPos? p.1 p.2) with
        | none => rw [hxs] at h; cases h
        | some is =>
          rw [hxs] at h
          simp only [Option.bind_some, Option.pure_def, Option.some.injEq] at h
          subst h
          obtain ⟨hi, _⟩ := itemPos_spec d x i hx
          have := ih xs is (by simpa using ha) hxs
          simp only [shape, List.map_cons, allIdx, List.mem_flatMap, List.mem_range, List.mem_map]
          exact ⟨i, hi, is, this, rfl⟩

/-! ## the placement -/

theorem placedGet_mem (placed : List (List Nat × Rat)) (hnd : (placed.map (·.1)).Nodup) (idx : List Nat) (v : Rat)
    (h : (idx, v) ∈ placed) : placedGet placed idx = v := by
  unfold placedGet
  rw [find?_unique placed.reverse _ (idx, v) (by simpa using h) (by simp)]
  intro p hp hpi
  have hp' : p ∈ placed := by simpa using hp
  have hpi' : p.1 = idx := by simpa using hpi
  -- two entries with the same index are the same entry
  clear hp
  induction placed with
  | nil => cases h
  | cons q qs ih =>
    simp only [List.map_cons, List.nodup_cons] at hnd
    cases h with
    | head =>
      cases hp' with
      | head => rfl
      | tail _ hq => exact absurd (hpi' ▸ List.mem_map_of_mem (f := (·.1)) hq) hnd.1
    | tail _ hv =>
      cases hp' with
      | head =>
        have : (idx, v).1 ∈ qs.map (·.1) := List.mem_map_of_mem (f := fun (p : List Nat × Rat) => p.1) hv
        rw [← hpi'] at this
        exact absurd this hnd.1
      | tail _ hq => exact ih hnd.2 hv hq

theorem placedGet_absent (placed : List (List Nat × Rat)) (idx : List Nat) (h : ∀ p ∈ placed, p.1 ≠ idx) :
    placedGet placed idx = 0 := by
  unfold placedGet
  have : placed.reverse.find? (·.1 == idx) = none := by
    rw [List.find?_eq_none]
    intro p hp
    simpa using h p (by simpa using hp)
  rw [this]

end Flodym.Table
