import FlodymProofs.Lemmas.Cast
import FlodymProofs.Lemmas.Lookup
/-!
# `sum_to`, `sum_over`, `cumsum`, ways of naming a dimension (core Lean only)
-/
namespace Flodym
open DimSet

variable {α : Type}

/-! ## naming a dimension by letter, by name, or by `Dimension` object -/

theorem getDimLetter?_dim (x : FArr α) (d : Dim) : x.getDimLetter? (.dim d) = some d.letter := rfl

theorem getDimLetter?_letter (x : FArr α) (hx : x.letters.Nodup) (hn : NamesOk x.dims) (d : Dim)
    (hd : d ∈ x.dims) : x.getDimLetter? (.str d.letter.toString) = some d.letter := by
  show Option.map _ (lookup? x.dims d.letter.toString) = _
  rw [lookup?_letter x.dims hx hn d hd]; rfl

theorem getDimLetter?_name (x : FArr α) (hnames : (names x.dims).Nodup) (hn : NamesOk x.dims) (d : Dim)
    (hd : d ∈ x.dims) : x.getDimLetter? (.str d.name) = some d.letter := by
  show Option.map _ (lookup? x.dims d.name) = _
  rw [lookup?_name x.dims hnames hn d hd]; rfl

theorem getDimLetter?_unknown (x : FArr α) (key : String)
    (h : ∀ d ∈ x.dims, d.name ≠ key ∧ d.letter.toString ≠ key) :
    x.getDimLetter? (.str key) = none := by
  show Option.map _ (lookup? x.dims key) = _
  rw [lookup?_unknown x.dims key h]; rfl

/-- a key for dimension `d`: its letter, its name, or the object itself -/
inductive KeyFor (d : Dim) : FArr.DimKey → Prop where
  | letter : KeyFor d (.str d.letter.toString)
  | name : KeyFor d (.str d.name)
  | obj : KeyFor d (.dim d)

/-- `ks` names the dimensions `ds`, one key per dimension, each in any of the three forms -/
inductive KeysFor : List Dim → List FArr.DimKey → Prop where
  | nil : KeysFor [] []
  | cons {d k ds ks} : KeyFor d k → KeysFor ds ks → KeysFor (d :: ds) (k :: ks)

/-- all three naming forms resolve to the dimension's letter, in any mixture -/
theorem tupleToLetters?_forms (x : FArr α) (hx : x.letters.Nodup) (hnames : (names x.dims).Nodup)
    (hn : NamesOk x.dims) (ds : List Dim) (hds : ∀ d ∈ ds, d ∈ x.dims) (ks : List FArr.DimKey)
    (hks : KeysFor ds ks) :
    x.tupleToLetters? ks = some (letters ds) := by
  unfold FArr.tupleToLetters?
  induction hks with
  | nil => rfl
  | @cons d k ds ks hk _ ih =>
    have hd := hds d (by simp)
    have hk' : x.getDimLetter? k = some d.letter := by
      cases hk with
      | letter => exact getDimLetter?_letter x hx hn d hd
      | name => exact getDimLetter?_name x hnames hn d hd
      | obj => rfl
    simp only [List.mapM_cons, hk', letters, List.map_cons]
    have := ih (fun d' hd' => hds d' (by simp [hd']))
    simp only [letters] at this
    rw [this]; rfl

/-- an unknown dimension anywhere in the tuple is rejected -/
theorem tupleToLetters?_unknown (x : FArr α) (ks : List FArr.DimKey) (key : String) (hk : .str key ∈ ks)
    (h : ∀ d ∈ x.dims, d.name ≠ key ∧ d.letter.toString ≠ key) :
    x.tupleToLetters? ks = none := by
  unfold FArr.tupleToLetters?
  induction ks with
  | nil => cases hk
  | cons k ks ih =>
    simp only [List.mapM_cons]
    cases hk with
    | head => rw [getDimLetter?_unknown x key h]; rfl
    | tail _ h' =>
      rw [ih h']
      cases x.getDimLetter? k <;> rfl

/-- resolving letters that already are letters of x is the identity -/
theorem tupleToLetters?_letters (x : FArr α) (hx : x.letters.Nodup) (hn : NamesOk x.dims)
    (so : List Dim) (hso : ∀ d ∈ so, d ∈ x.dims) :
    x.tupleToLetters? ((letters so).map fun l => .str l.toString) = some (letters so) := by
  unfold FArr.tupleToLetters?
  induction so with
  | nil => rfl
  | cons d so ih =>
    simp only [letters, List.map_cons, List.mapM_cons]
    rw [getDimLetter?_letter x hx hn d (hso d (by simp))]
    have := ih (fun d' hd' => hso d' (by simp [hd']))
    simp only [letters] at this
    rw [this]; rfl

section
variable [Add α] [OfNat α 0]

/-- `sum_to(requested)`: the requested dimensions in the requested order, marginal sums by label -/
theorem sumTo_spec (x : FArr α) (hx : WF x) (hn : NamesOk x.dims) (ds : List Dim)
    (hds : ∀ d ∈ ds, d ∈ x.dims) (hnd : (letters ds).Nodup) (ks : List FArr.DimKey)
    (hks : x.tupleToLetters? ks = some (letters ds)) :
    ∃ r, x.sumTo? ks = some r ∧ r.dims = ds ∧ WF r ∧ ∀ e, r.at e = margin x (letters ds) e := by
  have hsub : ∀ l ∈ letters ds, l ∈ x.letters := by
    intro l hl
    obtain ⟨d, hd, rfl⟩ := mem_letters.mp hl
    exact mem_letters.mpr ⟨d, hds d hd, rfl⟩
  obtain ⟨v, hv, hs, hg⟩ := sumValuesToL_spec x hx (letters ds) hnd hsub
  have hshape : v.shape = DimSet.shape ds := by rw [hs]; exact map_size_eq_shape x hx ds hds
  refine ⟨⟨ds, v⟩, ?_, rfl, ⟨hnd, hshape⟩, fun e => hg e⟩
  unfold FArr.sumTo?
  simp only [Option.bind_eq_bind, hks, Option.bind_some]
  rw [getSubset?_letters x.dims hx.1 hn ds hds hnd]
  simp only [Option.bind_some, hv]
  exact FArr.mk?_eq_some _ _ hnd hshape

/-- `sum_over(summed)`: the remaining dimensions in x's order -/
theorem sumOver_spec (x : FArr α) (hx : WF x) (hn : NamesOk x.dims) (so : List Dim)
    (hso : ∀ d ∈ so, d ∈ x.dims) (ks : List FArr.DimKey)
    (hks : x.tupleToLetters? ks = some (letters so)) :
    ∃ r, x.sumOver? ks = some r ∧
      r.dims = x.dims.filter (fun d => !((letters so).contains d.letter)) ∧ WF r ∧
      ∀ e, r.at e = margin x r.letters e := by
  let res := x.dims.filter (fun d => !((letters so).contains d.letter))
  have hres : ∀ d ∈ res, d ∈ x.dims := fun d hd => (List.mem_filter.mp hd).1
  have hresl : letters res = x.letters.filter (fun l => !((letters so).contains l)) :=
    letters_filter x.dims (fun l => !((letters so).contains l))
  have hnd : (letters res).Nodup := by rw [hresl]; exact List.Pairwise.filter _ hx.1
  have hsub : ∀ l ∈ letters res, l ∈ x.letters := by
    intro l hl
    obtain ⟨d, hd, rfl⟩ := mem_letters.mp hl
    exact mem_letters.mpr ⟨d, hres d hd, rfl⟩
  obtain ⟨v, hv, hs, hg⟩ := sumValuesToL_spec x hx (letters res) hnd hsub
  have hshape : v.shape = DimSet.shape res := by rw [hs]; exact map_size_eq_shape x hx res hres
  -- the letters are resolved a second time inside `sum_values_over`
  have hks2 := tupleToLetters?_letters x hx.1 hn so hso
  refine ⟨⟨res, v⟩, ?_, rfl, ⟨hnd, hshape⟩, fun e => hg e⟩
  unfold FArr.sumOver?
  simp only [Option.bind_eq_bind, hks, Option.bind_some, hks2]
  have hfl : x.letters.filter (fun l => !((letters so).contains l)) = letters res := hresl.symm
  rw [hfl, getSubset?_letters x.dims hx.1 hn res hres hnd]
  simp only [Option.bind_some]
  unfold FArr.sumValuesToL? Gen.sumToIn Gen.sumToOut at hv
  unfold Gen.sumOverIn Gen.sumOverOut
  rw [hv]
  exact FArr.mk?_eq_some _ _ hnd hshape

/-- `cumsum(letter)`: accumulates along that dimension in item order, nothing else moves -/
theorem cumsum_spec (x : FArr α) (hx : WF x) (l : Char) (hl : l ∈ x.letters) :
    ∃ r, x.cumsum? l = some r ∧ r.dims = x.dims ∧ WF r ∧
      ∀ e, r.at e = sumRange (e l + 1) (fun i => x.at (e.set l i)) := by
  have hi : x.letters.idxOf l < x.letters.length := List.idxOf_lt_length_of_mem hl
  refine ⟨⟨x.dims, x.values.cumsum (x.letters.idxOf l)⟩, ?_, rfl, ⟨hx.1, hx.2⟩, ?_⟩
  · unfold FArr.cumsum?
    simp only [hi, if_true]
    exact FArr.mk?_eq_some _ _ hx.1 hx.2
  · intro e
    show sumRange (((x.letters.map e).getD (x.letters.idxOf l) 0) + 1)
        (fun i => x.values.get ((x.letters.map e).set (x.letters.idxOf l) i)) = _
    have hget : (x.letters.map e).getD (x.letters.idxOf l) 0 = e l := by
      rw [List.getD_eq_getElem?_getD, List.getElem?_map]
      rw [List.getElem?_eq_getElem hi]
      simp [List.getElem_idxOf hi]
    rw [hget]
    apply sumRange_congr
    intro i _
    unfold FArr.at
    congr 1
    -- setting position idxOf l of the index tuple = rebinding letter l
    apply List.ext_getElem
    · simp
    · intro n h1 h2
      simp only [List.getElem_set, List.getElem_map]
      by_cases hn : x.letters.idxOf l = n
      · subst hn
        simp [List.getElem_idxOf hi, Env.set]
      · have hne : x.letters[n]'(by simpa using h2) ≠ l := by
          intro heq
          apply hn
          have h2' : n < x.letters.length := by simpa using h2
          exact (List.Nodup.idxOf_getElem hx.1 n h2' ▸ congrArg (x.letters.idxOf ·) heq.symm).symm.trans rfl |>.symm
        simp [hn, Env.set, hne]

theorem cumsum_rejects (x : FArr α) (l : Char) (hl : l ∉ x.letters) : x.cumsum? l = none := by
  unfold FArr.cumsum?
  have : ¬ x.letters.idxOf l < x.letters.length := by
    rw [List.idxOf_lt_length_iff]; exact hl
  simp [this]

end
end Flodym
