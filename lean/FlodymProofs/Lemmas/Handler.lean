import FlodymProofs.Lemmas.IndexPlan
import FlodymProofs.Lemmas.Lookup
/-!
# Layer B — from a dict key to per-dimension selectors (`SubArrayHandler.__init__`), core Lean only

`Decodes D kvs S S'` : processing the dict entries `kvs` in order turns the selector state `S`
(aligned with the dimensions `D`) into `S'`. The side conditions are exactly the situations in
which the Python neither raises nor is ambiguous: every key addresses one (still unselected)
dimension of the current set, and a replacing `Dimension` brings a letter the current set lacks.
-/
namespace Flodym
open DimSet SubArray

/-- what one dict value asks of dimension `d` (`_set_ids_single_dim`) -/
def convSel (d : Dim) : Sel → Option DSel
  | .item it => (d.index? it).map DSel.item
  | .dim d' => if d'.isSubset d then (d'.items.mapM d.index?).map (DSel.sub d') else none
  | .list _ => none      -- lists are handled separately (writes only)

inductive Decodes (D : DimSet) : List (String × Sel) → List DSel → List DSel → Prop where
  | nil (S : List DSel) : Decodes D [] S S
  | cons {k : String} {sel : Sel} {rest : List (String × Sel)} {S S' : List DSel} {d : Dim} {i : Nat}
      {ds : DSel} :
      D[i]? = some d → S[i]? = some DSel.keep →
      keyMatches d k = true →
      (∀ x ∈ D, keyMatches x k = true → x = d) →
      (∀ x ∈ outDims D S, keyMatches x k = true → x = d) →
      convSel d sel = some ds →
      (∀ d' ps, ds = DSel.sub d' ps → d'.letter ∉ letters (outDims D S)) →
      Decodes D rest (S.set i ds) S' →
      Decodes D ((k, sel) :: rest) S S'

/-! ## slots of the evolving `dims_out` -/

theorem idxOf_cons_ne' {a b : Dim} {l : List Dim} (h : a ≠ b) : (a :: l).idxOf b = l.idxOf b + 1 := by
  rw [List.idxOf_cons]
  have : (a == b) = false := by simpa using h
  rw [this]; rfl


theorem slot_facts : ∀ (D : DimSet) (S : List DSel) (i : Nat) (d : Dim),
    D[i]? = some d → S[i]? = some DSel.keep → (letters (outDims D S)).Nodup →
    d ∈ outDims D S ∧
    (∀ p, (outDims D S).erase d = outDims D (S.set i (DSel.item p))) ∧
    (∀ d' ps, (outDims D S).set ((outDims D S).idxOf d) d' = outDims D (S.set i (DSel.sub d' ps)))
  | [], _, _, _, h, _, _ => by simp at h
  | _ :: _, [], _, _, _, h, _ => by simp at h
  | d0 :: D, s0 :: S, 0, d, hD, hS, _ => by
    simp only [List.getElem?_cons_zero, Option.some.injEq] at hD hS
    subst hD; subst hS
    refine ⟨by simp [outDims], fun p => ?_, fun d' ps => ?_⟩
    · simp [outDims, List.set_cons_zero]
    · simp [outDims, List.set_cons_zero, List.idxOf_cons_self]
  | d0 :: D, s0 :: S, i + 1, d, hD, hS, hnd => by
    simp only [List.getElem?_cons_succ] at hD hS
    cases s0 with
    | item q =>
      simp only [outDims] at hnd ⊢
      obtain ⟨h1, h2, h3⟩ := slot_facts D S i d hD hS hnd
      exact ⟨h1, fun p => by simp [List.set_cons_succ, outDims, h2 p],
             fun d' ps => by simp [List.set_cons_succ, outDims, h3 d' ps]⟩
    | keep =>
      simp only [outDims, letters, List.map_cons, List.nodup_cons] at hnd
      obtain ⟨h1, h2, h3⟩ := slot_facts D S i d hD hS hnd.2
      have hne : d0 ≠ d := by
        intro heq; apply hnd.1; rw [heq]; exact List.mem_map_of_mem h1
      refine ⟨by simp [outDims, h1], fun p => ?_, fun d' ps => ?_⟩
      · simp only [outDims, List.set_cons_succ]
        rw [List.erase_cons_tail (by simpa using hne), h2 p]
      · simp only [outDims, List.set_cons_succ]
        rw [idxOf_cons_ne' hne, List.set_cons_succ, h3 d' ps]
    | sub d'' qs =>
      simp only [outDims, letters, List.map_cons, List.nodup_cons] at hnd
      obtain ⟨h1, h2, h3⟩ := slot_facts D S i d hD hS hnd.2
      have hne : d'' ≠ d := by
        intro heq; apply hnd.1; rw [heq]; exact List.mem_map_of_mem h1
      refine ⟨by simp [outDims, h1], fun p => ?_, fun d' ps => ?_⟩
      · simp only [outDims, List.set_cons_succ]
        rw [List.erase_cons_tail (by simpa using hne), h2 p]
      · simp only [outDims, List.set_cons_succ]
        rw [idxOf_cons_ne' hne, List.set_cons_succ, h3 d' ps]

theorem lookup?_of_only (C : DimSet) (k : String) (d : Dim) (hd : d ∈ C) (hm : keyMatches d k = true)
    (honly : ∀ x ∈ C, keyMatches x k = true → x = d) : lookup? C k = some d := by
  unfold lookup?
  exact find?_unique _ _ d (by simpa using hd) hm (fun x hx hp => honly x (by simpa using hx) hp)

theorem index?_of_only (C : DimSet) (k : String) (d : Dim) (hd : d ∈ C) (hm : keyMatches d k = true)
    (honly : ∀ x ∈ C, keyMatches x k = true → x = d) : index? C k = some (C.idxOf d) := by
  unfold index?
  rw [lookup?_of_only C k d hd hm honly]
  simp [List.idxOf_lt_length_of_mem hd]

/-- distinct letters are kept along the way -/
theorem nodup_step_item (D : DimSet) (S : List DSel) (i : Nat) (d : Dim) (p : Nat)
    (hD : D[i]? = some d) (hS : S[i]? = some DSel.keep) (hnd : (letters (outDims D S)).Nodup) :
    (letters (outDims D (S.set i (DSel.item p)))).Nodup := by
  rw [← (slot_facts D S i d hD hS hnd).2.1 p]
  exact (List.erase_sublist.map _).nodup hnd

theorem nodup_set_fresh' (l : List Char) (i : Nat) (c : Char) (h : l.Nodup) (hc : c ∉ l) :
    (l.set i c).Nodup := by
  induction l generalizing i with
  | nil => simp
  | cons a l ih =>
    rw [List.nodup_cons] at h
    cases i with
    | zero =>
      simp only [List.set_cons_zero, List.nodup_cons]
      exact ⟨fun hm => hc (by simp [hm]), h.2⟩
    | succ i =>
      simp only [List.set_cons_succ, List.nodup_cons]
      refine ⟨?_, ih i h.2 (fun hm => hc (by simp [hm]))⟩
      intro hm
      rcases List.mem_or_eq_of_mem_set hm with h1 | h1
      · exact h.1 h1
      · exact hc (by simp [h1])

theorem nodup_step_sub (D : DimSet) (S : List DSel) (i : Nat) (d d' : Dim) (ps : List Nat)
    (hD : D[i]? = some d) (hS : S[i]? = some DSel.keep) (hnd : (letters (outDims D S)).Nodup)
    (hfresh : d'.letter ∉ letters (outDims D S)) :
    (letters (outDims D (S.set i (DSel.sub d' ps)))).Nodup := by
  rw [← (slot_facts D S i d hD hS hnd).2.2 d' ps]
  unfold letters
  rw [List.map_set]
  exact nodup_set_fresh' _ _ _ hnd hfresh

/-! ## the two folds of the handler -/

theorem idsSingle?_eq (D : DimSet) (k : String) (sel : Sel) (d : Dim) (i : Nat) (ds : DSel)
    (hDn : D.Nodup) (hD : D[i]? = some d) (hm : keyMatches d k = true)
    (honly : ∀ x ∈ D, keyMatches x k = true → x = d) (hc : convSel d sel = some ds) :
    idsSingle? D k sel = some (i, ds.toIx) := by
  have hmem : d ∈ D := List.mem_of_getElem? hD
  have hi : i < D.length := by
    rcases List.getElem?_eq_some_iff.mp hD with ⟨h, _⟩; exact h
  have hidx : D.idxOf d = i := by
    have : D[i] = d := by
      rcases List.getElem?_eq_some_iff.mp hD with ⟨_, h⟩; exact h
    rw [← this]; exact List.Nodup.idxOf_getElem hDn i hi
  unfold idsSingle?
  rw [lookup?_of_only D k d hmem hm honly, index?_of_only D k d hmem hm honly, hidx]
  simp only [Option.bind_eq_bind, Option.bind_some]
  cases sel with
  | item it =>
    simp only [convSel] at hc
    cases hx : d.index? it with
    | none => rw [hx] at hc; cases hc
    | some p => rw [hx] at hc; cases hc; simp [DSel.toIx, hx]
  | dim d' =>
    simp only [convSel] at hc
    by_cases hsub : d'.isSubset d = true
    · rw [if_pos hsub] at hc
      cases hx : d'.items.mapM d.index? with
      | none => rw [hx] at hc; cases hc
      | some ps => rw [hx] at hc; cases hc; simp [hsub, DSel.toIx, hx]
    · rw [if_neg hsub] at hc; cases hc
  | list its => simp [convSel] at hc

/-- `_init_ids` (before the mesh conversion) yields the per-dimension index of every selector -/
theorem idsFold_of_decodes (D : DimSet) (hDn : D.Nodup) (kvs : List (String × Sel)) (S S' : List DSel)
    (h : Decodes D kvs S S') :
    kvs.foldlM (fun ids (kv : String × Sel) =>
        (idsSingle? D kv.1 kv.2).map fun (p, ix) => ids.set p ix) (S.map DSel.toIx)
      = some (S'.map DSel.toIx) := by
  induction h with
  | nil S => rfl
  | @cons k sel rest S S' d i ds hD hS hm honly _ hc _ _ ih =>
    simp only [List.foldlM_cons]
    rw [idsSingle?_eq D k sel d i ds hDn hD hm honly hc]
    simp only [Option.map_some, Option.bind_eq_bind, Option.bind_some]
    rw [← List.map_set]
    exact ih

/-- `_init_dims_out` yields `outDims` -/
theorem dimsOut_of_decodes (D : DimSet) (kvs : List (String × Sel)) (S S' : List DSel)
    (h : Decodes D kvs S S') (hnd : (letters (outDims D S)).Nodup) :
    dimsOut? (outDims D S) kvs = some (outDims D S') ∧ (letters (outDims D S')).Nodup := by
  induction h with
  | nil S => exact ⟨rfl, hnd⟩
  | @cons k sel rest S S' d i ds hD hS hm _ honlyC hc hfresh _ ih =>
    obtain ⟨hmem, herase, hset⟩ := slot_facts D S i d hD hS hnd
    cases sel with
    | item it =>
      simp only [convSel] at hc
      cases hx : d.index? it with
      | none => rw [hx] at hc; cases hc
      | some p =>
        rw [hx] at hc; cases hc
        have hnd' := nodup_step_item D S i d p hD hS hnd
        obtain ⟨ih1, ih2⟩ := ih hnd'
        refine ⟨?_, ih2⟩
        simp only [dimsOut?]
        unfold drop?
        rw [lookup?_of_only _ k d hmem hm honlyC]
        simp only [Option.map_some, Option.bind_some, herase p]
        exact ih1
    | dim d' =>
      simp only [convSel] at hc
      by_cases hsub : d'.isSubset d = true
      · rw [if_pos hsub] at hc
        cases hx : d'.items.mapM d.index? with
        | none => rw [hx] at hc; cases hc
        | some ps =>
          rw [hx] at hc; cases hc
          have hfr := hfresh d' ps rfl
          have hnd' := nodup_step_sub D S i d d' ps hD hS hnd hfr
          obtain ⟨ih1, ih2⟩ := ih hnd'
          refine ⟨?_, ih2⟩
          simp only [dimsOut?]
          unfold replace?
          have hcont : (letters (outDims D S)).contains d'.letter = false := by simpa using hfr
          rw [hcont]
          simp only [Bool.false_eq_true, if_false]
          rw [index?_of_only _ k d hmem hm honlyC]
          simp only [Option.map_some, Option.bind_some, hset d' ps]
          exact ih1
      · rw [if_neg hsub] at hc; cases hc
    | list its => simp [convSel] at hc

end Flodym
