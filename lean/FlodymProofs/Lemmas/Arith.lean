import FlodymProofs.Lemmas.Einsum
/-!
# Spec lemmas for the arithmetic operators (core Lean only)
-/
namespace Flodym
open DimSet

variable {α : Type}

theorem intersect_sub_left (D D' : DimSet) : ∀ d ∈ intersectWith D D', d ∈ D :=
  fun _ hd => (List.mem_filter.mp hd).1

theorem intersect_sub_right (D D' : DimSet) (hc : Compatible D D') :
    ∀ d ∈ intersectWith D D', d ∈ D' := by
  intro d hd
  obtain ⟨hdD, hl⟩ := List.mem_filter.mp hd
  have : d.letter ∈ letters D' := by simpa using hl
  obtain ⟨d', hd', hl'⟩ := mem_letters.mp this
  have := hc d hdD d' hd' hl'.symm
  rw [this]; exact hd'

theorem letters_intersect (D D' : DimSet) :
    letters (intersectWith D D') = (letters D).filter (fun l => (letters D').contains l) := by
  unfold intersectWith
  exact letters_filter D (fun l => (letters D').contains l)

theorem nodup_letters_intersect (D D' : DimSet) (h : (letters D).Nodup) :
    (letters (intersectWith D D')).Nodup := by
  rw [letters_intersect]
  exact List.Pairwise.filter _ h

theorem FArr.mk?_eq_some (dims : DimSet) (v : ND α) (hnd : (DimSet.letters dims).Nodup)
    (h : v.shape = DimSet.shape dims) :
    FArr.mk? dims v = some ⟨dims, v⟩ := by
  unfold FArr.mk?; rw [if_pos ⟨hnd, h⟩]

/-- whatever the constructor returns is well-formed -/
theorem FArr.mk?_wf (dims : DimSet) (v : ND α) (r : FArr α) (h : FArr.mk? dims v = some r) :
    r = ⟨dims, v⟩ ∧ WF r := by
  unfold FArr.mk? at h
  by_cases hc : (DimSet.letters dims).Nodup ∧ v.shape = DimSet.shape dims
  · rw [if_pos hc] at h
    cases h
    exact ⟨rfl, hc⟩
  · rw [if_neg hc] at h; cases h

section
variable [Add α] [OfNat α 0]

/-- `__add__`, `__sub__`, `minimum`, `maximum` (elementwise `f`) between two arrays -/
theorem addLike_arr_spec (f : α → α → α) (x y : FArr α) (hx : WF x) (hy : WF y)
    (hc : Compatible x.dims y.dims) [Mul α] [OfNat α 1] :
    ∃ r, FArr.addLike? f x (.arr y) = some r ∧
      r.dims = intersectWith x.dims y.dims ∧ WF r ∧
      ∀ e, r.at e = f (margin x r.letters e) (margin y r.letters e) := by
  let D := intersectWith x.dims y.dims
  have hnd : (letters D).Nodup := nodup_letters_intersect _ _ hx.1
  have hsx : ∀ l ∈ letters D, l ∈ x.letters := by
    intro l hl
    obtain ⟨d, hd, rfl⟩ := mem_letters.mp hl
    exact mem_letters.mpr ⟨d, intersect_sub_left _ _ d hd, rfl⟩
  have hsy : ∀ l ∈ letters D, l ∈ y.letters := by
    intro l hl
    obtain ⟨d, hd, rfl⟩ := mem_letters.mp hl
    exact mem_letters.mpr ⟨d, intersect_sub_right _ _ hc d hd, rfl⟩
  obtain ⟨v1, h1, hs1, hg1⟩ := sumValuesToL_spec x hx (letters D) hnd hsx
  obtain ⟨v2, h2, hs2, hg2⟩ := sumValuesToL_spec y hy (letters D) hnd hsy
  have hs1' : v1.shape = DimSet.shape D := by
    rw [hs1]; exact map_size_eq_shape x hx D (intersect_sub_left _ _)
  have hs2' : v2.shape = DimSet.shape D := by
    rw [hs2]; exact map_size_eq_shape y hy D (intersect_sub_right _ _ hc)
  have hshape : v1.shape = v2.shape := by rw [hs1', hs2']
  refine ⟨⟨D, { shape := v1.shape, get := fun i => f (v1.get i) (v2.get i) }⟩, ?_, rfl, ⟨hnd, hs1'⟩, ?_⟩
  · unfold FArr.addLike? FArr.prepareOther?
    simp only [Option.bind_eq_bind, Option.bind_some]
    show (FArr.sumValuesToL? x (letters D)).bind _ = _
    rw [h1]
    simp only [Option.bind_some]
    rw [h2]
    simp only [Option.bind_some, ND.zipWith?, hshape, if_true]
    exact FArr.mk?_eq_some _ _ hnd (by simpa [hshape] using hs2')
  · intro e
    show f (v1.get ((letters D).map e)) (v2.get ((letters D).map e)) = _
    rw [hg1, hg2]; rfl

end

end Flodym

namespace Flodym
open DimSet
variable {α : Type}

/-! ## union of dimension sets, multiplication -/

def unionDims (D D' : DimSet) : DimSet := D ++ D'.filter (fun d => !((letters D).contains d.letter))

theorem letters_union (D D' : DimSet) :
    letters (unionDims D D') = letters D ++ (letters D').filter (fun l => !((letters D).contains l)) := by
  unfold unionDims
  have := letters_filter D' (fun l => !((letters D).contains l))
  simp only [letters, List.map_append] at this ⊢
  rw [this]

theorem nodup_letters_union (D D' : DimSet) (h : (letters D).Nodup) (h' : (letters D').Nodup) :
    (letters (unionDims D D')).Nodup := by
  rw [letters_union, List.nodup_append]
  refine ⟨h, List.Pairwise.filter _ h', ?_⟩
  intro a ha b hb hab
  subst hab
  have := (List.mem_filter.mp hb).2
  simp [ha] at this

theorem unionWith?_eq (D D' : DimSet) (h : (letters D).Nodup) (h' : (letters D').Nodup) :
    unionWith? D D' = some (unionDims D D') := by
  unfold unionWith? expandBy?
  have hall : (D'.filter (fun d => !((letters D).contains d.letter))).all
      (fun d => !((letters D).contains d.letter)) = true := by
    rw [List.all_eq_true]
    intro d hd
    exact (List.mem_filter.mp hd).2
  rw [hall]
  simp only [if_true]
  unfold DimSet.mk?
  have := nodup_letters_union D D' h h'
  unfold unionDims at this ⊢
  rw [if_pos this]

theorem mem_union_letters_of_left {D D' : DimSet} {c : Char} (h : c ∈ letters D) :
    c ∈ letters (unionDims D D') := by
  rw [letters_union]; exact List.mem_append_left _ h

theorem mem_union_letters_of_right {D D' : DimSet} {c : Char} (h : c ∈ letters D') :
    c ∈ letters (unionDims D D') := by
  rw [letters_union]
  by_cases hx : c ∈ letters D
  · exact List.mem_append_left _ hx
  · apply List.mem_append_right
    simp [List.mem_filter, h, hx]

section
variable [Add α] [OfNat α 0] [Mul α]

/-- two-operand einsum whose output carries every input letter: no summation, entry = product -/
theorem einsum2Raw_get_full (s1 s2 out : List Char) (a b : ND α) (e : Env) (hout : out.Nodup)
    (h1 : ∀ l ∈ s1, l ∈ out) (h2 : ∀ l ∈ s2, l ∈ out) :
    (einsum2Raw s1 s2 out a b).get (out.map e) = a.get (s1.map e) * b.get (s2.map e) := by
  unfold einsum2Raw
  simp only
  have hempty : ((s1 ++ s2).eraseDups.filter (fun l => !(out.contains l))) = [] := by
    rw [List.filter_eq_nil_iff]
    intro l hl
    have hl' : l ∈ s1 ++ s2 := by simpa using hl
    have : l ∈ out := by
      rcases List.mem_append.mp hl' with h | h
      · exact h1 l h
      · exact h2 l h
    simp [this]
  rw [hempty]
  simp only [List.map_nil, sumOver]
  congr 2
  · apply map_congr_mem
    intro c hc
    exact bind_map_self _ _ _ hout c (h1 c hc)
  · apply map_congr_mem
    intro c hc
    exact bind_map_self _ _ _ hout c (h2 c hc)

end

/-- the shape einsum reports for the union of the dimensions -/
theorem union_shape (x y : FArr α) (hx : WF x) (hy : WF y) :
    (letters (unionDims x.dims y.dims)).map
      (fun l => if l ∈ x.letters then sizeOfLetter x.letters x.values.shape l
                else sizeOfLetter y.letters y.values.shape l)
      = DimSet.shape (unionDims x.dims y.dims) := by
  unfold unionDims
  simp only [letters, DimSet.shape, List.map_append, List.map_map]
  congr 1
  · apply List.map_congr_left
    intro d hd
    have hm : d.letter ∈ x.letters := mem_letters.mpr ⟨d, hd, rfl⟩
    simp only [Function.comp, hm, if_true]
    rw [hx.2]; exact sizeOfLetter_dims x.dims hx.1 d hd
  · apply List.map_congr_left
    intro d hd
    obtain ⟨hdy, hnot⟩ := List.mem_filter.mp hd
    have hm : d.letter ∉ x.letters := by
      intro hm; simp [FArr.letters, letters] at hm
      simp [letters] at hnot
      obtain ⟨d', hd', hl⟩ := hm
      exact hnot d' hd' hl
    simp only [Function.comp, hm, if_false]
    rw [hy.2]; exact sizeOfLetter_dims y.dims hy.1 d hdy

theorem einsum2Ok_union (x y : FArr α) (hx : WF x) (hy : WF y) (hc : Compatible x.dims y.dims)
    (v : ND α) (hv : v.shape = y.values.shape) :
    einsum2Ok x.letters y.letters (letters (unionDims x.dims y.dims)) x.values v = true := by
  unfold einsum2Ok
  have hlx : x.letters.length = x.values.shape.length := by
    rw [hx.2]; simp [FArr.letters, letters, DimSet.shape]
  have hly : y.letters.length = v.shape.length := by
    rw [hv, hy.2]; simp [FArr.letters, letters, DimSet.shape]
  have hnd := nodup_letters_union x.dims y.dims hx.1 hy.1
  simp only [Bool.and_eq_true, beq_iff_eq, decide_eq_true_eq, List.all_eq_true,
    List.contains_iff_mem, Bool.or_eq_true, Bool.not_eq_true', decide_eq_false_iff_not]
  refine ⟨⟨⟨⟨⟨⟨hlx, hly⟩, hx.1⟩, hy.1⟩, hnd⟩, ?_⟩, ?_⟩
  · intro l hl
    rw [letters_union] at hl
    rcases List.mem_append.mp hl with h | h
    · exact Or.inl h
    · exact Or.inr (List.mem_filter.mp h).1
  · intro l hl
    by_cases hly' : l ∈ y.letters
    · right
      obtain ⟨d, hd, rfl⟩ := mem_letters.mp hl
      obtain ⟨d', hd', hl'⟩ := mem_letters.mp hly'
      have hdd : d = d' := hc d hd d' hd' hl'.symm
      rw [hx.2, hv, hy.2]
      have e1 := sizeOfLetter_dims x.dims hx.1 d hd
      have e2 := sizeOfLetter_dims y.dims hy.1 d' hd'
      rw [← hdd] at e2
      unfold FArr.letters
      rw [e1, e2]
    · left; simpa using hly'

end Flodym

namespace Flodym
open DimSet
variable {α : Type}

/-! ## multiplication / division between arrays, plain numbers as operands -/

theorem compatible_self (D : DimSet) (h : (letters D).Nodup) : Compatible D D := by
  induction D with
  | nil => intro d hd; cases hd
  | cons d0 D ih =>
    simp only [letters, List.map_cons] at h
    rw [List.nodup_cons] at h
    intro d hd d' hd' hl
    cases hd with
    | head =>
      cases hd' with
      | head => rfl
      | tail _ h' => exact absurd (hl ▸ List.mem_map_of_mem (f := (·.letter)) h') h.1
    | tail _ h1 =>
      cases hd' with
      | head => exact absurd (hl ▸ List.mem_map_of_mem (f := (·.letter)) h1) h.1
      | tail _ h' => exact ih h.2 d h1 d' h' hl

theorem intersect_self (D : DimSet) : intersectWith D D = D := by
  unfold intersectWith
  rw [List.filter_eq_self]
  intro d hd
  simpa using mem_letters.mpr ⟨d, hd, rfl⟩

theorem unionDims_self (D : DimSet) : unionDims D D = D := by
  unfold unionDims
  have : D.filter (fun d => !((letters D).contains d.letter)) = [] := by
    rw [List.filter_eq_nil_iff]
    intro d hd
    simpa using mem_letters.mpr ⟨d, hd, rfl⟩
  rw [this, List.append_nil]

section
variable [Add α] [OfNat α 0]

theorem summedOf_self (D : DimSet) : summedOf D (letters D) = [] := by
  unfold summedOf
  have : D.filter (fun d => !((letters D).contains d.letter)) = [] := by
    rw [List.filter_eq_nil_iff]
    intro d hd
    simpa using mem_letters.mpr ⟨d, hd, rfl⟩
  rw [this]; rfl

/-- summing over nothing: the marginal over all of x's own letters is the entry itself -/
theorem margin_self (x : FArr α) (e : Env) : margin x x.letters e = x.at e := by
  unfold margin FArr.letters
  rw [summedOf_self]; rfl

variable [Mul α] [OfNat α 1]

theorem ofNumber?_spec (x : FArr α) (hxn : x.letters.Nodup) (c : α) :
    ∃ r, x.ofNumber? c = some r ∧ r.dims = x.dims ∧ (x.letters.Nodup → WF r) ∧
      ∀ e, r.at e = c * 1 := by
  refine ⟨⟨x.dims, (ND.full (DimSet.shape x.dims) (1 : α)).map (fun o => c * o)⟩, ?_, rfl, ?_, ?_⟩
  · unfold FArr.ofNumber?
    exact FArr.mk?_eq_some _ _ hxn rfl
  · intro h; exact ⟨h, rfl⟩
  · intro e; rfl

theorem einsum2_eq_some (s1 s2 out : List Char) (a b : ND α)
    (h : einsum2Ok s1 s2 out a b = true) :
    einsum2 s1 s2 out a b = some (einsum2Raw s1 s2 out a b) := by
  unfold einsum2; rw [if_pos h]

/-- multiplication of two arrays -/
theorem mul_arr_spec (x y : FArr α) (hx : WF x) (hy : WF y) (hc : Compatible x.dims y.dims) :
    ∃ r, FArr.mul? x (.arr y) = some r ∧ r.dims = unionDims x.dims y.dims ∧ WF r ∧
      ∀ e, r.at e = x.at e * y.at e := by
  have hnd := nodup_letters_union x.dims y.dims hx.1 hy.1
  let out := letters (unionDims x.dims y.dims)
  refine ⟨⟨unionDims x.dims y.dims, einsum2Raw x.letters y.letters out x.values y.values⟩,
    ?_, rfl, ⟨hnd, ?_⟩, ?_⟩
  · unfold FArr.mul? FArr.prepareOther?
    simp only [Option.bind_eq_bind, Option.bind_some]
    rw [unionWith?_eq _ _ hx.1 hy.1]
    simp only [Option.bind_some, Gen.mulIn1, Gen.mulIn2, Gen.mulOut]
    rw [einsum2_eq_some _ _ _ _ _ (einsum2Ok_union x y hx hy hc y.values rfl)]
    simp only [Option.bind_some]
    exact FArr.mk?_eq_some _ _ hnd (union_shape x y hx hy)
  · exact union_shape x y hx hy
  · intro e
    exact einsum2Raw_get_full _ _ _ _ _ e hnd
      (fun l hl => mem_union_letters_of_left hl) (fun l hl => mem_union_letters_of_right hl)

variable [Div α]

/-- division of two arrays: the same einsum with `1.0 / other.values` -/
theorem div_arr_spec (x y : FArr α) (hx : WF x) (hy : WF y) (hc : Compatible x.dims y.dims) :
    ∃ r, FArr.div? x (.arr y) = some r ∧ r.dims = unionDims x.dims y.dims ∧ WF r ∧
      ∀ e, r.at e = x.at e * (1 / y.at e) := by
  have hnd := nodup_letters_union x.dims y.dims hx.1 hy.1
  let out := letters (unionDims x.dims y.dims)
  let yi : FArr α := ⟨y.dims, y.values.map (fun b => (1 : α) / b)⟩
  have hyi : WF yi := ⟨hy.1, hy.2⟩
  refine ⟨⟨unionDims x.dims y.dims, einsum2Raw x.letters y.letters out x.values yi.values⟩,
    ?_, rfl, ⟨hnd, ?_⟩, ?_⟩
  · unfold FArr.div? FArr.prepareOther?
    simp only [Option.bind_eq_bind, Option.bind_some]
    rw [unionWith?_eq _ _ hx.1 hy.1]
    simp only [Option.bind_some, Gen.divIn1, Gen.divIn2, Gen.divOut]
    rw [einsum2_eq_some _ _ _ _ _ (einsum2Ok_union x y hx hy hc (y.values.map (fun b => (1 : α) / b)) rfl)]
    simp only [Option.bind_some]
    exact FArr.mk?_eq_some _ _ hnd (union_shape x yi hx hyi)
  · exact union_shape x yi hx hyi
  · intro e
    exact einsum2Raw_get_full _ _ _ _ _ e hnd
      (fun l hl => mem_union_letters_of_left hl) (fun l hl => mem_union_letters_of_right hl)

end
end Flodym

namespace Flodym
open DimSet
variable {α : Type}

section
variable [Add α] [OfNat α 0] [Mul α] [OfNat α 1]

/-- `x ∘ c` for the add-like operators and a plain number `c`: x's own dimensions, entrywise -/
theorem addLike_num_spec (f : α → α → α) (x : FArr α) (hx : WF x) (c : α) :
    ∃ r, FArr.addLike? f x (.num c) = some r ∧ r.dims = x.dims ∧ WF r ∧
      ∀ e, r.at e = f (x.at e) (c * 1) := by
  obtain ⟨n, hn, hnd, hnwf, hnat⟩ := ofNumber?_spec x hx.1 c
  have hc : Compatible x.dims n.dims := by rw [hnd]; exact compatible_self _ hx.1
  obtain ⟨r, hr, hrd, hrwf, hrat⟩ := addLike_arr_spec f x n hx (hnwf hx.1) hc
  have hrd' : r.dims = x.dims := by rw [hrd, hnd, intersect_self]
  refine ⟨r, ?_, hrd', hrwf, ?_⟩
  · unfold FArr.addLike? FArr.prepareOther? at hr ⊢
    simp only [Option.bind_eq_bind, Option.bind_some] at hr ⊢
    rw [hn]; simpa using hr
  · intro e
    rw [hrat e]
    have h1 : r.letters = x.letters := by unfold FArr.letters; rw [hrd']
    have h2 : r.letters = n.letters := by unfold FArr.letters; rw [hrd', hnd]
    rw [h1, margin_self, ← h1, h2, margin_self, hnat]

theorem mul_num_spec (x : FArr α) (hx : WF x) (c : α) :
    ∃ r, FArr.mul? x (.num c) = some r ∧ r.dims = x.dims ∧ WF r ∧
      ∀ e, r.at e = x.at e * (c * 1) := by
  obtain ⟨n, hn, hnd, hnwf, hnat⟩ := ofNumber?_spec x hx.1 c
  have hc : Compatible x.dims n.dims := by rw [hnd]; exact compatible_self _ hx.1
  obtain ⟨r, hr, hrd, hrwf, hrat⟩ := mul_arr_spec x n hx (hnwf hx.1) hc
  refine ⟨r, ?_, by rw [hrd, hnd, unionDims_self], hrwf, ?_⟩
  · unfold FArr.mul? FArr.prepareOther? at hr ⊢
    simp only [Option.bind_eq_bind, Option.bind_some] at hr ⊢
    rw [hn]; simpa using hr
  · intro e; rw [hrat e, hnat]

theorem div_num_spec [Div α] (x : FArr α) (hx : WF x) (c : α) :
    ∃ r, FArr.div? x (.num c) = some r ∧ r.dims = x.dims ∧ WF r ∧
      ∀ e, r.at e = x.at e * (1 / (c * 1)) := by
  obtain ⟨n, hn, hnd, hnwf, hnat⟩ := ofNumber?_spec x hx.1 c
  have hc : Compatible x.dims n.dims := by rw [hnd]; exact compatible_self _ hx.1
  obtain ⟨r, hr, hrd, hrwf, hrat⟩ := div_arr_spec x n hx (hnwf hx.1) hc
  refine ⟨r, ?_, by rw [hrd, hnd, unionDims_self], hrwf, ?_⟩
  · unfold FArr.div? FArr.prepareOther? at hr ⊢
    simp only [Option.bind_eq_bind, Option.bind_some] at hr ⊢
    rw [hn]; simpa using hr
  · intro e; rw [hrat e, hnat]

end

/-- `-x`, `abs`, `sign`, `apply(f)`: entry by entry, same dimensions -/
theorem mapValues_spec (f : α → α) (x : FArr α) (hx : WF x) :
    ∃ r, FArr.mapValues? f x = some r ∧ r.dims = x.dims ∧ WF r ∧ ∀ e, r.at e = f (x.at e) := by
  refine ⟨⟨x.dims, x.values.map f⟩, ?_, rfl, ⟨hx.1, hx.2⟩, fun _ => rfl⟩
  unfold FArr.mapValues?
  exact FArr.mk?_eq_some _ _ hx.1 hx.2

theorem neg_spec [Neg α] (x : FArr α) (hx : WF x) :
    ∃ r, FArr.neg? x = some r ∧ r.dims = x.dims ∧ WF r ∧ ∀ e, r.at e = -(x.at e) :=
  mapValues_spec (fun a => -a) x hx

end Flodym
