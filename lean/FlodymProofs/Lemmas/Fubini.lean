import FlodymProofs.Lemmas.Core
import Mathlib.Algebra.BigOperators.Group.Finset.Basic
import Mathlib.Algebra.BigOperators.Ring.Finset
import Mathlib.Algebra.BigOperators.Group.Finset.Sigma
import Mathlib.Data.List.Perm.Basic
import Mathlib.Data.List.Nodup
/-!
# Nested label sums as `Finset` sums: reordering, splitting, linearity
-/
open Finset BigOperators
namespace Flodym

variable {α : Type}

section monoid
variable [AddCommMonoid α]

/-- the model's fold coincides with the `Finset` sum -/
theorem sumRange_eq (n : Nat) (f : Nat → α) : sumRange n f = ∑ i ∈ range n, f i := by
  unfold sumRange
  induction n with
  | zero => simp
  | succ n ih =>
    rw [List.range_succ, List.foldr_append, Finset.sum_range_succ]
    simp only [List.foldr_cons, List.foldr_nil, add_zero]
    have : ∀ (l : List Nat) (a : α),
        l.foldr (fun i acc => f i + acc) a = l.foldr (fun i acc => f i + acc) 0 + a := by
      intro l a
      induction l with
      | nil => simp
      | cons x xs ihx => simp [List.foldr_cons, ihx, add_assoc]
    rw [this, ih]

theorem Env.set_comm (e : Env) {l1 l2 : Char} (h : l1 ≠ l2) (i j : Nat) :
    (e.set l1 i).set l2 j = (e.set l2 j).set l1 i := by
  funext c
  simp only [Env.set]
  by_cases h1 : c = l1 <;> by_cases h2 : c = l2 <;> simp_all

theorem sumOver_swap (l1 l2 : Char) (n1 n2 : Nat) (ls : List (Char × Nat)) (f : Env → α) (e : Env)
    (h : l1 ≠ l2) :
    sumOver ((l1, n1) :: (l2, n2) :: ls) f e = sumOver ((l2, n2) :: (l1, n1) :: ls) f e := by
  simp only [sumOver, sumRange_eq]
  rw [Finset.sum_comm]
  apply Finset.sum_congr rfl; intro j _
  apply Finset.sum_congr rfl; intro i _
  rw [Env.set_comm e h]

/-- nested label sums may be reordered -/
theorem sumOver_perm {ls ls' : List (Char × Nat)} (hp : ls.Perm ls') (f : Env → α)
    (hnd : (ls.map Prod.fst).Nodup) : ∀ e, sumOver ls f e = sumOver ls' f e := by
  induction hp with
  | nil => intro e; rfl
  | cons x hp ih =>
    intro e
    obtain ⟨l, n⟩ := x
    simp only [sumOver, sumRange_eq]
    apply Finset.sum_congr rfl; intro i _
    exact ih (by simpa using (List.nodup_cons.mp hnd).2) _
  | swap x y l =>
    intro e
    obtain ⟨l1, n1⟩ := x; obtain ⟨l2, n2⟩ := y
    apply sumOver_swap
    simp only [List.map_cons, List.nodup_cons, List.mem_cons, not_or] at hnd
    exact fun h => hnd.1.1 h
  | trans h1 h2 ih1 ih2 =>
    intro e
    rw [ih1 hnd e]
    exact ih2 ((h1.map Prod.fst).nodup_iff.mp hnd) e

/-- summing in stages = summing at once -/
theorem sumOver_append (l1 l2 : List (Char × Nat)) (f : Env → α) (e : Env) :
    sumOver (l1 ++ l2) f e = sumOver l1 (fun e' => sumOver l2 f e') e := by
  induction l1 generalizing e with
  | nil => rfl
  | cons p l1 ih =>
    obtain ⟨l, n⟩ := p
    simp only [List.cons_append, sumOver]
    apply sumRange_congr
    intro i _
    exact ih _

theorem sumOver_add (ls : List (Char × Nat)) (f g : Env → α) (e : Env) :
    sumOver ls (fun e' => f e' + g e') e = sumOver ls f e + sumOver ls g e := by
  induction ls generalizing e with
  | nil => rfl
  | cons p ls ih =>
    obtain ⟨l, n⟩ := p
    simp only [sumOver, sumRange_eq]
    rw [← Finset.sum_add_distrib]
    apply Finset.sum_congr rfl; intro i _
    exact ih _

theorem sumOver_zero (ls : List (Char × Nat)) (e : Env) :
    sumOver ls (fun _ => (0 : α)) e = 0 := by
  induction ls generalizing e with
  | nil => rfl
  | cons p ls ih =>
    obtain ⟨l, n⟩ := p
    simp only [sumOver, sumRange_eq]
    apply Finset.sum_eq_zero; intro i _
    exact ih _

end monoid

section semiring
variable [Semiring α]

theorem sumOver_mul_right (ls : List (Char × Nat)) (f : Env → α) (c : α) (e : Env) :
    sumOver ls (fun e' => f e' * c) e = sumOver ls f e * c := by
  induction ls generalizing e with
  | nil => rfl
  | cons p ls ih =>
    obtain ⟨l, n⟩ := p
    simp only [sumOver, sumRange_eq]
    rw [Finset.sum_mul]
    apply Finset.sum_congr rfl; intro i _
    exact ih _

theorem sumOver_mul_left (ls : List (Char × Nat)) (f : Env → α) (c : α) (e : Env) :
    sumOver ls (fun e' => c * f e') e = c * sumOver ls f e := by
  induction ls generalizing e with
  | nil => rfl
  | cons p ls ih =>
    obtain ⟨l, n⟩ := p
    simp only [sumOver, sumRange_eq]
    rw [Finset.mul_sum]
    apply Finset.sum_congr rfl; intro i _
    exact ih _

/-- a constant summand is counted once per label combination -/
theorem sumOver_const (ls : List (Char × Nat)) (c : α) (e : Env) :
    sumOver ls (fun _ => c) e = ((ls.map Prod.snd).prod : ℕ) * c := by
  induction ls generalizing e with
  | nil => simp [sumOver]
  | cons p ls ih =>
    obtain ⟨l, n⟩ := p
    simp only [sumOver, sumRange_eq, List.map_cons, List.prod_cons]
    rw [Finset.sum_congr rfl (fun i _ => ih (e.set l i))]
    simp [Finset.sum_const, mul_assoc]

end semiring

section ring
variable [Ring α]

theorem sumOver_neg (ls : List (Char × Nat)) (f : Env → α) (e : Env) :
    sumOver ls (fun e' => -f e') e = -sumOver ls f e := by
  have := sumOver_mul_left ls f (-1 : α) e
  simpa using this

theorem sumOver_sub (ls : List (Char × Nat)) (f g : Env → α) (e : Env) :
    sumOver ls (fun e' => f e' - g e') e = sumOver ls f e - sumOver ls g e := by
  simp only [sub_eq_add_neg]
  rw [sumOver_add, sumOver_neg]

end ring
end Flodym
