import Flodym.Build
import FlodymProofs.Lemmas.Lookup
/-!
# Lemmas about the dictionary-building loops of `make_processes` / `make_empty_flows` / `make_empty_stocks`
-/
namespace Flodym.Build
open Flodym DimSet

variable {α β : Type}

theorem dictPut_fresh (d : List (String × β)) (k : String) (v : β) (h : ∀ e ∈ d, e.1 ≠ k) :
    dictPut d k v = d ++ [(k, v)] := by
  unfold dictPut
  rw [if_neg]
  simp only [List.any_eq_true, beq_iff_eq, not_exists, not_and]
  exact fun e he => h e he

theorem dictGet?_append_fresh (d : List (String × β)) (k : String) (v : β) (h : ∀ e ∈ d, e.1 ≠ k) :
    dictGet? (d ++ [(k, v)]) k = some v := by
  unfold dictGet?
  rw [List.find?_append]
  have : d.find? (fun e => e.1 == k) = none := by
    rw [List.find?_eq_none]
    intro e he
    simpa using h e he
  rw [this]
  simp

theorem dictGet?_none (d : List (String × β)) (k : String) (h : ∀ e ∈ d, e.1 ≠ k) : dictGet? d k = none := by
  unfold dictGet?
  have : d.find? (fun e => e.1 == k) = none := by
    rw [List.find?_eq_none]
    intro e he
    simpa using h e he
  rw [this]; rfl

/-- looking up a key of a dictionary with distinct keys -/
theorem dictGet?_mem (d : List (String × β)) (hk : (d.map (·.1)).Nodup) (k : String) (v : β) (h : (k, v) ∈ d) :
    dictGet? d k = some v := by
  unfold dictGet?
  rw [find?_unique d _ (k, v) h (by simp)]
  · rfl
  · intro e he hp
    have hp' : e.1 = k := by simpa using hp
    induction d with
    | nil => cases h
    | cons a d ih =>
      simp only [List.map_cons, List.nodup_cons] at hk
      cases h with
      | head =>
        cases he with
        | head => rfl
        | tail _ he' => exact absurd (hp' ▸ List.mem_map_of_mem (f := (·.1)) he') hk.1
      | tail _ h' =>
        cases he with
        | head => exact absurd (hp' ▸ List.mem_map_of_mem (f := (·.1)) h') hk.1
        | tail _ he' => exact ih hk.2 h' he'

/-- the loop with an arbitrary starting dictionary -/
def buildFrom (acc : List (String × β)) (l : List α) (f : α → Option (String × β)) : Option (List (String × β)) :=
  l.foldlM (fun d a => (f a).map fun kv => dictPut d kv.1 kv.2) acc

theorem buildDict_eq (l : List α) (f : α → Option (String × β)) : buildDict l f = buildFrom [] l f := rfl

/-- every entry builds, the names are new and distinct: the dictionary lists them in order -/
theorem buildFrom_spec (l : List α) (f : α → Option (String × β)) (g : α → String × β) :
    ∀ (acc : List (String × β)), (∀ a ∈ l, f a = some (g a)) → (l.map fun a => (g a).1).Nodup →
    (∀ a ∈ l, ∀ e ∈ acc, e.1 ≠ (g a).1) → buildFrom acc l f = some (acc ++ l.map g) := by
  induction l with
  | nil => intro acc _ _ _; simp [buildFrom]
  | cons a l ih =>
    intro acc hf hnd hacc
    unfold buildFrom
    simp only [List.foldlM_cons, hf a (by simp), Option.map_some, Option.bind_eq_bind, Option.bind_some]
    rw [dictPut_fresh _ _ _ (hacc a (by simp))]
    simp only [List.map_cons, List.nodup_cons] at hnd
    have := ih (acc ++ [((g a).1, (g a).2)]) (fun b hb => hf b (by simp [hb])) hnd.2 (by
      intro b hb e he
      rcases List.mem_append.mp he with h | h
      · exact hacc b (by simp [hb]) e h
      · simp only [List.mem_singleton] at h
        subst h
        intro heq
        exact hnd.1 (List.mem_map.mpr ⟨b, hb, heq.symm⟩))
    unfold buildFrom at this
    rw [this]
    simp

/-- one entry that cannot be built refuses the whole call -/
theorem buildFrom_none (l : List α) (f : α → Option (String × β)) (a : α) (ha : a ∈ l) (hf : f a = none) :
    ∀ acc, buildFrom acc l f = none := by
  induction l with
  | nil => cases ha
  | cons b l ih =>
    intro acc
    unfold buildFrom
    simp only [List.foldlM_cons, Option.bind_eq_bind]
    cases ha with
    | head => rw [hf]; rfl
    | tail _ h =>
      cases hb : f b with
      | none => rfl
      | some kv => exact ih h _

theorem buildDict_spec (l : List α) (f : α → Option (String × β)) (g : α → String × β)
    (hf : ∀ a ∈ l, f a = some (g a)) (hnd : (l.map fun a => (g a).1).Nodup) : buildDict l f = some (l.map g) := by
  rw [buildDict_eq, buildFrom_spec l f g [] hf hnd (by simp)]
  simp

theorem buildDict_none (l : List α) (f : α → Option (String × β)) (a : α) (ha : a ∈ l) (hf : f a = none) :
    buildDict l f = none := buildFrom_none l f a ha hf []

end Flodym.Build
