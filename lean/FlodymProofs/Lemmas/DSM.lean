import Flodym.Stocks
import FlodymProofs.Lemmas.Fubini
import Mathlib.Algebra.Field.Basic
import Mathlib.Tactic.Ring
import Mathlib.Tactic.FieldSimp
import Mathlib.Tactic.Linarith
/-!
# Helper lemmas for the stock models: unfolding the einsum patterns, sums as `Finset` sums,
telescoping, forward substitution
-/
open Finset BigOperators
namespace Flodym.DSM

variable {K : Type} [Field K]

/-! ## the regenerated subscripts mean what the model assumes -/

@[simp] theorem toWholePeriod_apply (it : Nat → K) (n : Nat) (a : Nat → Nat → K) (t j : Nat) :
    toWholePeriod it n a t j = a t j * dt it n t := by
  unfold toWholePeriod scaleByT
  have : parsePattern Gen.wholePeriodSub = some .scaleByT := by decide
  rw [this]

@[simp] theorem toAnnual_apply (it : Nat → K) (n : Nat) (a : Nat → Nat → K) (t j : Nat) :
    toAnnual it n a t j = a t j * (1 / dt it n t) := by
  unfold toAnnual scaleByT
  have : parsePattern Gen.annualSub = some .scaleByT := by decide
  rw [this]

theorem cohortMul_stock (a : Nat → Nat → K) (b : Nat → Nat → Nat → K) (t c j : Nat) :
    cohortMul Gen.stockCohortSub a b t c j = a c j * b t c j := by
  unfold cohortMul
  have : parsePattern Gen.stockCohortSub = some .cohort := by decide
  rw [this]

theorem cohortMul_sd (a : Nat → Nat → K) (b : Nat → Nat → Nat → K) (t c j : Nat) :
    cohortMul Gen.sdCohortSub a b t c j = a c j * b t c j := by
  unfold cohortMul
  have : parsePattern Gen.sdCohortSub = some .cohort := by decide
  rw [this]

theorem cohortMul_outflow (a : Nat → Nat → K) (b : Nat → Nat → Nat → K) (t c j : Nat) :
    cohortMul Gen.outflowCohortSub a b t c j = a c j * b t c j := by
  unfold cohortMul
  have : parsePattern Gen.outflowCohortSub = some .cohort := by decide
  rw [this]

theorem cohortScale_outflow (a : Nat → Nat → Nat → K) (v : Nat → K) (t c j : Nat) :
    cohortScaleByT Gen.outflowAnnualSub a v t c j = a t c j * v t := by
  unfold cohortScaleByT
  have : parsePattern Gen.outflowAnnualSub = some .cohortScaleByT := by decide
  rw [this]

theorem sumCohorts_eq (n : Nat) (a : Nat → Nat → Nat → K) (t j : Nat) :
    sumCohorts n a t j = ∑ c ∈ range n, a t c j := by
  unfold sumCohorts; exact sumRange_eq _ _

theorem sumList_eq_sum (l : List K) : sumList l = l.sum := by
  unfold sumList
  induction l with
  | nil => rfl
  | cons a l ih => simp [List.foldr_cons, ih]

theorem sumList_range_map (n : Nat) (f : Nat → K) :
    sumList ((List.range n).map f) = ∑ i ∈ range n, f i := by
  rw [sumList_eq_sum]
  induction n with
  | zero => simp
  | succ n ih => rw [List.range_succ, List.map_append, List.sum_append, ih, Finset.sum_range_succ]; simp

/-! ## results of the two dynamic stock models, entry by entry -/

theorem computeOutflow_obc (it : Nat → K) (n : Nat) (inflow : Nat → Nat → K) (pdf : Nat → Nat → Nat → K)
    (t c j : Nat) :
    (computeOutflow it n inflow pdf).1 t c j = inflow c j * dt it n c * pdf t c j * (1 / dt it n t) := by
  unfold computeOutflow
  simp only [cohortScale_outflow, cohortMul_outflow, toWholePeriod_apply]

theorem computeOutflow_outflow (it : Nat → K) (n : Nat) (inflow : Nat → Nat → K)
    (pdf : Nat → Nat → Nat → K) (t j : Nat) :
    (computeOutflow it n inflow pdf).2 t j
      = ∑ c ∈ range n, inflow c j * dt it n c * pdf t c j * (1 / dt it n t) := by
  unfold computeOutflow
  simp only [sumCohorts_eq, cohortScale_outflow, cohortMul_outflow, toWholePeriod_apply]

theorem inflowDriven_sbc (it : Nat → K) (n : Nat) (inflow : Nat → Nat → K) (sf : Nat → Nat → Nat → K)
    (t c j : Nat) :
    (inflowDriven it n inflow sf).stockByCohort t c j = inflow c j * dt it n c * sf t c j := by
  unfold inflowDriven inflowDrivenWith
  simp only [cohortMul_stock, toWholePeriod_apply]

theorem inflowDriven_stock (it : Nat → K) (n : Nat) (inflow : Nat → Nat → K) (sf : Nat → Nat → Nat → K)
    (t j : Nat) :
    (inflowDriven it n inflow sf).stock t j = ∑ c ∈ range n, inflow c j * dt it n c * sf t c j := by
  unfold inflowDriven inflowDrivenWith
  simp only [sumCohorts_eq, cohortMul_stock, toWholePeriod_apply]

theorem inflowDriven_obc (it : Nat → K) (n : Nat) (inflow : Nat → Nat → K) (sf : Nat → Nat → Nat → K)
    (t c j : Nat) :
    (inflowDriven it n inflow sf).outflowByCohort t c j
      = inflow c j * dt it n c * pdfTable sf t c j * (1 / dt it n t) := by
  unfold inflowDriven inflowDrivenWith
  exact computeOutflow_obc it n inflow (pdfTable sf) t c j

theorem inflowDriven_outflow (it : Nat → K) (n : Nat) (inflow : Nat → Nat → K) (sf : Nat → Nat → Nat → K)
    (t j : Nat) :
    (inflowDriven it n inflow sf).outflow t j
      = ∑ c ∈ range n, inflow c j * dt it n c * pdfTable sf t c j * (1 / dt it n t) := by
  unfold inflowDriven inflowDrivenWith
  exact computeOutflow_outflow it n inflow (pdfTable sf) t j

theorem inflowDriven_inflow (it : Nat → K) (n : Nat) (inflow : Nat → Nat → K) (sf : Nat → Nat → Nat → K) :
    (inflowDriven it n inflow sf).inflow = inflow := rfl

/-! ## the key telescoping identity: stock change = whole-period inflow minus what left -/

/-- a survival table is lower triangular -/
def LowerTri (sf : Nat → Nat → Nat → K) : Prop := ∀ t c j, t < c → sf t c j = 0

/-- generic balance: for any inflow `i`, the cohort-summed stock `Σ_c i_c dt_c sf_tc` changes from
`t-1` to `t` by the whole-period inflow of `t` minus the whole-period cohort outflows of `t` -/
theorem stock_step (n : Nat) (w : Nat → K) (sf : Nat → Nat → K) (hlt : ∀ t c, t < c → sf t c = 0)
    (pdf : Nat → Nat → K)
    (hpdf : ∀ t c, pdf t c = if t < c then 0 else if t = c then 1 - sf c c else sf (t - 1) c - sf t c)
    (t : Nat) (ht : t < n) :
    (∑ c ∈ range n, w c * sf t c) - (if t = 0 then 0 else ∑ c ∈ range n, w c * sf (t - 1) c)
      = w t - ∑ c ∈ range n, w c * pdf t c := by
  have key : ∀ c ∈ range n,
      w c * sf t c - (if t = 0 then 0 else w c * sf (t - 1) c)
        = (if c = t then w t else 0) - w c * pdf t c := by
    intro c _
    rw [hpdf t c]
    by_cases h1 : t < c
    · have h3 : c ≠ t := by omega
      have h4 : t - 1 < c := by omega
      simp [h1, hlt _ _ h1, hlt _ _ h4, h3]
    · by_cases h2 : t = c
      · subst h2
        by_cases h0 : t = 0
        · subst h0; simp; ring
        · have : sf (t - 1) t = 0 := hlt _ _ (by omega)
          simp [h0, this]; ring
      · have h3 : c ≠ t := fun h => h2 h.symm
        have h0 : t ≠ 0 := by omega
        simp [h1, h2, h3, h0]; ring
  have hsplit : (if t = 0 then (0 : K) else ∑ c ∈ range n, w c * sf (t - 1) c)
      = ∑ c ∈ range n, (if t = 0 then 0 else w c * sf (t - 1) c) := by
    by_cases h0 : t = 0 <;> simp [h0]
  rw [hsplit, ← sum_sub_distrib, sum_congr rfl key, sum_sub_distrib]
  congr 1
  rw [sum_ite_eq' (range n) t]
  simp [mem_range.mpr ht]

/-! ## forward substitution -/

/-- the list built by `_compute_inflow_manual` has one entry per row -/
theorem manual_length (stock : Nat → Nat → K) (sf : Nat → Nat → Nat → K) (j : Nat) :
    ∀ i, (inflowWholePeriodManual stock sf j i).length = i
  | 0 => rfl
  | i + 1 => by simp [inflowWholePeriodManual, manual_length stock sf j i]

/-- earlier entries are not touched by later rows -/
theorem manual_prefix (stock : Nat → Nat → K) (sf : Nat → Nat → Nat → K) (j : Nat) (i k : Nat) (hk : k < i) :
    ∀ d, (inflowWholePeriodManual stock sf j (i + d)).getD k 0 = (inflowWholePeriodManual stock sf j i).getD k 0
  | 0 => rfl
  | d + 1 => by
    have ih := manual_prefix stock sf j i k hk d
    rw [← ih]
    show (inflowWholePeriodManual stock sf j (i + d + 1)).getD k 0 = _
    simp only [inflowWholePeriodManual]
    rw [List.getD_eq_getElem?_getD, List.getD_eq_getElem?_getD,
      List.getElem?_append_left (by rw [manual_length]; omega)]

theorem sdInflowWP_eq (n : Nat) (stock : Nat → Nat → K) (sf : Nat → Nat → Nat → K) (t j : Nat) (ht : t < n) :
    sdInflowWP n stock sf t j
      = (stock t j - ∑ c ∈ range t, sf t c j * sdInflowWP n stock sf c j) / sf t t j := by
  unfold sdInflowWP
  obtain ⟨d, rfl⟩ : ∃ d, n = (t + 1) + d := ⟨n - (t + 1), by omega⟩
  rw [manual_prefix stock sf j (t + 1) t (by omega) d]
  simp only [inflowWholePeriodManual]
  rw [List.getD_eq_getElem?_getD, List.getElem?_append_right (by rw [manual_length]),
    manual_length]
  simp only [Nat.sub_self, List.getElem?_cons_zero, Option.getD_some]
  rw [sumList_range_map]
  congr 2
  apply sum_congr rfl
  intro c hc
  have hct : c < t := mem_range.mp hc
  congr 1
  have := manual_prefix stock sf j t c hct (1 + d)
  rw [show t + (1 + d) = t + 1 + d by omega] at this
  rw [this]

/-- the manual solver solves the lower-triangular system `Σ_{c≤t} sf_tc x_c = stock_t` -/
theorem manual_solves (n : Nat) (stock : Nat → Nat → K) (sf : Nat → Nat → Nat → K)
    (hd : ∀ t j, t < n → sf t t j ≠ 0) (t j : Nat) (ht : t < n) :
    ∑ c ∈ range (t + 1), sf t c j * sdInflowWP n stock sf c j = stock t j := by
  rw [sum_range_succ, sdInflowWP_eq n stock sf t j ht]
  field_simp [hd t j ht]
  ring

/-- … and its solution is the only one (this is what LAPACK's `trtrs` is specified to return) -/
theorem solution_unique (n : Nat) (stock : Nat → Nat → K) (sf : Nat → Nat → Nat → K)
    (hd : ∀ t j, t < n → sf t t j ≠ 0) (x : Nat → Nat → K) (j : Nat)
    (hx : ∀ t, t < n → ∑ c ∈ range (t + 1), sf t c j * x c j = stock t j) :
    ∀ t, t < n → x t j = sdInflowWP n stock sf t j := by
  intro t
  induction t using Nat.strong_induction_on with
  | _ t ih =>
    intro ht
    have h1 := hx t ht
    have h2 := manual_solves n stock sf hd t j ht
    rw [sum_range_succ] at h1 h2
    have hsum : ∑ c ∈ range t, sf t c j * x c j = ∑ c ∈ range t, sf t c j * sdInflowWP n stock sf c j := by
      apply sum_congr rfl
      intro c hc
      rw [ih c (mem_range.mp hc) (by have := mem_range.mp hc; omega)]
    rw [hsum] at h1
    have : sf t t j * x t j = sf t t j * sdInflowWP n stock sf t j := by
      have := h1.trans h2.symm
      exact add_left_cancel this
    exact mul_left_cancel₀ (hd t j ht) this

end Flodym.DSM
