import FlodymProofs.Lemmas.Core
/-!
# Lookup of dimensions by letter / name (`_full_mapping`) — core Lean only
-/
namespace Flodym
open DimSet

/-- every dimension satisfies the pydantic field constraint on names (at least two characters),
so that a name can never be mistaken for a letter -/
def NamesOk (D : DimSet) : Prop := ∀ d ∈ D, 2 ≤ d.name.length

instance (D : DimSet) : Decidable (NamesOk D) := by unfold NamesOk; exact inferInstance

theorem find?_unique {β : Type} (L : List β) (p : β → Bool) (d : β) (hd : d ∈ L) (hp : p d = true)
    (hu : ∀ d' ∈ L, p d' = true → d' = d) : L.find? p = some d := by
  induction L with
  | nil => cases hd
  | cons a L ih =>
    by_cases ha : p a = true
    · have := hu a (by simp) ha
      subst this
      simp [List.find?_cons, ha]
    · simp only [Bool.not_eq_true] at ha
      simp only [List.find?_cons, ha]
      cases hd with
      | head => rw [hp] at ha; cases ha
      | tail _ h => exact ih h (fun d' hd' => hu d' (by simp [hd']))

theorem char_toString_inj {a b : Char} (h : a.toString = b.toString) : a = b := by
  simpa [Char.toString] using h

theorem char_toString_length (a : Char) : a.toString.length = 1 := by
  simp [Char.toString]

theorem keyMatches_letter (D : DimSet) (hn : NamesOk D) (d : Dim) (hd : d ∈ D) (l : Char) :
    keyMatches d l.toString = true ↔ d.letter = l := by
  unfold keyMatches
  have hname : (d.name == l.toString) = false := by
    rw [beq_eq_false_iff_ne]
    intro h
    have := hn d hd
    rw [h, char_toString_length] at this
    omega
  rw [hname, Bool.false_or, beq_iff_eq]
  exact ⟨char_toString_inj, fun h => by rw [h]⟩

/-- looking a dimension up by its letter finds it -/
theorem lookup?_letter (D : DimSet) (hnd : (letters D).Nodup) (hn : NamesOk D) (d : Dim) (hd : d ∈ D) :
    lookup? D d.letter.toString = some d := by
  unfold lookup?
  apply find?_unique
  · simpa using hd
  · exact (keyMatches_letter D hn d hd d.letter).mpr rfl
  · intro d' hd' hp
    have hd'' : d' ∈ D := by simpa using hd'
    have := (keyMatches_letter D hn d' hd'' d.letter).mp hp
    exact compatible_self' D hnd d' hd'' d hd this
where
  compatible_self' (D : DimSet) (h : (letters D).Nodup) :
      ∀ d ∈ D, ∀ d' ∈ D, d.letter = d'.letter → d = d' := by
    induction D with
    | nil => intro d hd; cases hd
    | cons d0 D ih =>
      simp only [letters, List.map_cons] at h
      rw [List.nodup_cons] at h
      intro d hd d' hd' hl
      cases hd with
      | head =>
        cases hd' with
        | head => rfl
        | tail _ h' => exact absurd (hl ▸ List.mem_map_of_mem (f := (·.letter)) h') h.1
      | tail _ h1 =>
        cases hd' with
        | head => exact absurd (hl ▸ List.mem_map_of_mem (f := (·.letter)) h1) h.1
        | tail _ h' => exact ih h.2 d h1 d' h' hl

/-- looking a dimension up by its name finds it, when names are distinct -/
theorem lookup?_name (D : DimSet) (hnames : (names D).Nodup) (hn : NamesOk D) (d : Dim) (hd : d ∈ D) :
    lookup? D d.name = some d := by
  unfold lookup?
  apply find?_unique
  · simpa using hd
  · simp [keyMatches]
  · intro d' hd' hp
    have hd'' : d' ∈ D := by simpa using hd'
    unfold keyMatches at hp
    have hl : (d'.letter.toString == d.name) = false := by
      rw [beq_eq_false_iff_ne]
      intro h
      have := hn d hd
      rw [← h, char_toString_length] at this
      omega
    rw [hl, Bool.or_false, beq_iff_eq] at hp
    -- equal names → equal dimensions, by distinctness of names
    exact names_inj D hnames d' hd'' d hd hp
where
  names_inj (D : DimSet) (h : (names D).Nodup) :
      ∀ d ∈ D, ∀ d' ∈ D, d.name = d'.name → d = d' := by
    induction D with
    | nil => intro d hd; cases hd
    | cons d0 D ih =>
      simp only [names, List.map_cons] at h
      rw [List.nodup_cons] at h
      intro d hd d' hd' hl
      cases hd with
      | head =>
        cases hd' with
        | head => rfl
        | tail _ h' => exact absurd (hl ▸ List.mem_map_of_mem (f := (·.name)) h') h.1
      | tail _ h1 =>
        cases hd' with
        | head => exact absurd (hl ▸ List.mem_map_of_mem (f := (·.name)) h1) h.1
        | tail _ h' => exact ih h.2 d h1 d' h' hl

/-- a key that is neither a letter nor a name of the set is not found -/
theorem lookup?_unknown (D : DimSet) (key : String)
    (h : ∀ d ∈ D, d.name ≠ key ∧ d.letter.toString ≠ key) : lookup? D key = none := by
  unfold lookup?
  rw [List.find?_eq_none]
  intro d hd
  have hd' : d ∈ D := by simpa using hd
  obtain ⟨h1, h2⟩ := h d hd'
  unfold keyMatches
  rw [Bool.or_eq_true, beq_iff_eq, beq_iff_eq]
  exact fun h' => h'.elim h1 h2

/-- `get_subset(letters)` returns the dimensions in the requested order -/
theorem getSubset?_letters (D : DimSet) (hnd : (letters D).Nodup) (hn : NamesOk D)
    (ds : List Dim) (hds : ∀ d ∈ ds, d ∈ D) (hdn : (letters ds).Nodup) :
    getSubset? D (some ((letters ds).map (·.toString))) = some ds := by
  have hm : List.mapM (lookup? D) ((letters ds).map (·.toString)) = some ds := by
    clear hdn
    induction ds with
    | nil => rfl
    | cons d ds ih =>
      simp only [letters, List.map_cons, List.mapM_cons]
      rw [lookup?_letter D hnd hn d (hds d (by simp))]
      have := ih (fun d' hd' => hds d' (by simp [hd']))
      simp only [letters] at this
      rw [this]; rfl
  show (List.mapM (lookup? D) ((letters ds).map (·.toString))).bind DimSet.mk? = some ds
  rw [hm]
  show DimSet.mk? ds = some ds
  unfold DimSet.mk?
  rw [if_pos hdn]

end Flodym
