import FlodymProofs.Lemmas.Handler
import FlodymProofs.Lemmas.Arith
/-!
# `__getitem__` / `__setitem__` with a dict key: label-level meaning (core Lean only)
-/
namespace Flodym
open DimSet SubArray

variable {α : Type}

/-! ## index tuples of a shape -/

theorem mem_allIdx : ∀ (shape idx : List Nat),
    idx ∈ allIdx shape ↔ idx.length = shape.length ∧ ∀ j (h : j < idx.length) (h' : j < shape.length), idx[j] < shape[j]
  | [], idx => by
    simp only [allIdx, List.mem_singleton, List.length_nil]
    constructor
    · rintro rfl; exact ⟨rfl, fun j h => by simp at h⟩
    · rintro ⟨h, _⟩; exact List.eq_nil_of_length_eq_zero h
  | n :: ns, idx => by
    simp only [allIdx, List.mem_flatMap, List.mem_range, List.mem_map]
    constructor
    · rintro ⟨i, hi, r, hr, rfl⟩
      obtain ⟨h1, h2⟩ := (mem_allIdx ns r).mp hr
      refine ⟨by simp [h1], ?_⟩
      intro j h h'
      cases j with
      | zero => simpa using hi
      | succ j => simpa using h2 j (by simpa using h) (by simpa using h')
    · rintro ⟨hlen, hlt⟩
      cases idx with
      | nil => simp at hlen
      | cons i r =>
        have h0 := hlt 0 (by simp) (by simp)
        simp only [List.getElem_cons_zero] at h0
        refine ⟨i, h0, r, ?_, rfl⟩
        apply (mem_allIdx ns r).mpr
        refine ⟨by simpa using hlen, ?_⟩
        intro j h h'
        have hj := hlt (j + 1) (by simpa using h) (by simpa using h')
        simp only [List.getElem_cons_succ] at hj
        exact hj

/-- the index tuple a valid environment gives to a dimension list is one of the enumerated ones -/
theorem map_mem_allIdx (D : DimSet) (e : Env) (hv : Valid D e) :
    (letters D).map e ∈ allIdx (DimSet.shape D) := by
  apply (mem_allIdx _ _).mpr
  refine ⟨by simp [letters, DimSet.shape], ?_⟩
  intro j h h'
  simp only [letters, DimSet.shape, List.getElem_map]
  have hj : j < D.length := by simpa [DimSet.shape] using h'
  exact hv D[j] (List.getElem_mem hj)

theorem map_bind_eq (ls : List Char) (is : List Nat) (e0 : Env) (hnd : ls.Nodup)
    (hlen : is.length = ls.length) : ls.map (bind ls is e0) = is := by
  induction ls generalizing is e0 with
  | nil => simp at hlen; simp [hlen]
  | cons l ls ih =>
    cases is with
    | nil => simp at hlen
    | cons i is =>
      rw [List.nodup_cons] at hnd
      simp only [List.map_cons, bind]
      congr 1
      · rw [bind_apply_notin _ _ _ _ hnd.1]; simp [Env.set]
      · exact ih is _ hnd.2 (by simpa using hlen)

/-- every enumerated index tuple comes from a valid environment -/
theorem allIdx_env (D : DimSet) (hnd : (letters D).Nodup) (r : List Nat) (hr : r ∈ allIdx (DimSet.shape D)) :
    ∃ e, Valid D e ∧ (letters D).map e = r := by
  obtain ⟨hlen, hlt⟩ := (mem_allIdx _ _).mp hr
  have hlen' : r.length = (letters D).length := by simpa [letters, DimSet.shape] using hlen
  refine ⟨bind (letters D) r Env.zero, ?_, map_bind_eq _ _ _ hnd hlen'⟩
  intro d hd
  have hmap := map_bind_eq (letters D) r Env.zero hnd hlen'
  obtain ⟨j, hj, rfl⟩ := List.getElem_of_mem hd
  have hjr : j < r.length := by rw [hlen']; simpa [letters] using hj
  have : (bind (letters D) r Env.zero) D[j].letter = r[j] := by
    have h1 : ((letters D).map (bind (letters D) r Env.zero))[j]'(by simpa [letters] using hj) = r[j] := by
      simp only [hmap]
    simpa [letters] using h1
  rw [this]
  have := hlt j hjr (by simpa [DimSet.shape] using hj)
  simpa [DimSet.shape] using this

/-! ## initial selector state -/

theorem outDims_keep : ∀ (D : DimSet), outDims D (D.map fun _ => DSel.keep) = D
  | [] => rfl
  | d :: D => by simp [outDims, outDims_keep D]

theorem decodes_not_iterable {D : DimSet} {kvs : List (String × Sel)} {S S' : List DSel}
    (h : Decodes D kvs S S') : kvs.any (·.2.isIterable) = false := by
  induction h with
  | nil S => rfl
  | @cons k sel rest S S' d i ds _ _ _ _ _ hc _ _ ih =>
    simp only [List.any_cons, ih, Bool.or_false]
    cases sel with
    | item it => rfl
    | dim d' => rfl
    | list its => simp [convSel] at hc

theorem convertMesh_noSub (D : DimSet) (S : List DSel) (hn : ∀ s ∈ S, s.isSub = false) :
    convertMesh D (S.map DSel.toIx) = S.map DSel.toIx := by
  unfold convertMesh
  have : (S.map DSel.toIx).any isListIx = false := by
    rw [List.any_eq_false]
    intro ix hix
    obtain ⟨s, hs, rfl⟩ := List.mem_map.mp hix
    cases s with
    | keep => simp [DSel.toIx, isListIx]
    | item p => simp [DSel.toIx, isListIx]
    | sub d' ps => have := hn _ hs; simp [DSel.isSub] at this
  rw [this]; rfl

/-- both regimes together: the plan numpy follows for the handler's index tuple -/
theorem plan_spec (D : DimSet) (S : List DSel) (h : SelsOK D S) :
    ∃ p, indexPlan (DimSet.shape D) (convertMesh D (S.map DSel.toIx)) = some p ∧
      p.shape = DimSet.shape (outDims D S) ∧
      ∀ e, Valid (outDims D S) e → p.src ((letters (outDims D S)).map e) = liftIdx D S e := by
  by_cases hs : ∃ s ∈ S, s.isSub = true
  · exact indexPlan_mesh D S h hs
  · have hn : ∀ s ∈ S, s.isSub = false := by
      intro s hsS
      cases hb : s.isSub with
      | false => rfl
      | true => exact absurd ⟨s, hsS, hb⟩ hs
    rw [convertMesh_noSub D S hn]
    obtain ⟨p, h1, h2, h3⟩ := indexPlan_basic D S h hn
    exact ⟨p, h1, h2, fun e _ => h3 e⟩

/-- `SubArrayHandler.__init__` for a dict key -/
theorem handler_dict_spec (D : DimSet) (hnd : (letters D).Nodup) (kvs : List (String × Sel))
    (S' : List DSel) (hdec : Decodes D kvs (D.map fun _ => DSel.keep) S') :
    ∃ h, handler? D (.dict kvs) = some h ∧ h.invalid = false ∧ h.dimsOut = outDims D S' ∧
      h.ids = convertMesh D (S'.map DSel.toIx) ∧ (letters (outDims D S')).Nodup := by
  have hD0 : outDims D (D.map fun _ => DSel.keep) = D := outDims_keep D
  obtain ⟨hdo, hndo⟩ := dimsOut_of_decodes D kvs _ S' hdec (by rw [hD0]; exact hnd)
  rw [hD0] at hdo
  have hids := idsFold_of_decodes D (dims_nodup hnd) kvs _ S' hdec
  have hinit : (D.map fun _ => DSel.keep).map DSel.toIx = D.map fun _ => Ix.all := by
    simp [DSel.toIx, Function.comp_def]
  rw [hinit] at hids
  refine ⟨{ defDict := kvs, invalid := kvs.any (·.2.isIterable), dimsOut := outDims D S',
            ids := convertMesh D (S'.map DSel.toIx) }, ?_, decodes_not_iterable hdec, rfl, rfl, hndo⟩
  unfold handler? defDict? idsRaw?
  simp only [Option.bind_eq_bind, Option.bind_some, hdo, hids]
where
  dims_nodup {D : DimSet} (h : (letters D).Nodup) : D.Nodup := by
    induction D with
    | nil => exact List.nodup_nil
    | cons d D ih =>
      simp only [letters, List.map_cons, List.nodup_cons] at h
      rw [List.nodup_cons]
      exact ⟨fun hm => h.1 (List.mem_map_of_mem hm), ih h.2⟩

end Flodym

namespace Flodym
open DimSet SubArray
variable {α : Type}

theorem SelsOK_keep : ∀ (D : DimSet), SelsOK D (D.map fun _ => DSel.keep)
  | [] => trivial
  | _ :: D => ⟨trivial, SelsOK_keep D⟩

/-- **reading with a dict key**: the result carries the original dimensions with single
selections dropped and subset selections replaced; its entry under labels `e` is the source entry
at the addressed index tuple -/
theorem getitem_dict_spec (x : FArr α) (hx : WF x) (kvs : List (String × Sel)) (S' : List DSel)
    (hdec : Decodes x.dims kvs (x.dims.map fun _ => DSel.keep) S') (hok : SelsOK x.dims S') :
    ∃ r, x.getitem? (.dict kvs) = some r ∧ r.dims = outDims x.dims S' ∧ WF r ∧
      ∀ e, Valid r.dims e → r.at e = x.values.get (liftIdx x.dims S' e) := by
  obtain ⟨h, hh, hinv, hdo, hids, hndo⟩ := handler_dict_spec x.dims hx.1 kvs S' hdec
  obtain ⟨p, hp, hps, hsrc⟩ := plan_spec x.dims S' hok
  refine ⟨⟨outDims x.dims S', { shape := p.shape, get := fun r => x.values.get (p.src r) }⟩,
    ?_, rfl, ⟨hndo, hps⟩, ?_⟩
  · unfold FArr.getitem?
    simp only [Option.bind_eq_bind, hh, Option.bind_some, hinv, Bool.false_eq_true, if_false]
    unfold ND.index?
    rw [hids, hx.2, hp]
    simp only [Option.map_some, Option.bind_some, hdo]
    exact FArr.mk?_eq_some _ _ hndo hps
  · intro e hv
    show x.values.get (p.src ((letters (outDims x.dims S')).map e)) = _
    rw [hsrc e hv]

/-- how `a[ids] = v` changes one entry: the value of some result position addressing it, else the
old entry -/
theorem indexSet_get (a v : ND α) (ixs : List Ix) (p : IndexPlan) (hp : indexPlan a.shape ixs = some p)
    (hv : v.shape = p.shape) :
    ∃ nv, a.indexSet? ixs v = some nv ∧ nv.shape = a.shape ∧
      ∀ idx, (∀ r ∈ allIdx p.shape, p.src r ≠ idx) → nv.get idx = a.get idx := by
  refine ⟨{ shape := a.shape
            get := fun idx =>
              match (allIdx p.shape).reverse.find? (fun r => p.src r == idx) with
              | some r => v.get r
              | none => a.get idx }, ?_, rfl, ?_⟩
  · unfold ND.indexSet?
    rw [hp]
    simp only [hv, ne_eq, not_true_eq_false, if_false]
    rfl
  · intro idx hno
    simp only
    have : (allIdx p.shape).reverse.find? (fun r => p.src r == idx) = none := by
      rw [List.find?_eq_none]
      intro r hr
      have := hno r (by simpa using hr)
      simpa using this
    rw [this]

theorem indexSet_get_addressed (a v : ND α) (ixs : List Ix) (p : IndexPlan)
    (hp : indexPlan a.shape ixs = some p) (hv : v.shape = p.shape) (nv : ND α)
    (hnv : a.indexSet? ixs v = some nv) (idx : List Nat) (r : List Nat) (hr : r ∈ allIdx p.shape)
    (hsrc : p.src r = idx) :
    ∃ r' ∈ allIdx p.shape, p.src r' = idx ∧ nv.get idx = v.get r' := by
  unfold ND.indexSet? at hnv
  rw [hp] at hnv
  simp only [hv, ne_eq, not_true_eq_false, if_false, Option.some.injEq] at hnv
  subst hnv
  simp only
  cases hf : (allIdx p.shape).reverse.find? (fun r => p.src r == idx) with
  | none =>
    exfalso
    rw [List.find?_eq_none] at hf
    have := hf r (by simpa using hr)
    simp [hsrc] at this
  | some r' =>
    have hm := List.mem_of_find?_eq_some hf
    have hpr := List.find?_some hf
    exact ⟨r', by simpa using hm, by simpa using hpr, rfl⟩

/-- **writing a number with a dict key**: dims and shape unchanged; every addressed entry becomes
the number; every other entry keeps its value -/
theorem setitem_num_spec [Add α] [OfNat α 0] (x : FArr α) (hx : WF x) (kvs : List (String × Sel))
    (S' : List DSel) (c : α)
    (hdec : Decodes x.dims kvs (x.dims.map fun _ => DSel.keep) S') (hok : SelsOK x.dims S') :
    ∃ r, x.setitem? (.dict kvs) (.num c) = some r ∧ r.dims = x.dims ∧ WF r ∧
      (∀ e, Valid (outDims x.dims S') e → r.values.get (liftIdx x.dims S' e) = c) ∧
      (∀ idx, (∀ e, Valid (outDims x.dims S') e → liftIdx x.dims S' e ≠ idx) →
        r.values.get idx = x.values.get idx) := by
  obtain ⟨h, hh, _, hdo, hids, hndo⟩ := handler_dict_spec x.dims hx.1 kvs S' hdec
  obtain ⟨p, hp, hps, hsrc⟩ := plan_spec x.dims S' hok
  have hp' : indexPlan x.values.shape h.ids = some p := by rw [hids, hx.2]; exact hp
  obtain ⟨nv, hnv, hnvs, hun⟩ := indexSet_get x.values (ND.full p.shape c) h.ids p hp' rfl
  refine ⟨⟨x.dims, nv⟩, ?_, rfl, ⟨hx.1, by rw [hnvs]; exact hx.2⟩, ?_, ?_⟩
  · unfold FArr.setitem?
    simp only [Option.bind_eq_bind, hh, Option.bind_some, hp', hnv]
  · intro e hv
    have hr : (letters (outDims x.dims S')).map e ∈ allIdx p.shape := by
      rw [hps]; exact map_mem_allIdx _ e hv
    obtain ⟨r', _, _, hget⟩ := indexSet_get_addressed x.values (ND.full p.shape c) h.ids p hp' rfl nv hnv
      (liftIdx x.dims S' e) _ hr (hsrc e hv)
    rw [hget]; rfl
  · intro idx hno
    apply hun idx
    intro r hr
    rw [hps] at hr
    obtain ⟨e, hve, hre⟩ := allIdx_env (outDims x.dims S') hndo r hr
    rw [← hre, hsrc e hve]
    exact hno e hve

end Flodym

namespace Flodym
open DimSet SubArray
variable {α : Type}

/-- the items of every subset selector sit at pairwise different positions -/
def SelsInj : List DSel → Prop
  | .sub _ ps :: S => ps.Nodup ∧ SelsInj S
  | _ :: S => SelsInj S
  | [] => True

instance : (S : List DSel) → Decidable (SelsInj S)
  | [] => isTrue trivial
  | .sub _ ps :: S =>
    have : Decidable (SelsInj S) := instDecidableSelsInj S
    inferInstanceAs (Decidable (ps.Nodup ∧ SelsInj S))
  | .keep :: S => instDecidableSelsInj S
  | .item _ :: S => instDecidableSelsInj S

/-- different result labels address different source entries -/
theorem liftIdx_inj : ∀ (D : DimSet) (S : List DSel) (e e' : Env), SelsOK D S → SelsInj S →
    Valid (outDims D S) e → Valid (outDims D S) e' → liftIdx D S e = liftIdx D S e' →
    (letters (outDims D S)).map e = (letters (outDims D S)).map e'
  | [], [], _, _, _, _, _, _, _ => rfl
  | d :: D, s :: S, e, e', hok, hinj, hv, hv', heq => by
    cases s with
    | keep =>
      simp only [liftIdx, List.cons.injEq] at heq
      simp only [outDims, letters, List.map_cons, List.cons.injEq]
      refine ⟨heq.1, ?_⟩
      exact liftIdx_inj D S e e' hok.2 hinj (fun d' hd' => hv d' (by simp [outDims, hd']))
        (fun d' hd' => hv' d' (by simp [outDims, hd'])) heq.2
    | item p =>
      simp only [liftIdx, List.cons.injEq, true_and] at heq
      simp only [outDims] at hv hv' ⊢
      exact liftIdx_inj D S e e' hok.2 hinj hv hv' heq
    | sub d' ps =>
      simp only [liftIdx, List.cons.injEq] at heq
      simp only [outDims, letters, List.map_cons, List.cons.injEq]
      have h1 : e d'.letter < ps.length := by rw [hok.1.1]; exact hv d' (by simp [outDims])
      have h2 : e' d'.letter < ps.length := by rw [hok.1.1]; exact hv' d' (by simp [outDims])
      refine ⟨?_, ?_⟩
      · have := heq.1
        rw [List.getD_eq_getElem?_getD, List.getD_eq_getElem?_getD,
          List.getElem?_eq_getElem h1, List.getElem?_eq_getElem h2] at this
        simp only [Option.getD_some] at this
        have e1 := List.Nodup.idxOf_getElem hinj.1 _ h1
        have e2 := List.Nodup.idxOf_getElem hinj.1 _ h2
        rw [this] at e1
        exact e1.symm.trans e2
      · exact liftIdx_inj D S e e' hok.2 hinj.2 (fun d'' hd'' => hv d'' (by simp [outDims, hd'']))
          (fun d'' hd'' => hv' d'' (by simp [outDims, hd''])) heq.2
  | [], _ :: _, _, _, h, _, _, _, _ => by cases h
  | _ :: _, [], _, _, h, _, _, _, _ => by cases h

/-- broadcasting a value that already has the target shape changes nothing (on in-range tuples) -/
theorem broadcastTo?_same (v : ND α) (shape : List Nat) (h : v.shape = shape) :
    ∃ vb, v.broadcastTo? shape = some vb ∧ vb.shape = shape ∧
      ∀ idx ∈ allIdx shape, vb.get idx = v.get idx := by
  subst h
  have hall : (List.zipWith (fun a b => a == b || a == 1) v.shape (v.shape.drop 0)).all id = true := by
    rw [List.all_eq_true]
    intro b hb
    simp only [List.drop_zero] at hb
    rw [List.mem_iff_getElem] at hb
    obtain ⟨i, hi, rfl⟩ := hb
    simp
  refine ⟨{ shape := v.shape
            get := fun idx => v.get (List.zipWith (fun i s => if s == 1 then 0 else i) (idx.drop 0) v.shape) },
    ?_, rfl, ?_⟩
  · unfold ND.broadcastTo?
    have hnot : ¬ (v.shape.length = 0 ∧ v.shape.length ≠ 0) := fun h => h.2 h.1
    simp only [hnot, if_false, Nat.le_refl, if_true, Nat.sub_self, hall]
  · intro idx hidx
    simp only [List.drop_zero]
    congr 1
    obtain ⟨hlen, hlt⟩ := (mem_allIdx _ _).mp hidx
    apply List.ext_getElem
    · simp [hlen]
    · intro n h1 h2
      simp only [List.getElem_zipWith]
      by_cases hs : v.shape[n]'(by simpa [hlen] using h2) = 1
      · have := hlt n h2 (by simpa [hlen] using h2)
        simp [hs] at this ⊢
        omega
      · simp [hs]

section
variable [Add α] [OfNat α 0]

/-- **writing an array with a dict key**: dims unchanged; the addressed entry with labels `e` gets
the source summed over the dimensions the region does not have, matched by label; everything
else keeps its value. The source must carry every dimension of the region. -/
theorem setitem_arr_spec (x y : FArr α) (hx : WF x) (hy : WF y) (kvs : List (String × Sel))
    (S' : List DSel)
    (hdec : Decodes x.dims kvs (x.dims.map fun _ => DSel.keep) S') (hok : SelsOK x.dims S')
    (hinj : SelsInj S') (hsub : ∀ d ∈ outDims x.dims S', d ∈ y.dims) :
    ∃ r, x.setitem? (.dict kvs) (.arr y) = some r ∧ r.dims = x.dims ∧ WF r ∧
      (∀ e, Valid (outDims x.dims S') e →
        r.values.get (liftIdx x.dims S' e) = margin y (letters (outDims x.dims S')) e) ∧
      (∀ idx, (∀ e, Valid (outDims x.dims S') e → liftIdx x.dims S' e ≠ idx) →
        r.values.get idx = x.values.get idx) := by
  obtain ⟨h, hh, _, hdo, hids, hndo⟩ := handler_dict_spec x.dims hx.1 kvs S' hdec
  obtain ⟨p, hp, hps, hsrc⟩ := plan_spec x.dims S' hok
  have hp' : indexPlan x.values.shape h.ids = some p := by rw [hids, hx.2]; exact hp
  have hsubl : ∀ l ∈ letters (outDims x.dims S'), l ∈ y.letters := by
    intro l hl
    obtain ⟨d, hd, rfl⟩ := mem_letters.mp hl
    exact mem_letters.mpr ⟨d, hsub d hd, rfl⟩
  obtain ⟨v, hv, hvs, hvg⟩ := sumValuesToL_spec y hy (letters (outDims x.dims S')) hndo hsubl
  have hvshape : v.shape = p.shape := by
    rw [hvs, hps]; exact map_size_eq_shape y hy _ hsub
  obtain ⟨vb, hvb, hvbs, hvbg⟩ := broadcastTo?_same v p.shape hvshape
  obtain ⟨nv, hnv, hnvs, hun⟩ := indexSet_get x.values vb h.ids p hp' hvbs
  refine ⟨⟨x.dims, nv⟩, ?_, rfl, ⟨hx.1, by rw [hnvs]; exact hx.2⟩, ?_, ?_⟩
  · unfold FArr.setitem?
    simp only [Option.bind_eq_bind, hh, Option.bind_some, hp', hdo, hv, hvb, hnv]
  · intro e hve
    have hr : (letters (outDims x.dims S')).map e ∈ allIdx p.shape := by
      rw [hps]; exact map_mem_allIdx _ e hve
    obtain ⟨r', hr', hsrc', hget⟩ := indexSet_get_addressed x.values vb h.ids p hp' hvbs nv hnv
      (liftIdx x.dims S' e) _ hr (hsrc e hve)
    rw [hget, hvbg r' hr']
    -- r' addresses the same entry, hence is the same label tuple
    rw [hps] at hr'
    obtain ⟨e', hve', hre'⟩ := allIdx_env (outDims x.dims S') hndo r' hr'
    rw [← hre', hsrc e' hve'] at hsrc'
    have := liftIdx_inj x.dims S' e' e hok hinj hve' hve hsrc'
    rw [← hre', this]
    exact hvg e
  · intro idx hno
    apply hun idx
    intro r hr
    rw [hps] at hr
    obtain ⟨e, hve, hre⟩ := allIdx_env (outDims x.dims S') hndo r hr
    rw [← hre, hsrc e hve]
    exact hno e hve

/-- a source that lacks a dimension of the addressed region is rejected -/
theorem setitem_arr_rejects (x y : FArr α) (hx : WF x) (kvs : List (String × Sel)) (S' : List DSel)
    (hdec : Decodes x.dims kvs (x.dims.map fun _ => DSel.keep) S') (hok : SelsOK x.dims S')
    (hmiss : ∃ l ∈ letters (outDims x.dims S'), l ∉ y.letters) :
    x.setitem? (.dict kvs) (.arr y) = none := by
  obtain ⟨h, hh, _, hdo, hids, hndo⟩ := handler_dict_spec x.dims hx.1 kvs S' hdec
  obtain ⟨p, hp, _, _⟩ := plan_spec x.dims S' hok
  have hp' : indexPlan x.values.shape h.ids = some p := by rw [hids, hx.2]; exact hp
  have hnone : y.sumValuesToL? (letters (outDims x.dims S')) = none := by
    unfold FArr.sumValuesToL? einsum1 Gen.sumToIn Gen.sumToOut
    have : einsum1Ok y.letters (letters (outDims x.dims S')) y.values = false := by
      unfold einsum1Ok
      have hall : (letters (outDims x.dims S')).all (fun l => y.letters.contains l) = false := by
        rw [List.all_eq_false]
        obtain ⟨l, hl, hn⟩ := hmiss
        exact ⟨l, hl, by simpa using hn⟩
      rw [hall]; simp
    rw [this]; rfl
  unfold FArr.setitem?
  simp only [Option.bind_eq_bind, hh, Option.bind_some, hp', hdo, hnone, Option.bind_none]

end
end Flodym
