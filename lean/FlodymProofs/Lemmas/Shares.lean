import FlodymProofs.Lemmas.Totals
import Mathlib.Algebra.Field.Basic
/-!
# `get_shares_over`
-/
namespace Flodym
open DimSet

variable {α : Type}

theorem unionDims_of_sub (D D' : DimSet) (h : ∀ d ∈ D', d.letter ∈ letters D) : unionDims D D' = D := by
  unfold unionDims
  have : D'.filter (fun d => !((letters D).contains d.letter)) = [] := by
    rw [List.filter_eq_nil_iff]
    intro d hd
    simpa using h d hd
  rw [this, List.append_nil]

theorem compatible_of_sub (D D' : DimSet) (hD : (letters D).Nodup) (h : ∀ d ∈ D', d ∈ D) :
    Compatible D D' :=
  fun d hd d' hd' hl => compatible_self D hD d hd d' (h d' hd') hl

section
variable [AddCommMonoid α]

/-- a marginal sum only depends on the labels of the kept dimensions -/
theorem margin_env_congr (x : FArr α) (keep : List Char) (e e' : Env)
    (h : ∀ c ∈ x.letters, c ∈ keep → e c = e' c) : margin x keep e = margin x keep e' := by
  unfold margin
  apply sumOver_env_congr _ _ x.letters
  · intro e1 e2 heq
    unfold FArr.at
    rw [map_congr_mem heq]
  · intro c hc hnot
    apply h c hc
    rw [summedOf_fst] at hnot
    by_cases hk : c ∈ keep
    · exact hk
    · exfalso; apply hnot
      exact List.mem_filter.mpr ⟨hc, by simpa using hk⟩

end

section field
variable [Field α]

/-- `get_shares_over(ls)` when `ls` does not cover all dimensions: x divided by its total over
`ls`, matched by label -/
theorem shares_partial_spec (x : FArr α) (hx : WF x) (hn : NamesOk x.dims) (so : DimSet)
    (hso : ∀ d ∈ so, d ∈ x.dims)
    (hnotall : x.letters.all (fun l => (letters so).contains l) = false) :
    ∃ r, x.getSharesOver? (letters so) = some r ∧ r.dims = x.dims ∧ WF r ∧
      ∀ e, r.at e = x.at e * (1 / margin x (x.letters.filter (fun l => !((letters so).contains l))) e) := by
  obtain ⟨t, ht, htd, htwf, htat⟩ :=
    sumOver_spec x hx hn so hso ((letters so).map fun l => .str l.toString)
      (tupleToLetters?_letters x hx.1 hn so hso)
  have htsub : ∀ d ∈ t.dims, d ∈ x.dims := by
    rw [htd]; exact fun d hd => (List.mem_filter.mp hd).1
  have hc : Compatible x.dims t.dims := compatible_of_sub _ _ hx.1 htsub
  obtain ⟨r, hr, hrd, hrwf, hrat⟩ := div_arr_spec x t hx htwf hc
  have hunion : unionDims x.dims t.dims = x.dims :=
    unionDims_of_sub _ _ (fun d hd => mem_letters.mpr ⟨d, htsub d hd, rfl⟩)
  have htl : t.letters = x.letters.filter (fun l => !((letters so).contains l)) := by
    unfold FArr.letters; rw [htd]
    exact letters_filter x.dims (fun l => !((letters so).contains l))
  refine ⟨r, ?_, by rw [hrd, hunion], hrwf, ?_⟩
  · unfold FArr.getSharesOver?
    have hall : (letters so).all (fun l => x.letters.contains l) = true := by
      rw [List.all_eq_true]
      intro l hl
      obtain ⟨d, hd, rfl⟩ := mem_letters.mp hl
      have : d.letter ∈ x.letters := mem_letters.mpr ⟨d, hso d hd, rfl⟩
      simpa using this
    simp only [hall, Bool.not_true, Bool.false_eq_true, if_false, hnotall]
    rw [ht]; exact hr
  · intro e
    rw [hrat e, htat e, htl]

/-- `get_shares_over(ls)` when `ls` covers all dimensions: x divided by its grand total -/
theorem shares_all_spec (x : FArr α) (hx : WF x) (ls : List Char)
    (hsub : ls.all (fun l => x.letters.contains l) = true)
    (hall : x.letters.all (fun l => ls.contains l) = true) :
    ∃ r, x.getSharesOver? ls = some r ∧ r.dims = x.dims ∧ WF r ∧
      ∀ e, r.at e = x.at e * (1 / total x e) := by
  obtain ⟨r, hr, hrd, hrwf, hrat⟩ := div_num_spec x hx x.sumValues
  refine ⟨r, ?_, hrd, hrwf, ?_⟩
  · unfold FArr.getSharesOver?
    simp only [hsub, Bool.not_true, Bool.false_eq_true, if_false, hall, if_true]
    exact hr
  · intro e
    rw [hrat e, mul_one, sumValues_eq_total x hx e]

/-- shares add up to one over the summed dimensions wherever the total is non-zero -/
theorem shares_sum_one (x r : FArr α) (keep : List Char)
    (hrat : ∀ e, r.at e = x.at e * (1 / margin x keep e)) (e : Env)
    (hne : margin x keep e ≠ 0) :
    sumOver (summedOf x.dims keep) r.at e = 1 := by
  have h1 : sumOver (summedOf x.dims keep) r.at e
      = sumOver (summedOf x.dims keep) (fun e' => x.at e' * (1 / margin x keep e)) e := by
    apply sumOver_congr _ _ _ e (fun e' => ∀ c ∈ x.letters, c ∈ keep → e c = e' c) (fun _ _ _ => rfl)
    · intro e' l n i he hm _ c hc hk
      have hl : l ∈ (summedOf x.dims keep).map Prod.fst := List.mem_map.mpr ⟨(l, n), hm, rfl⟩
      rw [summedOf_fst] at hl
      have hnk : l ∉ keep := by simpa using (List.mem_filter.mp hl).2
      have : c ≠ l := fun h => hnk (h ▸ hk)
      rw [Env.set_ne _ _ this]; exact he c hc hk
    · intro e' he
      rw [hrat e', margin_env_congr x keep e e' he]
  rw [h1, sumOver_mul_right]
  show margin x keep e * (1 / margin x keep e) = 1
  rw [mul_one_div, div_self hne]

end field
end Flodym
