import Flodym.Export
import FlodymProofs.Props.C06
/-!
# C20 — Sankey links and plotted lines carry the system's numbers under the right labels

Structure theorems about the link assembly (`Flodym.Export.sankey?`) and the line decomposition of
the array plotters (`Flodym.Export.plotLines?`), for systems with any number of processes and flows
and arrays of any shape. What a slice `f[{letter: item}]`, a sum over the remaining dimensions and a
`split` mean at the level of labels is C06 / C07 (`getitem_reads_addressed`, `sumTo_marginals`,
`split_pieces`); the figures themselves (plotly / matplotlib objects) are observed by the `plot`
correspondence stream.
-/
namespace Flodym.C20
open Flodym Flodym.Export DimSet

/-! ## Sankey -/

/-- **excluded processes are never shown as nodes; every other process is, in process order** -/
theorem nodes_are_the_shown_processes (m : MFA) (cfg : SankeyCfg) (nodes : List String) (links : List Link)
    (h : sankey? m cfg = some (nodes, links)) :
    nodes = m.sys.processes.filter (fun p => !(cfg.excludeProcesses.contains p)) ∧
    ∀ p ∈ cfg.excludeProcesses, p ∉ nodes := by
  unfold sankey? at h
  split at h
  · cases h
  · cases hm : (sankeyFlows m cfg).mapM (flowLinks? m cfg) with
    | none => rw [hm] at h; cases h
    | some ls =>
      rw [hm] at h
      simp only [Option.map_some, Option.some.injEq, Prod.mk.injEq] at h
      obtain ⟨rfl, _⟩ := h
      refine ⟨rfl, ?_⟩
      intro p hp hmem
      unfold shownProcesses at hmem
      have := (List.mem_filter.mp hmem).2
      simp [hp] at this

/-- a flow that is excluded, or touches an excluded process, is not among the shown flows -/
theorem excluded_flows_not_shown (m : MFA) (cfg : SankeyCfg) (f : FlowM)
    (h : f.name ∈ cfg.excludeFlows ∨ f.fromP ∈ cfg.excludeProcesses ∨ f.toP ∈ cfg.excludeProcesses) :
    f ∉ sankeyFlows m cfg := by
  intro hmem
  unfold sankeyFlows at hmem
  have := (List.mem_filter.mp hmem).2
  unfold flowShown at this
  rcases h with h | h | h <;> simp [h] at this

/-- **the links are exactly those of the shown flows, flow by flow, in flow order** -/
theorem links_come_from_shown_flows (m : MFA) (cfg : SankeyCfg) (nodes : List String) (links : List Link)
    (h : sankey? m cfg = some (nodes, links)) :
    ∃ per : List (List Link), (sankeyFlows m cfg).mapM (flowLinks? m cfg) = some per ∧ links = per.flatten ∧
      per.length = (sankeyFlows m cfg).length := by
  unfold sankey? at h
  split at h
  · cases h
  · cases hm : (sankeyFlows m cfg).mapM (flowLinks? m cfg) with
    | none => rw [hm] at h; cases h
    | some ls =>
      rw [hm] at h
      simp only [Option.map_some, Option.some.injEq, Prod.mk.injEq] at h
      refine ⟨ls, rfl, h.2.symm, ?_⟩
      -- mapM keeps the length
      clear h
      generalize sankeyFlows m cfg = L at hm
      induction L generalizing ls with
      | nil => simp at hm; subst hm; rfl
      | cons a as ih =>
        simp only [List.mapM_cons, Option.bind_eq_bind] at hm
        cases ha : flowLinks? m cfg a with
        | none => rw [ha] at hm; cases hm
        | some la =>
          rw [ha] at hm
          cases has : as.mapM (flowLinks? m cfg) with
          | none => rw [has] at hm; cases hm
          | some las =>
            rw [has] at hm
            simp only [Option.bind_some, Option.pure_def, Option.some.injEq] at hm
            subst hm
            simp [ih las has]

/-- **an unsplit flow gives one link**: from the node of its source to the node of its target (their
positions among the shown processes), labelled with the flow's name, carrying the total of the
flow after the slice (only the slice entries whose dimension the flow has) -/
theorem unsplit_flow_link (m : MFA) (cfg : SankeyCfg) (f : FlowM) (hsplit : cfg.split.find? (·.1 == f.name) = none)
    (ls : List Link) (h : flowLinks? m cfg f = some ls) :
    ∃ sliced, f.arr.getitem? (.dict ((cfg.slice.filter fun kv => f.arr.letters.any (·.toString == kv.1)).map
                  fun kv => (kv.1, Sel.item kv.2))) = some sliced ∧
      ls = [{ source := (shownProcesses m cfg).idxOf f.fromP, target := (shownProcesses m cfg).idxOf f.toP,
              value := sliced.sumValues, label := .str f.name }] ∧
      f.fromP ∈ shownProcesses m cfg ∧ f.toP ∈ shownProcesses m cfg := by
  unfold flowLinks? at h
  simp only [Option.bind_eq_bind, hsplit] at h
  by_cases h1 : (shownProcesses m cfg).idxOf f.fromP < (shownProcesses m cfg).length
  · by_cases h2 : (shownProcesses m cfg).idxOf f.toP < (shownProcesses m cfg).length
    · simp only [h1, h2, if_true, Option.bind_some] at h
      cases hg : f.arr.getitem? (.dict ((cfg.slice.filter fun kv => f.arr.letters.any (·.toString == kv.1)).map
                  fun kv => (kv.1, Sel.item kv.2))) with
      | none => rw [hg] at h; cases h
      | some sliced =>
        rw [hg] at h
        simp only [Option.bind_some, Option.some.injEq] at h
        exact ⟨sliced, rfl, h.symm, List.idxOf_lt_length_iff.mp h1, List.idxOf_lt_length_iff.mp h2⟩
    · simp only [h1, h2, if_true, if_false, Option.bind_some, Option.bind_none] at h
      cases h
  · simp only [h1, if_false, Option.bind_none] at h
    cases h

/-- **a flow split by a dimension gives one link per item of that dimension** (as far as colours
were given), each carrying the flow's total for that item after the slice -/
theorem split_flow_links (m : MFA) (cfg : SankeyCfg) (f : FlowM) (dimKey : String) (ncol : Nat)
    (hsplit : cfg.split.find? (·.1 == f.name) = some (f.name, dimKey, ncol))
    (ls : List Link) (h : flowLinks? m cfg f = some ls) :
    ∃ (sliced : FArr FV) (d : Dim) (values : ND FV), lookup? m.dims dimKey = some d ∧ sliced.sumValuesToL? [d.letter] = some values ∧
      ls.length = min d.items.length (min ncol (values.shape.headD 0)) ∧
      ∀ i (hi : i < ls.length), ls[i].value = values.get [i] ∧
        ls[i].label = Table.Cell.ofItem (d.items.getD i default) := by
  unfold flowLinks? at h
  simp only [Option.bind_eq_bind, hsplit] at h
  by_cases h1 : (shownProcesses m cfg).idxOf f.fromP < (shownProcesses m cfg).length
  · by_cases h2 : (shownProcesses m cfg).idxOf f.toP < (shownProcesses m cfg).length
    · simp only [h1, h2, if_true, Option.bind_some] at h
      cases hg : f.arr.getitem? (.dict ((cfg.slice.filter fun kv => f.arr.letters.any (·.toString == kv.1)).map
                      fun kv => (kv.1, Sel.item kv.2))) with
      | none => rw [hg] at h; cases h
      | some sliced =>
        rw [hg] at h
        simp only [Option.bind_some] at h
        cases hd : lookup? m.dims dimKey with
        | none => rw [hd] at h; cases h
        | some d =>
          rw [hd] at h
          simp only [Option.bind_some] at h
          cases hv : sliced.sumValuesToL? [d.letter] with
          | none => rw [hv] at h; cases h
          | some values =>
            rw [hv] at h
            simp only [Option.bind_some, Option.some.injEq] at h
            subst h
            refine ⟨sliced, d, values, rfl, hv, by simp, ?_⟩
            intro i hi
            simp
    · exfalso
      simp only [h1, h2, if_true, if_false, Option.bind_some, Option.bind_none] at h
      cases h
  · exfalso
    simp only [h1, if_false, Option.bind_none] at h
    cases h

/-- unless told otherwise the plotter leaves out exactly the system environment -/
theorem source_default_exclusion : Gen.sankeyDefaultExclude = [Gen.sysenvName] := by decide

/-! ## array plotters -/

/-- **a one-dimensional array gives one line**: x the items of the dimension, y the entries in item order -/
theorem one_line (a : FArr Rat) (d : Dim) (hd : a.dims = [d]) (key : String) (hk : lookup? a.dims key = some d)
    (ls : List Line) (h : plotLines? a { intra := key } none = some ls) :
    ls = [{ subplot := 0, line := 0, label := none, x := d.items.map Table.Cell.ofItem, y := a.values.toList }] := by
  unfold plotLines? at h
  split at h
  · cases h
  · simp only [Option.bind_eq_bind, hk, Option.bind_some, slices?, List.length_cons, List.length_nil, List.range_succ,
      List.range_zero, List.nil_append, List.zip_cons_cons, List.zip_nil_right, List.mapM_cons, List.mapM_nil,
      List.map_cons, List.map_nil] at h
    rw [hd] at h
    simp only [names, List.map_cons, List.map_nil, bne_self_eq_false, Bool.false_eq_true, if_false,
      Option.pure_def, Option.bind_some, List.flatten_cons, List.flatten_nil, List.append_nil, Option.some.injEq] at h
    exact h.symm

/-- **the slices the plotters draw are the reads `array[{dim: item}]`, item by item** (so the y-data
of the line for an item are the entries carrying that item: C06 `getitem_reads_addressed`) -/
theorem slices_are_reads (a : FArr Rat) (key : String) (d : Dim) (hl : lookup? a.dims key = some d)
    (ps : List (Option Item × FArr Rat)) (h : slices? a (some key) = some ps) :
    ps.map (·.1) = d.items.map some ∧
    ∀ p ∈ ps, ∃ it, p.1 = some it ∧ a.getitem? (.dict [(key, .item it)]) = some p.2 := by
  unfold slices? at h
  simp only at h
  cases hs : a.split? key with
  | none => rw [hs] at h; cases h
  | some qs =>
    rw [hs] at h
    simp only [Option.map_some, Option.some.injEq] at h
    subst h
    obtain ⟨h1, h2⟩ := C06.split_pieces a key d hl qs hs
    refine ⟨by simp [← h1, List.map_map, Function.comp_def], ?_⟩
    intro p hp
    obtain ⟨q, hq, rfl⟩ := List.mem_map.mp hp
    exact ⟨q.1, rfl, h2 q hq⟩

/-- without a subplot / line dimension there is a single slice: the array itself -/
theorem no_split_single (a : FArr Rat) : slices? a none = some [(none, a)] := rfl

/-- an array one of whose dimensions has no role is refused -/
theorem missing_role_refused (a : FArr Rat) (cfg : PlotCfg) (x : Option (FArr Rat)) (n : String) (hn : n ∈ names a.dims)
    (h : ∀ k ∈ [cfg.linecolor, cfg.subplot, some cfg.intra].filterMap id, (lookup? a.dims k).map (·.name) ≠ some n) :
    plotLines? a cfg x = none := by
  unfold plotLines?
  have : plotValid a cfg x = false := by
    unfold plotValid
    have hall : (names a.dims).all (fun n => ([cfg.linecolor, cfg.subplot, some cfg.intra].filterMap id).any
        fun k => ((lookup? a.dims k).map (·.name)) == some n) = false := by
      rw [List.all_eq_false]
      refine ⟨n, hn, ?_⟩
      simp only [Bool.not_eq_true, List.any_eq_false, beq_iff_eq]
      intro k hk
      exact h k hk
    simp only [hall, Bool.and_false, Bool.false_and]
  simp [this]

/-! ## non-vacuity -/

def dT : Dim := { letter := 't', name := "time", items := [.int 2000, .int 2001] }
def dR : Dim := { letter := 'r', name := "region", items := [.str "EU", .str "AS"] }
def arr : FArr Rat := ⟨[dT, dR], ND.ofFlat [2, 2] #[10, 11, 12, 13] 0⟩

example : (plotLines? arr { intra := "time", linecolor := some "r" } none).map
    (fun ls => ls.map fun l => (l.subplot, l.line, l.label, l.y)) =
    some [(0, 0, some (.str "EU"), [10, 12]), (0, 1, some (.str "AS"), [11, 13])] := by decide +kernel

def sys : SysM :=
  { processes := ["sysenv", "use", "waste"],
    flows := [{ name := "a", fromP := "sysenv", toP := "use", arr := ⟨[dT], ND.ofFlat [2] #[.num 1, .num 2] (.num 0)⟩ },
              { name := "b", fromP := "use", toP := "waste", arr := ⟨[dT, dR], ND.ofFlat [2, 2] #[.num 1, .num 2, .num 3, .num 4] (.num 0)⟩ }],
    stocks := [] }

example : (sankey? { dims := [dT, dR], sys := sys } { slice := [("t", .int 2001)] }).map
    (fun r => (r.1, r.2.map fun l => (l.source, l.target, l.value))) =
    some (["use", "waste"], [(0, 1, .num 7)]) := by decide +kernel

end Flodym.C20
