import FlodymProofs.Lemmas.Table
/-!
# C12 — data import refuses incomplete or inconsistent data unless told otherwise

The decision logic of the last stage of the converter (`_check_data_complete`, model
`Flodym.Table.complete?`) for *every* long table, and what the two flags change. The stages before
it (recognising columns) are covered by C11's theorems and the `table` correspondence stream.
-/
namespace Flodym.C12
open Flodym Flodym.Table DimSet

/-- **a duplicated label combination is refused, whatever the flags** -/
theorem duplicate_refused (dims : DimSet) (t : LongTable) (m e : Bool)
    (h : hasDuplicates (t.rows.map (·.1)) = true) : complete? dims t m e = none := by
  unfold complete?; rw [if_pos h]

/-- **an item unknown to its dimension is refused** (default `allow_extra_values=False`) -/
theorem unknown_item_refused (dims : DimSet) (t : LongTable) (m : Bool) (r : List Cell × Option Rat)
    (hr : r ∈ t.rows) (hu : rowKnown dims r.1 = false) : complete? dims t m false = none := by
  unfold complete?
  split
  · rfl
  · have : keepRows? dims t.rows false = none := by
      unfold keepRows?
      have : t.rows.all (fun r => rowKnown dims r.1) = false := by
        rw [List.all_eq_false]; exact ⟨r, hr, by simp [hu]⟩
      simp [this]
    rw [this]; rfl

/-- **a missing label combination is refused** (default `allow_missing_values=False`): fewer (or
more) rows than the array has entries, after the rows with unknown items were dealt with -/
theorem missing_refused (dims : DimSet) (t : LongTable) (e : Bool) (rows : List (List Cell × Option Rat))
    (hk : keepRows? dims t.rows e = some rows) (hlen : rows.length ≠ (shape dims).prod) :
    complete? dims t false e = none := by
  unfold complete?
  split
  · rfl
  · rw [hk]
    have : fillRows? dims rows false = none := by
      unfold fillRows?
      simp [hlen]
    simp [this]

theorem values_all (L : List (List Cell × Option Rat)) :
    (L.mapM (fun (r : List Cell × Option Rat) => r.2.map fun v => (r.1, v))).isSome = true ↔ ∀ r ∈ L, r.2 ≠ none := by
  induction L with
  | nil => simp
  | cons r rs ih =>
    simp only [List.mapM_cons, Option.bind_eq_bind, List.mem_cons, forall_eq_or_imp]
    cases hr : r.2 with
    | none => simp
    | some v =>
      simp only [Option.map_some, Option.bind_some, ne_eq, reduceCtorEq, not_false_eq_true, true_and]
      rw [← ih]
      cases rs.mapM (fun (r : List Cell × Option Rat) => r.2.map fun v => (r.1, v)) <;> simp

theorem fillRows_default_isSome (dims : DimSet) (rows : List (List Cell × Option Rat)) :
    (fillRows? dims rows false).isSome = true ↔ rows.length = (shape dims).prod ∧ ∀ r ∈ rows, r.2 ≠ none := by
  unfold fillRows?
  simp only [Bool.false_eq_true, if_false]
  by_cases hlen : rows.length = (shape dims).prod
  · simp only [hlen, bne_self_eq_false, Bool.false_eq_true, if_false, true_and]
    exact values_all rows
  · have : (rows.length != (shape dims).prod) = true := by simpa using hlen
    simp [this, hlen]

theorem fillRows_missing_isSome (dims : DimSet) (rows : List (List Cell × Option Rat)) :
    (fillRows? dims rows true).isSome = true := by simp [fillRows?]

/-- default: all rows must carry known items, and all are kept -/
theorem keepRows_default (dims : DimSet) (rows kept : List (List Cell × Option Rat)) :
    keepRows? dims rows false = some kept ↔ (∀ r ∈ rows, rowKnown dims r.1 = true) ∧ kept = rows := by
  unfold keepRows?
  by_cases h : ∀ r ∈ rows, rowKnown dims r.1 = true
  · have : rows.all (fun r => rowKnown dims r.1) = true := by rw [List.all_eq_true]; exact h
    simp only [Bool.false_eq_true, if_false, this, if_true, Option.some.injEq]
    exact ⟨fun hk => ⟨h, hk.symm⟩, fun hk => hk.2.symm⟩
  · have : rows.all (fun r => rowKnown dims r.1) = false := by
      rw [List.all_eq_false]
      simp only [not_forall] at h
      obtain ⟨r, hr, hu⟩ := h
      exact ⟨r, hr, by simpa using hu⟩
    simp only [Bool.false_eq_true, if_false, this, reduceCtorEq, false_iff, not_and]
    exact fun h' => absurd h' h

/-- `allow_extra_values`: exactly the rows with known items are kept -/
theorem keepRows_extra (dims : DimSet) (rows : List (List Cell × Option Rat)) :
    keepRows? dims rows true = some (rows.filter fun r => rowKnown dims r.1) := by
  unfold keepRows?; simp

theorem complete_eq (dims : DimSet) (t : LongTable) (m e : Bool) :
    complete? dims t m e =
      if hasDuplicates (t.rows.map (·.1)) then none else
      (keepRows? dims t.rows e).bind fun rows => (fillRows? dims rows m).map fun rows =>
        ({ shape := shape dims, get := placedGet (placeRows dims rows) } : ND Rat) := by
  rfl

/-- **an empty / NaN value is refused** (default `allow_missing_values=False`) -/
theorem nan_refused (dims : DimSet) (t : LongTable) (e : Bool) (rows : List (List Cell × Option Rat))
    (hk : keepRows? dims t.rows e = some rows) (r : List Cell × Option Rat) (hr : r ∈ rows) (hn : r.2 = none) :
    complete? dims t false e = none := by
  rw [complete_eq]
  split
  · rfl
  · rw [hk]
    have : fillRows? dims rows false = none := by
      have := (fillRows_default_isSome dims rows).not.mpr (fun h => h.2 r hr hn)
      simpa using this
    simp [this]

/-- **exactly when the import succeeds**: no duplicated label combination; the rows that are kept
(all of them, which must then carry known items; or with `allow_extra_values` those that do) are,
unless `allow_missing_values`, as many as the array has entries and all carry a value -/
theorem success_iff (dims : DimSet) (t : LongTable) (m e : Bool) :
    (complete? dims t m e).isSome = true ↔
      hasDuplicates (t.rows.map (·.1)) = false ∧
      ∃ kept, keepRows? dims t.rows e = some kept ∧
        (m = true ∨ (kept.length = (shape dims).prod ∧ ∀ r ∈ kept, r.2 ≠ none)) := by
  rw [complete_eq]
  cases hd : hasDuplicates (t.rows.map (·.1))
  swap
  · simp
  simp only [Bool.false_eq_true, if_false, true_and]
  cases hk : keepRows? dims t.rows e with
  | none => simp
  | some kept =>
    simp only [Option.bind_some, Option.isSome_map, Option.some.injEq, exists_eq_left']
    cases m
    · simp only [Bool.false_eq_true, false_or]
      exact fillRows_default_isSome dims kept
    · simp [fillRows_missing_isSome]

/-- **`allow_extra_values` ignores the rows carrying unknown items and changes nothing else**: the
result is that of the table without those rows -/
theorem allow_extra_ignores_unknown_rows (dims : DimSet) (t : LongTable) (m : Bool)
    (hd : hasDuplicates (t.rows.map (·.1)) = false)
    (hd' : hasDuplicates ((t.rows.filter fun r => rowKnown dims r.1).map (·.1)) = false) :
    complete? dims t m true = complete? dims { rows := t.rows.filter fun r => rowKnown dims r.1 } m false := by
  unfold complete?
  rw [if_neg (by simp [hd]), if_neg (by simp [hd'])]
  have h1 : keepRows? dims t.rows true = some (t.rows.filter fun r => rowKnown dims r.1) := by
    unfold keepRows?; simp
  have h2 : keepRows? dims (t.rows.filter fun r => rowKnown dims r.1) false = some (t.rows.filter fun r => rowKnown dims r.1) := by
    unfold keepRows?
    have : (t.rows.filter fun r => rowKnown dims r.1).all (fun r => rowKnown dims r.1) = true := by
      rw [List.all_eq_true]; intro r hr; exact (List.mem_filter.mp hr).2
    simp [this]
  rw [h1, h2]

/-- **`allow_missing_values`: empty values become zero** (and nothing is refused for being absent) -/
theorem allow_missing_fills_zero (dims : DimSet) (rows : List (List Cell × Option Rat)) :
    fillRows? dims rows true = some (rows.map fun r => (r.1, r.2.getD 0)) := by
  unfold fillRows?; simp

/-- without the flag, a complete table keeps its values as they are -/
theorem default_keeps_values (dims : DimSet) (rows : List (List Cell × Rat)) (h : rows.length = (shape dims).prod) :
    fillRows? dims (rows.map fun r => (r.1, some r.2)) false = some rows := by
  unfold fillRows?
  simp only [Bool.false_eq_true, if_false, List.length_map, h, bne_self_eq_false]
  induction rows with
  | nil => rfl
  | cons r rs ih =>
    simp only [List.map_cons, List.mapM_cons, Option.map_some, Option.bind_eq_bind, Option.bind_some]
    have : List.mapM (fun r : List Cell × Option Rat => r.2.map fun v => (r.1, v)) (rs.map fun r => (r.1, some r.2)) = some rs := by
      clear ih h
      induction rs with
      | nil => rfl
      | cons a as ih' => simp only [List.map_cons, List.mapM_cons, Option.map_some, Option.bind_eq_bind, Option.bind_some, ih']; rfl
    rw [this]; rfl

/-- **a refused `set_values_from_df` leaves no partially filled array behind**: the converter runs to
completion before anything is written; on success the dimensions stay and the values have their shape -/
theorem setValuesFromDf_all_or_nothing (x : FArr Rat) (k : IndexKind) (df : DF) (m e : Bool) :
    (setValuesFromDf? x k df m e = none ∧ convert? x.dims k df m e = none) ∨
    ∃ v, convert? x.dims k df m e = some v ∧ setValuesFromDf? x k df m e = some { x with values := v } := by
  unfold setValuesFromDf?
  cases h : convert? x.dims k df m e with
  | none => left; exact ⟨rfl, rfl⟩
  | some v => right; exact ⟨v, rfl, rfl⟩

/-! ## non-vacuity -/

def exDims : DimSet :=
  [{ letter := 't', name := "time", items := [.int 2000, .int 2001], dtype := some .int },
   { letter := 'r', name := "region", items := [.str "EU", .str "NA"], dtype := some .str }]

def exRows : List (List Cell × Option Rat) :=
  [([.num 2000 false, .str "EU"], some 1), ([.num 2001 false, .str "EU"], some 2),
   ([.num 2000 false, .str "NA"], some 3), ([.num 2001 false, .str "NA"], some 4)]

example : (complete? exDims { rows := exRows } false false).map (fun v => (allIdx v.shape).map v.get)
    = some [1, 3, 2, 4] := by decide +kernel
example : complete? exDims { rows := exRows.take 3 } false false = none := by decide +kernel
example : (complete? exDims { rows := exRows.take 3 } true false).map (fun v => (allIdx v.shape).map v.get)
    = some [1, 3, 2, 0] := by decide +kernel
example : complete? exDims { rows := exRows ++ [([.num 2000 false, .str "EU"], some 9)] } true true = none := by
  decide +kernel
example : (complete? exDims { rows := exRows ++ [([.num 1999 false, .str "EU"], some 9)] } false true).map
    (fun v => (allIdx v.shape).map v.get) = some [1, 3, 2, 4] := by decide +kernel

end Flodym.C12
