import FlodymProofs.Lemmas.Shares
/-!
# C14 — dimension sets behave as ordered sets of uniquely lettered dimensions

`DimSet` *is* the ordered list; the functions of `Flodym/Dims.lean` transcribe the methods of
`DimensionSet`. The theorems characterise every operator by the ordered list it returns, show
that distinct letters are preserved by every constructor and mutator (a clash is refused), and
lift that to arbitrary operation sequences. Object identity (who shares which Python list) is
covered by the `dims` history stream with a full-store dump after every step.
-/
namespace Flodym.C14
open Flodym DimSet

/-! ## set operators -/

/-- union keeps the left set's order and appends the right set's new dimensions -/
theorem union_spec (D D' : DimSet) (h : (letters D).Nodup) (h' : (letters D').Nodup) :
    unionWith? D D' = some (D ++ D'.filter (fun d => !((letters D).contains d.letter))) :=
  unionWith?_eq D D' h h'

/-- intersection and difference keep the left set's order -/
theorem inter_spec (D D' : DimSet) :
    intersectWith D D' = D.filter (fun d => (letters D').contains d.letter) ∧
    (intersectWith D D').Sublist D := ⟨rfl, List.filter_sublist⟩

theorem diff_spec (D D' : DimSet) :
    differenceWith D D' = D.filter (fun d => !((letters D').contains d.letter)) ∧
    (differenceWith D D').Sublist D := ⟨rfl, List.filter_sublist⟩

theorem letters_diff (D D' : DimSet) :
    letters (differenceWith D D') = (letters D).filter (fun l => !((letters D').contains l)) :=
  letters_filter D (fun l => !((letters D').contains l))

/-- symmetric difference is the combination of the two differences -/
theorem xor_spec (D D' : DimSet) (h : (letters D).Nodup) (h' : (letters D').Nodup) :
    xor? D D' = some (differenceWith D D' ++ differenceWith D' D) := by
  unfold xor?
  have h1 : (letters (differenceWith D D')).Nodup := by rw [letters_diff]; exact h.filter _
  have h2 : (letters (differenceWith D' D)).Nodup := by rw [letters_diff]; exact h'.filter _
  rw [unionWith?_eq _ _ h1 h2]
  congr 1
  unfold unionDims
  congr 1
  rw [List.filter_eq_self]
  intro d hd
  -- a dimension of D' \ D has a letter outside D, hence outside D \ D'
  have hd' := (List.mem_filter.mp hd).2
  simp only [Bool.not_eq_true', List.contains_eq_mem, decide_eq_false_iff_not] at hd' ⊢
  intro hm
  rw [letters_diff] at hm
  exact hd' (List.mem_filter.mp hm).1

/-- '+' refuses overlapping sets and is the union otherwise -/
theorem add_refuses_overlap (D D' : DimSet) (h : ∃ d ∈ D, d.letter ∈ letters D') : add? D D' = none := by
  unfold add?
  obtain ⟨d, hd, hl⟩ := h
  have : (intersectWith D D').isEmpty = false := by
    rw [List.isEmpty_eq_false_iff_exists_mem]
    exact ⟨d, List.mem_filter.mpr ⟨hd, by simpa using hl⟩⟩
  rw [this]; rfl

theorem add_disjoint (D D' : DimSet) (h : (letters D).Nodup) (h' : (letters D').Nodup)
    (hdis : ∀ d ∈ D, d.letter ∉ letters D') : add? D D' = some (D ++ D') := by
  unfold add?
  have : (intersectWith D D').isEmpty = true := by
    rw [List.isEmpty_iff]
    unfold intersectWith
    rw [List.filter_eq_nil_iff]
    intro d hd
    simpa using hdis d hd
  rw [this]
  simp only [Bool.not_true, Bool.false_eq_true, if_false]
  rw [unionWith?_eq _ _ h h']
  have hf : D'.filter (fun d => !((letters D).contains d.letter)) = D' := by
    rw [List.filter_eq_self]
    intro d hd
    simp only [Bool.not_eq_true', List.contains_eq_mem, decide_eq_false_iff_not]
    intro hm
    obtain ⟨d0, hd0, hl⟩ := mem_letters.mp hm
    exact hdis d0 hd0 (hl ▸ mem_letters.mpr ⟨d, hd, rfl⟩)
  unfold unionDims
  rw [hf]

/-- selecting a subset by letters returns the dimensions in the requested order -/
theorem getSubset_requested_order (D : DimSet) (hnd : (letters D).Nodup) (hn : NamesOk D)
    (ds : List Dim) (hds : ∀ d ∈ ds, d ∈ D) (hdn : (letters ds).Nodup) :
    getSubset? D (some ((letters ds).map (·.toString))) = some ds :=
  getSubset?_letters D hnd hn ds hds hdn

/-- … and by names alike -/
theorem getSubset_by_names (D : DimSet) (hnames : (names D).Nodup) (hn : NamesOk D)
    (ds : List Dim) (hds : ∀ d ∈ ds, d ∈ D) (hdn : (letters ds).Nodup) :
    getSubset? D (some (names ds)) = some ds := by
  have hm : List.mapM (lookup? D) (names ds) = some ds := by
    clear hdn
    induction ds with
    | nil => rfl
    | cons d ds ih =>
      simp only [names, List.map_cons, List.mapM_cons]
      rw [lookup?_name D hnames hn d (hds d (by simp))]
      have := ih (fun d' hd' => hds d' (by simp [hd']))
      simp only [names] at this
      rw [this]; rfl
  show (List.mapM (lookup? D) (names ds)).bind DimSet.mk? = some ds
  rw [hm]
  show DimSet.mk? ds = some ds
  unfold DimSet.mk?
  rw [if_pos hdn]

/-- a requested dimension that is not in the set is refused -/
theorem getSubset_unknown (D : DimSet) (keys : List String) (key : String) (hk : key ∈ keys)
    (h : ∀ d ∈ D, d.name ≠ key ∧ d.letter.toString ≠ key) : getSubset? D (some keys) = none := by
  show (List.mapM (lookup? D) keys).bind DimSet.mk? = none
  have : List.mapM (lookup? D) keys = none := by
    induction keys with
    | nil => cases hk
    | cons k ks ih =>
      simp only [List.mapM_cons]
      cases hk with
      | head => rw [lookup?_unknown D key h]; rfl
      | tail _ h' =>
        rw [ih h']
        cases lookup? D k <;> rfl
  rw [this]; rfl

/-! ## lookups agree with the order -/

theorem lookup_by_letter (D : DimSet) (hnd : (letters D).Nodup) (hn : NamesOk D) (d : Dim) (hd : d ∈ D) :
    lookup? D d.letter.toString = some d ∧ contains D d.letter.toString = true ∧
    size? D d.letter.toString = some d.len := by
  have := lookup?_letter D hnd hn d hd
  refine ⟨this, ?_, ?_⟩
  · unfold DimSet.contains; rw [this]; rfl
  · unfold size?; rw [this]; rfl

theorem lookup_by_name (D : DimSet) (hnames : (names D).Nodup) (hn : NamesOk D) (d : Dim) (hd : d ∈ D) :
    lookup? D d.name = some d ∧ contains D d.name = true ∧ size? D d.name = some d.len := by
  have := lookup?_name D hnames hn d hd
  refine ⟨this, ?_, ?_⟩
  · unfold DimSet.contains; rw [this]; rfl
  · unfold size?; rw [this]; rfl

theorem not_contains_unknown (D : DimSet) (key : String)
    (h : ∀ d ∈ D, d.name ≠ key ∧ d.letter.toString ≠ key) : contains D key = false := by
  unfold DimSet.contains; rw [lookup?_unknown D key h]; rfl

/-- `index(letter)` is the position in the list; lookup by position returns that dimension -/
theorem index_is_position (D : DimSet) (hnd : (letters D).Nodup) (hn : NamesOk D) (i : Nat) (hi : i < D.length) :
    index? D (D[i]).letter.toString = some i ∧ getIdx? D (i : Int) = some D[i] := by
  constructor
  · unfold index?
    rw [lookup?_letter D hnd hn D[i] (List.getElem_mem hi)]
    simp only [Option.bind_some]
    have hD : D.Nodup := dims_nodup_of_letters hnd
    rw [List.Nodup.idxOf_getElem hD i hi]
    simp [hi]
  · unfold getIdx?
    simp [hi]

theorem shape_and_size (D : DimSet) :
    DimSet.shape D = D.map (·.len) ∧ ndim D = D.length ∧ totalSize D = (D.map (·.len)).prod := by
  refine ⟨rfl, rfl, ?_⟩
  unfold totalSize DimSet.shape
  induction D with
  | nil => rfl
  | cons d D ih => simp [List.foldr_cons, ih]

/-! ## letters stay unique; a clash is refused -/

theorem mk_iff (ds : List Dim) : (∃ r, DimSet.mk? ds = some r) ↔ (letters ds).Nodup := by
  unfold DimSet.mk?
  by_cases h : (letters ds).Nodup <;> simp [h]

theorem mk_some {ds r : List Dim} (h : DimSet.mk? ds = some r) : r = ds ∧ (letters r).Nodup := by
  unfold DimSet.mk? at h
  by_cases hc : (letters ds).Nodup
  · rw [if_pos hc] at h; cases h; exact ⟨rfl, hc⟩
  · rw [if_neg hc] at h; cases h

theorem letters_append (D D' : DimSet) : letters (D ++ D') = letters D ++ letters D' := by
  simp [letters]

/-- the in-place mutators -/
inductive Mut where
  | expand (added : List Dim)
  | append (d : Dim)
  | prepend (d : Dim)
  | insert (i : Int) (d : Dim)
  | drop (key : String)
  | replace (key : String) (d : Dim)

def Mut.apply (D : DimSet) : Mut → Option DimSet
  | .expand a => expandByInplace? D a
  | .append d => appendInplace? D d
  | .prepend d => prependInplace? D d
  | .insert i d => insertInplace? D i d
  | .drop k => drop? D k
  | .replace k d => replace? D k d

theorem nodup_insertIdx (D : DimSet) (n : Nat) (d : Dim) (h : (letters D).Nodup)
    (hd : d.letter ∉ letters D) : (letters (D.insertIdx n d)).Nodup := by
  by_cases hn : n ≤ D.length
  · have hp : (D.insertIdx n d).Perm (d :: D) := List.perm_insertIdx d D hn
    have : (letters (D.insertIdx n d)).Perm (letters (d :: D)) := hp.map _
    rw [this.nodup_iff]
    simp only [letters, List.map_cons, List.nodup_cons]
    exact ⟨hd, h⟩
  · rw [List.insertIdx_of_length_lt (by omega)]; exact h

/-- every in-place mutator keeps the letters distinct (when it does not refuse) -/
theorem mutator_preserves_unique (D D' : DimSet) (m : Mut) (h : (letters D).Nodup)
    (hm : m.apply D = some D') : (letters D').Nodup := by
  cases m with
  | expand a =>
    simp only [Mut.apply, expandByInplace?] at hm
    split at hm
    · rename_i hc
      cases hm
      simp only [Bool.and_eq_true, List.all_eq_true, Bool.not_eq_true', decide_eq_true_eq] at hc
      rw [letters_append, List.nodup_append]
      refine ⟨h, hc.2, ?_⟩
      intro a' ha b hb hab
      subst hab
      obtain ⟨d, hd, rfl⟩ := mem_letters.mp hb
      have := hc.1 d hd
      simp [ha] at this
    · cases hm
  | append d =>
    simp only [Mut.apply, appendInplace?] at hm
    by_cases hc0 : checkAdditional D d = true
    · rw [if_pos hc0] at hm
      have hc : (!(letters D).contains d.letter) = true := hc0
      cases hm
      rw [letters_append, List.nodup_append]
      refine ⟨h, by simp [letters], ?_⟩
      intro a' ha b hb hab
      subst hab
      simp only [letters, List.map_cons, List.map_nil, List.mem_singleton] at hb
      subst hb
      simp [ha] at hc
    · rw [if_neg hc0] at hm; cases hm
  | prepend d =>
    simp only [Mut.apply, prependInplace?] at hm
    by_cases hc0 : checkAdditional D d = true
    · rw [if_pos hc0] at hm
      have hc : (!(letters D).contains d.letter) = true := hc0
      cases hm
      simp only [letters, List.map_cons, List.nodup_cons]
      exact ⟨by simpa [letters] using hc, h⟩
    · rw [if_neg hc0] at hm; cases hm
  | insert i d =>
    simp only [Mut.apply, insertInplace?] at hm
    by_cases hc0 : checkAdditional D d = true
    · rw [if_pos hc0] at hm
      have hc : (!(letters D).contains d.letter) = true := hc0
      cases hm
      exact nodup_insertIdx D _ d h (by simpa using hc)
    · rw [if_neg hc0] at hm; cases hm
  | drop k =>
    simp only [Mut.apply, drop?] at hm
    cases hl : lookup? D k with
    | none => rw [hl] at hm; cases hm
    | some d =>
      rw [hl] at hm
      cases hm
      exact (List.erase_sublist.map _).nodup h
  | replace k d =>
    simp only [Mut.apply, replace?] at hm
    split at hm
    · cases hm
    · rename_i hc
      cases hi : index? D k with
      | none => rw [hi] at hm; cases hm
      | some i =>
        rw [hi] at hm
        cases hm
        have hd : d.letter ∉ letters D := by simpa using hc
        unfold letters
        rw [List.map_set]
        -- replacing one letter by a fresh one keeps the letters distinct
        exact nodup_set_fresh (letters D) i d.letter h hd
where
  nodup_set_fresh (l : List Char) (i : Nat) (c : Char) (h : l.Nodup) (hc : c ∉ l) : (l.set i c).Nodup := by
    induction l generalizing i with
    | nil => simp
    | cons a l ih =>
      rw [List.nodup_cons] at h
      cases i with
      | zero =>
        simp only [List.set_cons_zero, List.nodup_cons]
        exact ⟨fun hm => hc (by simp [hm]), h.2⟩
      | succ i =>
        simp only [List.set_cons_succ, List.nodup_cons]
        refine ⟨?_, ih i h.2 (fun hm => hc (by simp [hm]))⟩
        intro hm
        rcases List.mem_or_eq_of_mem_set hm with h1 | h1
        · exact h.1 h1
        · exact hc (by simp [h1])

/-- a clash is refused by every adding mutator -/
theorem clash_refused (D : DimSet) (d : Dim) (hc : d.letter ∈ letters D) (i : Int) (k : String) :
    appendInplace? D d = none ∧ prependInplace? D d = none ∧ insertInplace? D i d = none ∧
    expandByInplace? D [d] = none ∧ replace? D k d = none ∧
    append? D d = none ∧ prepend? D d = none ∧ insert? D i d = none ∧ expandBy? D [d] = none := by
  have hca : checkAdditional D d = false := by simp [checkAdditional, hc]
  have hcont : (letters D).contains d.letter = true := by simpa using hc
  refine ⟨?_, ?_, ?_, ?_, ?_, ?_, ?_, ?_, ?_⟩
  · simp [appendInplace?, hca]
  · simp [prependInplace?, hca]
  · simp [insertInplace?, hca]
  · simp [expandByInplace?, hc]
  · simp [replace?, hc]
  · simp [append?, hca]
  · simp [prepend?, hca]
  · simp [insert?, insertInplace?, hca]
  · simp [expandBy?, hc]

/-- two added dimensions sharing a letter are refused, in place and out of place alike -/
theorem expand_refuses_internal_clash (D : DimSet) (a : List Dim) (h : ¬ (letters a).Nodup) :
    expandByInplace? D a = none ∧ expandBy? D a = none := by
  constructor
  · simp [expandByInplace?, h]
  · unfold expandBy?
    split
    · unfold DimSet.mk?
      rw [if_neg]
      rw [letters_append, List.nodup_append]
      exact fun hh => h hh.2.1
    · rfl

/-- every sequence of in-place mutations keeps the letters distinct -/
theorem history_preserves_unique (D : DimSet) (ms : List Mut) (h : (letters D).Nodup) :
    ∀ D', ms.foldlM Mut.apply D = some D' → (letters D').Nodup := by
  induction ms generalizing D with
  | nil => intro D' hD'; cases hD'; exact h
  | cons m ms ih =>
    intro D' hD'
    simp only [List.foldlM_cons] at hD'
    cases hm : m.apply D with
    | none => rw [hm] at hD'; cases hD'
    | some D1 =>
      rw [hm] at hD'
      exact ih D1 (mutator_preserves_unique D D1 m h hm) D' hD'

/-- the out-of-place forms construct a validated set: whatever they return has distinct letters -/
theorem out_of_place_unique (D : DimSet) (d : Dim) (i : Int) (k : String) (a : List Dim) (r : DimSet) :
    (expandBy? D a = some r ∨ insert? D i d = some r ∨ (drop? D k).bind DimSet.mk? = some r ∨
      (replace? D k d).bind DimSet.mk? = some r ∨ getSubset? D (some (a.map (·.name))) = some r) →
    (letters r).Nodup := by
  rintro (h | h | h | h | h)
  · unfold expandBy? at h
    split at h
    · exact (mk_some h).2
    · cases h
  · unfold insert? at h
    cases hi : insertInplace? D i d with
    | none => rw [hi] at h; cases h
    | some x => rw [hi] at h; exact (mk_some h).2
  · cases hi : drop? D k with
    | none => rw [hi] at h; cases h
    | some x => rw [hi] at h; exact (mk_some h).2
  · cases hi : replace? D k d with
    | none => rw [hi] at h; cases h
    | some x => rw [hi] at h; exact (mk_some h).2
  · unfold getSubset? at h
    cases hi : List.mapM (lookup? D) (a.map (·.name)) with
    | none => simp only [hi] at h; cases h
    | some x => simp only [hi] at h; exact (mk_some h).2

/-! ### hypotheses are satisfiable -/
def dA : Dim := { letter := 'a', name := "aa", items := [.int 1, .int 2] }
def dB : Dim := { letter := 'b', name := "bb", items := [.str "x"] }
def dC : Dim := { letter := 'c', name := "cc", items := [.str "p", .str "q"] }
example : (letters [dA, dB]).Nodup ∧ (letters [dB, dC]).Nodup ∧ NamesOk [dA, dB] ∧ (names [dA, dB]).Nodup := by
  decide
example : unionWith? [dA, dB] [dC, dB] = some [dA, dB, dC] := by decide
example : xor? [dA, dB] [dC, dB] = some [dA, dC] := by decide

end Flodym.C14
