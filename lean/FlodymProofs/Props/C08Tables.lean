import FlodymGen.GaussLobatto
import FlodymGen.Constants
/-!
# C08 (tables) — the ten Gauss–Lobatto rules in `gauss_lobatto.py`, checked exhaustively

The tables are regenerated from the source on every run (every entry is the exact value of the
IEEE double the literal denotes), and every statement below is decided by kernel evaluation
(`decide +kernel`, no axioms beyond the standard ones; this file imports no Mathlib, core `Rat`
only). A changed digit breaks these theorems.
-/
namespace Flodym.C08
open Flodym.Gen

def absR (x : Rat) : Rat := if x < 0 then -x else x
def moment (ns ws : List Rat) (k : Nat) : Rat := (List.zipWith (fun x w => w * x ^ k) ns ws).sum
/-- exact integral of x^k over [-1,1] -/
def exactMoment (k : Nat) : Rat := if k % 2 = 1 then 0 else 2 / ((k : Rat) + 1)
def tol15 : Rat := 1 / 10 ^ 15
def tol14 : Rat := 1 / 10 ^ 14

/-- the rules present are exactly n = 1 … 10, each with n nodes and n weights -/
theorem tables_shape : glRules = [1, 2, 3, 4, 5, 6, 7, 8, 9, 10] ∧
    ∀ n ∈ glRules, (glNodes n).length = n ∧ (glWeights n).length = n := by decide +kernel

/-- nodes strictly increasing, from −1 to 1 (n ≥ 2), all weights positive -/
theorem nodes_weights_valid : ∀ n ∈ glRules,
    (glNodes n).Pairwise (· < ·) ∧ (∀ w ∈ glWeights n, 0 < w) ∧
    (2 ≤ n → (glNodes n).head? = some (-1) ∧ (glNodes n).getLast? = some 1) := by decide +kernel

/-- symmetric about 0 up to the printed precision -/
theorem tables_symmetric : ∀ n ∈ glRules,
    (List.zipWith (fun a b => decide (absR (a + b) ≤ tol15)) (glNodes n) (glNodes n).reverse).all id = true ∧
    (List.zipWith (fun a b => decide (absR (a - b) ≤ tol15)) (glWeights n) (glWeights n).reverse).all id = true := by
  decide +kernel

/-- weights sum to the length of [−1, 1] up to 1e-15 -/
theorem weights_sum : ∀ n ∈ glRules, absR ((glWeights n).sum - 2) ≤ tol15 := by decide +kernel

/-- each n-point rule (n ≥ 2) integrates every polynomial of degree ≤ 2n−3 exactly (to 1e-14):
this is what identifies it as *the* n-point Gauss–Lobatto rule -/
theorem rules_exact : ∀ n ∈ glRules, 2 ≤ n → ∀ k ∈ List.range (2 * n - 2),
    absR (moment (glNodes n) (glWeights n) k - exactMoment k) ≤ tol14 := by decide +kernel

/-- … and not one degree more (so the tables are not a higher-order rule in disguise) -/
theorem rules_not_exact_beyond : ∀ n ∈ glRules, 2 ≤ n →
    tol14 < absR (moment (glNodes n) (glWeights n) (2 * n - 2) - exactMoment (2 * n - 2)) := by decide +kernel

/-- mapped to the unit interval as the code does (`(x+1)/2`, `w/2`): points in [0,1] with both end
points, weights positive with sum one (to 1e-15) -/
theorem mapped_rules : ∀ n ∈ glRules, 2 ≤ n →
    (∀ x ∈ (glNodes n).map quadNode, 0 ≤ x ∧ x ≤ 1) ∧
    ((glNodes n).map quadNode).head? = some 0 ∧ ((glNodes n).map quadNode).getLast? = some 1 ∧
    (∀ w ∈ (glWeights n).map quadWeight, 0 < w) ∧
    absR (((glWeights n).map quadWeight).sum - 1) ≤ tol15 := by decide +kernel

/-- without quadrature: one evaluation point, at the start, middle or end, with weight one -/
theorem single_point_rules :
    inflowAtTable = [("start", 0, 1), ("middle", 1/2, 1), ("end", 1, 1)] ∧
    inflowAtAllowed = ["start", "middle", "end"] ∧ maxQuadPts = 10 ∧ quadAbove = 1 := by decide +kernel

end Flodym.C08
