import FlodymProofs.Props.C09
import FlodymProofs.Lemmas.Cast
import FlodymGen.ParamExpr
/-!
# C08 — survival tables are valid and equal the declared lifetime distribution

`Q` = quadrature points and weights `(η_q, w_q)`; `Sq q c t j` = what `_survival_by_year_id`
returns for point q, cohort c, year t, label j. The scipy survival functions are a parameter of the
model (`S`), assumed to be the named distribution's survival function: non-increasing in age with
values in [0,1]; what is proved here is that flodym evaluates it at the right ages with the right
arguments and assembles a valid table. The ten quadrature tables are in `C08Tables.lean`.
-/
open Finset BigOperators
namespace Flodym.C08
open Flodym Flodym.DSM

variable {K : Type}

/-- zero for cohorts later than the year -/
theorem sf_lowerTri [Field K] (Q : List (K × K)) (Sq : Nat → Nat → Nat → Nat → K) :
    LowerTri (sfTable Q Sq) := by
  intro t c j h
  simp [sfTable, h]

/-- each entry is the quadrature average of the survival function values -/
theorem sf_entry [Field K] (Q : List (K × K)) (Sq : Nat → Nat → Nat → Nat → K) (t c j : Nat) (h : c ≤ t) :
    sfTable Q Sq t c j = ∑ q ∈ range Q.length, (Q.getD q (0, 0)).2 * Sq q c t j := by
  have : ¬ t < c := by omega
  simp only [sfTable, this, if_false]
  exact sumList_range_map _ _

/-- … evaluated at the age from the inflow instant `η_q` of the cohort's interval to the end of
year t: `bounds(t+1) − (η·bounds(c+1) + (1−η)·bounds(c))`, with the cohort's own parameters -/
theorem sf_entry_at_ages [Field K] (it : Nat → K) (n : Nat) (Q : List (K × K))
    (S : K → Nat → Nat → K) (t c j : Nat) (h : c ≤ t) :
    sfTable Q (fun q c t j => S (age it n (Q.getD q (0, 0)).1 c t) c j) t c j
      = ∑ q ∈ range Q.length,
          (Q.getD q (0, 0)).2 * S (bounds it n (t + 1)
            - ((Q.getD q (0, 0)).1 * bounds it n (c + 1) + (1 - (Q.getD q (0, 0)).1) * bounds it n c)) c j := by
  rw [sf_entry Q _ t c j h]
  rfl

section order
variable [Field K] [LinearOrder K] [IsStrictOrderedRing K]

/-- the inflow instant lies inside the cohort's interval, so ages are non-negative at the end of
the cohort's own year and grow with every later year -/
theorem age_nonneg_increasing (it : Nat → K) (n : Nat) (hn : 3 ≤ n)
    (hinc : ∀ k, k + 1 < n → it k < it (k + 1)) (eta : K) (h0 : 0 ≤ eta) (h1 : eta ≤ 1)
    (c t : Nat) (hct : c ≤ t) (ht : t < n) :
    0 ≤ age it n eta c c ∧ (t + 1 < n → age it n eta c t < age it n eta c (t + 1)) := by
  have hc : c < n := by omega
  have hdc := C03.dt_pos it n hn hinc c hc
  constructor
  · unfold age
    unfold dt at hdc
    nlinarith
  · intro ht1
    have hd := C03.dt_pos it n hn hinc (t + 1) ht1
    unfold age
    unfold dt at hd
    linarith

/-- survival lies in [0, Σ w] (= [0,1] for a normalised rule; the printed Gauss–Lobatto weights sum
to one within 1e-15, see `C08Tables.mapped_rules`) -/
theorem sf_range (Q : List (K × K)) (Sq : Nat → Nat → Nat → Nat → K)
    (hw : ∀ q, q < Q.length → 0 ≤ (Q.getD q (0, 0)).2)
    (hS : ∀ q c t j, 0 ≤ Sq q c t j ∧ Sq q c t j ≤ 1) (t c j : Nat) :
    0 ≤ sfTable Q Sq t c j ∧ sfTable Q Sq t c j ≤ ∑ q ∈ range Q.length, (Q.getD q (0, 0)).2 := by
  by_cases h : c ≤ t
  · rw [sf_entry Q Sq t c j h]
    constructor
    · exact sum_nonneg (fun q hq => mul_nonneg (hw q (mem_range.mp hq)) (hS q c t j).1)
    · apply sum_le_sum
      intro q hq
      have := hw q (mem_range.mp hq)
      calc (Q.getD q (0, 0)).2 * Sq q c t j ≤ (Q.getD q (0, 0)).2 * 1 :=
            mul_le_mul_of_nonneg_left (hS q c t j).2 this
        _ = (Q.getD q (0, 0)).2 := mul_one _
  · have : t < c := by omega
    rw [sf_lowerTri Q Sq t c j this]
    exact ⟨le_refl _, sum_nonneg (fun q hq => hw q (mem_range.mp hq))⟩

/-- survival never increases with age, when the survival function does not -/
theorem sf_antitone (Q : List (K × K)) (Sq : Nat → Nat → Nat → Nat → K)
    (hw : ∀ q, q < Q.length → 0 ≤ (Q.getD q (0, 0)).2)
    (hS : ∀ q c t j, c ≤ t → Sq q c (t + 1) j ≤ Sq q c t j) (t c j : Nat) (h : c ≤ t) :
    sfTable Q Sq (t + 1) c j ≤ sfTable Q Sq t c j := by
  rw [sf_entry Q Sq t c j h, sf_entry Q Sq (t + 1) c j (by omega)]
  apply sum_le_sum
  intro q hq
  exact mul_le_mul_of_nonneg_left (hS q c t j h) (hw q (mem_range.mp hq))

/-- outflow probabilities are non-negative -/
theorem pdf_nonneg (sf : Nat → Nat → Nat → K) (hle : ∀ c j, sf c c j ≤ 1)
    (hanti : ∀ t c j, c ≤ t → sf (t + 1) c j ≤ sf t c j) (t c j : Nat) :
    0 ≤ pdfTable sf t c j := by
  unfold pdfTable
  by_cases h1 : t < c
  · simp [h1]
  · by_cases h2 : t = c
    · subst h2; simp; exact hle t j
    · simp only [h1, h2, if_false]
      have := hanti (t - 1) c j (by omega)
      rw [Nat.sub_add_cancel (by omega)] at this
      linarith

end order

/-- survival(t,c) + Σ_{s ≤ t} outflow probability(s,c) = 1 -/
theorem sf_add_cumulative_pdf [Field K] (Q : List (K × K)) (Sq : Nat → Nat → Nat → Nat → K)
    (t c j : Nat) (h : c ≤ t) :
    sfTable Q Sq t c j + ∑ s ∈ range (t + 1), pdfTable (sfTable Q Sq) s c j = 1 := by
  rw [C09.pdf_cumsum (sfTable Q Sq) (sf_lowerTri Q Sq) c j t h]
  ring

/-- parameters given as arrays of any subset of the dimensions, in any storage order, apply per
label and per cohort: the cast to the model's dimensions keeps every entry under its labels -/
theorem parameter_applies_by_label {α : Type} [AddCommMonoid α] (prm : FArr α) (modelDims : DimSet)
    (hp : WF prm) (hT : (DimSet.letters modelDims).Nodup) (hc : Compatible prm.dims modelDims)
    (hsub : ∀ l ∈ prm.letters, l ∈ DimSet.letters modelDims) :
    ∃ r, prm.castTo? modelDims = some r ∧ r.dims = modelDims ∧
      ∀ e, Valid modelDims e → r.at e = prm.at e := by
  obtain ⟨r, h1, h2, _, h4⟩ := castTo_spec prm modelDims hp hT hc hsub
  exact ⟨r, h1, h2, h4⟩

/-! ## the arguments handed to scipy are those of the declared distribution (over ℝ) -/

open Real

/-- log-normal: with `s`, `loc = 0`, `scale = exp μ` as computed by the code, the distribution's own
mean `exp(μ + s²/2)` is the given mean … -/
theorem lognormal_mean (m sd : ℝ) (hm : 0 < m) :
    Gen.lognormLoc m sd = 0 ∧
    Real.exp (Real.log (Gen.lognormScale m sd) + (Gen.lognormS m sd) ^ 2 / 2) = m := by
  refine ⟨rfl, ?_⟩
  unfold Gen.lognormScale Gen.lognormS
  have hmm : 0 < m * m := mul_pos hm hm
  have hss : 0 ≤ sd * sd := mul_self_nonneg sd
  have hsum : 0 < m * m + sd * sd := by positivity
  have hsq : 0 < Real.sqrt (m * m + sd * sd) := Real.sqrt_pos.mpr hsum
  have h1 : 0 < 1 + sd * sd / (m * m) := by positivity
  have hlog : 0 ≤ Real.log (1 + sd * sd / (m * m)) := Real.log_nonneg (by
    have : 0 ≤ sd * sd / (m * m) := by positivity
    linarith)
  rw [Real.log_exp, Real.sq_sqrt hlog, Real.exp_add, Real.exp_log (by positivity)]
  rw [show Real.log (1 + sd * sd / (m * m)) / 2 = (1 / 2) * Real.log (1 + sd * sd / (m * m)) by ring]
  rw [mul_comm (1 / 2 : ℝ), Real.exp_mul, Real.exp_log h1, ← Real.sqrt_eq_rpow]
  have : 1 + sd * sd / (m * m) = (m * m + sd * sd) / (m * m) := by field_simp
  rw [this, Real.sqrt_div' _ hmm.le, Real.sqrt_mul_self hm.le]
  field_simp

/-- … and its variance `(exp(s²) − 1)·exp(2μ + s²)` is the given standard deviation squared -/
theorem lognormal_variance (m sd : ℝ) (hm : 0 < m) :
    (Real.exp ((Gen.lognormS m sd) ^ 2) - 1)
      * Real.exp (2 * Real.log (Gen.lognormScale m sd) + (Gen.lognormS m sd) ^ 2) = sd ^ 2 := by
  unfold Gen.lognormScale Gen.lognormS
  have hmm : 0 < m * m := mul_pos hm hm
  have hss : 0 ≤ sd * sd := mul_self_nonneg sd
  have hsum : 0 < m * m + sd * sd := by positivity
  have hsq : 0 < Real.sqrt (m * m + sd * sd) := Real.sqrt_pos.mpr hsum
  have h1 : 0 < 1 + sd * sd / (m * m) := by positivity
  have hlog : 0 ≤ Real.log (1 + sd * sd / (m * m)) := Real.log_nonneg (by
    have : 0 ≤ sd * sd / (m * m) := by positivity
    linarith)
  rw [Real.log_exp, Real.sq_sqrt hlog, Real.exp_add, Real.exp_log h1]
  have hq : 0 < m * m / Real.sqrt (m * m + sd * sd) := by positivity
  rw [show (2 : ℝ) * Real.log (m * m / Real.sqrt (m * m + sd * sd))
      = Real.log (m * m / Real.sqrt (m * m + sd * sd)) + Real.log (m * m / Real.sqrt (m * m + sd * sd)) by ring]
  rw [Real.exp_add, Real.exp_log hq]
  have hs2 : Real.sqrt (m * m + sd * sd) * Real.sqrt (m * m + sd * sd) = m * m + sd * sd :=
    Real.mul_self_sqrt hsum.le
  field_simp
  have hsq2 : Real.sqrt (m ^ 2 + sd ^ 2) ^ 2 = m ^ 2 + sd ^ 2 := Real.sq_sqrt (by positivity)
  rw [hsq2]
  ring

/-- normal: location = mean, scale = standard deviation -/
theorem normal_args (m sd : ℝ) : Gen.normLoc m sd = m ∧ Gen.normScale m sd = sd := ⟨rfl, rfl⟩

/-- folded normal: scipy's `foldnorm(c, loc, scale)` is |X| with X ~ N(c·scale, scale²) shifted by
loc; the code passes c = mean/std, loc = 0, scale = std, i.e. X ~ N(mean, std²) -/
theorem foldnorm_args (m sd : ℝ) (hs : sd ≠ 0) :
    Gen.foldnormC m sd * Gen.foldnormScale m sd = m ∧ Gen.foldnormScale m sd = sd ∧ Gen.foldnormLoc m sd = 0 := by
  refine ⟨?_, rfl, rfl⟩
  unfold Gen.foldnormC Gen.foldnormScale
  field_simp

/-- Weibull: shape and scale passed through, no shift -/
theorem weibull_args (k lam : ℝ) :
    Gen.weibullC k lam = k ∧ Gen.weibullScale k lam = lam ∧ Gen.weibullLoc k lam = 0 := ⟨rfl, rfl, rfl⟩

/-- fixed lifetime: the whole cohort is present while its age is below the lifetime, gone after -/
theorem fixed_sf (t m : ℝ) :
    Gen.fixedSf t m = (if t < m then 1 else 0) ∧ 0 ≤ Gen.fixedSf t m ∧ Gen.fixedSf t m ≤ 1 ∧
    ∀ t', t ≤ t' → Gen.fixedSf t' m ≤ Gen.fixedSf t m := by
  refine ⟨rfl, ?_, ?_, ?_⟩
  · unfold Gen.fixedSf; split <;> norm_num
  · unfold Gen.fixedSf; split <;> norm_num
  · intro t' h
    unfold Gen.fixedSf
    by_cases h1 : t' < m
    · have : t < m := lt_of_le_of_lt h h1
      simp [h1, this]
    · by_cases h2 : t < m <;> simp [h1, h2]

end Flodym.C08
