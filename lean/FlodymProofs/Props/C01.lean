import FlodymProofs.Lemmas.Arith
import FlodymProofs.Lemmas.Cast
import Mathlib.Algebra.Field.Basic
import Mathlib.Order.Defs.LinearOrder
/-!
# C01 — arithmetic between arrays matches dimensions by label, never by axis position

All theorems quantify over arbitrary dimension lists (any number of dimensions, any lengths
including 1 and 0-d, any storage order of either operand) and arbitrary values of the stated
algebraic structure (in particular ℝ). `r.at e` is the entry of `r` under the labels chosen by `e`;
`margin x L e` is `x` summed over its dimensions whose letters are not in `L`.
The model functions unfold to the einsum subscripts regenerated from the source (`FlodymGen`).
-/
namespace Flodym.C01
open Flodym DimSet

variable {α : Type}

/-- x+y, x-y: over the dimensions common to both (x's order); each operand summed over its other
dimensions, then combined. -/
theorem add_spec [Ring α] (x y : FArr α) (hx : WF x) (hy : WF y) (hc : Compatible x.dims y.dims) :
    ∃ r, FArr.addLike? (· + ·) x (.arr y) = some r ∧
      r.dims = x.dims.filter (fun d => (letters y.dims).contains d.letter) ∧ WF r ∧
      ∀ e, r.at e = margin x r.letters e + margin y r.letters e :=
  addLike_arr_spec (· + ·) x y hx hy hc

theorem sub_spec [Ring α] (x y : FArr α) (hx : WF x) (hy : WF y) (hc : Compatible x.dims y.dims) :
    ∃ r, FArr.addLike? (· - ·) x (.arr y) = some r ∧
      r.dims = x.dims.filter (fun d => (letters y.dims).contains d.letter) ∧ WF r ∧
      ∀ e, r.at e = margin x r.letters e - margin y r.letters e :=
  addLike_arr_spec (· - ·) x y hx hy hc

theorem minimum_spec [Ring α] [LinearOrder α] (x y : FArr α) (hx : WF x) (hy : WF y)
    (hc : Compatible x.dims y.dims) :
    ∃ r, FArr.addLike? min x (.arr y) = some r ∧
      r.dims = x.dims.filter (fun d => (letters y.dims).contains d.letter) ∧ WF r ∧
      ∀ e, r.at e = min (margin x r.letters e) (margin y r.letters e) :=
  addLike_arr_spec min x y hx hy hc

theorem maximum_spec [Ring α] [LinearOrder α] (x y : FArr α) (hx : WF x) (hy : WF y)
    (hc : Compatible x.dims y.dims) :
    ∃ r, FArr.addLike? max x (.arr y) = some r ∧
      r.dims = x.dims.filter (fun d => (letters y.dims).contains d.letter) ∧ WF r ∧
      ∀ e, r.at e = max (margin x r.letters e) (margin y r.letters e) :=
  addLike_arr_spec max x y hx hy hc

/-- x*y: over the union of the dimensions (x's first, then y's new ones); every entry is the
product of the two entries carrying those labels. -/
theorem mul_spec [Ring α] (x y : FArr α) (hx : WF x) (hy : WF y) (hc : Compatible x.dims y.dims) :
    ∃ r, FArr.mul? x (.arr y) = some r ∧
      r.dims = x.dims ++ y.dims.filter (fun d => !((letters x.dims).contains d.letter)) ∧ WF r ∧
      ∀ e, r.at e = x.at e * y.at e :=
  mul_arr_spec x y hx hy hc

/-- x/y: same dimensions as x*y; the quotient of the two entries (stated where the divisor entry
is non-zero; numpy's inf/nan for a zero divisor is numpy's behaviour and not modelled). -/
theorem div_spec [Field α] (x y : FArr α) (hx : WF x) (hy : WF y) (hc : Compatible x.dims y.dims) :
    ∃ r, FArr.div? x (.arr y) = some r ∧
      r.dims = x.dims ++ y.dims.filter (fun d => !((letters x.dims).contains d.letter)) ∧ WF r ∧
      ∀ e, y.at e ≠ 0 → r.at e = x.at e / y.at e := by
  obtain ⟨r, h1, h2, h3, h4⟩ := div_arr_spec x y hx hy hc
  exact ⟨r, h1, h2, h3, fun e _ => by rw [h4 e, mul_one_div]⟩

/-- x**y keeps x's dimensions and requires y's to be among them (`powf` is numpy's elementwise
power, an uninterpreted function of the two entries). -/
theorem pow_spec [Ring α] (powf : α → α → α) (x y : FArr α) (hx : WF x) (hy : WF y)
    (hc : Compatible x.dims y.dims) (hsub : ∀ l ∈ y.letters, l ∈ x.letters) :
    ∃ r, FArr.pow? powf x (.arr y) = some r ∧ r.dims = x.dims ∧ WF r ∧
      ∀ e, Valid x.dims e → r.at e = powf (x.at e) (y.at e) :=
  pow_arr_spec powf x y hx hy hc hsub

theorem pow_rejects [Ring α] (powf : α → α → α) (x y : FArr α)
    (h : ∃ l ∈ y.letters, l ∉ x.letters) : FArr.pow? powf x (.arr y) = none :=
  pow_arr_rejects powf x y h

/-- A plain number behaves as an array of x's own dimensions filled with that number. -/
theorem number_as_full [Ring α] (x : FArr α) (hx : WF x) (c : α) :
    ∃ n, x.prepareOther? (.num c) = some n ∧ n.dims = x.dims ∧ WF n ∧ ∀ e, n.at e = c := by
  obtain ⟨n, h1, h2, h3, h4⟩ := ofNumber?_spec x hx.1 c
  exact ⟨n, h1, h2, h3 hx.1, fun e => by rw [h4 e, mul_one]⟩

theorem add_num_spec [Ring α] (x : FArr α) (hx : WF x) (c : α) :
    ∃ r, FArr.addLike? (· + ·) x (.num c) = some r ∧ r.dims = x.dims ∧ WF r ∧
      ∀ e, r.at e = x.at e + c := by
  obtain ⟨r, h1, h2, h3, h4⟩ := addLike_num_spec (· + ·) x hx c
  exact ⟨r, h1, h2, h3, fun e => by rw [h4 e, mul_one]⟩

theorem sub_num_spec [Ring α] (x : FArr α) (hx : WF x) (c : α) :
    ∃ r, FArr.addLike? (· - ·) x (.num c) = some r ∧ r.dims = x.dims ∧ WF r ∧
      ∀ e, r.at e = x.at e - c := by
  obtain ⟨r, h1, h2, h3, h4⟩ := addLike_num_spec (· - ·) x hx c
  exact ⟨r, h1, h2, h3, fun e => by rw [h4 e, mul_one]⟩

theorem min_num_spec [Ring α] [LinearOrder α] (x : FArr α) (hx : WF x) (c : α) :
    ∃ r, FArr.addLike? min x (.num c) = some r ∧ r.dims = x.dims ∧ WF r ∧
      ∀ e, r.at e = min (x.at e) c := by
  obtain ⟨r, h1, h2, h3, h4⟩ := addLike_num_spec min x hx c
  exact ⟨r, h1, h2, h3, fun e => by rw [h4 e, mul_one]⟩

theorem max_num_spec [Ring α] [LinearOrder α] (x : FArr α) (hx : WF x) (c : α) :
    ∃ r, FArr.addLike? max x (.num c) = some r ∧ r.dims = x.dims ∧ WF r ∧
      ∀ e, r.at e = max (x.at e) c := by
  obtain ⟨r, h1, h2, h3, h4⟩ := addLike_num_spec max x hx c
  exact ⟨r, h1, h2, h3, fun e => by rw [h4 e, mul_one]⟩

theorem mul_number_spec [Ring α] (x : FArr α) (hx : WF x) (c : α) :
    ∃ r, FArr.mul? x (.num c) = some r ∧ r.dims = x.dims ∧ WF r ∧ ∀ e, r.at e = x.at e * c := by
  obtain ⟨r, h1, h2, h3, h4⟩ := mul_num_spec x hx c
  exact ⟨r, h1, h2, h3, fun e => by rw [h4 e, mul_one]⟩

theorem div_number_spec [Field α] (x : FArr α) (hx : WF x) (c : α) (_hc : c ≠ 0) :
    ∃ r, FArr.div? x (.num c) = some r ∧ r.dims = x.dims ∧ WF r ∧ ∀ e, r.at e = x.at e / c := by
  obtain ⟨r, h1, h2, h3, h4⟩ := div_num_spec x hx c
  exact ⟨r, h1, h2, h3, fun e => by rw [h4 e, mul_one, mul_one_div]⟩

/-- reflected position: `c + x`, `c - x`, `c * x`, `c / x` -/
theorem radd_spec [Ring α] (x : FArr α) (hx : WF x) (c : α) :
    ∃ r, FArr.radd? x c = some r ∧ r.dims = x.dims ∧ WF r ∧ ∀ e, r.at e = c + x.at e := by
  obtain ⟨r, h1, h2, h3, h4⟩ := addLike_num_spec (· + ·) x hx c
  exact ⟨r, h1, h2, h3, fun e => by rw [h4 e, mul_one]; exact add_comm' _ _⟩
where add_comm' (a b : α) : a + b = b + a := add_comm a b

theorem rsub_spec [Ring α] (x : FArr α) (hx : WF x) (c : α) :
    ∃ r, FArr.rsub? x c = some r ∧ r.dims = x.dims ∧ WF r ∧ ∀ e, r.at e = c - x.at e := by
  obtain ⟨nx, hn1, hn2, hn3, hn4⟩ := neg_spec x hx
  obtain ⟨r, h1, h2, h3, h4⟩ := addLike_num_spec (· + ·) nx hn3 c
  refine ⟨r, ?_, by rw [h2, hn2], h3, fun e => ?_⟩
  · unfold FArr.rsub?; rw [hn1]; exact h1
  · rw [h4 e, hn4 e, mul_one]; exact neg_add_eq_sub _ _

theorem rmul_spec [CommRing α] (x : FArr α) (hx : WF x) (c : α) :
    ∃ r, FArr.rmul? x c = some r ∧ r.dims = x.dims ∧ WF r ∧ ∀ e, r.at e = c * x.at e := by
  obtain ⟨r, h1, h2, h3, h4⟩ := mul_num_spec x hx c
  exact ⟨r, h1, h2, h3, fun e => by rw [h4 e, mul_one, mul_comm]⟩

theorem rdiv_spec [Field α] (x : FArr α) (hx : WF x) (c : α) :
    ∃ r, FArr.rdiv? x c = some r ∧ r.dims = x.dims ∧ WF r ∧
      ∀ e, x.at e ≠ 0 → r.at e = c / x.at e := by
  obtain ⟨ix, hi1, hi2, hi3, hi4⟩ := mapValues_spec (fun a => (1 : α) / a) x hx
  obtain ⟨r, h1, h2, h3, h4⟩ := mul_num_spec ix hi3 c
  refine ⟨r, ?_, by rw [h2, hi2], h3, fun e _ => ?_⟩
  · unfold FArr.rdiv?
    unfold FArr.mapValues? at hi1
    rw [hi1]; exact h1
  · rw [h4 e, hi4 e, mul_one, one_div, div_eq_mul_inv, mul_comm]

/-- unary minus, abs and sign act entry by entry -/
theorem neg_entrywise [Ring α] (x : FArr α) (hx : WF x) :
    ∃ r, FArr.neg? x = some r ∧ r.dims = x.dims ∧ WF r ∧ ∀ e, r.at e = -(x.at e) :=
  neg_spec x hx

theorem elementwise_spec (f : α → α) (x : FArr α) (hx : WF x) :
    ∃ r, FArr.mapValues? f x = some r ∧ r.dims = x.dims ∧ WF r ∧ ∀ e, r.at e = f (x.at e) :=
  mapValues_spec f x hx

/-! ### the hypotheses are satisfiable by non-trivial states (incl. 0-d and single-item dims) -/

def dA : Dim := { letter := 'a', name := "aa", items := [.int 1, .int 2] }
def dB : Dim := { letter := 'b', name := "bb", items := [.str "x", .str "y"] }
def dC : Dim := { letter := 'c', name := "cc", items := [.str "p"] }
def exX : FArr Int := ⟨[dB, dA], ND.ofFlat [2, 2] #[1, 2, 3, 4] 0⟩
def exY : FArr Int := ⟨[dA, dC, dB], ND.ofFlat [2, 1, 2] #[5, 6, 7, 8] 0⟩
def exS : FArr Int := ⟨[], ND.ofFlat [] #[9] 0⟩

example : WF exX ∧ WF exY ∧ WF exS ∧ Compatible exX.dims exY.dims ∧ Compatible exS.dims exY.dims := by
  decide

end Flodym.C01
