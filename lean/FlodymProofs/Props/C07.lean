import FlodymProofs.Lemmas.Shares
/-!
# C07 — summing, casting and shares conserve totals and act by label

Arbitrary dimension lists / storage orders / lengths; values in a commutative monoid, semiring or
field as stated. `margin x L e` = x summed over its dimensions not in `L`; `total x e` = sum of
all entries.
-/
namespace Flodym.C07
open Flodym DimSet

variable {α : Type}

/-- `sum_to(requested)` returns exactly the marginal sums by label, over the requested dimensions
in the requested order. `ks` may name each dimension by letter, name or `Dimension` object. -/
theorem sumTo_marginals [AddCommMonoid α] (x : FArr α) (hx : WF x) (hn : NamesOk x.dims)
    (hnames : (names x.dims).Nodup) (ds : List Dim) (hds : ∀ d ∈ ds, d ∈ x.dims)
    (hnd : (letters ds).Nodup) (ks : List FArr.DimKey) (hks : KeysFor ds ks) :
    ∃ r, x.sumTo? ks = some r ∧ r.dims = ds ∧ WF r ∧ ∀ e, r.at e = margin x (letters ds) e :=
  sumTo_spec x hx hn ds hds hnd ks (tupleToLetters?_forms x hx.1 hnames hn ds hds ks hks)

/-- `sum_over(summed)`: the remaining dimensions in x's order, marginal sums by label -/
theorem sumOver_marginals [AddCommMonoid α] (x : FArr α) (hx : WF x) (hn : NamesOk x.dims)
    (hnames : (names x.dims).Nodup) (so : List Dim) (hso : ∀ d ∈ so, d ∈ x.dims)
    (ks : List FArr.DimKey) (hks : KeysFor so ks) :
    ∃ r, x.sumOver? ks = some r ∧
      r.dims = x.dims.filter (fun d => !((letters so).contains d.letter)) ∧ WF r ∧
      ∀ e, r.at e = margin x r.letters e :=
  sumOver_spec x hx hn so hso ks (tupleToLetters?_forms x hx.1 hnames hn so hso ks hks)

/-- the grand total is preserved by `sum_to` -/
theorem grand_total_preserved [AddCommMonoid α] (x : FArr α) (hx : WF x) (hn : NamesOk x.dims)
    (hnames : (names x.dims).Nodup) (ds : List Dim) (hds : ∀ d ∈ ds, d ∈ x.dims)
    (hnd : (letters ds).Nodup) (ks : List FArr.DimKey) (hks : KeysFor ds ks) :
    ∃ r, x.sumTo? ks = some r ∧ ∀ e, total r e = total x e := by
  obtain ⟨r, h1, h2, _, h4⟩ := sumTo_marginals x hx hn hnames ds hds hnd ks hks
  exact ⟨r, h1, fun e => total_sumTo x r hx ds hds hnd h2 h4 e⟩

/-- unknown dimensions are rejected (by `sum_to` and by `sum_over`) -/
theorem sumTo_unknown_rejected [AddCommMonoid α] (x : FArr α) (ks : List FArr.DimKey) (key : String)
    (hk : .str key ∈ ks) (h : ∀ d ∈ x.dims, d.name ≠ key ∧ d.letter.toString ≠ key) :
    x.sumTo? ks = none := by
  unfold FArr.sumTo?
  rw [tupleToLetters?_unknown x ks key hk h]; rfl

theorem sumOver_unknown_rejected [AddCommMonoid α] (x : FArr α) (ks : List FArr.DimKey) (key : String)
    (hk : .str key ∈ ks) (h : ∀ d ∈ x.dims, d.name ≠ key ∧ d.letter.toString ≠ key) :
    x.sumOver? ks = none := by
  unfold FArr.sumOver?
  rw [tupleToLetters?_unknown x ks key hk h]; rfl

/-- `cumsum(letter)` accumulates along that dimension, in item order -/
theorem cumsum_along_letter [AddCommMonoid α] (x : FArr α) (hx : WF x) (l : Char) (hl : l ∈ x.letters) :
    ∃ r, x.cumsum? l = some r ∧ r.dims = x.dims ∧ WF r ∧
      ∀ e, r.at e = ∑ i ∈ Finset.range (e l + 1), x.at (e.set l i) := by
  obtain ⟨r, h1, h2, h3, h4⟩ := cumsum_spec x hx l hl
  exact ⟨r, h1, h2, h3, fun e => by rw [h4 e, sumRange_eq]⟩

theorem cumsum_unknown_rejected [AddCommMonoid α] (x : FArr α) (l : Char) (hl : l ∉ x.letters) :
    x.cumsum? l = none :=
  cumsum_rejects x l hl

/-- `cast_to(target)` replicates every entry along the added dimensions, in the target's order -/
theorem castTo_replicates [AddCommMonoid α] (x : FArr α) (T : DimSet) (hx : WF x)
    (hT : (letters T).Nodup) (hc : Compatible x.dims T) (hsub : ∀ l ∈ x.letters, l ∈ letters T) :
    ∃ r, x.castTo? T = some r ∧ r.dims = T ∧ WF r ∧ ∀ e, Valid T e → r.at e = x.at e :=
  castTo_spec x T hx hT hc hsub

/-- … and refuses a target that lacks a source dimension -/
theorem castTo_refuses [AddCommMonoid α] (x : FArr α) (T : DimSet) (h : ∃ l ∈ x.letters, l ∉ letters T) :
    x.castTo? T = none :=
  castTo_rejects x T h

/-- summing a cast array back gives the original times the number of added label combinations -/
theorem sum_back [Semiring α] (x : FArr α) (T : DimSet) (hx : WF x) (hT : (letters T).Nodup)
    (hc : Compatible x.dims T) (hsub : ∀ l ∈ x.letters, l ∈ letters T) :
    ∃ r, x.castTo? T = some r ∧
      ∀ e, Valid T e → margin r x.letters e = (addedCount x T : α) * x.at e := by
  obtain ⟨r, h1, h2, _, h4⟩ := castTo_spec x T hx hT hc hsub
  exact ⟨r, h1, fun e hv => margin_castTo x r T h2 h4 e hv hT⟩

/-- `get_shares_over`: each entry divided by the total over the given dimensions; multiplying back
restores the array and the shares add up to one wherever that total is non-zero -/
theorem shares_partial [Field α] (x : FArr α) (hx : WF x) (hn : NamesOk x.dims) (so : DimSet)
    (hso : ∀ d ∈ so, d ∈ x.dims)
    (hnotall : x.letters.all (fun l => (letters so).contains l) = false) :
    ∃ r, x.getSharesOver? (letters so) = some r ∧ r.dims = x.dims ∧ WF r ∧
      ∀ e, let tot := margin x (x.letters.filter (fun l => !((letters so).contains l))) e
        tot ≠ 0 →
          r.at e = x.at e / tot ∧ r.at e * tot = x.at e ∧
          sumOver (summedOf x.dims (x.letters.filter (fun l => !((letters so).contains l)))) r.at e = 1 := by
  obtain ⟨r, h1, h2, h3, h4⟩ := shares_partial_spec x hx hn so hso hnotall
  refine ⟨r, h1, h2, h3, fun e => ?_⟩
  intro tot hne
  refine ⟨?_, ?_, ?_⟩
  · rw [h4 e, mul_one_div]
  · rw [h4 e, mul_one_div, div_mul_cancel₀ _ hne]
  · exact shares_sum_one x r _ h4 e hne

theorem shares_all [Field α] (x : FArr α) (hx : WF x) (ls : List Char)
    (hsub : ls.all (fun l => x.letters.contains l) = true)
    (hall : x.letters.all (fun l => ls.contains l) = true) :
    ∃ r, x.getSharesOver? ls = some r ∧ r.dims = x.dims ∧ WF r ∧
      ∀ e, total x e ≠ 0 →
        r.at e = x.at e / total x e ∧ r.at e * total x e = x.at e ∧ total r e = 1 := by
  obtain ⟨r, h1, h2, h3, h4⟩ := shares_all_spec x hx ls hsub hall
  refine ⟨r, h1, h2, h3, fun e hne => ⟨?_, ?_, ?_⟩⟩
  · rw [h4 e, mul_one_div]
  · rw [h4 e, mul_one_div, div_mul_cancel₀ _ hne]
  · unfold total
    rw [h2]
    have : (fun e' => r.at e') = fun e' => x.at e' * (1 / total x e) := by
      funext e'
      rw [h4 e', ← sumValues_eq_total x hx e', ← sumValues_eq_total x hx e]
    show sumOver (allPairs x.dims) (fun e' => r.at e') e = 1
    rw [this, sumOver_mul_right]
    show total x e * (1 / total x e) = 1
    rw [mul_one_div, div_self hne]

/-- `get_shares_over` needs the given dimensions to be dimensions of the array -/
theorem shares_foreign_rejected [Field α] (x : FArr α) (ls : List Char) (h : ∃ l ∈ ls, l ∉ x.letters) :
    x.getSharesOver? ls = none := by
  unfold FArr.getSharesOver?
  have : ls.all (fun l => x.letters.contains l) = false := by
    rw [List.all_eq_false]
    obtain ⟨l, hl, hn⟩ := h
    exact ⟨l, hl, by simpa using hn⟩
  rw [this]; rfl

/-! ### hypotheses are satisfiable -/
def dA : Dim := { letter := 'a', name := "aa", items := [.int 1, .int 2] }
def dB : Dim := { letter := 'b', name := "bb", items := [.str "x", .str "y", .str "z"] }
def exX : FArr Int := ⟨[dB, dA], ND.ofFlat [3, 2] #[1, 2, 3, 4, 5, 6] 0⟩

example : WF exX ∧ NamesOk exX.dims ∧ (names exX.dims).Nodup ∧ (∀ d ∈ [dA], d ∈ exX.dims)
    ∧ Compatible exX.dims [dA, dB] := by decide
example : KeysFor [dA, dB] [.str "a", .str "bb"] :=
  .cons .letter (.cons .name .nil)

end Flodym.C07
