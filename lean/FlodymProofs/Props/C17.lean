import Flodym.History
/-!
# C17 — recomputing a stock reflects its current inputs only

For every sequence of {set_prms, set driver, read sf, read pdf, compute}: after a `compute` the
results equal those of a freshly built stock with the same parameters and driver. The invariant:
a cached table is either absent or the table of the *current* parameters — which holds because
`set_prms` discards both caches (`Gen.setPrmsResetsSf`, `Gen.setPrmsResetsPdf`, regenerated from the
source on every run; the counterexample theorem shows what happens otherwise, defect D4).
Core Lean only.
-/
namespace Flodym.C17
open Flodym.Hist

variable {P T D R : Type}

/-- cached tables, when present, belong to the current parameters -/
def Inv (tbl : P → T) (pdfOf : T → T) (s : HState P T D R) : Prop :=
  (s.sf = none ∨ s.sf = some (tbl s.prm)) ∧ (s.pdf = none ∨ s.pdf = some (pdfOf (tbl s.prm)))

theorem ensureSf_spec (tbl : P → T) (pdfOf : T → T) (s : HState P T D R) (h : Inv tbl pdfOf s) :
    (ensureSf tbl s).2 = tbl s.prm ∧ Inv tbl pdfOf (ensureSf tbl s).1 ∧
    (ensureSf tbl s).1.prm = s.prm ∧ (ensureSf tbl s).1.driver = s.driver := by
  unfold ensureSf
  rcases h.1 with h1 | h1
  · rw [h1]; exact ⟨rfl, ⟨Or.inr rfl, h.2⟩, rfl, rfl⟩
  · rw [h1]; exact ⟨rfl, h, rfl, rfl⟩

theorem ensurePdf_spec (tbl : P → T) (pdfOf : T → T) (s : HState P T D R) (h : Inv tbl pdfOf s) :
    (ensurePdf tbl pdfOf s).2 = pdfOf (tbl s.prm) ∧ Inv tbl pdfOf (ensurePdf tbl pdfOf s).1 ∧
    (ensurePdf tbl pdfOf s).1.prm = s.prm ∧ (ensurePdf tbl pdfOf s).1.driver = s.driver := by
  unfold ensurePdf
  rcases h.2 with h2 | h2
  · rw [h2]
    obtain ⟨e1, e2, e3, e4⟩ := ensureSf_spec tbl pdfOf s h
    simp only
    refine ⟨by rw [e1], ⟨?_, ?_⟩, e3, e4⟩
    · exact e2.1
    · right; show some (pdfOf (ensureSf tbl s).2) = some (pdfOf (tbl (ensureSf tbl s).1.prm)); rw [e1, e3]
  · rw [h2]; exact ⟨rfl, h, rfl, rfl⟩

/-- every operation keeps the invariant, provided `set_prms` discards both caches -/
theorem step_inv (tbl : P → T) (pdfOf : T → T) (F : D → T → T → R) (s : HState P T D R)
    (op : HOp P D) (h : Inv tbl pdfOf s) : Inv tbl pdfOf (step tbl pdfOf F true true s op) := by
  cases op with
  | setPrms p => exact ⟨Or.inl rfl, Or.inl rfl⟩
  | setDriver d => exact h
  | readSf => exact (ensureSf_spec tbl pdfOf s h).2.1
  | readPdf => exact (ensurePdf_spec tbl pdfOf s h).2.1
  | compute =>
    obtain ⟨_, i1, _, _⟩ := ensureSf_spec tbl pdfOf s h
    obtain ⟨_, i2, _, _⟩ := ensurePdf_spec tbl pdfOf (ensureSf tbl s).1 i1
    exact i2
  | setPrmsFailed p' => exact h

theorem run_inv (tbl : P → T) (pdfOf : T → T) (F : D → T → T → R) (ops : List (HOp P D))
    (s : HState P T D R) (h : Inv tbl pdfOf s) :
    Inv tbl pdfOf (ops.foldl (step tbl pdfOf F true true) s) := by
  induction ops generalizing s with
  | nil => exact h
  | cons op ops ih => exact ih _ (step_inv tbl pdfOf F s op h)

/-- `compute` on a state satisfying the invariant yields the results of a fresh object -/
theorem compute_fresh_of_inv (tbl : P → T) (pdfOf : T → T) (F : D → T → T → R) (s : HState P T D R)
    (h : Inv tbl pdfOf s) :
    (step tbl pdfOf F true true s .compute).res = some (fresh tbl pdfOf F s.prm s.driver) ∧
    (step tbl pdfOf F true true s .compute).prm = s.prm ∧
    (step tbl pdfOf F true true s .compute).driver = s.driver := by
  obtain ⟨e1, i1, p1, d1⟩ := ensureSf_spec tbl pdfOf s h
  obtain ⟨e2, _, p2, d2⟩ := ensurePdf_spec tbl pdfOf (ensureSf tbl s).1 i1
  refine ⟨?_, ?_, ?_⟩
  · show some (F (ensurePdf tbl pdfOf (ensureSf tbl s).1).1.driver (ensureSf tbl s).2
        (ensurePdf tbl pdfOf (ensureSf tbl s).1).2) = _
    rw [e1, e2, d2, d1, p1]; rfl
  · show (ensurePdf tbl pdfOf (ensureSf tbl s).1).1.prm = s.prm
    rw [p2, p1]
  · show (ensurePdf tbl pdfOf (ensureSf tbl s).1).1.driver = s.driver
    rw [d2, d1]

/-- **after any sequence of operations, `compute` gives what a freshly built stock with the
current parameters and driver gives** -/
theorem compute_eq_fresh (tbl : P → T) (pdfOf : T → T) (F : D → T → T → R) (p0 : P) (d0 : D)
    (ops : List (HOp P D)) :
    let s := ops.foldl (step tbl pdfOf F true true) { prm := p0, driver := d0 }
    (step tbl pdfOf F true true s .compute).res = some (fresh tbl pdfOf F s.prm s.driver) := by
  intro s
  have hinit : Inv tbl pdfOf ({ prm := p0, driver := d0 } : HState P T D R) := ⟨Or.inl rfl, Or.inl rfl⟩
  exact (compute_fresh_of_inv tbl pdfOf F s (run_inv tbl pdfOf F ops _ hinit)).1

/-- calling `compute` twice in a row changes nothing -/
theorem compute_idempotent (tbl : P → T) (pdfOf : T → T) (F : D → T → T → R) (s : HState P T D R)
    (h : Inv tbl pdfOf s) :
    (step tbl pdfOf F true true (step tbl pdfOf F true true s .compute) .compute).res
      = (step tbl pdfOf F true true s .compute).res := by
  obtain ⟨r1, p1, d1⟩ := compute_fresh_of_inv tbl pdfOf F s h
  have h' := step_inv tbl pdfOf F s .compute h
  obtain ⟨r2, _, _⟩ := compute_fresh_of_inv tbl pdfOf F _ h'
  rw [r2, r1, p1, d1]

/-- the code as it stands discards both caches in every `set_prms` (regenerated from the source) -/
theorem source_resets_caches : Gen.setPrmsResetsSf = true ∧ Gen.setPrmsResetsPdf = true := by decide

/-- D4 (fixed): if `set_prms` kept the caches, a recompute after changing the parameters would reuse
the stale table — a concrete counterexample with tables = parameters, results = table -/
theorem stale_cache_counterexample :
    let tbl : Nat → Nat := id
    let s := [HOp.compute, HOp.setPrms 7, HOp.compute].foldl
      (step (D := Unit) tbl id (fun _ sf _ => sf) false false) { prm := 3, driver := () }
    s.res = some 3 ∧ fresh tbl id (fun (_ : Unit) sf _ => sf) s.prm s.driver = 7 := by decide

end Flodym.C17
