import FlodymProofs.Lemmas.Balance
/-!
# C02 — mass-balance and flow checks report exactly the violations

`FV` = a rational or NaN (NaN absorbs in arithmetic, every comparison with NaN is false).
`massBalance` transcribes `_get_mass_balance` (contribution lists in dict order, Python's `sum`),
`checkMassBalance` / `checkFlows` the two checks; the factor 100, the failure test
`not e <= tolerance`, the `default=0.0` of the tolerance and the `sysenv` name are regenerated
from the source on every run.
-/
namespace Flodym.C02
open Flodym DimSet

/-! ## the balance of a process, by label -/

/-- the balance of a process with at least one contribution: it lives on the dimensions common to
all its contributions (first contribution's order), and its entry under labels `e` is the sum of
all contributions — inflows (+), outflows (−), stock net additions (− at the process, + mirrored on
the environment) — each summed over its other dimensions and matched by label -/
theorem process_balance_by_label (p : FArr FV) (ps : List (FArr FV)) (hp : WF p) (hps : ∀ q ∈ ps, WF q)
    (hc : ∀ q ∈ ps, Compatible p.dims q.dims) :
    ∃ r, pySum (p :: ps) = some r ∧
      r.dims = ps.foldl (fun D q => intersectWith D q.dims) p.dims ∧ WF r ∧
      ∀ e, r.at e = ((p :: ps).map fun c => margin c r.letters e).sum :=
  pySum_spec p ps hp hps hc

/-- a process without any flow or stock has a zero balance -/
theorem idle_process_balance : (pySum ([] : List (FArr FV))).map (fun r => (r.dims, r.values.toList))
    = some ([], [0]) := by decide

/-- a flow whose source or target is not a process of the system makes the balance undefined
(`KeyError`), it is never silently dropped -/
theorem unknown_process_refused (cs : List (String × List (FArr FV))) (p : String) (x : FArr FV)
    (h : ∀ c ∈ cs, c.1 ≠ p) : addContribution cs p x = none := by
  unfold addContribution
  have : cs.any (fun c => c.1 == p) = false := by
    rw [List.any_eq_false]; intro c hc; simpa using h c hc
  rw [this]; rfl

/-! ## `np.max(np.abs(·))` and NaN -/

theorem npMaxStep_nan (y : FV) : npMaxStep FV.nan y = FV.nan := rfl

theorem foldl_nan (xs : List FV) : xs.foldl npMaxStep FV.nan = FV.nan := by
  induction xs with
  | nil => rfl
  | cons y ys ih => simp only [List.foldl_cons, npMaxStep_nan]; exact ih

theorem foldl_contains_nan (xs : List FV) (x : FV) (h : FV.nan ∈ x :: xs) : xs.foldl npMaxStep x = FV.nan := by
  induction xs generalizing x with
  | nil =>
    simp only [List.mem_singleton] at h
    rw [← h]; rfl
  | cons y ys ih =>
    simp only [List.foldl_cons]
    cases x with
    | nan => rw [npMaxStep_nan]; exact foldl_nan ys
    | num a =>
      cases y with
      | nan =>
        have : npMaxStep (FV.num a) FV.nan = FV.nan := rfl
        rw [this]; exact foldl_nan ys
      | num b =>
        have h' : FV.nan ∈ ys := by
          rcases List.mem_cons.mp h with h1 | h1
          · cases h1
          · rcases List.mem_cons.mp h1 with h2 | h2
            · cases h2
            · exact h2
        have hstep : npMaxStep (FV.num a) (FV.num b) = FV.num a ∨ npMaxStep (FV.num a) (FV.num b) = FV.num b := by
          unfold npMaxStep
          simp only [FV.isNan, Bool.false_eq_true, if_false]
          split
          · exact Or.inr rfl
          · exact Or.inl rfl
        rcases hstep with e | e <;> rw [e] <;> exact ih _ (by simp [h'])

/-- a NaN anywhere makes `np.max` NaN -/
theorem npMax_nan (l : List FV) (h : FV.nan ∈ l) : npMax l = some FV.nan := by
  match l, h with
  | x :: xs, h =>
    show some (xs.foldl npMaxStep x) = some FV.nan
    rw [foldl_contains_nan xs x h]

theorem abs_nan_mem (l : List FV) (h : FV.nan ∈ l) : FV.nan ∈ l.map FV.abs :=
  List.mem_map.mpr ⟨FV.nan, h, rfl⟩

theorem le_nan_false (t : FV) : FV.le FV.nan t = false := rfl
theorem gt_nan_false (t : FV) : FV.gt FV.nan t = false := rfl

/-! ## decision logic of `check_mass_balance` -/

/-- the source's failure test lets a NaN balance fail, and the default tolerance tolerates systems
without flows or stocks (regenerated constants) -/
theorem source_constants :
    Gen.massBalanceNanFails = true ∧ Gen.toleranceDefaultsZero = true ∧
    Gen.massBalanceFactor = 100 ∧ Gen.checkFlowsFactor = 100 ∧ Gen.sysenvName = "sysenv" := by decide

/-- with the balances and the tolerance in hand: success exactly when every process's largest
absolute balance entry is within the tolerance; otherwise an error, or a warning naming exactly the
failing processes -/
theorem check_decision (factor eps : FV) (sys : SysM) (tol : FV) (raiseError : Bool)
    (balances : List (String × FArr FV)) (errs : List (String × FV))
    (hb : massBalance sys = some balances)
    (he : balances.mapM (fun b => (maxAbs b.2).map fun e => (b.1, e)) = some errs) :
    checkMassBalance factor eps sys (some tol) raiseError =
      (if (errs.filter (fun e => !(e.2.le tol))).isEmpty then CheckOutcome.ok
       else if raiseError then CheckOutcome.raised
       else CheckOutcome.warned ((errs.filter (fun e => !(e.2.le tol))).map (·.1))) := by
  unfold checkMassBalance
  have hn : Gen.massBalanceNanFails = true := by decide
  simp only [hb, he, hn, if_true]

theorem check_ok_iff (factor eps : FV) (sys : SysM) (tol : FV) (raiseError : Bool)
    (balances : List (String × FArr FV)) (errs : List (String × FV))
    (hb : massBalance sys = some balances)
    (he : balances.mapM (fun b => (maxAbs b.2).map fun e => (b.1, e)) = some errs) :
    checkMassBalance factor eps sys (some tol) raiseError = .ok ↔ ∀ e ∈ errs, e.2.le tol = true := by
  rw [check_decision factor eps sys tol raiseError balances errs hb he]
  constructor
  · intro h e hm
    by_cases hle : e.2.le tol = true
    · exact hle
    · exfalso
      have hne : (errs.filter (fun e => !(e.2.le tol))) ≠ [] :=
        List.ne_nil_of_mem (List.mem_filter.mpr ⟨hm, by simpa using hle⟩)
      have hemp : (errs.filter (fun e => !(e.2.le tol))).isEmpty = false := by
        simpa [List.isEmpty_iff] using hne
      rw [hemp] at h
      cases raiseError <;> simp at h
  · intro h
    have : errs.filter (fun e => !(e.2.le tol)) = [] := by
      rw [List.filter_eq_nil_iff]; intro e hm; simp [h e hm]
    simp [this]

/-- a NaN balance is never reported as success -/
theorem nan_balance_never_success (factor eps : FV) (sys : SysM) (tol : FV) (raiseError : Bool)
    (balances : List (String × FArr FV)) (errs : List (String × FV))
    (hb : massBalance sys = some balances)
    (he : balances.mapM (fun b => (maxAbs b.2).map fun e => (b.1, e)) = some errs)
    (p : String) (hnan : (p, FV.nan) ∈ errs) :
    checkMassBalance factor eps sys (some tol) raiseError ≠ .ok := by
  intro h
  have := (check_ok_iff factor eps sys tol raiseError balances errs hb he).mp h (p, FV.nan) hnan
  simp [FV.le] at this

/-- … and a process whose balance array contains a NaN entry has a NaN maximum -/
theorem maxAbs_nan (b : FArr FV) (h : FV.nan ∈ b.values.toList) : maxAbs b = some FV.nan := by
  unfold maxAbs
  exact npMax_nan _ (abs_nan_mem _ h)

/-- the default tolerance: 100 × eps × the largest flow or stock magnitude (0 for none) -/
theorem default_tolerance (factor eps : FV) (sys : SysM) (raiseError : Bool) (p : FV)
    (hp : absoluteFloatPrecision eps sys = some p) :
    checkMassBalance factor eps sys none raiseError = checkMassBalance factor eps sys (some (factor * p)) raiseError := by
  unfold checkMassBalance
  simp only [hp, Option.map_some]

theorem default_tolerance_formula (eps : FV) (sys : SysM) (fl st : List FV)
    (hf : sys.flows.mapM (fun f => magnitude f.arr) = some fl)
    (hs : sys.stocks.mapM (fun s => magnitude s.stock) = some st) :
    absoluteFloatPrecision eps sys
      = some (eps * (if (pyMax st 0).gt (pyMax fl 0) then pyMax st 0 else pyMax fl 0)) := by
  unfold absoluteFloatPrecision
  have hz : Gen.toleranceDefaultsZero = true := by decide
  simp only [hf, hs, hz, Option.bind_eq_bind, Option.bind_some, Bool.not_true, Bool.false_and, Bool.false_eq_true,
    if_false]

/-- the code as it stands leaves NaN entries aside when it scales the tolerance (regenerated) -/
theorem source_tolerance_ignores_nan : Gen.toleranceIgnoresNan = true := by decide

theorem pyMax_num : ∀ (l : List FV) (d : Rat), (∀ v ∈ l, ∃ q, v = .num q) → ∃ q, pyMax l (.num d) = .num q := by
  intro l d h
  cases l with
  | nil => exact ⟨d, rfl⟩
  | cons x xs =>
    obtain ⟨q0, rfl⟩ := h x (by simp)
    have hxs : ∀ v ∈ xs, ∃ q, v = FV.num q := fun v hv => h v (by simp [hv])
    unfold pyMax
    clear h
    induction xs generalizing q0 with
    | nil => exact ⟨q0, rfl⟩
    | cons y ys ih =>
      obtain ⟨qy, rfl⟩ := hxs y (by simp)
      simp only [List.foldl_cons]
      by_cases hg : (FV.num qy).gt (FV.num q0) = true
      · rw [if_pos hg]; exact ih qy (fun v hv => hxs v (by simp [hv]))
      · rw [if_neg hg]; exact ih q0 (fun v hv => hxs v (by simp [hv]))

/-- the magnitude of an array is a number whatever the array holds -/
theorem magnitude_num (a : FArr FV) : ∃ q, magnitude a = some (.num q) := by
  unfold magnitude
  rw [source_tolerance_ignores_nan, if_pos rfl]
  unfold maxAbsNoNan
  obtain ⟨q, hq⟩ := pyMax_num ((a.values.toList.filter (fun v => !v.isNan)).map FV.abs) 0 (by
    intro v hv
    obtain ⟨w, hw, rfl⟩ := List.mem_map.mp hv
    have := (List.mem_filter.mp hw).2
    cases w with
    | num x => exact ⟨_, rfl⟩
    | nan => simp [FV.isNan] at this)
  exact ⟨q, by rw [show (0 : FV) = FV.num 0 from rfl, hq]⟩

theorem mapM_magnitude {α : Type} (l : List α) (g : α → FArr FV) :
    ∃ r, l.mapM (fun x => magnitude (g x)) = some r ∧ ∀ v ∈ r, ∃ q, v = FV.num q := by
  induction l with
  | nil => exact ⟨[], rfl, by simp⟩
  | cons x xs ih =>
    obtain ⟨r, hr, hall⟩ := ih
    obtain ⟨q, hq⟩ := magnitude_num (g x)
    refine ⟨.num q :: r, ?_, ?_⟩
    · simp only [List.mapM_cons, hq, hr, Option.bind_eq_bind, Option.bind_some]; rfl
    · intro v hv
      rcases List.mem_cons.mp hv with rfl | h
      · exact ⟨q, rfl⟩
      · exact hall v h

/-- **the default tolerance is a number, never NaN** — whatever NaN entries the flows and stocks hold
(D33 before the repair: a NaN in the first flow made it NaN, every comparison with it came out False
and negative entries of the other flows went unreported) -/
theorem default_tolerance_is_a_number (e : Rat) (sys : SysM) :
    ∃ q, absoluteFloatPrecision (.num e) sys = some (.num q) := by
  obtain ⟨fl, hf, hfl⟩ := mapM_magnitude sys.flows (fun f => f.arr)
  obtain ⟨st, hs, hst⟩ := mapM_magnitude sys.stocks (fun s => s.stock)
  rw [default_tolerance_formula (.num e) sys fl st hf hs]
  obtain ⟨a, ha⟩ := pyMax_num fl 0 hfl
  obtain ⟨b, hb⟩ := pyMax_num st 0 hst
  rw [show (0 : FV) = FV.num 0 from rfl, ha, hb]
  by_cases hg : (FV.num b).gt (FV.num a) = true
  · rw [if_pos hg]; exact ⟨e * b, rfl⟩
  · rw [if_neg hg]; exact ⟨e * a, rfl⟩

/-! ## decision logic of `check_flows` -/

/-- without `raise_error`: the flows flagged are exactly the non-excepted flows that contain NaN
(first) or an entry below minus the tolerance, and nothing else -/
theorem checkFlows_flags (factor eps : FV) (sys : SysM) (exceptions : List String) (p : FV)
    (hp : absoluteFloatPrecision eps sys = some p) :
    checkFlows factor eps sys exceptions false =
      (if ((nanFlows (shownFlows sys exceptions)).map (·.name)
            ++ (negFlows (factor * p) (shownFlows sys exceptions)).map (·.name)).isEmpty then .ok
       else .warned ((nanFlows (shownFlows sys exceptions)).map (·.name)
            ++ (negFlows (factor * p) (shownFlows sys exceptions)).map (·.name))) := by
  unfold checkFlows
  simp only [Bool.false_and, Bool.false_eq_true, if_false, hp]

/-- with `raise_error`: raises exactly when something would be flagged -/
theorem checkFlows_raises (factor eps : FV) (sys : SysM) (exceptions : List String) (p : FV)
    (hp : absoluteFloatPrecision eps sys = some p) :
    checkFlows factor eps sys exceptions true =
      (if (nanFlows (shownFlows sys exceptions)).isEmpty
          && (negFlows (factor * p) (shownFlows sys exceptions)).isEmpty then .ok else .raised) := by
  unfold checkFlows
  simp only [Bool.true_and, hp]
  cases h1 : (nanFlows (shownFlows sys exceptions)).isEmpty <;>
    cases h2 : (negFlows (factor * p) (shownFlows sys exceptions)).isEmpty <;>
    simp_all [List.isEmpty_iff]

/-- what is looked at: a flow is shown iff neither its name nor one of its processes is excepted -/
theorem shown_iff (sys : SysM) (exceptions : List String) (f : FlowM) :
    f ∈ shownFlows sys exceptions ↔
      f ∈ sys.flows ∧ f.name ∉ exceptions ∧ f.fromP ∉ exceptions ∧ f.toP ∉ exceptions := by
  unfold shownFlows
  simp only [List.mem_filter, Bool.not_eq_true', List.contains_eq_mem, decide_eq_false_iff_not,
    Bool.and_eq_true]
  tauto

/-- a shown flow is flagged for NaN iff one of its entries is NaN, for negativity iff one of its
entries is below minus the tolerance (NaN entries are not "below") -/
theorem flagged_iff (tol : FV) (fl : List FlowM) (f : FlowM) :
    (f ∈ nanFlows fl ↔ f ∈ fl ∧ ∃ v ∈ f.arr.values.toList, v = FV.nan) ∧
    (f ∈ negFlows tol fl ↔ f ∈ fl ∧ ∃ v ∈ f.arr.values.toList, v.lt (-tol) = true) := by
  unfold nanFlows negFlows
  simp only [List.mem_filter, List.any_eq_true]
  constructor
  · constructor
    · rintro ⟨h1, v, hv, hn⟩
      refine ⟨h1, v, hv, ?_⟩
      cases v with
      | nan => rfl
      | num q => simp [FV.isNan] at hn
    · rintro ⟨h1, v, hv, hn⟩
      exact ⟨h1, v, hv, by rw [hn]; rfl⟩
  · trivial

end Flodym.C02
