import FlodymProofs.Props.C11Pipeline
/-!
# C11 — the sparse export read back

`to_df(sparse=True)` lists exactly the non-zero entries (`toDf_rows_sparse`); importing that frame
with `allow_missing_values=True` returns the array itself: every listed entry under its labels, zero
everywhere else. The same two steps as for the dense frame: the rows (`roundtrip_rows_sparse`) and
the converter pipeline in front of them (`roundtrip_named_long_sparse`).
-/
namespace Flodym.C11
open Flodym Flodym.Table DimSet

/-- the rows of the sparse frame, read back column by column -/
def exportedSparse (x : FArr Rat) : LongTable :=
  { rows := ((allIdx (shape x.dims)).filter fun idx => !(x.values.get idx == 0)).map
      fun idx => (labelsOf x.dims idx, some (x.values.get idx)) }

/-- **importing the non-zero rows with `allow_missing_values` returns the array**: same shape, the
same value at every entry (the listed ones from their rows, the others zero as in the array) -/
theorem roundtrip_rows_sparse (x : FArr Rat) (hit : ∀ d ∈ x.dims, d.items.Nodup) :
    ∃ v, complete? x.dims (exportedSparse x) true false = some v ∧ v.shape = shape x.dims ∧
      ∀ idx ∈ allIdx (shape x.dims), v.get idx = x.values.get idx := by
  let L := (allIdx (shape x.dims)).filter fun idx => !(x.values.get idx == 0)
  have hLmem : ∀ idx ∈ L, idx ∈ allIdx (shape x.dims) := fun idx h => (List.mem_filter.mp h).1
  have hLnd : L.Nodup := (allIdx_nodup _).filter _
  have hwf : RowsWF x.dims (exportedSparse x).rows := by
    intro r hr
    obtain ⟨idx, hidx, rfl⟩ := List.mem_map.mp hr
    exact labelsOf_length x.dims idx (hLmem idx hidx)
  have hpos : ∀ idx ∈ allIdx (shape x.dims), positions? x.dims (labelsOf x.dims idx) = some idx :=
    positions_labelsOf x.dims hit
  have hnd : hasDuplicates ((exportedSparse x).rows.map (·.1)) = false := by
    rw [hasDuplicates_false_iff]
    unfold exportedSparse
    simp only [List.map_map, Function.comp_def]
    have key : ∀ M : List (List Nat), M.Nodup → (∀ i ∈ M, i ∈ allIdx (shape x.dims)) →
        (M.map fun idx => labelsOf x.dims idx).Pairwise (fun a b => labelsEq a b = false) := by
      intro M
      induction M with
      | nil => intro _ _; simp
      | cons a as ih =>
        intro hn hmem
        simp only [List.map_cons, List.pairwise_cons, List.nodup_cons] at hn ⊢
        refine ⟨?_, ih hn.2 (fun i hi => hmem i (by simp [hi]))⟩
        intro b hb
        obtain ⟨j, hj, rfl⟩ := List.mem_map.mp hb
        cases hle : labelsEq (labelsOf x.dims a) (labelsOf x.dims j) with
        | false => rfl
        | true =>
          have := positions_congr x.dims _ _ hle
          rw [hpos a (hmem a (by simp)), hpos j (hmem j (by simp [hj]))] at this
          cases this
          exact absurd hj hn.1
    exact key L hLnd hLmem
  have hknown : ∀ r ∈ (exportedSparse x).rows, rowKnown x.dims r.1 = true := by
    intro r hr
    obtain ⟨idx, hidx, rfl⟩ := List.mem_map.mp hr
    exact known_of_positions x.dims _ idx (hpos idx (hLmem idx hidx))
  have hsome : (complete? x.dims (exportedSparse x) true false).isSome = true := by
    rw [C12.success_iff]
    exact ⟨hnd, (exportedSparse x).rows, (C12.keepRows_default _ _ _).mpr ⟨hknown, rfl⟩, Or.inl rfl⟩
  obtain ⟨v, hv⟩ := Option.isSome_iff_exists.mp hsome
  refine ⟨v, hv, ?_⟩
  obtain ⟨hs, hg⟩ := entry_from_unique_row x.dims (exportedSparse x) true false v hwf hv
  refine ⟨hs, ?_⟩
  intro idx hidx
  rcases hg idx with ⟨r, hr, hp, hval, _⟩ | ⟨hno, hz⟩
  · obtain ⟨j, hj, rfl⟩ := List.mem_map.mp hr
    rw [hpos j (hLmem j hj)] at hp
    cases hp
    simpa using hval
  · -- no row carries these labels: the entry was left out, so it is zero in the array as well
    rw [hz]
    by_cases h0 : x.values.get idx = 0
    · exact h0.symm
    · exfalso
      have hin : idx ∈ L := List.mem_filter.mpr ⟨hidx, by simpa using h0⟩
      exact hno _ (List.mem_map_of_mem (f := fun idx => (labelsOf x.dims idx, some (x.values.get idx))) hin) (hpos idx hidx)

/-- the sparse frame, read column by column, is the table of the non-zero rows -/
theorem toLong_exported_sparse (x : FArr Rat) (h : NamedLong x.dims (toDfLong x true) "value")
    (hnd : (names x.dims).Nodup) (hval : ∀ d ∈ x.dims, d.valid = true) :
    toLong? x.dims { df := toDfLong x true, dimCols := names x.dims } (.str "value") = some (exportedSparse x) := by
  unfold toLong?
  have hjs : x.dims.mapM (fun d => (toDfLong x true).colIdx? (.str d.name)) = some (List.range x.dims.length) := by
    apply mapM_getElem _ _ _ (by simp)
    intro j hj
    have hjn : j < (names x.dims).length := by simpa [names] using hj
    have := colIdx_name x.dims (toDfLong x true) "value" h hnd j hjn
    simpa [names] using this
  have hjv := colIdx_value x.dims (toDfLong x true) "value" h
  simp only [Option.bind_eq_bind, hjs, hjv, Option.bind_some]
  rw [toDf_rows_sparse]
  rw [mapM_map_some _ _ _ (fun idx => (labelsOf x.dims idx, some (x.values.get idx)))]
  · rfl
  · intro idx hidx'
    have hidx : idx ∈ allIdx (shape x.dims) := (List.mem_filter.mp hidx').1
    have hlab : (labelsOf x.dims idx).length = x.dims.length := labelsOf_length x.dims idx hidx
    rw [row_labels x.dims hval idx hidx]
    have hv : (labelsOf x.dims idx ++ [Cell.num (x.values.get idx) true]).getD (names x.dims).length .nan
        = Cell.num (x.values.get idx) true := by
      have : (names x.dims).length = (labelsOf x.dims idx).length := by simp [names, hlab]
      rw [this, List.getD_eq_getElem?_getD, List.getElem?_append_right (Nat.le_refl _)]
      simp
    simp only [Option.bind_some, hv, valueOfCell?]

/-- **`from_df(dims, x.to_df(sparse=True), allow_missing_values=True)` returns `x`** — under the
hypotheses of `roundtrip_named_long` (at least one dimension, distinct names none of which is "value",
valid typed items without repetition) -/
theorem roundtrip_named_long_sparse (x : FArr Rat) (hx : WF x) (hne : x.dims ≠ []) (hn : NamesOk x.dims)
    (hnd : (names x.dims).Nodup) (hval : ∀ d ∈ x.dims, d.valid = true) (hit : ∀ d ∈ x.dims, d.items.Nodup)
    (hvn : "value" ∉ names x.dims) (hvi : ∀ d ∈ x.dims, sameItems [.str "value"] d = false)
    (kind : IndexKind) (hk : kind = .range ∨ ∃ k, kind = .named k) :
    ∃ y, fromDf? x.dims kind (toDfLong x true) true false = some y ∧ y.dims = x.dims ∧
      y.values.shape = shape x.dims ∧ ∀ idx ∈ allIdx (shape x.dims), y.values.get idx = x.values.get idx := by
  have hnl : NamedLong x.dims (toDfLong x true) "value" :=
    { cols := rfl, nonempty := hne, namesOk := hn, vcol_not_name := hvn,
      vcol_not_letter := by
        intro d _ heq
        have := congrArg String.length heq
        simp at this
        exact absurd this (by decide),
      vcol_not_items := hvi }
  obtain ⟨v, hv, hshape, hget⟩ := roundtrip_rows_sparse x hit
  refine ⟨⟨x.dims, v⟩, ?_, rfl, hshape, hget⟩
  unfold fromDf?
  have hl : decide (letters x.dims).Nodup = true := by
    have := hx.1
    simpa [FArr.letters] using this
  simp only [hl, Bool.not_true, Bool.false_eq_true, if_false, Option.bind_eq_bind]
  rw [convert_named_long x.dims (toDfLong x true) "value" hnl kind hk, toLong_exported_sparse x hnl hnd hval]
  simp only [Option.bind_some, hv]
  unfold FArr.mk?
  have h1 : (letters x.dims).Nodup := by have := hx.1; simpa [FArr.letters] using this
  rw [if_pos ⟨h1, hshape⟩]

/-- non-vacuity: the example array has a zero entry, which the sparse frame leaves out and the import restores -/
example : (toDfLong exArr true).rows.length = 3 ∧
    ((fromDf? exArr.dims .range (toDfLong exArr true) true false).map
      fun a => (allIdx a.values.shape).map a.values.get) = some [1, 2, 0, 4] := by decide +kernel

end Flodym.C11
