import FlodymProofs.Lemmas.DSM
import Mathlib.Algebra.Order.Field.Basic
import Mathlib.Algebra.Order.BigOperators.Group.Finset
import Mathlib.Tactic.LinearCombination
import Mathlib.Tactic.NormNum
/-!
# C03 — computed stocks conserve mass: stock change = net inflow × interval length

`it k` = k-th time item, `n` items; `dt it n t` = the documented interval length; `j` indexes the
flattened non-time label combinations (every formula acts on each `j` separately — that is what the
ellipsis in the regenerated einsum subscripts means). `K` is any field (in particular ℝ); the
order-dependent statements take a linearly ordered field. `sf` is any lower-triangular survival
table (every lifetime model produces one: C08).
-/
open Finset BigOperators
namespace Flodym.C03
open Flodym Flodym.DSM

variable {K : Type}

/-! ## the time grid -/

/-- interval bounds sit at the midpoints between consecutive time items; the first and the last
interval mirror their neighbour -/
theorem bounds_spec [Field K] (it : Nat → K) (n : Nat) (hn : 3 ≤ n) :
    (∀ k, 0 < k → k < n → bounds it n k = (it (k - 1) + it k) / 2) ∧
    dt it n 0 = dt it n 1 ∧ dt it n (n - 1) = dt it n (n - 2) := by
  have h2 : (1 + 1 : K) = 2 := by norm_num
  refine ⟨?_, ?_, ?_⟩
  · intro k hk hkn
    unfold bounds mid
    have : k ≠ 0 := by omega
    simp only [this, if_false, hkn, if_true, h2]
    rw [Nat.sub_add_cancel hk]
  · unfold dt bounds
    have h1 : (1 : Nat) < n := by omega
    have h2' : (2 : Nat) < n := by omega
    simp [h1, h2']
  · unfold dt bounds
    have e1 : n - 1 + 1 = n := by omega
    have e2 : n - 2 + 1 = n - 1 := by omega
    have c1 : n - 1 ≠ 0 := by omega
    have c2 : n - 1 < n := by omega
    have c3 : n - 2 ≠ 0 := by omega
    have c4 : n - 2 < n := by omega
    have c5 : n ≠ 0 := by omega
    simp only [e1, e2, c1, c2, c3, c4, c5, if_false, if_true, lt_irrefl]
    have e3 : n - 1 - 1 = n - 2 := by omega
    have e4 : n - 2 - 1 = n - 3 := by omega
    rw [e3, e4]; ring

/-- every interval has positive length when the time items increase strictly -/
theorem dt_pos [Field K] [LinearOrder K] [IsStrictOrderedRing K] (it : Nat → K) (n : Nat) (hn : 3 ≤ n)
    (hinc : ∀ k, k + 1 < n → it k < it (k + 1)) (t : Nat) (ht : t < n) : 0 < dt it n t := by
  have h2 : (1 + 1 : K) = 2 := by norm_num
  have hmid : ∀ k, k + 2 < n → mid it k < mid it (k + 1) := by
    intro k hk
    unfold mid
    rw [h2]
    have a := hinc k (by omega)
    have b := hinc (k + 1) (by omega)
    have e : k + 1 + 1 = k + 2 := by omega
    rw [e] at b ⊢
    linarith
  unfold dt bounds
  by_cases h0 : t = 0
  · subst h0
    have h1 : (1 : Nat) < n := by omega
    simp only [if_true, Nat.zero_add, one_ne_zero, if_false, h1, Nat.sub_self]
    have := hmid 0 (by omega)
    simp only [Nat.zero_add] at this
    linarith
  · by_cases hl : t + 1 < n
    · have c1 : t + 1 ≠ 0 := by omega
      simp only [c1, if_false, hl, if_true, h0, ht, Nat.add_sub_cancel]
      have := hmid (t - 1) (by omega)
      rw [Nat.sub_add_cancel (by omega)] at this
      linarith
    · have e : t + 1 = n := by omega
      have c1 : t + 1 ≠ 0 := by omega
      have c5 : n ≠ 0 := by omega
      simp only [c1, if_false, e, lt_irrefl, h0, ht, if_true, c5]
      have e2 : t - 1 = n - 2 := by omega
      rw [e2]
      have := hmid (n - 3) (by omega)
      have e3 : n - 3 + 1 = n - 2 := by omega
      rw [e3] at this
      linarith

/-! ## inflow-driven model -/

/-- stock(t) − stock(t−1) = dt(t)·(inflow(t) − outflow(t)), with stock(−1) = 0 -/
theorem inflowDriven_balance [Field K] (it : Nat → K) (n : Nat) (inflow : Nat → Nat → K)
    (sf : Nat → Nat → Nat → K) (hlt : LowerTri sf) (hdt : ∀ t, t < n → dt it n t ≠ 0)
    (t j : Nat) (ht : t < n) :
    let r := inflowDriven it n inflow sf
    r.stock t j - (if t = 0 then 0 else r.stock (t - 1) j)
      = dt it n t * (r.inflow t j - r.outflow t j) := by
  intro r
  show (inflowDriven it n inflow sf).stock t j - (if t = 0 then 0 else (inflowDriven it n inflow sf).stock (t - 1) j)
    = dt it n t * ((inflowDriven it n inflow sf).inflow t j - (inflowDriven it n inflow sf).outflow t j)
  simp only [inflowDriven_stock, inflowDriven_outflow, inflowDriven_inflow]
  have h := stock_step n (fun c => inflow c j * dt it n c) (fun t c => sf t c j)
    (fun t c h => hlt t c j h) (fun t c => pdfTable sf t c j) (fun t c => rfl) t ht
  rw [h]
  have hne := hdt t ht
  rw [mul_sub]
  congr 1
  · ring
  · rw [Finset.mul_sum]
    apply sum_congr rfl
    intro c _
    field_simp

/-- hence the stock is cumulative inflow minus cumulative outflow (whole periods) -/
theorem inflowDriven_cumulative [Field K] (it : Nat → K) (n : Nat) (inflow : Nat → Nat → K)
    (sf : Nat → Nat → Nat → K) (hlt : LowerTri sf) (hdt : ∀ t, t < n → dt it n t ≠ 0)
    (j : Nat) (t : Nat) (ht : t < n) :
    let r := inflowDriven it n inflow sf
    r.stock t j = ∑ s ∈ range (t + 1), dt it n s * (r.inflow s j - r.outflow s j) := by
  intro r
  induction t with
  | zero =>
    have := inflowDriven_balance it n inflow sf hlt hdt 0 j ht
    simpa using this
  | succ t ih =>
    have hb := inflowDriven_balance it n inflow sf hlt hdt (t + 1) j ht
    simp only [Nat.add_one_ne_zero, if_false, Nat.add_sub_cancel] at hb
    rw [sum_range_succ, ← ih (by omega), ← hb]
    ring

/-! ## stock-driven model (manual solver; LAPACK is specified to return the same unique solution) -/

theorem stockDriven_inflow_wp [Field K] (it : Nat → K) (n : Nat) (stock : Nat → Nat → K)
    (sf : Nat → Nat → Nat → K) (hdt : ∀ t, t < n → dt it n t ≠ 0) (t j : Nat) (ht : t < n) :
    (stockDriven it n stock sf).inflow t j * dt it n t = sdInflowWP n stock sf t j := by
  unfold stockDriven stockDrivenFrom stockDrivenFromWith
  simp only [toAnnual_apply]
  field_simp [hdt t ht]

/-- the prescribed stock is the cohort sum of the inflow found: stock(t) = Σ_c inflow(c)·dt(c)·sf(t,c) -/
theorem stockDriven_reproduces_stock [Field K] (it : Nat → K) (n : Nat) (stock : Nat → Nat → K)
    (sf : Nat → Nat → Nat → K) (hlt : LowerTri sf) (hd : ∀ t j, t < n → sf t t j ≠ 0)
    (hdt : ∀ t, t < n → dt it n t ≠ 0) (t j : Nat) (ht : t < n) :
    ∑ c ∈ range n, (stockDriven it n stock sf).inflow c j * dt it n c * sf t c j = stock t j := by
  rw [← manual_solves n stock sf hd t j ht]
  have hsplit : range n = range (t + 1) ∪ (range n \ range (t + 1)) := by
    rw [Finset.union_sdiff_of_subset]
    intro x hx; exact mem_range.mpr (by have := mem_range.mp hx; omega)
  rw [hsplit, sum_union (Finset.disjoint_sdiff)]
  have hzero : ∑ c ∈ range n \ range (t + 1), (stockDriven it n stock sf).inflow c j * dt it n c * sf t c j = 0 := by
    apply sum_eq_zero
    intro c hc
    have : t < c := by
      have := (mem_sdiff.mp hc).2
      simp only [mem_range, not_lt] at this
      omega
    rw [hlt t c j this, mul_zero]
  rw [hzero, add_zero]
  apply sum_congr rfl
  intro c hc
  have hcn : c < n := by have := mem_range.mp hc; omega
  rw [stockDriven_inflow_wp it n stock sf hdt c j hcn]
  ring

theorem stockDriven_outflow [Field K] (it : Nat → K) (n : Nat) (stock : Nat → Nat → K)
    (sf : Nat → Nat → Nat → K) (t j : Nat) :
    (stockDriven it n stock sf).outflow t j
      = ∑ c ∈ range n, (stockDriven it n stock sf).inflow c j * dt it n c * pdfTable sf t c j * (1 / dt it n t) := by
  unfold stockDriven stockDrivenFrom stockDrivenFromWith
  exact computeOutflow_outflow it n _ (pdfTable sf) t j

/-- stock(t) − stock(t−1) = dt(t)·(inflow(t) − outflow(t)) for the prescribed stock and the inflow
and outflow the model finds — also when the stock implies negative inflow -/
theorem stockDriven_balance [Field K] (it : Nat → K) (n : Nat) (stock : Nat → Nat → K)
    (sf : Nat → Nat → Nat → K) (hlt : LowerTri sf) (hd : ∀ t j, t < n → sf t t j ≠ 0)
    (hdt : ∀ t, t < n → dt it n t ≠ 0) (t j : Nat) (ht : t < n) :
    let r := stockDriven it n stock sf
    r.stock t j - (if t = 0 then 0 else r.stock (t - 1) j)
      = dt it n t * (r.inflow t j - r.outflow t j) := by
  intro r
  have hstock : ∀ s, s < n → r.stock s j = ∑ c ∈ range n, r.inflow c j * dt it n c * sf s c j := by
    intro s hs
    exact (stockDriven_reproduces_stock it n stock sf hlt hd hdt s j hs).symm
  have h := stock_step n (fun c => r.inflow c j * dt it n c) (fun t c => sf t c j)
    (fun t c h => hlt t c j h) (fun t c => pdfTable sf t c j) (fun t c => rfl) t ht
  rw [hstock t ht]
  have hprev : (if t = 0 then (0 : K) else r.stock (t - 1) j)
      = if t = 0 then 0 else ∑ c ∈ range n, r.inflow c j * dt it n c * sf (t - 1) c j := by
    by_cases h0 : t = 0
    · simp [h0]
    · simp only [h0, if_false]; exact hstock (t - 1) (by omega)
  rw [hprev, h]
  have hne := hdt t ht
  have hout' : r.outflow t j
      = ∑ c ∈ range n, r.inflow c j * dt it n c * pdfTable sf t c j * (1 / dt it n t) :=
    stockDriven_outflow it n stock sf t j
  have hout : dt it n t * r.outflow t j = ∑ c ∈ range n, r.inflow c j * dt it n c * pdfTable sf t c j := by
    rw [hout', Finset.mul_sum]
    apply sum_congr rfl
    intro c _
    field_simp
  rw [mul_sub, hout]
  ring

/-! ## flow-driven stock -/

theorem flowDriven_balance [Field K] (it : Nat → K) (n : Nat) (inflow outflow : Nat → Nat → K) (t j : Nat) :
    flowDrivenStock it n inflow outflow t j
        - (if t = 0 then 0 else flowDrivenStock it n inflow outflow (t - 1) j)
      = dt it n t * (inflow t j - outflow t j) := by
  unfold flowDrivenStock
  simp only [sumRange_eq, toWholePeriod_apply]
  cases t with
  | zero => simp; ring
  | succ t =>
    simp only [Nat.add_one_ne_zero, if_false, Nat.add_sub_cancel]
    rw [sum_range_succ (n := t + 1)]
    ring

/-! ## get_stock_balance / check_stock_balance -/

/-- the balance array vanishes on every stock whose change equals dt·(inflow − outflow) -/
theorem stockBalance_zero_of_balance [Field K] (it : Nat → K) (n : Nat) (stock inflow outflow : Nat → Nat → K)
    (t j : Nat)
    (h : stock t j - (if t = 0 then 0 else stock (t - 1) j) = dt it n t * (inflow t j - outflow t j)) :
    stockBalance it n stock inflow outflow t j = 0 := by
  unfold stockBalance
  simp only [toWholePeriod_apply]
  rw [h]; ring

theorem stockBalance_inflowDriven [Field K] (it : Nat → K) (n : Nat) (inflow : Nat → Nat → K)
    (sf : Nat → Nat → Nat → K) (hlt : LowerTri sf) (hdt : ∀ t, t < n → dt it n t ≠ 0)
    (t j : Nat) (ht : t < n) :
    let r := inflowDriven it n inflow sf
    stockBalance it n r.stock r.inflow r.outflow t j = 0 :=
  stockBalance_zero_of_balance it n _ _ _ t j (inflowDriven_balance it n inflow sf hlt hdt t j ht)

theorem stockBalance_stockDriven [Field K] (it : Nat → K) (n : Nat) (stock : Nat → Nat → K)
    (sf : Nat → Nat → Nat → K) (hlt : LowerTri sf) (hd : ∀ t j, t < n → sf t t j ≠ 0)
    (hdt : ∀ t, t < n → dt it n t ≠ 0) (t j : Nat) (ht : t < n) :
    let r := stockDriven it n stock sf
    stockBalance it n r.stock r.inflow r.outflow t j = 0 :=
  stockBalance_zero_of_balance it n _ _ _ t j (stockDriven_balance it n stock sf hlt hd hdt t j ht)

theorem stockBalance_flowDriven [Field K] (it : Nat → K) (n : Nat) (inflow outflow : Nat → Nat → K) (t j : Nat) :
    stockBalance it n (flowDrivenStock it n inflow outflow) inflow outflow t j = 0 :=
  stockBalance_zero_of_balance it n _ _ _ t j (flowDriven_balance it n inflow outflow t j)

section order
variable [Field K] [LinearOrder K] [IsStrictOrderedRing K]

theorem absK_eq_abs (a : K) : absK a = |a| := by
  unfold absK
  by_cases h : a < 0
  · simp [h, abs_of_neg h]
  · simp [h, abs_of_nonneg (not_lt.mp h)]

theorem maxK_eq_max (a b : K) : maxK a b = max a b := by
  unfold maxK
  by_cases h : a < b
  · simp [h, max_eq_right h.le]
  · simp [h, max_eq_left (not_lt.mp h)]

theorem foldl_maxK_ge (l : List K) (a : K) : a ≤ l.foldl maxK a ∧ ∀ x ∈ l, x ≤ l.foldl maxK a := by
  induction l generalizing a with
  | nil => exact ⟨le_refl _, fun x hx => by cases hx⟩
  | cons b l ih =>
    simp only [List.foldl_cons]
    obtain ⟨h1, h2⟩ := ih (maxK a b)
    rw [maxK_eq_max] at h1 h2 ⊢
    refine ⟨le_trans (le_max_left a b) h1, ?_⟩
    intro x hx
    rcases List.mem_cons.mp hx with rfl | hx'
    · exact le_trans (le_max_right a x) h1
    · exact h2 x hx'

theorem foldl_maxK_zero (l : List K) (h : ∀ x ∈ l, x = 0) : l.foldl maxK 0 = 0 := by
  induction l with
  | nil => rfl
  | cons b l ih =>
    simp only [List.foldl_cons]
    rw [h b (by simp), maxK_eq_max, max_self]
    exact ih (fun x hx => h x (by simp [hx]))

/-- the check accepts every array whose balance vanishes (in particular every computed stock) -/
theorem check_accepts_balanced (thrRaise thrNote : K) (hn : 0 ≤ thrNote) (hr : 0 ≤ thrRaise)
    (n m : Nat) (bal : Nat → Nat → K) (h : ∀ t j, t < n → j < m → bal t j = 0) :
    checkStockBalance thrRaise thrNote n m bal = .ok := by
  have hagg : balanceAggregate n m bal = 0 := by
    unfold balanceAggregate
    apply foldl_maxK_zero
    intro x hx
    obtain ⟨j, hj, rfl⟩ := List.mem_map.mp hx
    rw [sumRange_eq]
    apply sum_eq_zero
    intro t ht
    rw [h t j (mem_range.mp ht) (by simpa using hj), absK_eq_abs, abs_zero]
  unfold checkStockBalance
  simp only [hagg]
  rw [if_neg (not_lt.mpr hr), if_neg (not_lt.mpr hn)]

/-- … and rejects one with an entry of the balance array beyond the threshold -/
theorem check_rejects_unbalanced (thrRaise thrNote : K) (n m : Nat) (bal : Nat → Nat → K)
    (t j : Nat) (ht : t < n) (hj : j < m) (hbig : thrRaise < |bal t j|) :
    checkStockBalance thrRaise thrNote n m bal = .raise := by
  have hcol : |bal t j| ≤ sumRange n (fun t => absK (bal t j)) := by
    rw [sumRange_eq]
    have : ∀ s ∈ range n, 0 ≤ absK (bal s j) := fun s _ => by rw [absK_eq_abs]; exact abs_nonneg _
    have := Finset.single_le_sum this (mem_range.mpr ht)
    rwa [absK_eq_abs] at this
  have hagg : |bal t j| ≤ balanceAggregate n m bal := by
    unfold balanceAggregate
    refine le_trans hcol ((foldl_maxK_ge _ 0).2 _ ?_)
    exact List.mem_map.mpr ⟨j, by simpa using hj, rfl⟩
  unfold checkStockBalance
  simp only
  rw [if_pos (lt_of_lt_of_le hbig hagg)]

/-- perturbing one stock entry of a balanced triple by δ makes the balance at that step −δ -/
theorem perturbed_stock_balance (it : Nat → K) (n : Nat) (stock inflow outflow : Nat → Nat → K)
    (t j : Nat) (δ : K) (h0 : stockBalance it n stock inflow outflow t j = 0) :
    stockBalance it n (fun s k => if s = t ∧ k = j then stock s k + δ else stock s k) inflow outflow t j = -δ := by
  unfold stockBalance at h0 ⊢
  by_cases ht : t = 0
  · subst ht
    simp only [true_and, if_true] at h0 ⊢
    linear_combination h0
  · have hne : ¬ (t - 1 = t) := by omega
    simp only [ht, if_false, true_and, if_true, hne, false_and] at h0 ⊢
    linear_combination h0

end order

/-! ### the hypotheses are satisfiable: an uneven grid (the D1 witness) -/
def exIt : Nat → Rat
  | 0 => 2000 | 1 => 2001 | 2 => 2003 | 3 => 2007 | 4 => 2008 | 5 => 2012 | _ => 0
example : dt exIt 6 0 = 3/2 ∧ dt exIt 6 1 = 3/2 ∧ dt exIt 6 2 = 3 ∧ dt exIt 6 3 = 5/2 ∧ dt exIt 6 4 = 5/2
    ∧ dt exIt 6 5 = 5/2 := by
  norm_num [dt, bounds, mid, exIt]

end Flodym.C03
