import FlodymProofs.Props.C09
/-!
# C10 — inflow-driven and stock-driven models are inverse; both solvers agree

`hd : sf t t j ≠ 0` is "every cohort has a non-vanishing share surviving its first interval".
The LAPACK solver (`scipy.linalg.solve_triangular`) is modelled by its specification: it returns a
solution of the lower-triangular system; `lapack_eq_manual` shows that any such solution is the one
the manual forward substitution computes.
-/
open Finset BigOperators
namespace Flodym.C10
open Flodym Flodym.DSM

variable {K : Type} [Field K]

/-- the triangular system the stock-driven model solves, for the whole-period inflow `x` -/
def SolvesSystem (n : Nat) (stock : Nat → Nat → K) (sf : Nat → Nat → Nat → K) (x : Nat → Nat → K) (j : Nat) : Prop :=
  ∀ t, t < n → ∑ c ∈ range (t + 1), sf t c j * x c j = stock t j

/-- 'manual' = what 'lapack' is specified to return -/
theorem lapack_eq_manual (n : Nat) (stock : Nat → Nat → K) (sf : Nat → Nat → Nat → K)
    (hd : ∀ t j, t < n → sf t t j ≠ 0) (x : Nat → Nat → K) (j : Nat) (hx : SolvesSystem n stock sf x j) :
    ∀ t, t < n → x t j = sdInflowWP n stock sf t j :=
  solution_unique n stock sf hd x j hx

theorem manual_solves_system (n : Nat) (stock : Nat → Nat → K) (sf : Nat → Nat → Nat → K)
    (hd : ∀ t j, t < n → sf t t j ≠ 0) (j : Nat) : SolvesSystem n stock sf (sdInflowWP n stock sf) j :=
  fun t ht => manual_solves n stock sf hd t j ht

/-- the stock of an inflow-driven model, as a triangular system in the whole-period inflow -/
theorem inflowDriven_stock_tri (it : Nat → K) (n : Nat) (inflow : Nat → Nat → K)
    (sf : Nat → Nat → Nat → K) (hlt : LowerTri sf) (t j : Nat) (ht : t < n) :
    (inflowDriven it n inflow sf).stock t j
      = ∑ c ∈ range (t + 1), sf t c j * (inflow c j * dt it n c) := by
  rw [inflowDriven_stock]
  have hsplit : range n = range (t + 1) ∪ (range n \ range (t + 1)) := by
    rw [Finset.union_sdiff_of_subset]
    intro x hx; exact mem_range.mpr (by have := mem_range.mp hx; omega)
  rw [hsplit, sum_union (Finset.disjoint_sdiff)]
  have hzero : ∑ c ∈ range n \ range (t + 1), inflow c j * dt it n c * sf t c j = 0 := by
    apply sum_eq_zero
    intro c hc
    have : t < c := by
      have := (mem_sdiff.mp hc).2
      simp only [mem_range, not_lt] at this
      omega
    rw [hlt t c j this, mul_zero]
  rw [hzero, add_zero]
  exact sum_congr rfl (fun c _ => by ring)

/-- feeding the stock computed by an inflow-driven model into a stock-driven model with the same
survival table returns the original inflow … -/
theorem stockDriven_of_inflowDriven_inflow (it : Nat → K) (n : Nat) (inflow : Nat → Nat → K)
    (sf : Nat → Nat → Nat → K) (hlt : LowerTri sf) (hd : ∀ t j, t < n → sf t t j ≠ 0)
    (hdt : ∀ t, t < n → dt it n t ≠ 0) (t j : Nat) (ht : t < n) :
    (stockDriven it n (inflowDriven it n inflow sf).stock sf).inflow t j = inflow t j := by
  have hsys : SolvesSystem n (inflowDriven it n inflow sf).stock sf (fun c j => inflow c j * dt it n c) j :=
    fun s hs => (inflowDriven_stock_tri it n inflow sf hlt s j hs).symm
  have huniq := lapack_eq_manual n _ sf hd _ j hsys t ht
  have hwp := C03.stockDriven_inflow_wp it n (inflowDriven it n inflow sf).stock sf hdt t j ht
  rw [← huniq] at hwp
  exact mul_right_cancel₀ (hdt t ht) hwp

/-- … and the same outflow and cohort tables -/
theorem stockDriven_of_inflowDriven_tables (it : Nat → K) (n : Nat) (inflow : Nat → Nat → K)
    (sf : Nat → Nat → Nat → K) (hlt : LowerTri sf) (hd : ∀ t j, t < n → sf t t j ≠ 0)
    (hdt : ∀ t, t < n → dt it n t ≠ 0) (t j : Nat) :
    let a := inflowDriven it n inflow sf
    let b := stockDriven it n a.stock sf
    b.outflow t j = a.outflow t j ∧
    ∀ c, c < n → b.stockByCohort t c j = a.stockByCohort t c j ∧
                 b.outflowByCohort t c j = a.outflowByCohort t c j := by
  intro a b
  have hin : ∀ c, c < n → b.inflow c j = inflow c j :=
    fun c hc => stockDriven_of_inflowDriven_inflow it n inflow sf hlt hd hdt c j hc
  refine ⟨?_, ?_⟩
  · show (stockDriven it n a.stock sf).outflow t j = (inflowDriven it n inflow sf).outflow t j
    rw [C03.stockDriven_outflow, inflowDriven_outflow]
    apply sum_congr rfl
    intro c hc
    have := hin c (mem_range.mp hc)
    show (stockDriven it n a.stock sf).inflow c j * _ * _ * _ = _
    rw [show (stockDriven it n a.stock sf).inflow c j = inflow c j from this]
  · intro c hc
    constructor
    · show (stockDriven it n a.stock sf).stockByCohort t c j = (inflowDriven it n inflow sf).stockByCohort t c j
      rw [C09.stockDriven_sbc, inflowDriven_sbc]
      rw [show (stockDriven it n a.stock sf).inflow c j = inflow c j from hin c hc]
    · show (stockDriven it n a.stock sf).outflowByCohort t c j = (inflowDriven it n inflow sf).outflowByCohort t c j
      rw [C09.stockDriven_obc, inflowDriven_obc]
      rw [show (stockDriven it n a.stock sf).inflow c j = inflow c j from hin c hc]

/-- conversely, driving an inflow-driven model with the inflow found by a stock-driven model
reproduces the prescribed stock (also when that inflow is negative somewhere) -/
theorem inflowDriven_of_stockDriven (it : Nat → K) (n : Nat) (stock : Nat → Nat → K)
    (sf : Nat → Nat → Nat → K) (hlt : LowerTri sf) (hd : ∀ t j, t < n → sf t t j ≠ 0)
    (hdt : ∀ t, t < n → dt it n t ≠ 0) (t j : Nat) (ht : t < n) :
    (inflowDriven it n (stockDriven it n stock sf).inflow sf).stock t j = stock t j := by
  rw [inflowDriven_stock]
  exact C03.stockDriven_reproduces_stock it n stock sf hlt hd hdt t j ht

end Flodym.C10
