import FlodymProofs.Lemmas.Table
import FlodymProofs.Props.C12
/-!
# C11 — DataFrame import is faithful to labels

* `to_df` lists every entry once under its true labels (sparse: exactly the non-zero ones);
* whenever the converter returns, every entry it sets comes from the unique row carrying that
  entry's labels, the others are zero — for every long table, any row order;
* with default flags a successful import has a row for every entry (pigeonhole);
* importing the exported rows gives the array back.
-/
namespace Flodym.C11
open Flodym Flodym.Table DimSet

/-! ## `to_df` -/

/-- **the long frame lists every entry once, in storage order, under its labels** -/
theorem toDf_rows_dense (x : FArr Rat) :
    (toDfLong x false).rows =
      (allIdx (shape x.dims)).map fun idx => labelsOf x.dims idx ++ [.num (x.values.get idx) true] := by
  unfold toDfLong
  simp only [Bool.false_and, Bool.false_eq_true, if_false]
  induction allIdx (shape x.dims) with
  | nil => rfl
  | cons a l ih => simp only [List.filterMap_cons, List.map_cons, ih]

/-- **sparse: exactly the non-zero entries** -/
theorem toDf_rows_sparse (x : FArr Rat) :
    (toDfLong x true).rows =
      ((allIdx (shape x.dims)).filter fun idx => !(x.values.get idx == 0)).map
        fun idx => labelsOf x.dims idx ++ [.num (x.values.get idx) true] := by
  unfold toDfLong
  simp only [Bool.true_and]
  induction allIdx (shape x.dims) with
  | nil => rfl
  | cons a l ih =>
    simp only [List.filterMap_cons, List.filter_cons]
    cases hv : (x.values.get a == 0)
    · simp only [Bool.false_eq_true, if_false, Bool.not_false, if_true, List.map_cons, ih]
    · simp only [if_true, Bool.not_true, Bool.false_eq_true, if_false, ih]

/-- the enumeration has no repetition and consists exactly of the valid index tuples -/
theorem entries_once (D : DimSet) : (allIdx (shape D)).Nodup ∧ (allIdx (shape D)).length = (shape D).prod :=
  ⟨allIdx_nodup _, length_allIdx _⟩

/-- the `j`-th label of a row is the item at the row's `j`-th index -/
theorem labelsOf_getElem (D : DimSet) (idx : List Nat) (j : Nat) (hj : j < D.length) (hi : j < idx.length) :
    (labelsOf D idx)[j]? = some (Cell.ofItem (D[j].items.getD idx[j] default)) := by
  unfold labelsOf
  simp [List.getElem?_map, List.getElem?_zip_eq_some, hj, hi]

/-- the labels of a valid index tuple sit at exactly that tuple (distinct items per dimension) -/
theorem positions_labelsOf : ∀ (D : DimSet) (hit : ∀ d ∈ D, d.items.Nodup) (idx : List Nat),
    idx ∈ allIdx (shape D) → positions? D (labelsOf D idx) = some idx := by
  intro D
  induction D with
  | nil =>
    intro _ idx h
    simp only [shape, List.map_nil, allIdx, List.mem_singleton] at h
    subst h; rfl
  | cons d ds ih =>
    intro hit idx h
    simp only [shape, List.map_cons, allIdx, List.mem_flatMap, List.mem_range, List.mem_map] at h
    obtain ⟨i, hi, r, hr, rfl⟩ := h
    unfold positions? labelsOf
    simp only [List.zip_cons_cons, List.map_cons, List.mapM_cons]
    have hi' : i < d.items.length := hi
    have : d.items.getD i default = d.items[i] := by simp [List.getD_eq_getElem?_getD, hi']
    rw [this, itemPos_ofItem d (hit d (by simp)) i hi']
    have := ih (fun d' hd' => hit d' (by simp [hd'])) r hr
    unfold positions? labelsOf at this
    rw [this]; rfl

theorem labelsOf_length (D : DimSet) (idx : List Nat) (h : idx ∈ allIdx (shape D)) :
    (labelsOf D idx).length = D.length := by
  have := ((mem_allIdx _ _).mp h).1
  simp [labelsOf, shape] at this ⊢
  omega

/-! ## the placement: every entry from the unique row carrying its labels -/

def RowsWF (dims : DimSet) (rows : List (List Cell × Option Rat)) : Prop := ∀ r ∈ rows, r.1.length = dims.length

theorem fillRows_eq (dims : DimSet) (kept : List (List Cell × Option Rat)) (m : Bool) (filled : List (List Cell × Rat))
    (h : fillRows? dims kept m = some filled) : filled = kept.map fun r => (r.1, r.2.getD 0) := by
  unfold fillRows? at h
  cases m
  · simp only [Bool.false_eq_true, if_false] at h
    split at h
    · cases h
    · clear * - h
      induction kept generalizing filled with
      | nil => simp at h; subst h; rfl
      | cons r rs ih =>
        simp only [List.mapM_cons, Option.bind_eq_bind] at h
        cases hr : r.2 with
        | none => rw [hr] at h; cases h
        | some v =>
          rw [hr] at h
          cases hrs : rs.mapM (fun (r : List Cell × Option Rat) => r.2.map fun v => (r.1, v)) with
          | none => rw [hrs] at h; cases h
          | some fs =>
            rw [hrs] at h
            simp only [Option.map_some, Option.bind_some, Option.pure_def, Option.some.injEq] at h
            subst h
            simp [ih fs hrs, hr]
  · simp only [if_true, Option.some.injEq] at h
    exact h.symm

theorem known_of_positions (dims : DimSet) (a : List Cell) (idx : List Nat) (h : positions? dims a = some idx) :
    rowKnown dims a = true := by
  unfold positions? at h
  unfold rowKnown
  rw [List.all_eq_true]
  intro p hp
  generalize List.zip dims a = L at h hp
  induction L generalizing idx with
  | nil => cases hp
  | cons q qs ih =>
    simp only [List.mapM_cons, Option.bind_eq_bind] at h
    cases hq : itemPos? q.1 q.2 with
    | none => rw [hq] at h; cases h
    | some i =>
      rw [hq] at h
      cases hqs : qs.mapM (fun p => itemPos? p.1 p.2) with
      | none => rw [hqs] at h; cases h
      | some is =>
        cases hp with
        | head => simp [hq]
        | tail _ hp' => exact ih is hqs hp'

theorem mem_placeRows (dims : DimSet) (rows : List (List Cell × Rat)) (idx : List Nat) (v : Rat) :
    (idx, v) ∈ placeRows dims rows ↔ ∃ r ∈ rows, positions? dims r.1 = some idx ∧ r.2 = v := by
  unfold placeRows
  simp only [List.mem_filterMap, Option.map_eq_some_iff, Prod.mk.injEq]
  constructor
  · rintro ⟨r, hr, i, hi, rfl, rfl⟩; exact ⟨r, hr, hi, rfl⟩
  · rintro ⟨r, hr, hi, rfl⟩; exact ⟨r, hr, idx, hi, rfl, rfl⟩

theorem placeRows_cons (dims : DimSet) (r : List Cell × Rat) (rs : List (List Cell × Rat)) :
    placeRows dims (r :: rs) =
      match positions? dims r.1 with
      | some idx => (idx, r.2) :: placeRows dims rs
      | none => placeRows dims rs := by
  unfold placeRows
  simp only [List.filterMap_cons]
  cases positions? dims r.1 <;> rfl

theorem placeRows_nodup (dims : DimSet) (rows : List (List Cell × Rat))
    (hwf : ∀ r ∈ rows, r.1.length = dims.length)
    (hnd : (rows.map (·.1)).Pairwise (fun a b => labelsEq a b = false)) :
    ((placeRows dims rows).map (·.1)).Nodup := by
  induction rows with
  | nil => simp [placeRows]
  | cons r rs ih =>
    simp only [List.map_cons, List.pairwise_cons] at hnd
    have ih' := ih (fun r' hr' => hwf r' (by simp [hr'])) hnd.2
    rw [placeRows_cons]
    cases hp : positions? dims r.1 with
    | none => exact ih'
    | some idx =>
      simp only [List.map_cons, List.nodup_cons]
      refine ⟨?_, ih'⟩
      intro hmem
      obtain ⟨p, hp', hpi⟩ := List.mem_map.mp hmem
      obtain ⟨r', hr', hi', _⟩ := (mem_placeRows dims rs p.1 p.2).mp hp'
      rw [hpi] at hi'
      have := labelsEq_of_positions dims r.1 r'.1 idx (hwf r (by simp)) (hwf r' (by simp [hr'])) hp hi'
      rw [hnd.1 r'.1 (List.mem_map_of_mem hr')] at this
      cases this

theorem filterMap_length_of_some {α β : Type} (l : List α) (f : α → Option β) (h : ∀ a ∈ l, ∃ b, f a = some b) :
    (l.filterMap f).length = l.length := by
  induction l with
  | nil => rfl
  | cons a as ih =>
    obtain ⟨b, hb⟩ := h a (by simp)
    simp only [List.filterMap_cons, hb, List.length_cons]
    rw [ih (fun a' ha' => h a' (by simp [ha']))]

theorem positions_nodup (dims : DimSet) (rows : List (List Cell × Option Rat))
    (hwf : ∀ r ∈ rows, r.1.length = dims.length)
    (hpw : (rows.map (·.1)).Pairwise (fun a b => labelsEq a b = false)) :
    (rows.filterMap fun r => positions? dims r.1).Nodup := by
  induction rows with
  | nil => simp
  | cons r rs ih =>
    simp only [List.map_cons, List.pairwise_cons] at hpw
    have ih' := ih (fun r' hr' => hwf r' (by simp [hr'])) hpw.2
    simp only [List.filterMap_cons]
    cases hidx : positions? dims r.1 with
    | none => exact ih'
    | some idx =>
      simp only [List.nodup_cons]
      refine ⟨?_, ih'⟩
      intro hmem
      obtain ⟨r', hr', hi'⟩ := List.mem_filterMap.mp hmem
      have := labelsEq_of_positions dims r.1 r'.1 idx (hwf r (by simp)) (hwf r' (by simp [hr'])) hidx hi'
      rw [hpw.1 r'.1 (List.mem_map_of_mem hr')] at this
      cases this

/-- **whenever the converter returns, every entry comes from the unique row carrying that entry's
labels (its value, or zero where the value is empty and `allow_missing_values` is set), and every
entry no row carries is zero** — any number of rows, in any order -/
theorem entry_from_unique_row (dims : DimSet) (t : LongTable) (m e : Bool) (v : ND Rat)
    (hwf : RowsWF dims t.rows) (h : complete? dims t m e = some v) :
    v.shape = shape dims ∧
    ∀ idx, (∃ r ∈ t.rows, positions? dims r.1 = some idx ∧ v.get idx = r.2.getD 0 ∧
              ∀ r' ∈ t.rows, positions? dims r'.1 = some idx → labelsEq r.1 r'.1 = true) ∨
           ((∀ r ∈ t.rows, positions? dims r.1 ≠ some idx) ∧ v.get idx = 0) := by
  rw [C12.complete_eq] at h
  cases hd : hasDuplicates (t.rows.map (·.1)) with
  | true => rw [hd] at h; cases h
  | false =>
    rw [hd] at h
    simp only [Bool.false_eq_true, if_false] at h
    cases hk : keepRows? dims t.rows e with
    | none => rw [hk] at h; cases h
    | some kept =>
      rw [hk] at h
      simp only [Option.bind_some] at h
      cases hf : fillRows? dims kept m with
      | none => rw [hf] at h; cases h
      | some filled =>
        rw [hf] at h
        simp only [Option.map_some, Option.some.injEq] at h
        subst h
        refine ⟨rfl, ?_⟩
        have hfilled := fillRows_eq dims kept m filled hf
        -- which rows are kept
        have hkept : ∀ r, r ∈ kept ↔ r ∈ t.rows ∧ rowKnown dims r.1 = true := by
          intro r
          cases e
          · obtain ⟨hall, rfl⟩ := (C12.keepRows_default dims t.rows kept).mp hk
            exact ⟨fun hr => ⟨hr, hall r hr⟩, fun hr => hr.1⟩
          · rw [C12.keepRows_extra] at hk
            cases hk
            exact List.mem_filter
        have hsub : kept.Sublist t.rows := by
          cases e
          · obtain ⟨_, rfl⟩ := (C12.keepRows_default dims t.rows kept).mp hk
            exact List.Sublist.refl _
          · rw [C12.keepRows_extra] at hk
            cases hk
            exact List.filter_sublist
        have hpw := (hasDuplicates_false_iff _).mp hd
        have hpwk : (kept.map (·.1)).Pairwise (fun a b => labelsEq a b = false) :=
          hpw.sublist (hsub.map _)
        have hnd : ((placeRows dims filled).map (·.1)).Nodup := by
          apply placeRows_nodup
          · intro r hr
            rw [hfilled] at hr
            obtain ⟨r0, hr0, rfl⟩ := List.mem_map.mp hr
            exact hwf r0 ((hkept r0).mp hr0).1
          · rw [hfilled]
            simpa [List.map_map, Function.comp_def] using hpwk
        intro idx
        by_cases hex : ∃ r ∈ t.rows, positions? dims r.1 = some idx
        · left
          obtain ⟨r, hr, hpos⟩ := hex
          have hrk : r ∈ kept := (hkept r).mpr ⟨hr, known_of_positions dims r.1 idx hpos⟩
          refine ⟨r, hr, hpos, ?_, ?_⟩
          · show placedGet (placeRows dims filled) idx = r.2.getD 0
            apply placedGet_mem _ hnd
            rw [mem_placeRows, hfilled]
            exact ⟨(r.1, r.2.getD 0), List.mem_map_of_mem (f := fun r : List Cell × Option Rat => (r.1, r.2.getD 0)) hrk, hpos, rfl⟩
          · intro r' hr' hpos'
            exact labelsEq_of_positions dims r.1 r'.1 idx (hwf r hr) (hwf r' hr') hpos hpos'
        · right
          simp only [not_exists, not_and] at hex
          refine ⟨hex, ?_⟩
          show placedGet (placeRows dims filled) idx = 0
          apply placedGet_absent
          intro p hp hpi
          obtain ⟨r, hr, hpos, _⟩ := (mem_placeRows dims filled p.1 p.2).mp (by simpa using hp)
          rw [hfilled] at hr
          obtain ⟨r0, hr0, rfl⟩ := List.mem_map.mp hr
          exact hex r0 ((hkept r0).mp hr0).1 (hpi ▸ hpos)

/-- **the order of the rows does not matter** -/
theorem row_order_irrelevant (dims : DimSet) (t t' : LongTable) (m e : Bool) (v v' : ND Rat)
    (hperm : t.rows.Perm t'.rows) (hwf : RowsWF dims t.rows)
    (h : complete? dims t m e = some v) (h' : complete? dims t' m e = some v') :
    v.shape = v'.shape ∧ ∀ idx, v.get idx = v'.get idx := by
  have hwf' : RowsWF dims t'.rows := fun r hr => hwf r (hperm.mem_iff.mpr hr)
  obtain ⟨hs, hg⟩ := entry_from_unique_row dims t m e v hwf h
  obtain ⟨hs', hg'⟩ := entry_from_unique_row dims t' m e v' hwf' h'
  refine ⟨by rw [hs, hs'], ?_⟩
  intro idx
  -- no two rows of `t` carry the same labels
  have hnd : hasDuplicates (t.rows.map (·.1)) = false := ((C12.success_iff dims t m e).mp (by rw [h]; rfl)).1
  have hpw := (hasDuplicates_false_iff _).mp hnd
  rcases hg idx with ⟨r, hr, hpos, hv, huniq⟩ | ⟨hno, hv⟩
  · rcases hg' idx with ⟨r', hr', hpos', hv', _⟩ | ⟨hno', _⟩
    · -- both tables have the row; it is the same row
      have hr'' : r' ∈ t.rows := hperm.mem_iff.mpr hr'
      have hle := huniq r' hr'' hpos'
      have : r = r' := by
        by_contra hne
        have hpair : ∀ (l : List (List Cell × Option Rat)), (l.map (·.1)).Pairwise (fun a b => labelsEq a b = false) →
            r ∈ l → r' ∈ l → r ≠ r' → labelsEq r.1 r'.1 = true → False := by
          intro l hl h1 h2 hne hle
          induction l with
          | nil => cases h1
          | cons a as ih =>
            simp only [List.map_cons, List.pairwise_cons] at hl
            cases h1 with
            | head =>
              cases h2 with
              | head => exact hne rfl
              | tail _ h2' => rw [hl.1 r'.1 (List.mem_map_of_mem h2')] at hle; cases hle
            | tail _ h1' =>
              cases h2 with
              | head =>
                have := hl.1 r.1 (List.mem_map_of_mem h1')
                have hsym : labelsEq r'.1 r.1 = true := by
                  have := positions_congr dims r.1 r'.1 hle
                  exact labelsEq_of_positions dims r'.1 r.1 idx (hwf r' hr'') (hwf r hr) hpos' hpos
                rw [this] at hsym; cases hsym
              | tail _ h2' => exact ih hl.2 h1' h2'
        exact hpair t.rows hpw hr hr'' hne hle
      rw [hv, hv', this]
    · exact absurd hpos (hno' r (hperm.mem_iff.mp hr))
  · rcases hg' idx with ⟨r', hr', hpos', _, _⟩ | ⟨_, hv'⟩
    · exact absurd hpos' (hno r' (hperm.mem_iff.mpr hr'))
    · rw [hv, hv']

/-- **with default flags a successful import has a row for every entry of the array** (as many known,
distinct label combinations as entries: pigeonhole) -/
theorem default_import_is_complete (dims : DimSet) (t : LongTable) (v : ND Rat) (hwf : RowsWF dims t.rows)
    (h : complete? dims t false false = some v) :
    ∀ idx ∈ allIdx (shape dims), ∃ r ∈ t.rows, ∃ x, positions? dims r.1 = some idx ∧ r.2 = some x ∧ v.get idx = x := by
  obtain ⟨hnd, kept, hk, hm⟩ := (C12.success_iff dims t false false).mp (by rw [h]; rfl)
  obtain ⟨hall, rfl⟩ := (C12.keepRows_default dims t.rows kept).mp hk
  rcases hm with hm | ⟨hlen, hval⟩
  · cases hm
  -- every row has a position; the positions are distinct members of the enumeration
  have hposs : ∀ r ∈ t.rows, ∃ idx, positions? dims r.1 = some idx := by
    intro r hr
    have hk := hall r hr
    unfold rowKnown at hk
    unfold positions?
    rw [List.all_eq_true] at hk
    generalize List.zip dims r.1 = L at hk
    induction L with
    | nil => exact ⟨[], rfl⟩
    | cons q qs ih =>
      obtain ⟨is, his⟩ := ih (fun p hp => hk p (by simp [hp]))
      have hq := hk q (by simp)
      cases hq' : itemPos? q.1 q.2 with
      | none => rw [hq'] at hq; cases hq
      | some i => exact ⟨i :: is, by simp [List.mapM_cons, hq', his]⟩
  let pos : List (List Nat) := t.rows.filterMap fun r => positions? dims r.1
  have hpos_len : pos.length = t.rows.length := filterMap_length_of_some _ _ hposs
  have hpw := (hasDuplicates_false_iff _).mp hnd
  have hpos_nd : pos.Nodup := positions_nodup dims t.rows hwf hpw
  have hpos_sub : pos ⊆ allIdx (shape dims) := by
    intro idx hidx
    obtain ⟨r, hr, hi⟩ := List.mem_filterMap.mp hidx
    exact positions_mem_allIdx dims r.1 idx (hwf r hr) hi
  have hperm : pos.Perm (allIdx (shape dims)) := by
    apply List.Subperm.perm_of_length_le (List.subperm_of_subset hpos_nd hpos_sub)
    rw [length_allIdx, hpos_len, hlen]
    exact Nat.le_refl _
  intro idx hidx
  have : idx ∈ pos := hperm.mem_iff.mpr hidx
  obtain ⟨r, hr, hi⟩ := List.mem_filterMap.mp this
  cases hx : r.2 with
  | none => exact absurd hx (hval r hr)
  | some x =>
    refine ⟨r, hr, x, hi, hx, ?_⟩
    obtain ⟨_, hg⟩ := entry_from_unique_row dims t false false v hwf h
    rcases hg idx with ⟨r', hr', hpos', hv', huniq⟩ | ⟨hno, _⟩
    · -- the unique row is `r`
      have hle := huniq r hr hi
      by_cases hrr : r' = r
      · rw [hv', hrr, hx]; rfl
      · exfalso
        have hpair : ∀ (l : List (List Cell × Option Rat)), (l.map (·.1)).Pairwise (fun a b => labelsEq a b = false) →
            r' ∈ l → r ∈ l → False := by
          intro l hl h1 h2
          induction l with
          | nil => cases h1
          | cons a as ih =>
            simp only [List.map_cons, List.pairwise_cons] at hl
            cases h1 with
            | head =>
              cases h2 with
              | head => exact hrr rfl
              | tail _ h2' => rw [hl.1 r.1 (List.mem_map_of_mem h2')] at hle; cases hle
            | tail _ h1' =>
              cases h2 with
              | head =>
                have := hl.1 r'.1 (List.mem_map_of_mem h1')
                have hsym := labelsEq_of_positions dims r.1 r'.1 idx (hwf r hr) (hwf r' hr') hi hpos'
                rw [this] at hsym; cases hsym
              | tail _ h2' => exact ih hl.2 h1' h2'
        exact hpair t.rows hpw hr' hr
    · exact absurd hi (hno r hr)

/-! ## the round trip through the exported rows -/

/-- the long table `to_df` writes, read back column by column -/
def exported (x : FArr Rat) : LongTable :=
  { rows := (allIdx (shape x.dims)).map fun idx => (labelsOf x.dims idx, some (x.values.get idx)) }

/-- **importing the exported rows returns the array**: same shape, the same value at every entry
(dimensions with distinct items; any number of dimensions and items) -/
theorem roundtrip_rows (x : FArr Rat) (hit : ∀ d ∈ x.dims, d.items.Nodup) :
    ∃ v, complete? x.dims (exported x) false false = some v ∧ v.shape = shape x.dims ∧
      ∀ idx ∈ allIdx (shape x.dims), v.get idx = x.values.get idx := by
  have hwf : RowsWF x.dims (exported x).rows := by
    intro r hr
    obtain ⟨idx, hidx, rfl⟩ := List.mem_map.mp hr
    exact labelsOf_length x.dims idx hidx
  have hpos : ∀ idx ∈ allIdx (shape x.dims), positions? x.dims (labelsOf x.dims idx) = some idx :=
    positions_labelsOf x.dims hit
  -- no duplicates: different index tuples have different labels
  have hnd : hasDuplicates ((exported x).rows.map (·.1)) = false := by
    rw [hasDuplicates_false_iff]
    unfold exported
    simp only [List.map_map, Function.comp_def]
    have key : ∀ L : List (List Nat), L.Nodup → (∀ i ∈ L, i ∈ allIdx (shape x.dims)) →
        (L.map fun idx => labelsOf x.dims idx).Pairwise (fun a b => labelsEq a b = false) := by
      intro L
      induction L with
      | nil => intro _ _; simp
      | cons a as ih =>
        intro hn hmem
        simp only [List.map_cons, List.pairwise_cons, List.nodup_cons] at hn ⊢
        refine ⟨?_, ih hn.2 (fun i hi => hmem i (by simp [hi]))⟩
        intro b hb
        obtain ⟨j, hj, rfl⟩ := List.mem_map.mp hb
        cases hle : labelsEq (labelsOf x.dims a) (labelsOf x.dims j) with
        | false => rfl
        | true =>
          have := positions_congr x.dims _ _ hle
          rw [hpos a (hmem a (by simp)), hpos j (hmem j (by simp [hj]))] at this
          cases this
          exact absurd hj hn.1
    exact key _ (allIdx_nodup _) (fun _ h => h)
  have hknown : ∀ r ∈ (exported x).rows, rowKnown x.dims r.1 = true := by
    intro r hr
    obtain ⟨idx, hidx, rfl⟩ := List.mem_map.mp hr
    exact known_of_positions x.dims _ idx (hpos idx hidx)
  have hsome : (complete? x.dims (exported x) false false).isSome = true := by
    rw [C12.success_iff]
    refine ⟨hnd, (exported x).rows, (C12.keepRows_default _ _ _).mpr ⟨hknown, rfl⟩, Or.inr ⟨?_, ?_⟩⟩
    · simp [exported, length_allIdx]
    · intro r hr
      obtain ⟨idx, _, rfl⟩ := List.mem_map.mp hr
      simp
  obtain ⟨v, hv⟩ := Option.isSome_iff_exists.mp hsome
  refine ⟨v, hv, ?_⟩
  obtain ⟨hs, hg⟩ := entry_from_unique_row x.dims (exported x) false false v hwf hv
  refine ⟨hs, ?_⟩
  intro idx hidx
  rcases hg idx with ⟨r, hr, hp, hval, _⟩ | ⟨hno, _⟩
  · obtain ⟨j, hj, rfl⟩ := List.mem_map.mp hr
    rw [hpos j hj] at hp
    cases hp
    simpa using hval
  · exact absurd (hpos idx hidx) (hno _ (List.mem_map_of_mem (f := fun idx => (labelsOf x.dims idx, some (x.values.get idx))) hidx))

/-! ## the source as the model reads it (regenerated on every run by `translate/gen_lean.py`) -/

/-- **the converter of the current tree runs the stages the model transcribes, in that order, with the
repairs D14, D16, D16b, D19, D20, D26 in place** (a tree on which this fails is modelled as it is —
the flags switch the model — and the check then looks for a failing input) -/
theorem source_converter_as_modelled :
    Gen.converterSteps = ["_reset_non_default_index", "_determine_format", "_df_to_long_format",
      "_check_missing_dim_columns", "_convert_type", "_sort_columns", "_check_data_complete"] ∧
    Gen.determineFormatSteps = ["_get_dim_columns_by_name_or_letter", "_check_if_first_row_are_items",
      "_check_for_dim_columns_by_items", "_check_value_columns"] ∧
    Gen.firstRowGuard = true ∧ Gen.byItemsSkipsIdentified = true ∧ Gen.byItemsContinues = true ∧
    Gen.valueColsKeepType = true ∧ Gen.sameItemsRejectsFractions = true ∧ Gen.fillIndexCasts = ["np.intp"] := by
  decide

/-! ## non-vacuity -/

def exDims : DimSet :=
  [{ letter := 't', name := "time", items := [.int 2000, .int 2001], dtype := some .int },
   { letter := 'r', name := "region", items := [.str "EU", .str "NA"], dtype := some .str }]

def exArr : FArr Rat := ⟨exDims, ND.ofFlat [2, 2] #[1, 2, 0, 4] 0⟩

example : (toDfLong exArr true).rows =
    [[.num 2000 false, .str "EU", .num 1 true], [.num 2000 false, .str "NA", .num 2 true],
     [.num 2001 false, .str "NA", .num 4 true]] := by decide +kernel

/-- the whole converter on the exported frame, columns in another order, dimensions by letter -/
example : ((fromDf? exDims .range
      { cols := [.str "r", .str "value", .str "t"],
        rows := [[.str "NA", .num 4 true, .num 2001 false], [.str "EU", .num 1 true, .num 2000 false],
                 [.str "NA", .num 2 true, .num 2000 false], [.str "EU", .num 0 true, .num 2001 false]] } false false).map
      fun a => (allIdx a.values.shape).map a.values.get) = some [1, 2, 0, 4] := by decide +kernel

/-- wide layout, one dimension spread over the columns -/
example : ((fromDf? exDims (.named 1)
      { cols := [.str "time", .str "NA", .str "EU"],
        rows := [[.num 2001 false, .num 4 true, .num 0 true], [.num 2000 false, .num 2 true, .num 1 true]] } false false).map
      fun a => (allIdx a.values.shape).map a.values.get) = some [1, 2, 0, 4] := by decide +kernel

end Flodym.C11
