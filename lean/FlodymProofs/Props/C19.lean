import Flodym.Export
import FlodymProofs.Lemmas.BuildDict
import FlodymProofs.Props.C11
/-!
# C19 — exports reproduce every flow and stock under its labels

The exported dictionary, the list of CSV files and the definition tables, for systems with any
number of flows and stocks. The CSV *text* is pandas' business (correspondence stream `export`); what
`from_df` makes of the rows `to_df` wrote is C11's round-trip theorem, restated here for exports.
-/
namespace Flodym.C19
open Flodym Flodym.Export Flodym.Build DimSet

/-! ## file names -/

theorem strip_subset (l : List Char) : ∀ c ∈ stripDashUnderscore l, c ∈ l := by
  intro c hc
  unfold stripDashUnderscore at hc
  have h1 := List.mem_reverse.mp hc
  have h2 := (List.dropWhile_sublist _).subset h1
  have h3 := List.mem_reverse.mp h2
  exact (List.dropWhile_sublist _).subset h3

/-- **sanitised names consist of (ASCII) letters, digits and underscores only** -/
theorem fileName_chars (s : String) : ∀ c ∈ (toValidFileName s).toList, c.isAlphanum = true ∨ c = '_' := by
  intro c hc
  unfold toValidFileName at hc
  simp only [String.toList_ofList] at hc
  have h := strip_subset _ c hc
  obtain ⟨k, hk, rfl⟩ := List.mem_map.mp h
  obtain ⟨_, hk2⟩ := List.mem_filter.mp hk
  by_cases hd : (k == '-' || isSpaceChar k) = true
  · simp [hd]
  · simp only [hd, if_false, Bool.false_eq_true]
    simp only [Bool.or_eq_true, beq_iff_eq, not_or] at hd
    simp only [Bool.or_eq_true, beq_iff_eq] at hk2
    have hw : isWordChar k = true := by
      rcases hk2 with (hk2 | hk2) | hk2
      · exact hk2
      · exact absurd hk2 (by simpa using hd.2)
      · exact absurd hk2 hd.1
    unfold isWordChar at hw
    simpa using hw

/-- **one CSV file per flow** -/
theorem one_file_per_flow (m : MFA) : (flowFiles m).length = m.sys.flows.length := by
  simp [flowFiles]

/-- **one CSV file per exported stock quantity** -/
theorem files_per_stock (m : MFA) (w : Bool) :
    (stockFiles m w).length = m.sys.stocks.length * (if w then 3 else 1) := by
  unfold stockFiles
  induction m.sys.stocks with
  | nil => simp
  | cons s ss ih =>
    simp only [List.flatMap_cons, List.length_append, List.length_cons, ih]
    cases w <;> simp <;> omega

/-- names that stay distinct after sanitising give distinct files -/
theorem flow_files_distinct (m : MFA) (h : (m.sys.flows.map fun f => toValidFileName f.name).Nodup) :
    (flowFiles m).Nodup := by
  unfold flowFiles
  have : (m.sys.flows.map fun f => toValidFileName f.name ++ ".csv")
      = (m.sys.flows.map fun f => toValidFileName f.name).map (· ++ ".csv") := by simp [List.map_map, Function.comp_def]
  rw [this]
  exact h.map (fun a b hab => by simpa using hab)

/-! ## the dictionary -/

/-- **every flow is in the dictionary under its name with exactly its values, letters, source and
target** (flow names are dictionary keys, hence distinct) -/
theorem flow_exported (m : MFA) (hnd : (m.sys.flows.map (·.name)).Nodup) (f : FlowM) (hf : f ∈ m.sys.flows) :
    dictGet? (convertToDict m).flows f.name = some f.arr ∧
    dictGet? (convertToDict m).flowDimensions f.name = some f.arr.letters ∧
    dictGet? (convertToDict m).flowProcesses f.name = some (f.fromP, f.toP) := by
  unfold convertToDict
  refine ⟨?_, ?_, ?_⟩
  all_goals
    apply dictGet?_mem
    · simpa [List.map_map, Function.comp_def] using hnd
    · exact List.mem_map.mpr ⟨f, hf, rfl⟩

theorem name_inj (l : List StockM) (hnd : (l.map (·.name)).Nodup) :
    ∀ a ∈ l, ∀ b ∈ l, a.name = b.name → a = b := by
  induction l with
  | nil => intro a ha; cases ha
  | cons x xs ih =>
    simp only [List.map_cons, List.nodup_cons] at hnd
    intro a ha b hb hab
    cases ha with
    | head =>
      cases hb with
      | head => rfl
      | tail _ h => exact absurd (hab ▸ List.mem_map_of_mem (f := (·.name)) h) hnd.1
    | tail _ h1 =>
      cases hb with
      | head => exact absurd (hab.symm ▸ List.mem_map_of_mem (f := (·.name)) h1) hnd.1
      | tail _ h => exact ih hnd.2 a h1 b h hab

/-- **every stock likewise; its process only when it has one** -/
theorem stock_exported (m : MFA) (hnd : (m.sys.stocks.map (·.name)).Nodup) (s : StockM) (hs : s ∈ m.sys.stocks) :
    dictGet? (convertToDict m).stocks s.name = some s.stock ∧
    dictGet? (convertToDict m).stockDimensions s.name = some s.stock.letters ∧
    (∀ p, s.process = some p → (s.name, p) ∈ (convertToDict m).stockProcesses) ∧
    (s.process = none → ∀ p, (s.name, p) ∉ (convertToDict m).stockProcesses) := by
  unfold convertToDict
  refine ⟨?_, ?_, ?_, ?_⟩
  · apply dictGet?_mem
    · simpa [List.map_map, Function.comp_def] using hnd
    · exact List.mem_map.mpr ⟨s, hs, rfl⟩
  · apply dictGet?_mem
    · simpa [List.map_map, Function.comp_def] using hnd
    · exact List.mem_map.mpr ⟨s, hs, rfl⟩
  · intro p hp
    simp only [List.mem_filterMap]
    exact ⟨s, hs, by simp [hp]⟩
  · intro hnone p hmem
    simp only [List.mem_filterMap, Option.map_eq_some_iff] at hmem
    obtain ⟨s', hs', q, hq, heq⟩ := hmem
    simp only [Prod.mk.injEq] at heq
    -- another stock of the same name would contradict the distinct names
    have : s' = s := name_inj m.sys.stocks hnd s' hs' s hs heq.1
    rw [this, hnone] at hq
    cases hq

/-- nothing else is in there -/
theorem dictionary_sizes (m : MFA) :
    (convertToDict m).flows.length = m.sys.flows.length ∧ (convertToDict m).stocks.length = m.sys.stocks.length ∧
    (convertToDict m).processes = m.sys.processes ∧
    (convertToDict m).dimensionNames = m.dims.map (fun d => (d.letter.toString, d.name)) ∧
    (convertToDict m).dimensionItems = m.dims.map (fun d => (d.name, d.items)) := by
  simp [convertToDict]

/-- **the pandas / CSV form read back with `from_df` gives the array back** (C11 for the exported rows) -/
theorem exported_rows_read_back (x : FArr Rat) (hit : ∀ d ∈ x.dims, d.items.Nodup) :
    ∃ v, Table.complete? x.dims (C11.exported x) false false = some v ∧ v.shape = shape x.dims ∧
      ∀ idx ∈ allIdx (shape x.dims), v.get idx = x.values.get idx :=
  C11.roundtrip_rows x hit

/-! ## definition tables -/

/-- **one table per non-empty kind of definition, one row per definition** -/
theorem defTables_flows (dims : List Dim) (d : MFADef) (h : d.flows ≠ []) :
    ∃ rows, ("flows", ["dim_letters", "from_process_name", "to_process_name", "name_override"], rows) ∈ defTables dims d ∧
      rows.length = d.flows.length := by
  refine ⟨d.flows.map fun f => [showLetters f.letters, f.fromName, f.toName, f.nameOverride.getD "None"], ?_, by simp⟩
  unfold defTables
  rw [List.mem_filter]
  refine ⟨by simp, ?_⟩
  simp [h]

theorem defTables_no_empty_kind (dims : List Dim) (d : MFADef) :
    ∀ t ∈ defTables dims d, t.2.2 ≠ [] := by
  intro t ht
  unfold defTables at ht
  have := (List.mem_filter.mp ht).2
  simpa using this

/-! ## the source as the model reads it (regenerated on every run) -/

/-- the exported dictionary has exactly the nine keys the model's record has, in this order, and the
stock quantities written to CSV are stock, inflow, outflow -/
theorem source_export_sites :
    Gen.exportKeys = ["dimension_names", "dimension_items", "processes", "flows", "flow_dimensions",
      "flow_processes", "stocks", "stock_dimensions", "stock_processes"] ∧
    Gen.stockCsvAttributes = ["stock", "inflow", "outflow"] := by
  decide

/-! ## non-vacuity -/

example : toValidFileName "Waste (mixed) -> Landfill!" = "waste_mixed___landfill" := by decide
example : toValidFileName "sysenv => use" = "sysenv__use" := by decide
example : toValidFileName "_In Use_" = "in_use" := by decide

end Flodym.C19
