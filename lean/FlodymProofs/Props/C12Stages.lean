import FlodymProofs.Props.C12
/-!
# C12 (continued) — refusals by the stages before the placement

Whatever the recognition stages made of the frame (`Conv`: the frame and the dimensions identified so
far), a dimension with more than one item that has no column is refused, and so are several value
columns that match no dimension.
-/
namespace Flodym.C12
open Flodym Flodym.Table DimSet

/-- **a missing column for a dimension with more than one item is refused** (and so is one for a
dimension without items); only single-item dimensions are filled in -/
theorem missing_column_refused (dims : DimSet) (c : Conv) (d : Dim) (hd : d ∈ dims)
    (hmiss : d.name ∉ c.dimCols) (hitems : d.items.length ≠ 1) :
    missingDims? dims c = none := by
  unfold missingDims?
  -- the fold over the missing dimensions fails at `d`, whatever was appended before
  have key : ∀ (l : List Dim) (c0 : Conv), d ∈ l →
      l.foldlM (fun (c : Conv) d => match d.items with
        | [it] => some { df := c.df.addCol (.str d.name) (Cell.ofItem it), dimCols := c.dimCols ++ [d.name] }
        | _ => none) c0 = none := by
    intro l
    induction l with
    | nil => intro _ h; cases h
    | cons a as ih =>
      intro c0 hmem
      simp only [List.foldlM_cons, Option.bind_eq_bind]
      cases hmem with
      | head =>
        have : (match d.items with
            | [it] => some ({ df := c0.df.addCol (.str d.name) (Cell.ofItem it), dimCols := c0.dimCols ++ [d.name] } : Conv)
            | _ => none) = none := by
          cases hi : d.items with
          | nil => rfl
          | cons x xs =>
            cases xs with
            | nil => rw [hi] at hitems; simp at hitems
            | cons y ys => rfl
        rw [this]; rfl
      | tail _ h =>
        cases (match a.items with
            | [it] => some ({ df := c0.df.addCol (.str a.name) (Cell.ofItem it), dimCols := c0.dimCols ++ [a.name] } : Conv)
            | _ => none) with
        | none => rfl
        | some c1 => exact ih c1 h
  apply key
  exact List.mem_filter.mpr ⟨hd, by simpa using hmiss⟩

/-- **several value columns that match no dimension are refused** -/
theorem several_value_columns_refused (dims : DimSet) (c : Conv) (v1 v2 : Cell) (rest : List Cell)
    (hv : c.df.cols.filter (fun col => !(isDimCol c.dimCols col)) = v1 :: v2 :: rest)
    (hno : ∀ d ∈ dims, sameItems (v1 :: v2 :: rest) d = false) :
    valueColumns? dims c = none := by
  unfold valueColumns?
  have hfind : dims.find? (sameItems (v1 :: v2 :: rest)) = none := by
    rw [List.find?_eq_none]
    intro d hd
    simp [hno d hd]
  simp only [hv, hfind]

/-- no value column at all is refused as well (unless a dimension has no items) -/
theorem no_value_column_refused (dims : DimSet) (c : Conv)
    (hv : c.df.cols.filter (fun col => !(isDimCol c.dimCols col)) = [])
    (hno : ∀ d ∈ dims, d.items ≠ []) :
    valueColumns? dims c = none := by
  unfold valueColumns?
  have hfind : dims.find? (sameItems []) = none := by
    rw [List.find?_eq_none]
    intro d hd
    have hne := hno d hd
    unfold sameItems
    cases hdt : d.dtype with
    | none =>
      simp only [setEq, List.all_nil, Bool.true_and]
      cases hi : d.items with
      | nil => exact absurd hi hne
      | cons x xs => simp [containsPy]
    | some dt =>
      simp only [List.mapM_nil, Option.pure_def, List.zip_nil_left, List.any_nil, Bool.and_false, Bool.false_eq_true,
        if_false, setEq, List.all_nil, Bool.true_and]
      cases hi : d.items with
      | nil => exact absurd hi hne
      | cons x xs => simp [containsPy]
  simp only [hv, hfind]

end Flodym.C12
