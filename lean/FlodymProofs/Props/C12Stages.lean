import FlodymProofs.Props.C12
/-!
# C12 (continued) — refusals by the stages before the placement

Whatever the recognition stages made of the frame (`Conv`: the frame and the dimensions identified so
far), a dimension with more than one item that has no column is refused, and so are several value
columns that match no dimension.
-/
namespace Flodym.C12
open Flodym Flodym.Table DimSet

/-- **a missing column for a dimension with more than one item is refused** (and so is one for a
dimension without items); only single-item dimensions are filled in -/
theorem missing_column_refused (dims : DimSet) (c : Conv) (d : Dim) (hd : d ∈ dims)
    (hmiss : d.name ∉ c.dimCols) (hitems : d.items.length ≠ 1) :
    missingDims? dims c = none := by
  unfold missingDims?
  -- the fold over the missing dimensions fails at `d`, whatever was appended before
  have key : ∀ (l : List Dim) (c0 : Conv), d ∈ l →
      l.foldlM (fun (c : Conv) d => match d.items with
        | [it] => some { df := c.df.addCol (.str d.name) (Cell.ofItem it), dimCols := c.dimCols ++ [d.name] }
        | _ => none) c0 = none := by
    intro l
    induction l with
    | nil => intro _ h; cases h
    | cons a as ih =>
      intro c0 hmem
      simp only [List.foldlM_cons, Option.bind_eq_bind]
      cases hmem with
      | head =>
        have : (match d.items with
            | [it] => some ({ df := c0.df.addCol (.str d.name) (Cell.ofItem it), dimCols := c0.dimCols ++ [d.name] } : Conv)
            | _ => none) = none := by
          cases hi : d.items with
          | nil => rfl
          | cons x xs =>
            cases xs with
            | nil => rw [hi] at hitems; simp at hitems
            | cons y ys => rfl
        rw [this]; rfl
      | tail _ h =>
        cases (match a.items with
            | [it] => some ({ df := c0.df.addCol (.str a.name) (Cell.ofItem it), dimCols := c0.dimCols ++ [a.name] } : Conv)
            | _ => none) with
        | none => rfl
        | some c1 => exact ih c1 h
  apply key
  exact List.mem_filter.mpr ⟨hd, by simpa using hmiss⟩

/-- **several value columns that match no dimension are refused** -/
theorem several_value_columns_refused (dims : DimSet) (c : Conv) (v1 v2 : Cell) (rest : List Cell)
    (hv : c.df.cols.filter (fun col => !(isDimCol c.dimCols col)) = v1 :: v2 :: rest)
    (hno : ∀ d ∈ dims, sameItems (v1 :: v2 :: rest) d = false) :
    valueColumns? dims c = none := by
  unfold valueColumns?
  have hfind : dims.find? (sameItems (v1 :: v2 :: rest)) = none := by
    rw [List.find?_eq_none]
    intro d hd
    simp [hno d hd]
  simp only [hv, hfind]

/-- no value column at all is refused as well (unless a dimension has no items) -/
theorem no_value_column_refused (dims : DimSet) (c : Conv)
    (hv : c.df.cols.filter (fun col => !(isDimCol c.dimCols col)) = [])
    (hno : ∀ d ∈ dims, d.items ≠ []) :
    valueColumns? dims c = none := by
  unfold valueColumns?
  have hfind : dims.find? (sameItems []) = none := by
    rw [List.find?_eq_none]
    intro d hd
    have hne := hno d hd
    unfold sameItems
    cases hdt : d.dtype with
    | none =>
      simp only [setEq, List.all_nil, Bool.true_and]
      cases hi : d.items with
      | nil => exact absurd hi hne
      | cons x xs => simp [containsPy]
    | some dt =>
      simp only [List.mapM_nil, Option.pure_def, List.zip_nil_left, List.any_nil, Bool.and_false, Bool.false_eq_true,
        if_false, setEq, List.all_nil, Bool.true_and]
      cases hi : d.items with
      | nil => exact absurd hi hne
      | cons x xs => simp [containsPy]
  simp only [hv, hfind]

/-! ## a label that is no item: fractional numbers in a column of an integer-typed dimension (D30) -/

/-- the code as it stands keeps such a label as it is (regenerated from `_as_item`) -/
theorem source_keeps_fractional_labels : Gen.convertKeepsFractionalLabels = true := by decide

/-- `_convert_type` does not turn 2000.75 into the item 2000 -/
theorem fractional_label_kept (d : Dim) (q : Rat) (hd : d.dtype = some .int) (hq : q.den ≠ 1) :
    convLabel d (.num q true) = some (.num q true) := by
  unfold convLabel keepsLabel
  rw [hd]
  simp [source_keeps_fractional_labels, hq]

/-- … and it is not an item of a dimension whose items are integers -/
theorem fractional_label_unknown (d : Dim) (q : Rat) (hv : d.valid = true) (hd : d.dtype = some .int)
    (hq : q.den ≠ 1) : itemPos? d (.num q true) = none := by
  unfold itemPos?
  have hall : ∀ it ∈ d.items, (Cell.ofItem it).pyEq (.num q true) = false := by
    intro it hit
    unfold Dim.valid at hv
    rw [hd] at hv
    simp only [Bool.and_eq_true, List.all_eq_true] at hv
    have ht := hv.2 it hit
    cases it with
    | str s => simp [Item.hasType] at ht
    | int i =>
      simp only [Cell.ofItem, Cell.pyEq, beq_eq_false_iff_ne, ne_eq]
      intro h
      apply hq
      rw [← h]
      simp
  have hidx : (d.items.map Cell.ofItem).findIdx (·.pyEq (.num q true)) = (d.items.map Cell.ofItem).length := by
    rw [List.findIdx_eq_length]
    intro c hc
    obtain ⟨it, hit, rfl⟩ := List.mem_map.mp hc
    simp [hall it hit]
  simp [hidx]

/-- **a row carrying a fractional label in an integer-typed dimension is refused** (default
`allow_extra_values=False`), whatever else the table holds: the label is converted to itself
(`fractional_label_kept`), is no item, and `unknown_item_refused` applies -/
theorem fractional_label_refused (d : Dim) (q : Rat) (hv : d.valid = true) (hd : d.dtype = some .int)
    (hq : q.den ≠ 1) (t : LongTable) (m : Bool) (v : Option Rat) (hr : ([.num q true], v) ∈ t.rows) :
    complete? [d] t m false = none := by
  apply unknown_item_refused [d] t m ([.num q true], v) hr
  simp [rowKnown, fractional_label_unknown d q hv hd hq]

/-- non-vacuity: 2000.75 in the column of time = (2000, 2001) -/
example :
    let d : Dim := { letter := 't', name := "time", items := [.int 2000, .int 2001], dtype := some .int }
    d.valid = true ∧ ((8003 : Rat) / 4).den ≠ 1 ∧ convLabel d (.num (8003 / 4) true) = some (.num (8003 / 4) true) ∧
    complete? [d] ⟨[([.num (8003 / 4) true], some 1), ([.num 2001 false], some 2)]⟩ false false = none := by
  decide +kernel

end Flodym.C12
