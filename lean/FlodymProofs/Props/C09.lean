import FlodymProofs.Props.C03
/-!
# C09 — cohort tables add up to the totals and each cohort is conserved

For the inflow-driven and the stock-driven model alike (both build their tables from the inflow,
the survival table and the interval lengths), on any time grid.
-/
open Finset BigOperators
namespace Flodym.C09
open Flodym Flodym.DSM

variable {K : Type} [Field K]

/-- cumulative outflow probability: Σ_{s ≤ t} pdf(s,c) = 1 − sf(t,c) for t ≥ c -/
theorem pdf_cumsum (sf : Nat → Nat → Nat → K) (hlt : LowerTri sf) (c j : Nat) :
    ∀ t, c ≤ t → ∑ s ∈ range (t + 1), pdfTable sf s c j = 1 - sf t c j := by
  intro t
  induction t with
  | zero =>
    intro h
    have : c = 0 := by omega
    subst this
    simp [pdfTable]
  | succ t ih =>
    intro h
    rw [sum_range_succ]
    by_cases hc : c = t + 1
    · subst hc
      have hz : ∑ s ∈ range (t + 1), pdfTable sf s (t + 1) j = 0 := by
        apply sum_eq_zero
        intro s hs
        have : s < t + 1 := mem_range.mp hs
        simp [pdfTable, this]
      rw [hz]
      simp [pdfTable]
    · have hle : c ≤ t := by omega
      rw [ih hle]
      have h1 : ¬ (t + 1 < c) := by omega
      have h2 : ¬ (t + 1 = c) := fun h => hc h.symm
      simp only [pdfTable, h1, h2, if_false, Nat.add_sub_cancel]
      ring

/-- before its own year a cohort has no outflow probability -/
theorem pdf_zero_before (sf : Nat → Nat → Nat → K) (t c j : Nat) (h : t < c) : pdfTable sf t c j = 0 := by
  simp [pdfTable, h]

/-! ## inflow-driven -/

theorem inflowDriven_tables (it : Nat → K) (n : Nat) (inflow : Nat → Nat → K)
    (sf : Nat → Nat → Nat → K) (hlt : LowerTri sf) (t j : Nat) :
    let r := inflowDriven it n inflow sf
    r.stock t j = ∑ c ∈ range n, r.stockByCohort t c j ∧
    r.outflow t j = ∑ c ∈ range n, r.outflowByCohort t c j ∧
    (∀ c, t < c → r.stockByCohort t c j = 0 ∧ r.outflowByCohort t c j = 0) ∧
    (∀ c, r.stockByCohort t c j = inflow c j * dt it n c * sf t c j) := by
  intro r
  refine ⟨?_, ?_, ?_, ?_⟩
  · show (inflowDriven it n inflow sf).stock t j = _
    rw [inflowDriven_stock]
    exact sum_congr rfl (fun c _ => (inflowDriven_sbc it n inflow sf t c j).symm)
  · show (inflowDriven it n inflow sf).outflow t j = _
    rw [inflowDriven_outflow]
    exact sum_congr rfl (fun c _ => (inflowDriven_obc it n inflow sf t c j).symm)
  · intro c hc
    constructor
    · show (inflowDriven it n inflow sf).stockByCohort t c j = 0
      rw [inflowDriven_sbc, hlt t c j hc, mul_zero]
    · show (inflowDriven it n inflow sf).outflowByCohort t c j = 0
      rw [inflowDriven_obc, pdf_zero_before sf t c j hc]; ring
  · intro c
    exact inflowDriven_sbc it n inflow sf t c j

/-- what entered a cohort = what is still in stock + what has left so far (rates × lengths) -/
theorem inflowDriven_cohort_conservation (it : Nat → K) (n : Nat) (inflow : Nat → Nat → K)
    (sf : Nat → Nat → Nat → K) (hlt : LowerTri sf) (hdt : ∀ t, t < n → dt it n t ≠ 0)
    (t c j : Nat) (hct : c ≤ t) (ht : t < n) :
    let r := inflowDriven it n inflow sf
    inflow c j * dt it n c
      = r.stockByCohort t c j + ∑ s ∈ range (t + 1), r.outflowByCohort s c j * dt it n s := by
  intro r
  show _ = (inflowDriven it n inflow sf).stockByCohort t c j
      + ∑ s ∈ range (t + 1), (inflowDriven it n inflow sf).outflowByCohort s c j * dt it n s
  rw [inflowDriven_sbc]
  have : ∑ s ∈ range (t + 1), (inflowDriven it n inflow sf).outflowByCohort s c j * dt it n s
      = inflow c j * dt it n c * ∑ s ∈ range (t + 1), pdfTable sf s c j := by
    rw [Finset.mul_sum]
    apply sum_congr rfl
    intro s hs
    rw [inflowDriven_obc]
    have := hdt s (by have := mem_range.mp hs; omega)
    field_simp
  rw [this, pdf_cumsum sf hlt c j t hct]
  ring

section order
variable [LinearOrder K] [IsStrictOrderedRing K]

/-- a cohort's stock never increases over time for non-negative inflow -/
theorem inflowDriven_cohort_antitone (it : Nat → K) (n : Nat) (inflow : Nat → Nat → K)
    (sf : Nat → Nat → Nat → K) (c j : Nat) (hin : 0 ≤ inflow c j) (hdt : 0 ≤ dt it n c)
    (hsf : ∀ t, c ≤ t → sf (t + 1) c j ≤ sf t c j) (t : Nat) (hct : c ≤ t) :
    (inflowDriven it n inflow sf).stockByCohort (t + 1) c j
      ≤ (inflowDriven it n inflow sf).stockByCohort t c j := by
  rw [inflowDriven_sbc, inflowDriven_sbc]
  exact mul_le_mul_of_nonneg_left (hsf t hct) (mul_nonneg hin hdt)

end order

/-! ## stock-driven: the same tables, built from the inflow the model finds -/

theorem stockDriven_sbc (it : Nat → K) (n : Nat) (stock : Nat → Nat → K) (sf : Nat → Nat → Nat → K)
    (t c j : Nat) :
    (stockDriven it n stock sf).stockByCohort t c j
      = (stockDriven it n stock sf).inflow c j * dt it n c * sf t c j := by
  unfold stockDriven stockDrivenFrom stockDrivenFromWith
  simp only [cohortMul_sd, toWholePeriod_apply]

theorem stockDriven_obc (it : Nat → K) (n : Nat) (stock : Nat → Nat → K) (sf : Nat → Nat → Nat → K)
    (t c j : Nat) :
    (stockDriven it n stock sf).outflowByCohort t c j
      = (stockDriven it n stock sf).inflow c j * dt it n c * pdfTable sf t c j * (1 / dt it n t) := by
  unfold stockDriven stockDrivenFrom stockDrivenFromWith
  exact computeOutflow_obc it n _ (pdfTable sf) t c j

theorem stockDriven_tables (it : Nat → K) (n : Nat) (stock : Nat → Nat → K)
    (sf : Nat → Nat → Nat → K) (hlt : LowerTri sf) (hd : ∀ t j, t < n → sf t t j ≠ 0)
    (hdt : ∀ t, t < n → dt it n t ≠ 0) (t j : Nat) (ht : t < n) :
    let r := stockDriven it n stock sf
    r.stock t j = ∑ c ∈ range n, r.stockByCohort t c j ∧
    r.outflow t j = ∑ c ∈ range n, r.outflowByCohort t c j ∧
    (∀ c, t < c → r.stockByCohort t c j = 0 ∧ r.outflowByCohort t c j = 0) := by
  intro r
  refine ⟨?_, ?_, ?_⟩
  · have h := C03.stockDriven_reproduces_stock it n stock sf hlt hd hdt t j ht
    show stock t j = _
    rw [← h]
    exact sum_congr rfl (fun c _ => (stockDriven_sbc it n stock sf t c j).symm)
  · show (stockDriven it n stock sf).outflow t j = _
    rw [C03.stockDriven_outflow]
    exact sum_congr rfl (fun c _ => (stockDriven_obc it n stock sf t c j).symm)
  · intro c hc
    constructor
    · show (stockDriven it n stock sf).stockByCohort t c j = 0
      rw [stockDriven_sbc, hlt t c j hc, mul_zero]
    · show (stockDriven it n stock sf).outflowByCohort t c j = 0
      rw [stockDriven_obc, pdf_zero_before sf t c j hc]; ring

theorem stockDriven_cohort_conservation (it : Nat → K) (n : Nat) (stock : Nat → Nat → K)
    (sf : Nat → Nat → Nat → K) (hlt : LowerTri sf) (hdt : ∀ t, t < n → dt it n t ≠ 0)
    (t c j : Nat) (hct : c ≤ t) (ht : t < n) :
    let r := stockDriven it n stock sf
    r.inflow c j * dt it n c
      = r.stockByCohort t c j + ∑ s ∈ range (t + 1), r.outflowByCohort s c j * dt it n s := by
  intro r
  show (stockDriven it n stock sf).inflow c j * dt it n c
      = (stockDriven it n stock sf).stockByCohort t c j
        + ∑ s ∈ range (t + 1), (stockDriven it n stock sf).outflowByCohort s c j * dt it n s
  rw [stockDriven_sbc]
  have : ∑ s ∈ range (t + 1), (stockDriven it n stock sf).outflowByCohort s c j * dt it n s
      = (stockDriven it n stock sf).inflow c j * dt it n c * ∑ s ∈ range (t + 1), pdfTable sf s c j := by
    rw [Finset.mul_sum]
    apply sum_congr rfl
    intro s hs
    rw [stockDriven_obc]
    have := hdt s (by have := mem_range.mp hs; omega)
    field_simp
  rw [this, pdf_cumsum sf hlt c j t hct]
  ring

end Flodym.C09
