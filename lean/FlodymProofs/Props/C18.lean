import FlodymProofs.Lemmas.BuildDict
import FlodymGen.IOSites
/-!
# C18 — systems built from definitions and files match what was defined

Theorems about `Flodym/Build.lean` (tied to the code by stream `build`). Everything is for lists of
any length; names are arbitrary strings.
-/
namespace Flodym.C18
open Flodym Flodym.Build DimSet

/-! ## processes: numbered in the listed order, the system environment first -/

/-- the dictionary `make_processes` must produce: name ↦ (name, position) -/
def numbered (names : List String) (k : Nat) : List (String × ProcessM) :=
  (List.zip (List.range' k names.length) names).map fun p => (p.2, { name := p.2, id := p.1 })

theorem mkProcess_pos (n : String) (i : Nat) (h : 0 < i) : mkProcess? n i = some { name := n, id := i } := by
  unfold mkProcess?
  have : (i == 0) = false := by simp; omega
  simp [this]

theorem mkProcess_sysenv : mkProcess? Gen.sysenvName 0 = some { name := Gen.sysenvName, id := 0 } := by
  unfold mkProcess?; simp

theorem mkProcess_refuses (n : String) (h : n ≠ Gen.sysenvName) : mkProcess? n 0 = none := by
  unfold mkProcess?; simp [h]

/-- **anything but the system environment in first place is refused** -/
theorem processes_refused (n : String) (rest : List String) (h : n ≠ Gen.sysenvName) :
    makeProcesses? (n :: rest) = none := by
  unfold makeProcesses?
  apply buildDict_none _ _ (0, n)
  · simp [List.range_succ_eq_map]
  · simp [mkProcess_refuses n h]

/-- **processes are numbered in the listed order** (distinct names, the environment first) -/
theorem processes_numbered (rest : List String) (hnd : (Gen.sysenvName :: rest).Nodup) :
    makeProcesses? (Gen.sysenvName :: rest) = some (numbered (Gen.sysenvName :: rest) 0) := by
  unfold makeProcesses? numbered
  rw [List.range_eq_range']
  apply buildDict_spec
  · intro p hp
    have hmem := List.of_mem_zip hp
    by_cases h0 : p.1 = 0
    · -- position 0 is the head of the list
      have : p.2 = Gen.sysenvName := by
        simp only [List.length_cons, List.range'_succ, List.zip_cons_cons, List.mem_cons] at hp
        rcases hp with h | h
        · rw [h]
        · have := (List.of_mem_zip h).1
          simp only [List.mem_range'_1] at this
          omega
      rw [this, h0, mkProcess_sysenv]
      simp [this, h0]
    · rw [mkProcess_pos _ _ (by omega)]
      rfl
  · refine (?_ : (List.map (fun a : Nat × String => a.2)
      (List.zip (List.range' 0 (Gen.sysenvName :: rest).length) (Gen.sysenvName :: rest))).Nodup)
    rw [List.map_snd_zip (by simp)]
    exact hnd

/-- every listed name gets its position as id -/
theorem process_id_is_position (names : List String) (k i : Nat) (h : i < names.length) :
    (numbered names k)[i]? = some (names[i], { name := names[i], id := k + i }) := by
  unfold numbered
  simp [List.getElem?_map, List.getElem?_zip_eq_some, h]

/-! ## flows -/

/-- **one flow of a definition**: from the named source to the named target, under the overriding or
generated name, over exactly the listed dimensions (in the listed order, taken from the system's
dimension set) -/
theorem flow_spec (procs : List (String × ProcessM)) (hk : (procs.map (·.1)).Nodup) (dims : DimSet)
    (hnd : (letters dims).Nodup) (hn : NamesOk dims) (naming : Naming) (fd : FlowDef) (f t : ProcessM)
    (hf : (fd.fromName, f) ∈ procs) (ht : (fd.toName, t) ∈ procs)
    (ds : List Dim) (hds : ∀ d ∈ ds, d ∈ dims) (hdn : (letters ds).Nodup)
    (hl : fd.letters = (letters ds).map (·.toString)) :
    flowOf? procs dims naming fd =
      some { name := (match fd.nameOverride with | some n => n | none => flowName naming f t),
             fromP := f, toP := t, dims := ds } := by
  unfold flowOf?
  rw [dictGet?_mem procs hk _ _ hf, dictGet?_mem procs hk _ _ ht, hl, getSubset?_letters dims hnd hn ds hds hdn]
  rfl

/-- a flow naming a process that was not listed is refused -/
theorem flow_unknown_process (procs : List (String × ProcessM)) (dims : DimSet) (naming : Naming) (fd : FlowDef)
    (h : (∀ e ∈ procs, e.1 ≠ fd.fromName) ∨ (∀ e ∈ procs, e.1 ≠ fd.toName)) :
    flowOf? procs dims naming fd = none := by
  unfold flowOf?
  rcases h with h | h
  · rw [dictGet?_none procs _ h]; rfl
  · rw [dictGet?_none procs _ h]
    cases dictGet? procs fd.fromName <;> rfl

/-- a flow over a dimension the system does not have is refused -/
theorem flow_unknown_dimension (procs : List (String × ProcessM)) (dims : DimSet) (naming : Naming) (fd : FlowDef)
    (key : String) (hk : key ∈ fd.letters) (h : ∀ d ∈ dims, d.name ≠ key ∧ d.letter.toString ≠ key) :
    flowOf? procs dims naming fd = none := by
  unfold flowOf?
  have : getSubset? dims (some fd.letters) = none := by
    show (List.mapM (lookup? dims) fd.letters).bind DimSet.mk? = none
    have : List.mapM (lookup? dims) fd.letters = none := by
      generalize fd.letters = keys at hk
      induction keys with
      | nil => cases hk
      | cons k ks ih =>
        simp only [List.mapM_cons]
        cases hk with
        | head => rw [lookup?_unknown dims key h]; rfl
        | tail _ h' =>
          rw [ih h']
          cases lookup? dims k <;> rfl
    rw [this]; rfl
  rw [this]
  cases dictGet? procs fd.fromName <;> cases dictGet? procs fd.toName <;> rfl

/-- **one flow per flow definition, in the defined order** (distinct names) -/
theorem flows_spec (procs : List (String × ProcessM)) (dims : DimSet) (naming : Naming) (defs : List FlowDef)
    (g : FlowDef → FlowM) (hg : ∀ fd ∈ defs, flowOf? procs dims naming fd = some (g fd))
    (hnd : (defs.map fun fd => (g fd).name).Nodup) :
    makeEmptyFlows? procs defs dims naming = some (defs.map fun fd => ((g fd).name, g fd)) := by
  unfold makeEmptyFlows?
  apply buildDict_spec defs _ (fun fd => ((g fd).name, g fd))
  · intro fd hfd
    rw [hg fd hfd]; rfl
  · exact hnd

/-- one refused flow definition refuses the whole system -/
theorem flows_refused (procs : List (String × ProcessM)) (dims : DimSet) (naming : Naming) (defs : List FlowDef)
    (fd : FlowDef) (hfd : fd ∈ defs) (h : flowOf? procs dims naming fd = none) :
    makeEmptyFlows? procs defs dims naming = none := by
  unfold makeEmptyFlows?
  exact buildDict_none defs _ fd hfd (by rw [h]; rfl)

/-! ## stocks -/

/-- **one stock of a definition**: requested class, lifetime model, solver (for the class that has
one), time letter and process, over the listed dimensions — provided time comes first -/
theorem stock_spec (procs : List (String × ProcessM)) (hk : (procs.map (·.1)).Nodup) (dims : DimSet)
    (hnd : (letters dims).Nodup) (hn : NamesOk dims) (sd : StockDef) (tl : Char) (htl : sd.timeLetter = tl.toString)
    (proc : Option ProcessM)
    (hp : match sd.process, proc with
          | none, none => True
          | some p, some pr => (p, pr) ∈ procs
          | _, _ => False)
    (t : Dim) (rest : List Dim) (ht : t.letter = tl) (hds : ∀ d ∈ t :: rest, d ∈ dims) (hdn : (letters (t :: rest)).Nodup)
    (hl : sd.letters = (letters (t :: rest)).map (·.toString)) :
    stockOf? procs dims sd =
      some { name := sd.name, cls := sd.cls, lifetime := sd.lifetime,
             solver := if sd.cls.hasSolver then some sd.solver else none,
             timeLetter := sd.timeLetter, process := proc, dims := t :: rest } := by
  have htoList : sd.timeLetter.toList = [tl] := by rw [htl]; simp
  have hlook : (lookup? (t :: rest) tl.toString).isSome = true := by
    rw [← ht, lookup?_letter (t :: rest) hdn (fun d hd => hn d (hds d hd)) t (by simp)]; rfl
  have hhead : (letters (t :: rest)).head? = some tl := by simp [letters, ht]
  have hla : lifetimeAccepts (t :: rest) tl "middle" = true := by
    unfold lifetimeAccepts
    rw [hhead, hlook]
    simp [Gen.inflowAtAllowed]
  have hsa : stockAccepts (t :: rest) tl [] [] = true := by
    unfold stockAccepts
    rw [hhead]; simp
  have hproc : resolveProc? procs sd.process = some proc := by
    unfold resolveProc?
    cases hsp : sd.process with
    | none =>
      cases proc with
      | none => rfl
      | some pr => rw [hsp] at hp; exact absurd hp (by simp)
    | some p =>
      cases proc with
      | none => rw [hsp] at hp; exact absurd hp (by simp)
      | some pr =>
        rw [hsp] at hp
        simp only [dictGet?_mem procs hk p pr hp, Option.map_some]
  have htc : timeChar? sd.timeLetter = some tl := by unfold timeChar?; rw [htoList]
  unfold stockOf?
  rw [hl, getSubset?_letters dims hnd hn (t :: rest) hds hdn, hproc, htc]
  simp [hla, hsa]

/-- **time anywhere but first is refused** when the stock is built -/
theorem stock_time_not_first (procs : List (String × ProcessM)) (dims : DimSet) (sd : StockDef) (sub : DimSet)
    (hs : getSubset? dims (some sd.letters) = some sub) (tl : Char) (htl : sd.timeLetter.toList = [tl])
    (h : (letters sub).head? ≠ some tl) : stockOf? procs dims sd = none := by
  have htc : timeChar? sd.timeLetter = some tl := by unfold timeChar?; rw [htl]
  have hsa : stockAccepts sub tl [] [] = false := by
    unfold stockAccepts
    have : ((letters sub).head? == some tl) = false := by simpa using h
    rw [this]; simp
  unfold stockOf?
  rw [hs, htc]
  cases resolveProc? procs sd.process with
  | none => rfl
  | some pr => simp [hsa]

/-- a stock at a process that was not listed is refused -/
theorem stock_unknown_process (procs : List (String × ProcessM)) (dims : DimSet) (sd : StockDef) (p : String)
    (hp : sd.process = some p) (h : ∀ e ∈ procs, e.1 ≠ p) : stockOf? procs dims sd = none := by
  have : resolveProc? procs sd.process = none := by
    rw [hp]; unfold resolveProc?; simp [dictGet?_none procs p h]
  unfold stockOf?
  rw [this]
  cases getSubset? dims (some sd.letters) <;> rfl

/-- **one stock per stock definition** (distinct names) -/
theorem stocks_spec (procs : List (String × ProcessM)) (dims : DimSet) (defs : List StockDef)
    (g : StockDef → StockM) (hg : ∀ sd ∈ defs, stockOf? procs dims sd = some (g sd))
    (hnd : (defs.map fun sd => (g sd).name).Nodup) :
    makeEmptyStocks? defs procs dims = some (defs.map fun sd => ((g sd).name, g sd)) := by
  unfold makeEmptyStocks?
  apply buildDict_spec defs _ (fun sd => ((g sd).name, g sd))
  · intro sd hsd
    rw [hg sd hsd]; rfl
  · exact hnd

theorem stocks_refused (procs : List (String × ProcessM)) (dims : DimSet) (defs : List StockDef)
    (sd : StockDef) (hsd : sd ∈ defs) (h : stockOf? procs dims sd = none) :
    makeEmptyStocks? defs procs dims = none := by
  unfold makeEmptyStocks?
  exact buildDict_none defs _ sd hsd (by rw [h]; rfl)

/-! ## definitions that are refused as definitions -/

/-- a class that needs a lifetime model but gets none, or gets one it does not use -/
theorem lifetime_mismatch_invalid (sd : StockDef) (h : sd.lifetime.isSome ≠ sd.cls.hasLifetime) : sd.valid = false := by
  unfold StockDef.valid
  have : (sd.lifetime.isSome == sd.cls.hasLifetime) = false := by simpa using h
  rw [this]; simp

theorem unknown_solver_invalid (sd : StockDef) (h : sd.solver ∉ Gen.solverNames) : sd.valid = false := by
  unfold StockDef.valid
  have : Gen.solverNames.contains sd.solver = false := by simpa using h
  rw [this]; simp

/-- **a definition with such a stock is refused** -/
theorem definition_with_invalid_stock_refused (d : MFADef) (dims : DimSet) (naming : Naming) (sd : StockDef)
    (hsd : sd ∈ d.stocks) (h : sd.valid = false) : buildSystem? d dims naming = none := by
  unfold buildSystem?
  have : d.valid = false := by
    unfold MFADef.valid
    have : d.stocks.all StockDef.valid = false := by
      rw [List.all_eq_false]
      exact ⟨sd, hsd, by simp [h]⟩
    rw [this]; simp
  rw [this]; rfl

/-- **a definition mentioning an undefined dimension letter is refused** (flows; the same test covers
stocks and parameters) -/
theorem definition_with_undefined_letter_refused (d : MFADef) (dims : DimSet) (naming : Naming) (fd : FlowDef)
    (hfd : fd ∈ d.flows) (l : String) (hl : l ∈ fd.letters) (hu : l ∉ d.dimLetters) :
    buildSystem? d dims naming = none := by
  unfold buildSystem?
  have : d.valid = false := by
    unfold MFADef.valid
    have : d.flows.all (fun f => f.letters.all d.dimLetters.contains) = false := by
      rw [List.all_eq_false]
      refine ⟨fd, hfd, ?_⟩
      simp only [Bool.not_eq_true, List.all_eq_false]
      exact ⟨l, hl, by simpa using hu⟩
    rw [this]; simp
  rw [this]; rfl

theorem stock_with_undefined_letter_refused (d : MFADef) (dims : DimSet) (naming : Naming) (sd : StockDef)
    (hsd : sd ∈ d.stocks) (l : String) (hl : l ∈ sd.letters) (hu : l ∉ d.dimLetters) :
    buildSystem? d dims naming = none := by
  unfold buildSystem?
  have : d.valid = false := by
    unfold MFADef.valid
    have : d.stocks.all (fun f => f.letters.all d.dimLetters.contains) = false := by
      rw [List.all_eq_false]
      refine ⟨sd, hsd, ?_⟩
      simp only [Bool.not_eq_true, List.all_eq_false]
      exact ⟨l, hl, by simpa using hu⟩
    rw [this]; simp
  rw [this]; rfl

theorem parameter_with_undefined_letter_refused (d : MFADef) (dims : DimSet) (naming : Naming) (pd : ParamDef)
    (hpd : pd ∈ d.params) (l : String) (hl : l ∈ pd.letters) (hu : l ∉ d.dimLetters) :
    buildSystem? d dims naming = none := by
  unfold buildSystem?
  have : d.valid = false := by
    unfold MFADef.valid
    have : d.params.all (fun f => f.letters.all d.dimLetters.contains) = false := by
      rw [List.all_eq_false]
      refine ⟨pd, hpd, ?_⟩
      simp only [Bool.not_eq_true, List.all_eq_false]
      exact ⟨l, hl, by simpa using hu⟩
    rw [this]; simp
  rw [this]; rfl

/-! ## the assembled system -/

/-- **`from_data_reader` once the dimensions are read**: a valid definition whose parts all build
yields exactly the listed processes, flows, stocks and parameters -/
theorem system_spec (d : MFADef) (dims : DimSet) (naming : Naming) (hv : d.valid = true)
    (procs : List (String × ProcessM)) (hp : makeProcesses? d.processes = some procs)
    (gf : FlowDef → FlowM) (hgf : ∀ fd ∈ d.flows, flowOf? procs dims naming fd = some (gf fd))
    (hfn : (d.flows.map fun fd => (gf fd).name).Nodup)
    (gs : StockDef → StockM) (hgs : ∀ sd ∈ d.stocks, stockOf? procs dims sd = some (gs sd))
    (hsn : (d.stocks.map fun sd => (gs sd).name).Nodup)
    (gp : ParamDef → DimSet) (hgp : ∀ p ∈ d.params, getSubset? dims (some p.letters) = some (gp p))
    (hpn : (d.params.map (·.name)).Nodup) :
    ∃ sys, buildSystem? d dims naming = some sys ∧ sys.processes = procs ∧
      sys.flows = d.flows.map (fun fd => ((gf fd).name, gf fd)) ∧
      sys.stocks = d.stocks.map (fun sd => ((gs sd).name, gs sd)) ∧
      sys.params = d.params.map (fun p => (p.name, gp p)) := by
  refine ⟨{ processes := procs, flows := _, stocks := _, params := _ }, ?_, rfl, rfl, rfl, rfl⟩
  unfold buildSystem?
  rw [hv]
  have h1 : buildDict d.params (fun p => (getSubset? dims (some p.letters)).map fun sub => (p.name, sub))
      = some (d.params.map fun p => (p.name, gp p)) := by
    apply buildDict_spec d.params _ (fun p => (p.name, gp p))
    · intro p hp'; rw [hgp p hp']; rfl
    · exact hpn
  simp only [Bool.not_true, Bool.false_eq_true, if_false, h1, hp, flows_spec procs dims naming d.flows gf hgf hfn,
    stocks_spec procs dims d.stocks gs hgs hsn, Option.bind_eq_bind, Option.bind_some]

/-! ## dimension files -/

/-- several rows and several columns are refused -/
theorem fromNp_block_refused (r1 r2 : List Cell) (rows : List (List Cell)) (name : String) (l : Char) (dt : DType)
    (h : 1 < r1.length) : fromNp? (r1 :: r2 :: rows) name l dt = none := by
  unfold fromNp?
  have hc : (decide ((r1 :: r2 :: rows).length > 1) &&
      decide (((r1 :: r2 :: rows).head?.map List.length).getD 0 > 1)) = true := by
    simp only [List.length_cons, List.head?_cons, Option.map_some, Option.getD_some, Bool.and_eq_true, decide_eq_true_eq]
    exact ⟨by omega, by simpa using h⟩
  simp only [hc, if_true]

/-- an empty file is refused -/
theorem fromNp_empty_refused (name : String) (l : Char) (dt : DType) : fromNp? [] name l dt = none := by
  unfold fromNp?; simp

/-- the flattened cells of one row or one column -/
def oneLine (cells : List (List Cell)) : Prop := cells.length ≤ 1 ∨ (cells.head?.map List.length).getD 0 ≤ 1

/-- **items in file order, converted to the declared type**; a first cell equal to the dimension's
name is a header and is dropped -/
theorem fromNp_spec (cells : List (List Cell)) (h1 : oneLine cells) (name : String) (l : Char) (dt : DType)
    (first : Cell) (rest : List Cell) (hflat : cells.flatten = first :: rest)
    (items : List Item)
    (hconv : (if first = Cell.str name then rest else first :: rest).mapM (convertCell dt) = some items)
    (hname : 2 ≤ name.length) :
    fromNp? cells name l dt = some { letter := l, name := name, items := items, dtype := some dt } := by
  unfold fromNp?
  have hnot : ¬ ((decide (cells.length > 1) && decide ((cells.head?.map List.length).getD 0 > 1)) = true) := by
    unfold oneLine at h1
    simp only [Bool.and_eq_true, decide_eq_true_eq]
    omega
  rw [if_neg hnot, hflat]
  have hbody : (if (first == Cell.str name) = true then rest else first :: rest)
      = (if first = Cell.str name then rest else first :: rest) := by
    by_cases h : first = Cell.str name <;> simp [h]
  simp only [hbody, hconv, Option.bind_some]
  rw [if_pos]
  -- the resulting dimension is valid: converted items have the declared type
  unfold Dim.valid
  simp only [decide_eq_true hname, Bool.true_and]
  rw [List.all_eq_true]
  intro it hit
  have : ∀ (cs : List Cell) (its : List Item), cs.mapM (convertCell dt) = some its → ∀ it ∈ its, it.hasType dt = true := by
    intro cs
    induction cs with
    | nil => intro its h; simp at h; subst h; intro _ h; cases h
    | cons c cs ih =>
      intro its h it hit
      simp only [List.mapM_cons, Option.bind_eq_bind] at h
      cases hc : convertCell dt c with
      | none => rw [hc] at h; cases h
      | some i0 =>
        rw [hc] at h
        cases hr : cs.mapM (convertCell dt) with
        | none => rw [hr] at h; cases h
        | some is =>
          rw [hr] at h
          simp only [Option.bind_some, Option.pure_def, Option.some.injEq] at h
          subst h
          cases hit with
          | head =>
            -- one converted cell has the declared type
            unfold convertCell at hc
            cases dt <;> cases c <;> simp only at hc
            all_goals (try (split at hc))
            all_goals (try (cases hc; rfl))
            all_goals (try (cases hc))
            all_goals (
              first
              | (obtain ⟨i, _, rfl⟩ := Option.map_eq_some_iff.mp hc; rfl)
              | skip)
          | tail _ h' => exact ih is hr it h'
  exact this _ items hconv it hit

/-- texts are kept verbatim by a `str` dimension; integers by an `int` dimension -/
theorem convert_str_text (s : String) : convertCell .str (.str s) = some (.str s) := rfl
theorem convert_int_int (i : Int) : convertCell .int (.int i) = some (.int i) := rfl
theorem convert_str_int (i : Int) : convertCell .str (.int i) = some (.str (toString i)) := rfl

theorem digits_all (cs : List Char) : ∀ (acc n : Nat),
    cs.foldlM (fun acc c => (digitVal? c).map fun d => acc * 10 + d) acc = some n →
    cs.all (fun c => (digitVal? c).isSome) = true := by
  induction cs with
  | nil => intro _ _ _; rfl
  | cons c cs ih =>
    intro acc n h
    simp only [List.foldlM_cons, Option.bind_eq_bind] at h
    cases hc : digitVal? c with
    | none => rw [hc] at h; cases h
    | some d =>
      rw [hc] at h
      simp only [Option.map_some, Option.bind_some] at h
      simp only [List.all_cons, hc, Option.isSome_some, Bool.true_and]
      exact ih _ _ h

theorem digit_not_dot (c : Char) (h : (digitVal? c).isSome = true) : c ≠ '.' := by
  intro hc
  subst hc
  revert h
  decide

theorem natOfDigits_num (cs : List Char) (n : Nat) (h : natOfDigits? cs = some n) :
    cs ≠ [] ∧ cs.all (fun c => (digitVal? c).isSome) = true := by
  unfold natOfDigits? at h
  split at h
  · cases h
  · rename_i hne
    exact ⟨by intro h'; subst h'; simp at hne, digits_all cs 0 n h⟩

theorem no_dot (cs : List Char) (h : cs.all (fun c => (digitVal? c).isSome) = true) :
    cs.takeWhile (· != '.') = cs ∧ cs.dropWhile (· != '.') = [] := by
  have : ∀ c ∈ cs, (c != '.') = true := by
    intro c hc
    have := digit_not_dot c ((List.all_eq_true.mp h) c hc)
    simpa using this
  clear h
  induction cs with
  | nil => exact ⟨rfl, rfl⟩
  | cons c cs ih =>
    have hc := this c (by simp)
    have := ih (fun c' hc' => this c' (by simp [hc']))
    simp only [List.takeWhile_cons, List.dropWhile_cons, hc, if_true, this.1, this.2, and_self]

/-- every integer text is a number text -/
theorem isNum_of_isInt (s : String) (h : isIntText s = true) : isNumText s = true := by
  unfold isIntText intOfText? at h
  unfold isNumText
  generalize s.toList = cs at h ⊢
  have key : ∀ (r : List Char) (n : Nat), natOfDigits? r = some n →
      (match r.dropWhile (· != '.') with
       | [] => !(r.takeWhile (· != '.')).isEmpty && (r.takeWhile (· != '.')).all (fun c => (digitVal? c).isSome)
       | _ :: b => (r.takeWhile (· != '.')).all (fun c => (digitVal? c).isSome) && b.all (fun c => (digitVal? c).isSome) &&
           !((r.takeWhile (· != '.')).isEmpty && b.isEmpty)) = true := by
    intro r n hr
    obtain ⟨hne, hall⟩ := natOfDigits_num r n hr
    obtain ⟨h1, h2⟩ := no_dot r hall
    rw [h2, h1]
    cases r with
    | nil => exact absurd rfl hne
    | cons c r => simpa using hall
  unfold intOfChars? at h
  split at h
  · rename_i r
    cases hr : natOfDigits? r with
    | none => rw [hr] at h; cases h
    | some n => exact key r n hr
  · rename_i hnot
    have hcs : stripDash cs = cs := by
      unfold stripDash
      split
      · rename_i r; exact absurd rfl (hnot r)
      · rfl
    cases hr : natOfDigits? cs with
    | none => rw [hr] at h; cases h
    | some n =>
      have := key cs n hr
      simp only [hcs]
      exact this

/-- **a CSV column holding some non-numeric text reaches the converter as the texts that were written** -/
theorem csv_text_column (col : List String) (h : ∃ s ∈ col, isNumText s = false) :
    csvColumnCells col = col.map Cell.str := by
  unfold csvColumnCells
  obtain ⟨s, hs, hn⟩ := h
  have h2 : col.all isNumText = false := by
    rw [List.all_eq_false]; exact ⟨s, hs, by simp [hn]⟩
  have h1 : col.all isIntText = false := by
    rw [List.all_eq_false]
    refine ⟨s, hs, ?_⟩
    intro hi
    rw [isNum_of_isInt s hi] at hn
    cases hn
  rw [h1, h2]
  simp

/-- a CSV column of integer texts reaches the converter as integers -/
theorem csv_int_column (col : List String) (h : ∀ s ∈ col, isIntText s = true) :
    csvColumnCells col = col.map (fun s => Cell.int ((intOfText? s).getD 0)) := by
  unfold csvColumnCells
  have : col.all isIntText = true := by rw [List.all_eq_true]; exact h
  rw [this]; simp

/-! ## the source as the model reads it (regenerated on every run) -/

/-- the readers keep labels such as "NA" (D24), open the first sheet when none is named (D15), and
`make_empty_stocks` hands the solver on (D23) -/
theorem source_build_sites :
    Gen.dimReadersKeepLabels = true ∧ Gen.excelDefaultSheetIsFirst = true ∧ Gen.stocksGetSolver = true ∧
    Gen.stockDefaultTimeLetter = "t" := by
  decide

/-- a stock definition that names no time letter gets the fixed default (`Gen.stockDefaultTimeLetter`,
regenerated from the field's declaration: `t`), never "whatever comes first": unless its dimensions
start with `t` it is refused when the stock is built -/
theorem default_time_letter_not_first_refused (procs : List (String × ProcessM)) (dims : DimSet) (sd : StockDef)
    (sub : DimSet) (hs : getSubset? dims (some sd.letters) = some sub)
    (htl : sd.timeLetter = Gen.stockDefaultTimeLetter) (h : (letters sub).head? ≠ some 't') :
    stockOf? procs dims sd = none :=
  stock_time_not_first procs dims sd sub hs 't' (by rw [htl]; decide) h

/-! ## non-vacuity: a concrete definition meets the hypotheses -/

def exDims : DimSet :=
  [{ letter := 't', name := "time", items := [.int 2000, .int 2001], dtype := some .int },
   { letter := 'r', name := "region", items := [.str "EU", .str "NA"], dtype := some .str }]

def exDef : MFADef :=
  { dimLetters := ["t", "r"], processes := ["sysenv", "use", "end of life"],
    flows := [{ fromName := "sysenv", toName := "use", letters := ["t", "r"] },
              { fromName := "use", toName := "end of life", letters := ["r", "t"], nameOverride := some "scrap" }],
    stocks := [{ name := "in use", process := some "use", letters := ["t", "r"], timeLetter := "t",
                 cls := .inflowDriven, lifetime := some "NormalLifetime" }],
    params := [{ name := "share", letters := ["r"] }] }

example : (buildSystem? exDef exDims .arrow).map (fun s => s.processes.map (fun p => (p.1, p.2.id)))
    = some [("sysenv", 0), ("use", 1), ("end of life", 2)] := by decide
example : (buildSystem? exDef exDims .arrow).map (fun s => s.flows.map (fun f => (f.1, f.2.fromP.id, f.2.toP.id, letters f.2.dims)))
    = some [("sysenv => use", 0, 1, ['t', 'r']), ("scrap", 1, 2, ['r', 't'])] := by decide
example : (buildSystem? exDef exDims .arrow).map (fun s => s.stocks.map (fun st => (st.1, st.2.lifetime, letters st.2.dims)))
    = some [("in use", some "NormalLifetime", ['t', 'r'])] := by decide
example : (buildSystem? exDef exDims .arrow).map (fun s => s.stocks.map (fun st => (st.2.cls, st.2.solver, st.2.timeLetter)))
    = some [(.inflowDriven, none, "t")] := by decide
example : (buildSystem? exDef exDims .arrow).map (fun s => s.params.map (fun p => (p.1, letters p.2)))
    = some [("share", ['r'])] := by decide

/-- the same stock with time second is refused -/
def exBadStock : StockDef :=
  { name := "in use", process := some "use", letters := ["r", "t"], timeLetter := "t", cls := .inflowDriven,
    lifetime := some "NormalLifetime" }
example : (buildSystem? { exDef with stocks := [exBadStock] } exDims .arrow).isNone = true := by decide

example : fromNp? (csvCells [["region"], ["EU"], ["NA"], ["2000"]]) "region" 'r' .str
    = some { letter := 'r', name := "region", items := [.str "EU", .str "NA", .str "2000"], dtype := some .str } := by
  decide

example : fromNp? (csvCells [["2000", "2001", "2002"]]) "time" 't' .int
    = some { letter := 't', name := "time", items := [.int 2000, .int 2001, .int 2002], dtype := some .int } := by
  decide

end Flodym.C18
