import FlodymProofs.Props.C13
/-!
# C15 — operations never modify their inputs, and results are independent objects

Two views of the same store. Value view (`SStore`): an operation that is not in-place binds its
result to a new handle and leaves every other handle's array as it was. Identity view (`Heap`):
results are allocated in a fresh numpy buffer, so writing into a result (or into a source) can
never show in another array that lives in a different buffer; this is the argument for `copy`,
arithmetic, `cast_to`, `full_like`, slice reads, and for the copy taken by `x[...] = ndarray`.
The driver's store allocates exactly this way (`Store.alloc`), and the `history` / `index`
correspondence streams write through every returned array and compare full-store dumps, so an
implementation that returns a view where the model allocates shows up as a disagreement.
(`sum_to`/`sum_over` with nothing to sum return numpy views of their source; the model mirrors
that, the property does not list reductions among the independent results.) Core Lean only.
-/
namespace Flodym.C15
open Flodym

variable {α : Type}

/-! ## value view: inputs untouched -/

/-- a (successful or failed) operation that is not in-place leaves every *other* array unchanged -/
theorem pure_op_preserves_inputs (s : SStore α) (h : Nat) (f : SStore α → Option (FArr α))
    (h' : Nat) (hne : h' ≠ h) : (s.step (.new h f)).get? h' = s.get? h' := by
  show (match f s with | some x => s.put h x | none => s).get? h' = _
  cases f s with
  | none => rfl
  | some x => rw [C13.get?_put]; simp [hne]

/-- an in-place assignment changes at most its own target -/
theorem assign_touches_only_target (s : SStore α) (h : Nat) (g : FArr α → SStore α → Option (FArr α))
    (h' : Nat) (hne : h' ≠ h) : (s.step (.assign h g)).get? h' = s.get? h' := by
  show (match s.get? h with
    | some x => (match g x s with | some x' => s.put h x' | none => s)
    | none => s).get? h' = _
  cases s.get? h with
  | none => rfl
  | some x =>
    simp only
    cases g x s with
    | none => rfl
    | some x' => rw [C13.get?_put]; simp [hne]

/-- over a whole history of operations: an array is only ever changed by operations addressed
to its own handle -/
theorem history_preserves_untouched (ops : List (SOp α)) (s : SStore α) (h' : Nat)
    (hno : ∀ op ∈ ops, match op with | .new h _ => h ≠ h' | .assign h _ => h ≠ h') :
    (s.run ops).get? h' = s.get? h' := by
  unfold SStore.run
  induction ops generalizing s with
  | nil => rfl
  | cons op ops ih =>
    simp only [List.foldl_cons]
    rw [ih _ (fun o ho => hno o (by simp [ho]))]
    have := hno op (by simp)
    cases op with
    | new h f => exact pure_op_preserves_inputs s h f h' (Ne.symm this)
    | assign h g => exact assign_touches_only_target s h g h' (Ne.symm this)

/-! ## identity view: results live in fresh buffers -/

variable {β : Type}

/-- all buffer ids in use are below the allocation counter -/
def Heap.Inv (h : Heap β) : Prop := ∀ hd b, h.owner hd = some b → b < h.next

theorem allocFresh_inv (h : Heap β) (hd : Nat) (c : β) (hi : Heap.Inv h) : Heap.Inv (h.allocFresh hd c) := by
  intro hd' b hb
  unfold Heap.allocFresh at hb ⊢
  simp only at hb ⊢
  by_cases e : hd' = hd
  · simp [e] at hb; omega
  · simp [e] at hb; have := hi hd' b hb; omega

/-- allocating a result leaves what every other handle reads unchanged (inputs untouched) -/
theorem allocFresh_preserves_reads (h : Heap β) (hd : Nat) (c : β) (hi : Heap.Inv h) (hd' : Nat)
    (hne : hd' ≠ hd) : (h.allocFresh hd c).read hd' = h.read hd' := by
  unfold Heap.read Heap.allocFresh
  simp only [hne, if_false]
  cases ho : h.owner hd' with
  | none => rfl
  | some b =>
    have : b ≠ h.next := by have := hi hd' b ho; omega
    simp [this]

theorem allocFresh_read_self (h : Heap β) (hd : Nat) (c : β) : (h.allocFresh hd c).read hd = some c := by
  simp [Heap.read, Heap.allocFresh]

/-- **a fresh result is independent**: writing into it never changes what any other handle reads,
and writing into any other handle never changes it -/
theorem fresh_result_independent (h : Heap β) (hd : Nat) (c : β) (hi : Heap.Inv h) (hd' : Nat)
    (hne : hd' ≠ hd) (c' : β) :
    ((h.allocFresh hd c).write hd c').read hd' = h.read hd' ∧
    ((h.allocFresh hd c).write hd' c').read hd = some c := by
  constructor
  · unfold Heap.write
    have ho : (h.allocFresh hd c).owner hd = some h.next := by simp [Heap.allocFresh]
    rw [ho]
    unfold Heap.read
    simp only
    have ho' : (h.allocFresh hd c).owner hd' = h.owner hd' := by simp [Heap.allocFresh, hne]
    rw [ho']
    cases hb : h.owner hd' with
    | none => rfl
    | some b =>
      have : b ≠ h.next := by have := hi hd' b hb; omega
      simp [Heap.allocFresh, this]
  · unfold Heap.write
    have ho' : (h.allocFresh hd c).owner hd' = h.owner hd' := by simp [Heap.allocFresh, hne]
    rw [ho']
    cases hb : h.owner hd' with
    | none => exact allocFresh_read_self h hd c
    | some b =>
      have hbn : b ≠ h.next := by have := hi hd' b hb; omega
      simp only [Heap.read]
      have ho : (h.allocFresh hd c).owner hd = some h.next := by simp [Heap.allocFresh]
      rw [ho]
      simp [Heap.allocFresh, Ne.symm hbn]

/-- handles with different buffers never see each other's writes -/
theorem write_isolated (h : Heap β) (hd hd' : Nat) (b b' : Nat) (c : β)
    (ho : h.owner hd = some b) (ho' : h.owner hd' = some b') (hne : b ≠ b') :
    (h.write hd c).read hd' = h.read hd' := by
  unfold Heap.write Heap.read
  rw [ho]
  simp only [ho']
  simp [Ne.symm hne]

/-- when every operation allocates its result freshly, no two handles ever share a buffer -/
def NoSharing (h : Heap β) : Prop := ∀ a a' b, a ≠ a' → h.owner a = some b → h.owner a' ≠ some b

theorem allocFresh_noSharing (h : Heap β) (hd : Nat) (c : β) (hi : Heap.Inv h) (hn : NoSharing h) :
    NoSharing (h.allocFresh hd c) := by
  intro a a' b hne ha ha'
  unfold Heap.allocFresh at ha ha'
  simp only at ha ha'
  by_cases e1 : a = hd
  · by_cases e2 : a' = hd
    · exact hne (e1.trans e2.symm)
    · simp [e1] at ha; simp [e2] at ha'
      have := hi a' b ha'; omega
  · by_cases e2 : a' = hd
    · simp [e1] at ha; simp [e2] at ha'
      have := hi a b ha; omega
    · simp [e1] at ha; simp [e2] at ha'
      exact hn a a' b hne ha ha'

theorem history_noSharing (h : Heap β) (allocs : List (Nat × β)) (hi : Heap.Inv h) (hn : NoSharing h) :
    NoSharing (allocs.foldl (fun hp p => hp.allocFresh p.1 p.2) h) ∧
    Heap.Inv (allocs.foldl (fun hp p => hp.allocFresh p.1 p.2) h) := by
  induction allocs generalizing h with
  | nil => exact ⟨hn, hi⟩
  | cons p ps ih =>
    simp only [List.foldl_cons]
    exact ih _ (allocFresh_inv h p.1 p.2 hi) (allocFresh_noSharing h p.1 p.2 hi hn)

end Flodym.C15
