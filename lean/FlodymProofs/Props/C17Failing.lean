import Flodym.History
/-!
# C17 — recomputing with parameters that cannot be used

The same state machine with table builds that can raise (`tbl p = none`): after any sequence of
operations — including reads and computes that failed — a read or `compute` raises exactly when a
freshly built object with the current parameters raises, and gives the fresh results otherwise.
This needs that a failed build leaves nothing in the cache (`Gen.failedBuildDiscarded`, regenerated
from the source; the counterexample is defect D28). Core Lean only.
-/
namespace Flodym.C17
open Flodym.Hist

variable {P T D R : Type}

/-- cached tables, when present, are the tables a fresh object would build from the current parameters -/
def InvE (tbl : P → Option T) (pdfOf : T → T) (s : HState P T D R) : Prop :=
  (∀ t, s.sf = some t → tbl s.prm = some t) ∧
  (∀ t, s.pdf = some t → ∃ sf, tbl s.prm = some sf ∧ t = pdfOf sf)

theorem ensureSfE_spec (tbl : P → Option T) (pdfOf : T → T) (junk : T) (s : HState P T D R)
    (h : InvE tbl pdfOf s) :
    (ensureSfE tbl true junk s).2 = tbl s.prm ∧ InvE tbl pdfOf (ensureSfE tbl true junk s).1 ∧
    (ensureSfE tbl true junk s).1.prm = s.prm ∧ (ensureSfE tbl true junk s).1.driver = s.driver ∧
    (ensureSfE tbl true junk s).1.res = s.res := by
  unfold ensureSfE
  cases hs : s.sf with
  | some t => exact ⟨(h.1 t hs).symm, h, rfl, rfl, rfl⟩
  | none =>
    cases ht : tbl s.prm with
    | none => exact ⟨rfl, h, rfl, rfl, rfl⟩
    | some t =>
      refine ⟨rfl, ⟨?_, h.2⟩, rfl, rfl, rfl⟩
      intro t' e
      have : t = t' := by simpa using e
      subst this; exact ht

theorem ensurePdfE_spec (tbl : P → Option T) (pdfOf : T → T) (junk : T) (s : HState P T D R)
    (h : InvE tbl pdfOf s) :
    (ensurePdfE tbl pdfOf true junk s).2 = (tbl s.prm).map pdfOf ∧
    InvE tbl pdfOf (ensurePdfE tbl pdfOf true junk s).1 ∧
    (ensurePdfE tbl pdfOf true junk s).1.prm = s.prm ∧
    (ensurePdfE tbl pdfOf true junk s).1.driver = s.driver ∧
    (ensurePdfE tbl pdfOf true junk s).1.res = s.res := by
  unfold ensurePdfE
  cases hp : s.pdf with
  | some t =>
    obtain ⟨sf, e1, e2⟩ := h.2 t hp
    exact ⟨by rw [e1, e2]; rfl, h, rfl, rfl, rfl⟩
  | none =>
    obtain ⟨e1, i1, p1, d1, r1⟩ := ensureSfE_spec tbl pdfOf junk s h
    cases hr : ensureSfE tbl true junk s with
    | mk s1 o =>
      rw [hr] at e1 i1 p1 d1 r1
      simp only at e1 i1 p1 d1 r1
      cases o with
      | none => exact ⟨by rw [← e1]; rfl, i1, p1, d1, r1⟩
      | some sf =>
        refine ⟨by rw [← e1]; rfl, ⟨i1.1, ?_⟩, p1, d1, r1⟩
        intro t e
        have : pdfOf sf = t := by simpa using e
        exact ⟨sf, (by show tbl s1.prm = some sf; rw [p1]; exact e1.symm), this.symm⟩

/-- the sequence of states (whether a call raised does not matter for the next one) -/
def runE (tbl : P → Option T) (pdfOf : T → T) (F : D → T → T → R) (junk : T)
    (ops : List (HOp P D)) (s : HState P T D R) : HState P T D R :=
  ops.foldl (fun s op => (stepE tbl pdfOf F true true true junk true s op).1) s

theorem stepE_inv (tbl : P → Option T) (pdfOf : T → T) (F : D → T → T → R) (junk : T)
    (s : HState P T D R) (op : HOp P D) (h : InvE tbl pdfOf s) :
    InvE tbl pdfOf (stepE tbl pdfOf F true true true junk true s op).1 := by
  cases op with
  | setPrms p => exact ⟨fun t e => by simp [stepE] at e, fun t e => by simp [stepE] at e⟩
  | setDriver d => exact h
  | readSf => exact (ensureSfE_spec tbl pdfOf junk s h).2.1
  | readPdf => exact (ensurePdfE_spec tbl pdfOf junk s h).2.1
  | compute =>
    obtain ⟨_, i1, _, _, _⟩ := ensureSfE_spec tbl pdfOf junk s h
    unfold stepE
    cases hr : ensureSfE tbl true junk s with
    | mk s1 o =>
      rw [hr] at i1
      cases o with
      | none => exact i1
      | some sf =>
        obtain ⟨_, i2, _, _, _⟩ := ensurePdfE_spec tbl pdfOf junk s1 i1
        simp only
        cases hq : ensurePdfE tbl pdfOf true junk s1 with
        | mk s2 o2 =>
          rw [hq] at i2
          cases o2 with
          | none => exact i2
          | some pdf => exact i2
  | setPrmsFailed p' => exact h

theorem runE_inv (tbl : P → Option T) (pdfOf : T → T) (F : D → T → T → R) (junk : T)
    (ops : List (HOp P D)) (s : HState P T D R) (h : InvE tbl pdfOf s) :
    InvE tbl pdfOf (runE tbl pdfOf F junk ops s) := by
  induction ops generalizing s with
  | nil => exact h
  | cons op ops ih => exact ih _ (stepE_inv tbl pdfOf F junk s op h)

/-- reading the survival table raises exactly when a fresh build raises, and returns the fresh table otherwise -/
theorem readSfE_of_inv (tbl : P → Option T) (pdfOf : T → T) (F : D → T → T → R) (junk : T)
    (s : HState P T D R) (h : InvE tbl pdfOf s) :
    (stepE tbl pdfOf F true true true junk true s .readSf).2 = (tbl s.prm).isSome ∧
    (∀ t, tbl s.prm = some t → (stepE tbl pdfOf F true true true junk true s .readSf).1.sf = some t) := by
  obtain ⟨e1, i1, p1, _, _⟩ := ensureSfE_spec tbl pdfOf junk s h
  refine ⟨by show (ensureSfE tbl true junk s).2.isSome = _; rw [e1], ?_⟩
  intro t ht
  show (ensureSfE tbl true junk s).1.sf = some t
  unfold ensureSfE
  cases hs : s.sf with
  | some t' => simp only; rw [hs, ← ht]; exact (h.1 t' hs).symm ▸ rfl
  | none => simp only [ht]

/-- `compute` on a state satisfying the invariant: raises iff a fresh object raises, else the fresh results -/
theorem computeE_of_inv (tbl : P → Option T) (pdfOf : T → T) (F : D → T → T → R) (junk : T)
    (s : HState P T D R) (h : InvE tbl pdfOf s) :
    (stepE tbl pdfOf F true true true junk true s .compute).2 = (freshE tbl pdfOf F s.prm s.driver).isSome ∧
    (∀ r, freshE tbl pdfOf F s.prm s.driver = some r →
      (stepE tbl pdfOf F true true true junk true s .compute).1.res = some r) := by
  obtain ⟨e1, i1, p1, d1, _⟩ := ensureSfE_spec tbl pdfOf junk s h
  unfold stepE freshE
  cases hr : ensureSfE tbl true junk s with
  | mk s1 o =>
    rw [hr] at e1 i1 p1 d1
    simp only at e1 i1 p1 d1
    cases o with
    | none => rw [← e1]; exact ⟨rfl, fun r e => by simp at e⟩
    | some sf =>
      obtain ⟨e2, _, _, d2, _⟩ := ensurePdfE_spec tbl pdfOf junk s1 i1
      simp only
      cases hq : ensurePdfE tbl pdfOf true junk s1 with
      | mk s2 o2 =>
        rw [hq] at e2 d2
        simp only at e2 d2
        rw [p1, ← e1] at e2
        cases o2 with
        | none => simp at e2
        | some pdf =>
          have hp : pdf = pdfOf sf := by simpa using e2
          rw [← e1]
          refine ⟨rfl, ?_⟩
          intro r e
          simp only [Option.map_some, Option.some.injEq] at e
          simp only [d2, d1, hp, e]

/-- **after any sequence of operations — failed ones included — `compute` raises exactly when a
freshly built stock with the current parameters and driver raises, and otherwise gives its results** -/
theorem computeE_eq_fresh (tbl : P → Option T) (pdfOf : T → T) (F : D → T → T → R) (junk : T)
    (p0 : P) (d0 : D) (ops : List (HOp P D)) :
    let s := runE tbl pdfOf F junk ops { prm := p0, driver := d0 }
    (stepE tbl pdfOf F true true true junk true s .compute).2 = (freshE tbl pdfOf F s.prm s.driver).isSome ∧
    (∀ r, freshE tbl pdfOf F s.prm s.driver = some r →
      (stepE tbl pdfOf F true true true junk true s .compute).1.res = some r) := by
  intro s
  have hinit : InvE tbl pdfOf ({ prm := p0, driver := d0 } : HState P T D R) :=
    ⟨fun t e => by simp at e, fun t e => by simp at e⟩
  exact computeE_of_inv tbl pdfOf F junk s (runE_inv tbl pdfOf F junk ops _ hinit)

/-- where every build succeeds the machine is the one of `Flodym/History.lean` -/
theorem stepE_total (tbl : P → T) (pdfOf : T → T) (F : D → T → T → R) (junk : T) (b1 b2 d : Bool)
    (s : HState P T D R) (op : HOp P D) (hop : ∀ p', op ≠ .setPrmsFailed p') :
    (stepE (fun p => some (tbl p)) pdfOf F b1 b2 d junk true s op) = (step tbl pdfOf F b1 b2 s op, true) := by
  cases op with
  | setPrmsFailed p' => exact absurd rfl (hop p')
  | setPrms p => rfl
  | setDriver d => rfl
  | readSf => unfold stepE step ensureSfE ensureSf; cases s.sf <;> rfl
  | readPdf =>
    unfold stepE step ensurePdfE ensurePdf ensureSfE ensureSf
    cases s.pdf <;> cases s.sf <;> rfl
  | compute =>
    unfold stepE step ensurePdfE ensurePdf ensureSfE ensureSf
    cases hs : s.sf <;> cases hp : s.pdf <;> simp [hs, hp]

/-- a `set_prms` that raises changes nothing — parameters, tables and results are what they were —
and reports the failure -/
theorem failed_setPrms_changes_nothing (tbl : P → Option T) (pdfOf : T → T) (F : D → T → T → R) (junk : T)
    (s : HState P T D R) (p' : P) :
    stepE tbl pdfOf F true true true junk true s (.setPrmsFailed p') = (s, false) := rfl

/-- the code as it stands converts every value before it stores any (regenerated from the source) -/
theorem source_set_prms_atomic : Gen.setPrmsAtomic = true := by decide

/-- D32 (fixed): if the first parameter were stored before the second one is converted, a failed
`set_prms` would leave new parameters next to the tables of the old ones — the next `compute`
returns the old results while a fresh object with the current parameters gives other ones -/
theorem partial_set_prms_counterexample :
    let tbl : Nat → Option Nat := some
    let st := stepE (D := Unit) (R := Nat) tbl id (fun _ sf _ => sf) true true true 0 false
    let s1 := (st { prm := 3, driver := () } .compute).1
    let s2 := (st s1 (.setPrmsFailed 7)).1
    let s3 := st s2 .compute
    s2.prm = 7 ∧ s3.1.res = some 3 ∧ freshE tbl id (fun (_ : Unit) sf _ => sf) s2.prm s2.driver = some 7 := by decide

/-- the code as it stands keeps nothing of a failed build (regenerated from the source) -/
theorem source_failed_build_discarded : Gen.failedBuildDiscarded = true := by decide

/-- D28 (fixed): if the half-built table stayed in the cache, the first read of the survival table
would raise and the second one would return the zeros — while a fresh object raises -/
theorem kept_failed_build_counterexample :
    let tbl : Nat → Option Nat := fun p => if p = 0 then none else some p
    let st := stepE (D := Unit) (R := Nat) tbl id (fun _ sf _ => sf) true true false 0 true
    let s1 := st { prm := 0, driver := () } .readSf
    let s2 := st s1.1 .readSf
    s1.2 = false ∧ s2.2 = true ∧ s2.1.sf = some 0 ∧ tbl 0 = none := by decide

/-- non-vacuity: a history with a failed read in the middle and usable parameters afterwards -/
example :
    let tbl : Nat → Option Nat := fun p => if p = 0 then none else some p
    let s := runE (D := Unit) (R := Nat) tbl id (fun _ sf _ => sf) 0
      [.compute, .setPrms 0, .readSf, .compute, .setPrms 5] { prm := 3, driver := () }
    s.prm = 5 ∧ s.res = some 3 ∧ s.sf = none ∧
    (stepE tbl id (fun _ sf _ => sf) true true true 0 true s .compute).2 = true ∧
    (stepE tbl id (fun _ sf _ => sf) true true true 0 true s .compute).1.res = some 5 := by
  decide

end Flodym.C17
