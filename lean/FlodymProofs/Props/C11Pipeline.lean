import FlodymProofs.Props.C11
/-!
# C11 (continued) — the whole converter on the named long layout

`convert_named_long`: for a frame with one column per dimension, labelled with the dimensions' names,
and one value column (the frame `to_df` writes, dimensions in the index or in columns, any value
column name, any rows), every stage before the placement does nothing surprising: the converter is
the placement stage applied to the frame's own columns. Together with the placement theorems this
gives the round trip for that layout end to end.
-/
namespace Flodym.C11
open Flodym Flodym.Table DimSet

/-- a frame in the named long layout: one column per dimension, labelled with the dimension's name,
in the order of the dimensions, followed by one value column -/
structure NamedLong (dims : DimSet) (df : DF) (vcol : String) : Prop where
  cols : df.cols = (names dims).map Cell.str ++ [.str vcol]
  nonempty : dims ≠ []
  namesOk : NamesOk dims
  vcol_not_name : vcol ∉ names dims
  vcol_not_letter : ∀ d ∈ dims, d.letter.toString ≠ vcol
  vcol_not_items : ∀ d ∈ dims, sameItems [.str vcol] d = false

theorem letter_ne_name (dims : DimSet) (hn : NamesOk dims) (d d' : Dim) (hd' : d' ∈ dims) :
    d.letter.toString ≠ d'.name := by
  intro h
  have h2 := hn d' hd'
  rw [← h] at h2
  have : d.letter.toString.length = 1 := by simp
  omega

theorem renameLetter_other (dims : DimSet) (s : String) (h : ∀ d ∈ dims, d.letter.toString ≠ s) :
    renameLetter dims (.str s) = .str s := by
  have : dims.find? (fun d => d.letter.toString == s) = none := by
    rw [List.find?_eq_none]
    intro d hd
    simpa using h d hd
  simp only [renameLetter, this]

theorem rename_cols (dims : DimSet) (df : DF) (vcol : String) (h : NamedLong dims df vcol) :
    df.cols.map (renameLetter dims) = df.cols := by
  rw [h.cols]
  simp only [List.map_append, List.map_map, List.map_cons, List.map_nil]
  congr 1
  · apply List.map_congr_left
    intro n hn
    obtain ⟨d', hd', rfl⟩ := List.mem_map.mp hn
    exact renameLetter_other dims d'.name (fun d _ => letter_ne_name dims h.namesOk d d' hd')
  · rw [renameLetter_other dims vcol h.vcol_not_letter]

theorem dimCols_named (dims : DimSet) (df : DF) (vcol : String) (h : NamedLong dims df vcol) :
    df.cols.filterMap (dimColName? dims) = names dims := by
  rw [h.cols]
  have key : ∀ (l : List String), (∀ s ∈ l, s ∈ names dims) → (l.map Cell.str).filterMap (dimColName? dims) = l := by
    intro l
    induction l with
    | nil => intro _; rfl
    | cons a as ih =>
      intro hl
      have ha : (names dims).contains a = true := by simpa using hl a (by simp)
      simp only [List.map_cons, List.filterMap_cons, dimColName?, ha, if_true]
      rw [ih (fun s hs => hl s (by simp [hs]))]
  have h2 : (names dims).contains vcol = false := by simpa using h.vcol_not_name
  rw [List.filterMap_append, key _ (fun _ h => h)]
  simp only [List.filterMap_cons, dimColName?, h2, Bool.false_eq_true, if_false, List.filterMap_nil, List.append_nil]

theorem byNameOrLetter_named (dims : DimSet) (df : DF) (vcol : String) (h : NamedLong dims df vcol) :
    byNameOrLetter dims df = { df := df, dimCols := names dims } := by
  unfold byNameOrLetter
  rw [rename_cols dims df vcol h, dimCols_named dims df vcol h]

theorem isDimCol_name (dims : DimSet) (n : String) (hn : n ∈ names dims) : isDimCol (names dims) (.str n) = true := by
  simpa [isDimCol] using hn

/-- the header guard: the first column names a dimension, so nothing is read as a row of items -/
theorem firstRow_named (dims : DimSet) (df : DF) (vcol : String) (h : NamedLong dims df vcol) :
    firstRowItems? dims { df := df, dimCols := names dims } = some { df := df, dimCols := names dims } := by
  unfold firstRowItems?
  cases hd : dims with
  | nil => exact absurd hd h.nonempty
  | cons d ds =>
    have hc : df.cols = Cell.str d.name :: ((names ds).map Cell.str ++ [.str vcol]) := by
      rw [h.cols, hd]; rfl
    simp only [hc]
    have : isDimCol (names (d :: ds)) (.str d.name) = true := isDimCol_name _ _ (by simp [names])
    have hg : Gen.firstRowGuard = true := by decide
    simp [this, hg]

/-- the value column is found, once, behind the dimension columns -/
theorem colIdx_value (dims : DimSet) (df : DF) (vcol : String) (h : NamedLong dims df vcol) :
    df.colIdx? (.str vcol) = some (names dims).length := by
  unfold DF.colIdx?
  rw [h.cols]
  have hlen : ((names dims).map Cell.str ++ [Cell.str vcol]).length = (names dims).length + 1 := by simp
  rw [hlen, List.range_succ, List.filter_append]
  have h1 : (List.range (names dims).length).filter
      (fun j => (((names dims).map Cell.str ++ [Cell.str vcol]).getD j .nan).pyEq (.str vcol)) = [] := by
    rw [List.filter_eq_nil_iff]
    intro j hj
    have hj' : j < (names dims).length := List.mem_range.mp hj
    have hjm : j < ((names dims).map Cell.str).length := by simpa using hj'
    simp only [List.getD_eq_getElem?_getD, List.getElem?_append_left hjm, List.getElem?_map,
      List.getElem?_eq_getElem hj', Option.map_some, Option.getD_some, Cell.pyEq, beq_iff_eq]
    intro heq
    exact h.vcol_not_name (heq ▸ List.getElem_mem hj')
  rw [h1]
  simp [Cell.pyEq]

/-- recognition by items finds nothing new: every dimension is identified already -/
theorem byItems_named (dims : DimSet) (df : DF) (vcol : String) (h : NamedLong dims df vcol) :
    byItems? dims { df := df, dimCols := names dims } = some { df := df, dimCols := names dims } := by
  unfold byItems?
  have hskip : Gen.byItemsSkipsIdentified = true := by decide
  have hcont : Gen.byItemsContinues = true := by decide
  -- every column leaves the state as it is
  have step : ∀ cn ∈ df.cols,
      (byItemsOne? dims { df := df, dimCols := names dims } cn).map
        (fun r => (r.1, !r.2 && !Gen.byItemsContinues)) = some ({ df := df, dimCols := names dims }, false) := by
    intro cn hcn
    rw [h.cols] at hcn
    rcases List.mem_append.mp hcn with hm | hm
    · obtain ⟨n, hn, rfl⟩ := List.mem_map.mp hm
      unfold byItemsOne?
      simp [isDimCol_name dims n hn, hcont]
    · simp only [List.mem_singleton] at hm
      subst hm
      unfold byItemsOne?
      have hnd : isDimCol (names dims) (.str vcol) = false := by simpa [isDimCol] using h.vcol_not_name
      simp only [hnd, Bool.false_eq_true, if_false, colIdx_value dims df vcol h]
      have hfind : dims.find? (fun d => !(Gen.byItemsSkipsIdentified && (names dims).contains d.name) &&
          sameItems (unique (df.column (names dims).length)) d) = none := by
        rw [List.find?_eq_none]
        intro d hd
        have hmem : d.name ∈ names dims := List.mem_map_of_mem (f := (·.name)) hd
        simp [hskip, hmem]
      rw [hfind]
      simp [hcont]
  have fold : ∀ (l : List Cell), (∀ cn ∈ l, cn ∈ df.cols) →
      l.foldlM (fun (st : Conv × Bool) cn =>
        if st.2 then some st else
        (byItemsOne? dims st.1 cn).map fun r => (r.1, !r.2 && !Gen.byItemsContinues))
        (({ df := df, dimCols := names dims } : Conv), false) = some ({ df := df, dimCols := names dims }, false) := by
    intro l
    induction l with
    | nil => intro _; rfl
    | cons a as ih =>
      intro hl
      simp only [List.foldlM_cons, Bool.false_eq_true, if_false, step a (hl a (by simp)), Option.bind_eq_bind, Option.bind_some]
      exact ih (fun cn hcn => hl cn (by simp [hcn]))
  rw [fold df.cols (fun _ h => h)]
  rfl

theorem valueColumns_named (dims : DimSet) (df : DF) (vcol : String) (h : NamedLong dims df vcol) :
    ∃ fmt, valueColumns? dims { df := df, dimCols := names dims } = some ({ df := df, dimCols := names dims }, fmt) ∧
      fmt = Format.long (.str vcol) := by
  unfold valueColumns?
  have hv : df.cols.filter (fun col => !(isDimCol (names dims) col)) = [.str vcol] := by
    rw [h.cols, List.filter_append]
    have h1 : ((names dims).map Cell.str).filter (fun col => !(isDimCol (names dims) col)) = [] := by
      rw [List.filter_eq_nil_iff]
      intro c hc
      obtain ⟨n, hn, rfl⟩ := List.mem_map.mp hc
      simp [isDimCol_name dims n hn]
    have hnd : isDimCol (names dims) (.str vcol) = false := by simpa [isDimCol] using h.vcol_not_name
    rw [h1]
    simp [hnd]
  have hfind : dims.find? (sameItems [.str vcol]) = none := by
    rw [List.find?_eq_none]
    intro d hd
    simp [h.vcol_not_items d hd]
  simp only [hv, hfind]
  exact ⟨_, rfl, rfl⟩

theorem missingDims_named (dims : DimSet) (df : DF) :
    missingDims? dims { df := df, dimCols := names dims } = some { df := df, dimCols := names dims } := by
  unfold missingDims?
  have : dims.filter (fun d => !((names dims).contains d.name)) = [] := by
    rw [List.filter_eq_nil_iff]
    intro d hd
    have hmem : d.name ∈ names dims := List.mem_map_of_mem (f := (·.name)) hd
    simp [hmem]
  rw [this]; rfl

/-- **the whole converter on a frame in the named long layout is the placement stage applied to the
frame's own columns** (dimensions in the index — `named k` — or in columns — `range`); with the
placement theorems above: every entry from the unique row carrying its labels, refusal of
duplicates / unknown items / missing rows / empty values, any row order -/
theorem convert_named_long (dims : DimSet) (df : DF) (vcol : String) (h : NamedLong dims df vcol)
    (kind : IndexKind) (hk : kind = .range ∨ ∃ k, kind = .named k) (m e : Bool) :
    convert? dims kind df m e =
      (toLong? dims { df := df, dimCols := names dims } (.str vcol)).bind fun t => complete? dims t m e := by
  unfold convert?
  have hr : resetIndex kind df = df := by
    rcases hk with rfl | ⟨k, rfl⟩ <;> rfl
  obtain ⟨fmt, hvc, hfmt⟩ := valueColumns_named dims df vcol h
  subst hfmt
  simp only [hr, byNameOrLetter_named dims df vcol h, firstRow_named dims df vcol h, byItems_named dims df vcol h,
    hvc, missingDims_named, Option.bind_eq_bind, Option.bind_some]

end Flodym.C11

namespace Flodym.C11
open Flodym Flodym.Table DimSet

/-! ## end to end: `from_df(dims, x.to_df())` for the named long layout -/

theorem filter_range_unique (n : Nat) (p : Nat → Bool) (j : Nat) (hj : j < n) (hp : p j = true)
    (hu : ∀ i, i < n → p i = true → i = j) : (List.range n).filter p = [j] := by
  have hnd : ((List.range n).filter p).Nodup := List.nodup_range.filter _
  have hmem : j ∈ (List.range n).filter p := List.mem_filter.mpr ⟨List.mem_range.mpr hj, hp⟩
  have hall : ∀ i ∈ (List.range n).filter p, i = j := by
    intro i hi
    obtain ⟨h1, h2⟩ := List.mem_filter.mp hi
    exact hu i (List.mem_range.mp h1) h2
  generalize (List.range n).filter p = L at hnd hmem hall
  cases L with
  | nil => cases hmem
  | cons x xs =>
    have hx := hall x (by simp)
    subst hx
    cases xs with
    | nil => rfl
    | cons y ys =>
      have hy := hall y (by simp)
      subst hy
      simp at hnd

/-- every dimension's column is found, once, at the dimension's position -/
theorem colIdx_name (dims : DimSet) (df : DF) (vcol : String) (h : NamedLong dims df vcol)
    (hnd : (names dims).Nodup) (j : Nat) (hj : j < (names dims).length) :
    df.colIdx? (.str (names dims)[j]) = some j := by
  unfold DF.colIdx?
  rw [h.cols]
  have hlen : ((names dims).map Cell.str ++ [Cell.str vcol]).length = (names dims).length + 1 := by simp
  rw [hlen, filter_range_unique ((names dims).length + 1) _ j (by omega)]
  · have hjm : j < ((names dims).map Cell.str).length := by simpa using hj
    simp [List.getD_eq_getElem?_getD, List.getElem?_append_left hjm, List.getElem?_eq_getElem hj, Cell.pyEq]
  · intro i hi hpi
    by_cases hlt : i < (names dims).length
    · have him : i < ((names dims).map Cell.str).length := by simpa using hlt
      simp only [List.getD_eq_getElem?_getD, List.getElem?_append_left him, List.getElem?_map,
        List.getElem?_eq_getElem hlt, Option.map_some, Option.getD_some, Cell.pyEq, beq_iff_eq] at hpi
      exact (List.Nodup.getElem_inj_iff hnd).mp hpi
    · have hi' : i = (names dims).length := by omega
      subst hi'
      have : ((names dims).map Cell.str ++ [Cell.str vcol])[(names dims).length]? = some (Cell.str vcol) := by
        rw [List.getElem?_append_right (by simp)]; simp
      simp only [List.getD_eq_getElem?_getD, this, Option.getD_some, Cell.pyEq, beq_iff_eq] at hpi
      exact absurd (hpi ▸ List.getElem_mem hj) h.vcol_not_name

end Flodym.C11

namespace Flodym.C11
open Flodym Flodym.Table DimSet

theorem mapM_some {α β : Type} (l : List α) (f : α → Option β) (g : α → β) (h : ∀ a ∈ l, f a = some (g a)) :
    l.mapM f = some (l.map g) := by
  induction l with
  | nil => rfl
  | cons a as ih =>
    simp only [List.mapM_cons, h a (by simp), ih (fun b hb => h b (by simp [hb])), Option.bind_eq_bind,
      Option.bind_some, List.map_cons]
    rfl

/-- converting an item of the declared type changes nothing -/
theorem convCell_ofItem (dt : DType) (it : Item) (h : it.hasType dt = true) :
    convCell dt (Cell.ofItem it) = some (Cell.ofItem it) := by
  cases it with
  | int i =>
    cases dt with
    | int =>
      simp only [Cell.ofItem, convCell]
      congr 2
      have : ((i : Rat).num.tdiv ((i : Rat).den : Int)) = i := by simp
      exact_mod_cast congrArg (fun z : Int => (z : Rat)) this
    | str => cases h
  | str s =>
    cases dt with
    | int => cases h
    | str => rfl

/-- an item's own cell is never a fractional float -/
theorem keepsLabel_ofItem (it : Item) (dt : DType) : keepsLabel (Cell.ofItem it) dt = false := by
  cases it <;> rfl

/-- the label cells of a row of the exported frame, read column by column and converted -/
theorem row_labels (dims : DimSet) (hval : ∀ d ∈ dims, d.valid = true) (idx : List Nat)
    (hidx : idx ∈ allIdx (shape dims)) (tail : List Cell) :
    (List.zip dims (List.range dims.length)).mapM (fun (p : Dim × Nat) =>
        convLabel p.1 ((labelsOf dims idx ++ tail).getD p.2 .nan)) = some (labelsOf dims idx) := by
  obtain ⟨hlen, hlt⟩ := (mem_allIdx _ _).mp hidx
  have hlen' : idx.length = dims.length := by simpa [shape] using hlen
  have hlab : (labelsOf dims idx).length = dims.length := labelsOf_length dims idx hidx
  rw [mapM_some _ _ (fun p => Cell.ofItem (p.1.items.getD (idx.getD p.2 0) default))]
  · -- the resulting list is the label list
    apply congrArg some
    apply List.ext_getElem
    · simp [hlab]
    · intro j h1 h2
      have hj : j < dims.length := by simpa using h1
      simp only [List.getElem_map, List.getElem_zip, List.getElem_range, labelsOf]
      simp [List.getD_eq_getElem?_getD, List.getElem?_eq_getElem (hlen' ▸ hj)]
  · intro p hp
    obtain ⟨j, hj, rfl⟩ := List.getElem_of_mem hp
    have hjd : j < dims.length := by simpa using hj
    simp only [List.getElem_zip, List.getElem_range]
    have hget : (labelsOf dims idx ++ tail).getD j .nan = Cell.ofItem (dims[j].items.getD (idx.getD j 0) default) := by
      rw [List.getD_eq_getElem?_getD, List.getElem?_append_left (by rw [hlab]; exact hjd)]
      have hz : (List.zip dims idx)[j]? = some (dims[j], idx[j]'(hlen' ▸ hjd)) := by
        rw [List.getElem?_eq_getElem (by simp [hlen']; exact hjd)]
        simp
      simp [labelsOf, hz, List.getD_eq_getElem?_getD, List.getElem?_eq_getElem (hlen' ▸ hjd)]
    rw [hget]
    unfold convLabel
    cases hdt : dims[j].dtype with
    | none => rfl
    | some dt =>
      simp only
      rw [keepsLabel_ofItem]
      simp only [Bool.false_eq_true, if_false]
      apply convCell_ofItem
      -- the item is one of the dimension's items, which all have the declared type
      have hv := hval dims[j] (List.getElem_mem hjd)
      unfold Dim.valid at hv
      rw [hdt] at hv
      simp only [Bool.and_eq_true, List.all_eq_true] at hv
      have hi : idx.getD j 0 < dims[j].items.length := by
        have := hlt j (hlen' ▸ hjd) (by simpa [shape] using hjd)
        simpa [shape, Dim.len, List.getD_eq_getElem?_getD, List.getElem?_eq_getElem (hlen' ▸ hjd)] using this
      rw [List.getD_eq_getElem?_getD, List.getElem?_eq_getElem hi]
      exact hv.2 _ (List.getElem_mem hi)

end Flodym.C11

namespace Flodym.C11
open Flodym Flodym.Table DimSet

theorem mapM_getElem {α β : Type} : ∀ (l : List α) (f : α → Option β) (r : List β) (hlen : r.length = l.length),
    (∀ j (hj : j < l.length), f l[j] = some (r[j]'(hlen ▸ hj))) → l.mapM f = some r := by
  intro l
  induction l with
  | nil => intro f r hlen _; simp at hlen; subst hlen; rfl
  | cons a as ih =>
    intro f r hlen h
    cases r with
    | nil => simp at hlen
    | cons b bs =>
      have h0 := h 0 (by simp)
      simp only [List.getElem_cons_zero] at h0
      have := ih f bs (by simpa using hlen) (fun j hj => by
        have h' := h (j + 1) (by simpa using hj)
        simpa using h')
      simp only [List.mapM_cons, h0, this, Option.bind_eq_bind, Option.bind_some]
      rfl

theorem mapM_map_some {α β γ : Type} (l : List α) (mk : α → β) (f : β → Option γ) (g : α → γ)
    (h : ∀ a ∈ l, f (mk a) = some (g a)) : (l.map mk).mapM f = some (l.map g) := by
  induction l with
  | nil => rfl
  | cons a as ih =>
    simp only [List.map_cons, List.mapM_cons, h a (by simp), ih (fun b hb => h b (by simp [hb])),
      Option.bind_eq_bind, Option.bind_some]
    rfl

/-- the frame `to_df` writes, read column by column, is the table of the exported rows -/
theorem toLong_exported (x : FArr Rat) (h : NamedLong x.dims (toDfLong x false) "value")
    (hnd : (names x.dims).Nodup) (hval : ∀ d ∈ x.dims, d.valid = true) :
    toLong? x.dims { df := toDfLong x false, dimCols := names x.dims } (.str "value") = some (exported x) := by
  unfold toLong?
  have hjs : x.dims.mapM (fun d => (toDfLong x false).colIdx? (.str d.name)) = some (List.range x.dims.length) := by
    apply mapM_getElem _ _ _ (by simp)
    intro j hj
    have hjn : j < (names x.dims).length := by simpa [names] using hj
    have := colIdx_name x.dims (toDfLong x false) "value" h hnd j hjn
    simpa [names] using this
  have hjv := colIdx_value x.dims (toDfLong x false) "value" h
  simp only [Option.bind_eq_bind, hjs, hjv, Option.bind_some]
  rw [toDf_rows_dense]
  rw [mapM_map_some _ _ _ (fun idx => (labelsOf x.dims idx, some (x.values.get idx)))]
  · rfl
  · intro idx hidx
    have hlab : (labelsOf x.dims idx).length = x.dims.length := labelsOf_length x.dims idx hidx
    rw [row_labels x.dims hval idx hidx]
    have hv : (labelsOf x.dims idx ++ [Cell.num (x.values.get idx) true]).getD (names x.dims).length .nan
        = Cell.num (x.values.get idx) true := by
      have : (names x.dims).length = (labelsOf x.dims idx).length := by simp [names, hlab]
      rw [this, List.getD_eq_getElem?_getD, List.getElem?_append_right (Nat.le_refl _)]
      simp
    simp only [Option.bind_some, hv, valueOfCell?]

/-- **`from_df(dims, x.to_df())` returns `x`** — the dimensions in the index (`to_df()`) or in
columns (`to_df(index=False)`) — for every array with at least one dimension whose dimensions have
distinct names (none of them "value"), valid typed items without repetition, and no dimension whose
only item is the text "value" -/
theorem roundtrip_named_long (x : FArr Rat) (hx : WF x) (hne : x.dims ≠ []) (hn : NamesOk x.dims)
    (hnd : (names x.dims).Nodup) (hval : ∀ d ∈ x.dims, d.valid = true) (hit : ∀ d ∈ x.dims, d.items.Nodup)
    (hvn : "value" ∉ names x.dims) (hvi : ∀ d ∈ x.dims, sameItems [.str "value"] d = false)
    (kind : IndexKind) (hk : kind = .range ∨ ∃ k, kind = .named k) :
    ∃ y, fromDf? x.dims kind (toDfLong x false) false false = some y ∧ y.dims = x.dims ∧
      y.values.shape = shape x.dims ∧ ∀ idx ∈ allIdx (shape x.dims), y.values.get idx = x.values.get idx := by
  have hnl : NamedLong x.dims (toDfLong x false) "value" :=
    { cols := rfl, nonempty := hne, namesOk := hn, vcol_not_name := hvn,
      vcol_not_letter := by
        intro d _ heq
        have := congrArg String.length heq
        simp at this
        exact absurd this (by decide),
      vcol_not_items := hvi }
  obtain ⟨v, hv, hshape, hget⟩ := roundtrip_rows x hit
  refine ⟨⟨x.dims, v⟩, ?_, rfl, hshape, hget⟩
  unfold fromDf?
  have hl : decide (letters x.dims).Nodup = true := by
    have := hx.1
    simpa [FArr.letters] using this
  simp only [hl, Bool.not_true, Bool.false_eq_true, if_false, Option.bind_eq_bind]
  rw [convert_named_long x.dims (toDfLong x false) "value" hnl kind hk, toLong_exported x hnl hnd hval]
  simp only [Option.bind_some, hv]
  unfold FArr.mk?
  have h1 : (letters x.dims).Nodup := by have := hx.1; simpa [FArr.letters] using this
  rw [if_pos ⟨h1, hshape⟩]

end Flodym.C11

namespace Flodym.C11
open Flodym Flodym.Table DimSet

/-- the hypotheses of `roundtrip_named_long` are met by a concrete two-dimensional array -/
example : exArr.dims ≠ [] ∧ NamesOk exArr.dims ∧ (names exArr.dims).Nodup ∧ (∀ d ∈ exArr.dims, d.valid = true) ∧
    (∀ d ∈ exArr.dims, d.items.Nodup) ∧ "value" ∉ names exArr.dims ∧
    (∀ d ∈ exArr.dims, sameItems [.str "value"] d = false) := by decide

example : ((fromDf? exArr.dims (.named 2) (toDfLong exArr false) false false).map
    fun a => (allIdx a.values.shape).map a.values.get) = some [1, 2, 0, 4] := by decide +kernel

end Flodym.C11
