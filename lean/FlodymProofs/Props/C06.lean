import FlodymProofs.Lemmas.GetSet
/-!
# C06 — indexing by item labels reads and writes exactly the addressed entries

`S'` lists, per dimension of `x` (in storage order), what the key asks of it (`DSel`):
`keep`, a single item at position `p`, or a subset `Dimension d'` whose items sit at positions `ps`.
`Decodes x.dims kvs … S'` says the dict entries `kvs` (given in any order, keyed by letter or name)
decode to `S'`; `liftIdx x.dims S' e` is the index tuple of the source entry carrying the labels
that the result labels `e` stand for. The proofs unfold the handler (`_init_dims_out`,
`_init_ids`, `_convert_lists_to_meshgrid`) and the model of numpy's placement rule for advanced
indices, for every combination of selector kinds in every position.
-/
namespace Flodym.C06
open Flodym DimSet SubArray

variable {α : Type}

/-- reading: dims = original with single selections dropped and subset selections replaced;
entries = exactly the addressed ones, in the remaining dimensions' order and the requested item
order -/
theorem getitem_reads_addressed (x : FArr α) (hx : WF x) (kvs : List (String × Sel)) (S' : List DSel)
    (hdec : Decodes x.dims kvs (x.dims.map fun _ => DSel.keep) S') (hok : SelsOK x.dims S') :
    ∃ r, x.getitem? (.dict kvs) = some r ∧ r.dims = outDims x.dims S' ∧ WF r ∧
      ∀ e, Valid r.dims e → r.at e = x.values.get (liftIdx x.dims S' e) :=
  getitem_dict_spec x hx kvs S' hdec hok

/-- writing a number: exactly the addressed entries change -/
theorem setitem_writes_addressed [Add α] [OfNat α 0] (x : FArr α) (hx : WF x)
    (kvs : List (String × Sel)) (S' : List DSel) (c : α)
    (hdec : Decodes x.dims kvs (x.dims.map fun _ => DSel.keep) S') (hok : SelsOK x.dims S') :
    ∃ r, x.setitem? (.dict kvs) (.num c) = some r ∧ r.dims = x.dims ∧ WF r ∧
      (∀ e, Valid (outDims x.dims S') e → r.values.get (liftIdx x.dims S' e) = c) ∧
      (∀ idx, (∀ e, Valid (outDims x.dims S') e → liftIdx x.dims S' e ≠ idx) →
        r.values.get idx = x.values.get idx) :=
  setitem_num_spec x hx kvs S' c hdec hok

/-- the index tuple addressed for a kept / single / subset dimension, read off per dimension -/
theorem liftIdx_get : ∀ (D : DimSet) (S : List DSel) (e : Env) (i : Nat) (d : Dim),
    SelsOK D S → D[i]? = some d →
    (liftIdx D S e)[i]? = some (match S[i]? with
      | some DSel.keep => e d.letter
      | some (DSel.item p) => p
      | some (DSel.sub d' ps) => ps.getD (e d'.letter) 0
      | none => 0)
  | [], _, _, _, _, _, h => by simp at h
  | _ :: _, [], _, _, _, h, _ => by cases h
  | d0 :: D, s :: S, e, 0, d, _, hD => by
    simp only [List.getElem?_cons_zero, Option.some.injEq] at hD
    subst hD
    cases s <;> simp [liftIdx]
  | d0 :: D, s :: S, e, i + 1, d, h, hD => by
    simp only [List.getElem?_cons_succ] at hD
    have ih := liftIdx_get D S e i d h.2 hD
    cases s <;> simpa [liftIdx] using ih

/-! ## key forms -/

/-- a single item key is the dict key of the dimension that holds the item -/
theorem single_item_key (x : FArr α) (it : Item) (l : Char)
    (h : keySingleItem? x.dims it = some l) :
    x.getitem? (.single it) = x.getitem? (.dict [(l.toString, .item it)]) := by
  simp only [FArr.getitem?, handler?, defDict?, h, Option.map_some]

/-- unknown items and items present in several dimensions are rejected when no dimension is named -/
theorem unknown_or_ambiguous_item_rejected (x : FArr α) (it : Item)
    (h : (x.dims.filter (fun d => d.items.contains it)).length ≠ 1) :
    x.getitem? (.single it) = none := by
  have hk : keySingleItem? x.dims it = none := by
    unfold keySingleItem?
    generalize x.dims.filter (fun d => d.items.contains it) = l at h
    match l, h with
    | [], _ => rfl
    | [_], h => simp at h
    | _ :: _ :: _, _ => rfl
  simp only [FArr.getitem?, handler?, defDict?, hk, Option.map_none, Option.bind_eq_bind,
    Option.bind_none]

theorem tuple_with_unknown_item_rejected (x : FArr α) (its : List Item) (it : Item) (hm : it ∈ its)
    (h : (x.dims.filter (fun d => d.items.contains it)).length ≠ 1) :
    x.getitem? (.tuple its) = none := by
  have hk : keySingleItem? x.dims it = none := by
    unfold keySingleItem?
    generalize x.dims.filter (fun d => d.items.contains it) = l at h
    match l, h with
    | [], _ => rfl
    | [_], h => simp at h
    | _ :: _ :: _, _ => rfl
  have hmap : its.mapM (fun it => (keySingleItem? x.dims it).map (fun l => (l, it))) = none := by
    induction its with
    | nil => cases hm
    | cons a t ih =>
      simp only [List.mapM_cons]
      cases hm with
      | head => rw [hk]; rfl
      | tail _ h' =>
        rw [ih h']
        cases (keySingleItem? x.dims a).map (fun l => (l, a)) <;> rfl
  unfold FArr.getitem? handler? defDict? toDictTuple?
  simp only [Option.bind_eq_bind, hmap, Option.bind_none]

/-- numpy-style slices are rejected -/
theorem slice_rejected [Add α] [OfNat α 0] (x : FArr α) (rhs : FArr.Rhs α) :
    x.getitem? .slice = none ∧ x.setitem? .slice rhs = none := ⟨rfl, rfl⟩

/-- a dict entry naming no dimension of the array is rejected -/
theorem unknown_dimension_rejected (x : FArr α) (k : String) (s : Sel) (rest : List (String × Sel))
    (h : ∀ d ∈ x.dims, d.name ≠ k ∧ d.letter.toString ≠ k) :
    x.getitem? (.dict ((k, s) :: rest)) = none := by
  have hl := lookup?_unknown x.dims k h
  cases s with
  | list its =>
    unfold FArr.getitem? handler? defDict? idsRaw?
    simp only [Option.bind_eq_bind, Option.bind_some, List.foldlM_cons, idsSingle?, hl,
      Option.bind_none, Option.map_none]
    cases dimsOut? x.dims ((k, Sel.list its) :: rest) <;> rfl
  | item it =>
    have hd : dimsOut? x.dims ((k, Sel.item it) :: rest) = none := by
      simp [dimsOut?, drop?, hl]
    unfold FArr.getitem? handler? defDict?
    simp only [Option.bind_eq_bind, Option.bind_some, hd, Option.bind_none]
  | dim d' =>
    have hd : dimsOut? x.dims ((k, Sel.dim d') :: rest) = none := by
      simp only [dimsOut?, replace?, index?, hl]
      split <;> rfl
    unfold FArr.getitem? handler? defDict?
    simp only [Option.bind_eq_bind, Option.bind_some, hd, Option.bind_none]

/-- an item unknown to the named dimension, or a `Dimension` that is not a subset, is rejected -/
theorem bad_selector_rejected (x : FArr α) (k : String) (s : Sel) (rest : List (String × Sel)) (d : Dim)
    (hl : lookup? x.dims k = some d)
    (hbad : match s with
      | .item it => d.index? it = none
      | .dim d' => d'.isSubset d = false
      | .list its => its.mapM d.index? = none) :
    x.getitem? (.dict ((k, s) :: rest)) = none := by
  have hids : idsSingle? x.dims k s = none := by
    unfold idsSingle?
    simp only [Option.bind_eq_bind, hl, Option.bind_some]
    cases s with
    | item it => simp only at hbad; simp [hbad]
    | dim d' => simp only at hbad; simp [hbad]
    | list its => simp only at hbad; simp [hbad]
  unfold FArr.getitem? handler? defDict? idsRaw?
  simp only [Option.bind_eq_bind, Option.bind_some, List.foldlM_cons, hids, Option.map_none,
    Option.bind_none]
  cases dimsOut? x.dims ((k, s) :: rest) <;> rfl

/-- reads through a list of items are refused (a `Dimension` must be used instead) -/
theorem list_read_rejected (x : FArr α) (kvs : List (String × Sel))
    (h : ∃ kv ∈ kvs, kv.2.isIterable = true) : x.getitem? (.dict kvs) = none := by
  unfold FArr.getitem?
  cases hh : handler? x.dims (.dict kvs) with
  | none => rfl
  | some hd =>
    have hinv : hd.invalid = true := by
      unfold handler? defDict? at hh
      simp only [Option.bind_eq_bind, Option.bind_some] at hh
      cases h1 : dimsOut? x.dims kvs with
      | none => rw [h1] at hh; cases hh
      | some dout =>
        rw [h1] at hh
        cases h2 : idsRaw? x.dims kvs with
        | none => simp only [h2, Option.bind_some, Option.bind_none] at hh; cases hh
        | some raw =>
          simp only [h2, Option.bind_some, Option.some.injEq] at hh
          subst hh
          simp only [List.any_eq_true]
          exact h
    simp [hinv]

/-! ## items_where and split report entries under their true labels -/

/-- labels of an index tuple -/
def labelsOf (D : DimSet) (idx : List Nat) : List Item :=
  List.zipWith (fun (d : Dim) i => d.items.getD i default) D idx

theorem itemsWhere_sound_complete (x : FArr α) (cond : α → Bool) (row : List Item) :
    row ∈ x.itemsWhere cond ↔
      ∃ idx ∈ allIdx x.values.shape, cond (x.values.get idx) = true ∧ row = labelsOf x.dims idx := by
  unfold FArr.itemsWhere labelsOf
  simp only [List.mem_map, List.mem_filter]
  constructor
  · rintro ⟨idx, ⟨h1, h2⟩, rfl⟩; exact ⟨idx, h1, h2, rfl⟩
  · rintro ⟨idx, h1, h2, rfl⟩; exact ⟨idx, ⟨h1, h2⟩, rfl⟩

/-- `split(dim)` returns, per item of that dimension, the slice read with that item -/
theorem split_pieces (x : FArr α) (k : String) (d : Dim) (hl : lookup? x.dims k = some d)
    (ps : List (Item × FArr α)) (h : x.split? k = some ps) :
    ps.map (·.1) = d.items ∧ ∀ p ∈ ps, x.getitem? (.dict [(k, .item p.1)]) = some p.2 := by
  unfold FArr.split? at h
  simp only [Option.bind_eq_bind, hl, Option.bind_some] at h
  generalize d.items = its at h
  induction its generalizing ps with
  | nil => simp only [List.mapM_nil] at h; cases h; simp
  | cons it its ih =>
    simp only [List.mapM_cons, Option.bind_eq_bind] at h
    cases hg : x.getitem? (.dict [(k, .item it)]) with
    | none => simp [hg] at h
    | some a =>
      simp only [hg, Option.map_some, Option.bind_some] at h
      cases hr : its.mapM (fun it => (x.getitem? (.dict [(k, .item it)])).map fun a => (it, a)) with
      | none => simp [hr] at h
      | some rest =>
        simp only [hr, Option.bind_some] at h
        cases h
        obtain ⟨ih1, ih2⟩ := ih rest hr
        refine ⟨by simp [ih1], ?_⟩
        intro p hp
        rcases List.mem_cons.mp hp with rfl | hp'
        · exact hg
        · exact ih2 p hp'

/-! ### hypotheses are satisfiable: x over (t, r, g) with equal lengths, key {t: 2nd item, g: subset} -/
def dT : Dim := { letter := 't', name := "time", items := [.int 1, .int 2] }
def dR : Dim := { letter := 'r', name := "region", items := [.str "a", .str "b"] }
def dG : Dim := { letter := 'g', name := "good", items := [.str "x", .str "y"] }
def dH : Dim := { letter := 'h', name := "goodsub", items := [.str "y", .str "x"] }
def exX : FArr Int := ⟨[dT, dR, dG], ND.ofFlat [2, 2, 2] #[1, 2, 3, 4, 5, 6, 7, 8] 0⟩
def exS : List DSel := [.item 1, .keep, .sub dH [1, 0]]

example : WF exX ∧ SelsOK exX.dims exS ∧ SelsInj exS := by decide
example : Decodes exX.dims [("g", .dim dH), ("time", .item (.int 2))]
    (exX.dims.map fun _ => DSel.keep) exS := by
  refine .cons (d := dG) (i := 2) (ds := .sub dH [1, 0]) rfl rfl (by decide) (by decide) (by decide)
    (by decide) (by intro d' ps h; cases h; decide) ?_
  refine .cons (d := dT) (i := 0) (ds := .item 1) rfl rfl (by decide) (by decide) (by decide)
    (by decide) (by intro d' ps h; cases h) ?_
  exact .nil _
/-- the D8 witness now reads in label order: result over (r, h) with entry (r=a, h=y) = x[t=2,r=a,g=y] -/
example : (exX.getitem? (.dict [("g", .dim dH), ("time", .item (.int 2))])).map
    (fun r => (DimSet.letters r.dims, r.values.toList)) = some (['r', 'h'], [6, 5, 8, 7]) := by decide

end Flodym.C06
