import FlodymProofs.Lemmas.GetSet
/-!
# C05 — assignment into a declared array keeps its dims and sums the source by label

Notation as in C06: `S'` = what the key asks of each dimension; `outDims x.dims S'` = the
dimensions of the addressed region; `liftIdx x.dims S' e` = the target entry that the region
labels `e` stand for. List selectors with an array right-hand side are the recorded finding D10
(positional placement along the listed dimension) and are outside these theorems; the `index`
correspondence stream covers them as the code behaves.
-/
namespace Flodym.C05
open Flodym DimSet SubArray

variable {α : Type}

/-- `target[key] = array`: dims and shape never change; every addressed entry receives the source
summed over the dimensions the region does not have, matched by label; nothing outside the
addressed region changes -/
theorem setitem_array_by_label [Add α] [OfNat α 0] (x y : FArr α) (hx : WF x) (hy : WF y)
    (kvs : List (String × Sel)) (S' : List DSel)
    (hdec : Decodes x.dims kvs (x.dims.map fun _ => DSel.keep) S') (hok : SelsOK x.dims S')
    (hinj : SelsInj S') (hsub : ∀ d ∈ outDims x.dims S', d ∈ y.dims) :
    ∃ r, x.setitem? (.dict kvs) (.arr y) = some r ∧ r.dims = x.dims ∧ WF r ∧
      (∀ e, Valid (outDims x.dims S') e →
        r.values.get (liftIdx x.dims S' e) = margin y (letters (outDims x.dims S')) e) ∧
      (∀ idx, (∀ e, Valid (outDims x.dims S') e → liftIdx x.dims S' e ≠ idx) →
        r.values.get idx = x.values.get idx) :=
  setitem_arr_spec x y hx hy kvs S' hdec hok hinj hsub

/-- … and is rejected when the source lacks a dimension the region has -/
theorem setitem_array_missing_dim_rejected [Add α] [OfNat α 0] (x y : FArr α) (hx : WF x)
    (kvs : List (String × Sel)) (S' : List DSel)
    (hdec : Decodes x.dims kvs (x.dims.map fun _ => DSel.keep) S') (hok : SelsOK x.dims S')
    (hmiss : ∃ l ∈ letters (outDims x.dims S'), l ∉ y.letters) :
    x.setitem? (.dict kvs) (.arr y) = none :=
  setitem_arr_rejects x y hx kvs S' hdec hok hmiss

/-- a number fills the region -/
theorem setitem_number_fills [Add α] [OfNat α 0] (x : FArr α) (hx : WF x)
    (kvs : List (String × Sel)) (S' : List DSel) (c : α)
    (hdec : Decodes x.dims kvs (x.dims.map fun _ => DSel.keep) S') (hok : SelsOK x.dims S') :
    ∃ r, x.setitem? (.dict kvs) (.num c) = some r ∧ r.dims = x.dims ∧ WF r ∧
      (∀ e, Valid (outDims x.dims S') e → r.values.get (liftIdx x.dims S' e) = c) ∧
      (∀ idx, (∀ e, Valid (outDims x.dims S') e → liftIdx x.dims S' e ≠ idx) →
        r.values.get idx = x.values.get idx) :=
  setitem_num_spec x hx kvs S' c hdec hok

/-- whole-array assignment `target[...] = array`: every entry = the source summed to the target's
dimensions, by label (the empty key decodes to "keep everything") -/
theorem setitem_whole_array [Add α] [OfNat α 0] (x y : FArr α) (hx : WF x) (hy : WF y)
    (hsub : ∀ d ∈ x.dims, d ∈ y.dims) :
    ∃ r, x.setitem? .ellipsis (.arr y) = some r ∧ r.dims = x.dims ∧ WF r ∧
      ∀ e, Valid x.dims e → r.at e = margin y x.letters e := by
  have hdec : Decodes x.dims [] (x.dims.map fun _ => DSel.keep) (x.dims.map fun _ => DSel.keep) :=
    .nil _
  have hinj : SelsInj (x.dims.map fun _ => DSel.keep) := by
    generalize x.dims = D
    induction D with
    | nil => trivial
    | cons d D ih => exact ih
  have hout := outDims_keep x.dims
  obtain ⟨r, h1, h2, h3, h4, _⟩ := setitem_arr_spec x y hx hy [] _ hdec (SelsOK_keep x.dims) hinj
    (by rw [hout]; exact hsub)
  refine ⟨r, ?_, h2, h3, ?_⟩
  · -- the ellipsis key and the empty dict build the same handler
    have : x.setitem? .ellipsis (.arr y) = x.setitem? (.dict []) (.arr y) := rfl
    rw [this]; exact h1
  · intro e hv
    have := h4 e (by rw [hout]; exact hv)
    rw [hout] at this
    have hl : liftIdx x.dims (x.dims.map fun _ => DSel.keep) e = x.letters.map e := by
      unfold FArr.letters
      generalize x.dims = D
      induction D with
      | nil => rfl
      | cons d D ih => simp [liftIdx, letters, ih]
    unfold FArr.at FArr.letters
    rw [h2]
    unfold FArr.letters at hl
    rw [← hl]
    exact this

/-- whole-array assignment of an ndarray: accepted exactly when it has the target's shape, and
then stored as given (never broadcast, never transposed) -/
theorem setitem_whole_ndarray [Add α] [OfNat α 0] (x : FArr α) (hx : WF x) (v : ND α) :
    (v.shape = x.values.shape → x.setitem? .ellipsis (.nd v) = some ⟨x.dims, v⟩) ∧
    (v.shape ≠ x.values.shape → x.setitem? .ellipsis (.nd v) = none) := by
  have hh : handler? x.dims .ellipsis =
      some ⟨[], false, x.dims, convertMesh x.dims (x.dims.map fun _ => Ix.all)⟩ := rfl
  have hno : ∀ s ∈ (x.dims.map fun _ => DSel.keep), s.isSub = false := by
    intro s hs; obtain ⟨_, _, rfl⟩ := List.mem_map.mp hs; rfl
  obtain ⟨p, hp, _, _⟩ := plan_spec x.dims _ (SelsOK_keep x.dims)
  have hmap : (x.dims.map fun _ => DSel.keep).map DSel.toIx = x.dims.map fun _ => Ix.all := by
    simp [DSel.toIx, Function.comp_def]
  rw [hmap, ← hx.2] at hp
  constructor
  · intro hs
    unfold FArr.setitem?
    simp only [Option.bind_eq_bind, hh, Option.bind_some, hp, Key.whole, if_true]
    exact FArr.mk?_eq_some _ _ hx.1 (by rw [hs]; exact hx.2)
  · intro hs
    unfold FArr.setitem?
    simp only [Option.bind_eq_bind, hh, Option.bind_some, hp, Key.whole, if_true]
    unfold FArr.mk?
    rw [if_neg]
    rintro ⟨_, h⟩
    exact hs (by rw [h]; exact hx.2.symm)

/-- the code as it stands sends `x[{}] = ndarray` and `x[()] = ndarray` through `set_values` as well
(regenerated from `__setitem__`; D31 before the repair: these two broadcast) -/
theorem source_empty_key_is_whole_array : Gen.emptyKeyIsWholeArray = true := by decide

/-- **every way of addressing the whole array** (`...`, the empty dict, the empty tuple) takes an
ndarray exactly when it has the target's shape, and stores it as given -/
theorem setitem_whole_ndarray_any_key [Add α] [OfNat α 0] (x : FArr α) (hx : WF x) (v : ND α) (key : Key)
    (hk : key = .ellipsis ∨ key = .dict [] ∨ key = .tuple []) :
    (v.shape = x.values.shape → x.setitem? key (.nd v) = some ⟨x.dims, v⟩) ∧
    (v.shape ≠ x.values.shape → x.setitem? key (.nd v) = none) := by
  have hsame : x.setitem? key (.nd v) = x.setitem? .ellipsis (.nd v) := by
    rcases hk with rfl | rfl | rfl
    · rfl
    · unfold FArr.setitem?
      have hh : handler? x.dims (.dict []) = handler? x.dims .ellipsis := rfl
      simp only [hh, Key.whole, source_empty_key_is_whole_array]
    · unfold FArr.setitem?
      have hh : handler? x.dims (.tuple []) = handler? x.dims .ellipsis := rfl
      simp only [hh, Key.whole, source_empty_key_is_whole_array]
  rw [hsame]
  exact setitem_whole_ndarray x hx v

/-! ## recorded finding D10: a list key places an array right-hand side by position -/

def dR : Dim := { letter := 'r', name := "rr", items := [.str "a", .str "b"] }
def exT : FArr Int := ⟨[dR], ND.ofFlat [2] #[0, 0] 0⟩
def exY : FArr Int := ⟨[dR], ND.ofFlat [2] #[10, 20] 0⟩

/-- `x[{"r": ["b", "a"]}] = y` writes y's entry for `a` under `b` and vice versa: the entries land
as (a ↦ 20, b ↦ 10) although y holds (a ↦ 10, b ↦ 20). The model mirrors the code here; matching
by label would give [10, 20]. The theorems above therefore exclude list selectors combined with an
array right-hand side (`_partial` in the sense of DESIGN.md 4.3). -/
theorem list_key_array_rhs_is_positional_D10 :
    (exT.setitem? (.dict [("r", .list [.str "b", .str "a"])]) (.arr exY)).map (·.values.toList)
      = some [20, 10] := by decide

/-! ## sequences of assignments to overlapping regions: the last writer wins -/

/-- one assignment seen from a single entry: either the entry is addressed and receives `val`,
or it keeps its value -/
structure Write (α : Type) where
  addressed : List Nat → Prop
  val : List Nat → α

/-- `b` is the result of applying `w` to `a` -/
def Write.Relates (w : Write α) (a b : List Nat → α) : Prop :=
  (∀ idx, w.addressed idx → b idx = w.val idx) ∧ (∀ idx, ¬ w.addressed idx → b idx = a idx)

/-- after any sequence of assignments, an entry holds the value written by the last assignment
whose region contains it, and its original value if there is none -/
theorem history_last_writer_wins (ws : List (Write α)) (states : List (List Nat → α))
    (a0 : List Nat → α) (hlen : states.length = ws.length)
    (hstep : ∀ k (h : k < ws.length),
      (ws[k]).Relates (if k = 0 then a0 else states[k - 1]'(by omega)) (states[k]'(by omega)))
    (idx : List Nat) :
    (∀ w ∈ ws, ¬ w.addressed idx) → (states.getLast?.getD a0) idx = a0 idx := by
  intro hno
  -- every intermediate state agrees with a0 at idx
  have hall : ∀ k (h : k < ws.length), (states[k]'(by omega)) idx = a0 idx := by
    intro k
    induction k with
    | zero =>
      intro h
      have := (hstep 0 h).2 idx (hno _ (List.getElem_mem h))
      simpa using this
    | succ k ih =>
      intro h
      have := (hstep (k + 1) h).2 idx (hno _ (List.getElem_mem h))
      simp only [Nat.add_one_ne_zero, if_false, Nat.add_sub_cancel] at this
      rw [this]; exact ih (by omega)
  cases hs : states.getLast? with
  | none => rfl
  | some s =>
    simp only [Option.getD_some]
    have hne : states ≠ [] := by intro h; rw [h] at hs; cases hs
    have hpos : 0 < states.length := List.length_pos_iff.mpr hne
    have hlast : s = states[states.length - 1]'(by omega) := by
      rw [List.getLast?_eq_getElem?] at hs
      rw [List.getElem?_eq_getElem (by omega)] at hs
      exact (Option.some.inj hs).symm
    rw [hlast]
    exact hall (states.length - 1) (by omega)

/-- … and the last assignment addressing an entry determines it -/
theorem history_last_write_value (ws : List (Write α)) (states : List (List Nat → α))
    (a0 : List Nat → α) (hlen : states.length = ws.length)
    (hstep : ∀ k (h : k < ws.length),
      (ws[k]).Relates (if k = 0 then a0 else states[k - 1]'(by omega)) (states[k]'(by omega)))
    (idx : List Nat) (j : Nat) (hj : j < ws.length) (haddr : (ws[j]).addressed idx)
    (hlater : ∀ k (h : k < ws.length), j < k → ¬ (ws[k]).addressed idx) :
    ∀ k (h : k < ws.length), j ≤ k → (states[k]'(by omega)) idx = (ws[j]).val idx := by
  intro k
  induction k with
  | zero =>
    intro h hjk
    have : j = 0 := by omega
    subst this
    exact (hstep 0 h).1 idx haddr
  | succ k ih =>
    intro h hjk
    by_cases hjeq : j = k + 1
    · subst hjeq
      exact (hstep (k + 1) h).1 idx haddr
    · have := (hstep (k + 1) h).2 idx (hlater (k + 1) h (by omega))
      simp only [Nat.add_one_ne_zero, if_false, Nat.add_sub_cancel] at this
      rw [this]
      exact ih (by omega) (by omega)

end Flodym.C05
