import FlodymProofs.Props.C10
/-!
# C16 — dynamic stock models are causal, linear and independent across labels
-/
open Finset BigOperators
namespace Flodym.C16
open Flodym Flodym.DSM

variable {K : Type} [Field K]

/-! ## causality -/

theorem sum_lowerTri (n : Nat) (f : Nat → K) (t : Nat) (ht : t < n) (hz : ∀ c, t < c → f c = 0) :
    ∑ c ∈ range n, f c = ∑ c ∈ range (t + 1), f c := by
  have hsplit : range n = range (t + 1) ∪ (range n \ range (t + 1)) := by
    rw [Finset.union_sdiff_of_subset]
    intro x hx; exact mem_range.mpr (by have := mem_range.mp hx; omega)
  rw [hsplit, sum_union (Finset.disjoint_sdiff)]
  have hzero : ∑ c ∈ range n \ range (t + 1), f c = 0 := by
    apply sum_eq_zero
    intro c hc
    apply hz
    have := (mem_sdiff.mp hc).2
    simp only [mem_range, not_lt] at this
    omega
  rw [hzero, add_zero]

/-- inflow-driven: results at step t depend only on the inflow at steps ≤ t -/
theorem inflowDriven_causal (it : Nat → K) (n : Nat) (i i' : Nat → Nat → K) (sf : Nat → Nat → Nat → K)
    (hlt : LowerTri sf) (t j : Nat) (ht : t < n) (h : ∀ s, s ≤ t → i s j = i' s j) :
    let a := inflowDriven it n i sf
    let b := inflowDriven it n i' sf
    a.stock t j = b.stock t j ∧ a.outflow t j = b.outflow t j ∧
    ∀ c, c ≤ t → a.stockByCohort t c j = b.stockByCohort t c j ∧
                 a.outflowByCohort t c j = b.outflowByCohort t c j := by
  intro a b
  refine ⟨?_, ?_, ?_⟩
  · show (inflowDriven it n i sf).stock t j = (inflowDriven it n i' sf).stock t j
    rw [inflowDriven_stock, inflowDriven_stock,
      sum_lowerTri n _ t ht (fun c hc => by rw [hlt t c j hc, mul_zero]),
      sum_lowerTri n _ t ht (fun c hc => by rw [hlt t c j hc, mul_zero])]
    apply sum_congr rfl
    intro c hc
    rw [h c (by have := mem_range.mp hc; omega)]
  · show (inflowDriven it n i sf).outflow t j = (inflowDriven it n i' sf).outflow t j
    rw [inflowDriven_outflow, inflowDriven_outflow,
      sum_lowerTri n _ t ht (fun c hc => by rw [C09.pdf_zero_before sf t c j hc]; ring),
      sum_lowerTri n _ t ht (fun c hc => by rw [C09.pdf_zero_before sf t c j hc]; ring)]
    apply sum_congr rfl
    intro c hc
    rw [h c (by have := mem_range.mp hc; omega)]
  · intro c hc
    constructor
    · show (inflowDriven it n i sf).stockByCohort t c j = (inflowDriven it n i' sf).stockByCohort t c j
      rw [inflowDriven_sbc, inflowDriven_sbc, h c hc]
    · show (inflowDriven it n i sf).outflowByCohort t c j = (inflowDriven it n i' sf).outflowByCohort t c j
      rw [inflowDriven_obc, inflowDriven_obc, h c hc]

/-- stock-driven: the inflow found at step t depends only on the prescribed stock at steps ≤ t
(forward substitution only looks back) -/
theorem stockDriven_causal (n : Nat) (s s' : Nat → Nat → K) (sf : Nat → Nat → Nat → K) (j : Nat) :
    ∀ t, t < n → (∀ u, u ≤ t → s u j = s' u j) → sdInflowWP n s sf t j = sdInflowWP n s' sf t j := by
  intro t
  induction t using Nat.strong_induction_on with
  | _ t ih =>
    intro ht h
    rw [sdInflowWP_eq n s sf t j ht, sdInflowWP_eq n s' sf t j ht, h t (le_refl t)]
    congr 2
    apply sum_congr rfl
    intro c hc
    have hct : c < t := mem_range.mp hc
    rw [ih c hct (by omega) (fun u hu => h u (by omega))]

/-! ## linearity -/

/-- superposition and scaling of the inflow-driven model -/
theorem inflowDriven_linear (it : Nat → K) (n : Nat) (i i' : Nat → Nat → K) (a b : K)
    (sf : Nat → Nat → Nat → K) (t j : Nat) :
    let r := inflowDriven it n (fun t j => a * i t j + b * i' t j) sf
    let r1 := inflowDriven it n i sf
    let r2 := inflowDriven it n i' sf
    r.stock t j = a * r1.stock t j + b * r2.stock t j ∧
    r.outflow t j = a * r1.outflow t j + b * r2.outflow t j ∧
    ∀ c, r.stockByCohort t c j = a * r1.stockByCohort t c j + b * r2.stockByCohort t c j ∧
         r.outflowByCohort t c j = a * r1.outflowByCohort t c j + b * r2.outflowByCohort t c j := by
  intro r r1 r2
  refine ⟨?_, ?_, ?_⟩
  · show (inflowDriven it n _ sf).stock t j = a * (inflowDriven it n i sf).stock t j + b * (inflowDriven it n i' sf).stock t j
    simp only [inflowDriven_stock, Finset.mul_sum, ← sum_add_distrib]
    exact sum_congr rfl (fun c _ => by ring)
  · show (inflowDriven it n _ sf).outflow t j = a * (inflowDriven it n i sf).outflow t j + b * (inflowDriven it n i' sf).outflow t j
    simp only [inflowDriven_outflow, Finset.mul_sum, ← sum_add_distrib]
    exact sum_congr rfl (fun c _ => by ring)
  · intro c
    constructor
    · show (inflowDriven it n _ sf).stockByCohort t c j = a * (inflowDriven it n i sf).stockByCohort t c j + b * (inflowDriven it n i' sf).stockByCohort t c j
      simp only [inflowDriven_sbc]; ring
    · show (inflowDriven it n _ sf).outflowByCohort t c j = a * (inflowDriven it n i sf).outflowByCohort t c j + b * (inflowDriven it n i' sf).outflowByCohort t c j
      simp only [inflowDriven_obc]; ring

/-- the stock-driven model is linear in the prescribed stock -/
theorem stockDriven_linear (n : Nat) (s s' : Nat → Nat → K) (a b : K) (sf : Nat → Nat → Nat → K)
    (hd : ∀ t j, t < n → sf t t j ≠ 0) (j : Nat) (t : Nat) (ht : t < n) :
    sdInflowWP n (fun t j => a * s t j + b * s' t j) sf t j
      = a * sdInflowWP n s sf t j + b * sdInflowWP n s' sf t j := by
  symm
  apply solution_unique n (fun t j => a * s t j + b * s' t j) sf hd
    (fun t j => a * sdInflowWP n s sf t j + b * sdInflowWP n s' sf t j) j _ t ht
  intro u hu
  have h1 := manual_solves n s sf hd u j hu
  have h2 := manual_solves n s' sf hd u j hu
  rw [← h1, ← h2, Finset.mul_sum, Finset.mul_sum, ← sum_add_distrib]
  exact sum_congr rfl (fun c _ => by ring)

/-! ## independence across labels -/

/-- every combination of non-time labels evolves exactly as if computed alone: the results at
label position j are those of the one-label model run on column j of the inputs -/
theorem inflowDriven_label_independent (it : Nat → K) (n : Nat) (i : Nat → Nat → K)
    (sf : Nat → Nat → Nat → K) (t j : Nat) :
    let all := inflowDriven it n i sf
    let alone := inflowDriven it n (fun t _ => i t j) (fun t c _ => sf t c j)
    all.stock t j = alone.stock t 0 ∧ all.outflow t j = alone.outflow t 0 ∧
    ∀ c, all.stockByCohort t c j = alone.stockByCohort t c 0 ∧
         all.outflowByCohort t c j = alone.outflowByCohort t c 0 := by
  intro all alone
  refine ⟨?_, ?_, ?_⟩
  · show (inflowDriven it n i sf).stock t j = (inflowDriven it n _ _).stock t 0
    simp only [inflowDriven_stock]
  · show (inflowDriven it n i sf).outflow t j = (inflowDriven it n _ _).outflow t 0
    simp only [inflowDriven_outflow, pdfTable]
  · intro c
    constructor
    · show (inflowDriven it n i sf).stockByCohort t c j = (inflowDriven it n _ _).stockByCohort t c 0
      simp only [inflowDriven_sbc]
    · show (inflowDriven it n i sf).outflowByCohort t c j = (inflowDriven it n _ _).outflowByCohort t c 0
      simp only [inflowDriven_obc, pdfTable]

theorem manual_label_independent (s : Nat → Nat → K) (sf : Nat → Nat → Nat → K) (j : Nat) :
    ∀ i, inflowWholePeriodManual s sf j i
      = inflowWholePeriodManual (fun t _ => s t j) (fun t c _ => sf t c j) 0 i
  | 0 => rfl
  | i + 1 => by
    simp only [inflowWholePeriodManual, manual_label_independent s sf j i]

theorem stockDriven_label_independent (n : Nat) (s : Nat → Nat → K) (sf : Nat → Nat → Nat → K) (t j : Nat) :
    sdInflowWP n s sf t j = sdInflowWP n (fun t _ => s t j) (fun t c _ => sf t c j) t 0 := by
  unfold sdInflowWP
  rw [manual_label_independent]

/-! ## calendar shifts -/

/-- shifting all time items by a constant shifts the bounds by it and changes neither the interval
lengths nor any age, hence no survival table and no result (`1 + 1 ≠ 0`: any field in which the
midpoint makes sense, e.g. ℝ) -/
theorem shift_invariant (it : Nat → K) (n : Nat) (k : K) (h2 : (1 + 1 : K) ≠ 0) :
    (∀ m, bounds (fun x => it x + k) n m = bounds it n m + k) ∧
    (∀ t, dt (fun x => it x + k) n t = dt it n t) ∧
    (∀ eta c t, age (fun x => it x + k) n eta c t = age it n eta c t) := by
  have hm : ∀ m, mid (fun x => it x + k) m = mid it m + k := by
    intro m; unfold mid
    field_simp
    ring
  have hb : ∀ m, bounds (fun x => it x + k) n m = bounds it n m + k := by
    intro m
    unfold bounds
    by_cases h0 : m = 0
    · simp only [h0, if_true, hm]; ring
    · by_cases h1 : m < n
      · simp only [h0, if_false, h1, if_true, hm]
      · simp only [h0, if_false, h1, hm]; ring
  refine ⟨hb, ?_, ?_⟩
  · intro t; unfold dt; rw [hb, hb]; ring
  · intro eta c t; unfold age; rw [hb, hb, hb]; ring

/-! ## impulse response -/

/-- the stock response to a unit inflow rate in one cohort (and one label) is that cohort's column
of the survival table times its interval length; other labels stay untouched -/
theorem impulse_response (it : Nat → K) (n : Nat) (sf : Nat → Nat → Nat → K) (c0 j0 : Nat) (hc : c0 < n)
    (t j : Nat) :
    (inflowDriven it n (fun c j => if c = c0 ∧ j = j0 then 1 else 0) sf).stock t j
      = if j = j0 then sf t c0 j0 * dt it n c0 else 0 := by
  rw [inflowDriven_stock]
  by_cases hj : j = j0
  · subst hj
    simp only [and_true, if_true]
    rw [sum_eq_single c0]
    · simp; ring
    · intro b _ hb; simp [hb]
    · intro h; exact absurd (mem_range.mpr hc) h
  · simp only [hj, and_false, if_false, zero_mul, sum_const_zero]

end Flodym.C16
