import Flodym.Store
import FlodymProofs.Lemmas.GetSet
/-!
# C13 — arrays always have the shape of their dimensions; failed calls change nothing

`WF x` : pairwise distinct dimension letters and `values.shape` = the lengths of the dimensions in
order. Every public operation of the model ends in the constructor (`FArr.mk?`, which pydantic's
validators implement) or keeps dims and shape (`setitem?`), so whatever it returns is well formed;
a call that raises leaves the store as it was; hence the invariant holds in every store reachable
by any sequence of successful and failed calls. Core Lean only.
-/
namespace Flodym.C13
open Flodym DimSet SubArray

variable {α : Type}

/-- the constructor accepts exactly distinct letters with a values array of the dimensions' shape -/
theorem constructor_accepts_iff (dims : DimSet) (v : ND α) :
    (∃ r, FArr.mk? dims v = some r) ↔ ((letters dims).Nodup ∧ v.shape = DimSet.shape dims) := by
  unfold FArr.mk?
  by_cases h : (letters dims).Nodup ∧ v.shape = DimSet.shape dims
  · simp [h]
  · simp [h]

/-- … and never broadcasts, transposes or stores anything else: what it returns is what was given -/
theorem constructor_stores_as_given (dims : DimSet) (v : ND α) (r : FArr α) (h : FArr.mk? dims v = some r) :
    r.dims = dims ∧ r.values = v ∧ WF r := by
  obtain ⟨h1, h2⟩ := FArr.mk?_wf dims v r h
  subst h1
  exact ⟨rfl, rfl, h2⟩

/-- `set_values(ndarray)` / whole-array assignment: any other shape is rejected -/
theorem set_values_rejects_other_shape (x : FArr α) (v : ND α) (h : v.shape ≠ DimSet.shape x.dims) :
    FArr.mk? x.dims v = none := by
  unfold FArr.mk?
  rw [if_neg]
  exact fun hh => h hh.2

/-! ## every operation returns well-formed arrays -/

section ops
variable [Add α] [OfNat α 0]

theorem sumTo_wf (x r : FArr α) (ks : List FArr.DimKey) (h : x.sumTo? ks = some r) : WF r := by
  unfold FArr.sumTo? at h
  simp only [Option.bind_eq_bind, Option.bind_eq_some_iff] at h
  obtain ⟨_, _, _, _, _, _, h⟩ := h
  exact (FArr.mk?_wf _ _ _ h).2

theorem sumOver_wf (x r : FArr α) (ks : List FArr.DimKey) (h : x.sumOver? ks = some r) : WF r := by
  unfold FArr.sumOver? at h
  simp only [Option.bind_eq_bind, Option.bind_eq_some_iff] at h
  obtain ⟨_, _, _, _, _, _, _, _, h⟩ := h
  exact (FArr.mk?_wf _ _ _ h).2

theorem castTo_wf (x r : FArr α) (T : DimSet) (h : x.castTo? T = some r) : WF r := by
  unfold FArr.castTo? at h
  simp only [Option.bind_eq_some_iff] at h
  obtain ⟨_, _, h⟩ := h
  exact (FArr.mk?_wf _ _ _ h).2

theorem cumsum_wf (x r : FArr α) (l : Char) (h : x.cumsum? l = some r) : WF r := by
  unfold FArr.cumsum? at h
  by_cases hi : List.idxOf l x.letters < x.letters.length
  · simp only [hi, if_true] at h
    exact (FArr.mk?_wf _ _ _ h).2
  · simp only [hi, if_false] at h
    cases h

theorem getitem_wf (x r : FArr α) (key : Key) (h : x.getitem? key = some r) : WF r := by
  unfold FArr.getitem? at h
  simp only [Option.bind_eq_bind, Option.bind_eq_some_iff] at h
  obtain ⟨hd, _, h⟩ := h
  split at h
  · cases h
  · simp only [Option.bind_eq_some_iff] at h
    obtain ⟨_, _, h⟩ := h
    exact (FArr.mk?_wf _ _ _ h).2

variable [Mul α] [OfNat α 1]

theorem addLike_wf (f : α → α → α) (x r : FArr α) (o : FArr.Operand α) (h : FArr.addLike? f x o = some r) :
    WF r := by
  unfold FArr.addLike? at h
  simp only [Option.bind_eq_bind, Option.bind_eq_some_iff] at h
  obtain ⟨_, _, _, _, _, _, _, _, h⟩ := h
  exact (FArr.mk?_wf _ _ _ h).2

theorem mul_wf (x r : FArr α) (o : FArr.Operand α) (h : FArr.mul? x o = some r) : WF r := by
  unfold FArr.mul? at h
  simp only [Option.bind_eq_bind, Option.bind_eq_some_iff] at h
  obtain ⟨_, _, _, _, _, _, h⟩ := h
  exact (FArr.mk?_wf _ _ _ h).2

theorem div_wf [Div α] (x r : FArr α) (o : FArr.Operand α) (h : FArr.div? x o = some r) : WF r := by
  unfold FArr.div? at h
  simp only [Option.bind_eq_bind, Option.bind_eq_some_iff] at h
  obtain ⟨_, _, _, _, _, _, h⟩ := h
  exact (FArr.mk?_wf _ _ _ h).2

theorem mapValues_wf [Neg α] [Div α] (f : α → α) (x r : FArr α) (h : FArr.mapValues? f x = some r) : WF r :=
  (FArr.mk?_wf _ _ _ h).2

theorem full_wf (dims : DimSet) (c : α) (r : FArr α) (h : FArr.full? dims c = some r) : WF r :=
  (FArr.mk?_wf _ _ _ h).2

/-- assignment through `[]` keeps the target well formed (dims and shape never change) -/
theorem setitem_wf (x r : FArr α) (hx : WF x) (key : Key) (rhs : FArr.Rhs α)
    (h : x.setitem? key rhs = some r) : WF r ∧ r.dims = x.dims := by
  unfold FArr.setitem? at h
  simp only [Option.bind_eq_bind, Option.bind_eq_some_iff] at h
  obtain ⟨hd, _, plan, _, h⟩ := h
  have hset : ∀ (ixs : List Ix) (v nv : ND α), x.values.indexSet? ixs v = some nv → nv.shape = x.values.shape := by
    intro ixs v nv hh
    unfold ND.indexSet? at hh
    split at hh
    · cases hh
    · split at hh
      · cases hh
      · cases hh; rfl
  cases rhs with
  | arr y =>
    simp only [Option.bind_eq_some_iff] at h
    obtain ⟨_, _, _, _, nv, hnv, h⟩ := h
    cases h
    exact ⟨⟨hx.1, by rw [hset _ _ _ hnv]; exact hx.2⟩, rfl⟩
  | num c =>
    simp only [Option.bind_eq_some_iff] at h
    obtain ⟨nv, hnv, h⟩ := h
    cases h
    exact ⟨⟨hx.1, by rw [hset _ _ _ hnv]; exact hx.2⟩, rfl⟩
  | nd v =>
    by_cases hw : key.whole Gen.emptyKeyIsWholeArray = true
    · simp only [hw, if_true] at h
      obtain ⟨h1, h2⟩ := FArr.mk?_wf _ _ _ h
      subst h1; exact ⟨h2, rfl⟩
    · simp only [hw, Bool.false_eq_true, if_false, Option.bind_eq_some_iff] at h
      obtain ⟨_, _, nv, hnv, h⟩ := h
      cases h
      exact ⟨⟨hx.1, by rw [hset _ _ _ hnv]; exact hx.2⟩, rfl⟩

/-- whole-array assignment under every spelling of "the whole array" (`...`, `{}`, `()`) goes through
`set_values` in the code as it stands (regenerated from `__setitem__`): an ndarray of another shape is
rejected, never broadcast (D31 before the repair) -/
theorem source_whole_array_keys : Gen.emptyKeyIsWholeArray = true := by decide

/-- under such a key an ndarray is stored only as a well-formed array over the same dimensions -/
theorem setitem_whole_nd_exact (x r : FArr α) (key : Key) (v : ND α)
    (hk : key.whole Gen.emptyKeyIsWholeArray = true) (h : x.setitem? key (.nd v) = some r) :
    r.dims = x.dims ∧ r.values = v ∧ v.shape = DimSet.shape x.dims := by
  unfold FArr.setitem? at h
  simp only [Option.bind_eq_bind, Option.bind_eq_some_iff] at h
  obtain ⟨hd, _, plan, _, h⟩ := h
  simp only [hk, if_true] at h
  unfold FArr.mk? at h
  split at h
  · rename_i hc
    cases h
    exact ⟨rfl, rfl, hc.2⟩
  · cases h

end ops

/-! ## histories: the invariant survives any sequence of successful and failed calls -/

/-- every array in the store is well formed -/
def AllWF (s : SStore α) : Prop := ∀ h x, s.get? h = some x → WF x

/-- an operation only ever yields well-formed arrays (true of every public operation, see above) -/
def Sound : SOp α → Prop
  | .new _ f => ∀ s x, AllWF s → f s = some x → WF x
  | .assign _ f => ∀ x s x', WF x → AllWF s → f x s = some x' → WF x'

theorem find?_filter_ne (l : List (Nat × FArr α)) (h h' : Nat) (hh : h' ≠ h) :
    (l.filter (·.1 != h)).find? (·.1 == h') = l.find? (·.1 == h') := by
  induction l with
  | nil => rfl
  | cons p l ih =>
    by_cases hp : p.1 = h
    · have e1 : (p.1 != h) = false := by simp [hp]
      have e2 : (p.1 == h') = false := by
        rw [beq_eq_false_iff_ne]; intro e; exact hh (e ▸ hp)
      simp only [List.filter_cons, e1, Bool.false_eq_true, if_false, List.find?_cons, e2]
      exact ih
    · have e1 : (p.1 != h) = true := by simp [hp]
      simp only [List.filter_cons, e1, if_true, List.find?_cons]
      cases hq : (p.1 == h') with
      | true => rfl
      | false => exact ih

theorem get?_put (s : SStore α) (h h' : Nat) (x : FArr α) :
    (s.put h x).get? h' = if h' = h then some x else s.get? h' := by
  unfold SStore.put SStore.get?
  by_cases hh : h' = h
  · subst hh; simp
  · have e : (h == h') = false := by
      rw [beq_eq_false_iff_ne]; exact fun e => hh e.symm
    simp only [List.find?_cons, e, hh, if_false]
    rw [find?_filter_ne s.arrs h h' hh]

theorem put_allWF (s : SStore α) (h : Nat) (x : FArr α) (hs : AllWF s) (hx : WF x) : AllWF (s.put h x) := by
  intro h' y hy
  rw [get?_put] at hy
  by_cases hh : h' = h
  · simp [hh] at hy; subst hy; exact hx
  · simp [hh] at hy; exact hs h' y hy

/-- a call that raises leaves every array exactly as it was -/
theorem failed_call_changes_nothing (s : SStore α) (h : Nat) (f : SStore α → Option (FArr α))
    (g : FArr α → SStore α → Option (FArr α)) :
    (f s = none → s.step (.new h f) = s) ∧
    ((∀ x, s.get? h = some x → g x s = none) → s.step (.assign h g) = s) := by
  constructor
  · intro hf
    show (match f s with | some x => s.put h x | none => s) = s
    rw [hf]
  · intro hg
    show (match s.get? h with
      | some x => (match g x s with | some x' => s.put h x' | none => s)
      | none => s) = s
    cases hx : s.get? h with
    | none => rfl
    | some x => simp only [hg x hx]

theorem step_invariant (s : SStore α) (op : SOp α) (hs : AllWF s) (hop : Sound op) : AllWF (s.step op) := by
  cases op with
  | new h f =>
    show AllWF (match f s with | some x => s.put h x | none => s)
    cases hf : f s with
    | none => exact hs
    | some x => exact put_allWF s h x hs (hop s x hs hf)
  | assign h f =>
    show AllWF (match s.get? h with
      | some x => (match f x s with | some x' => s.put h x' | none => s)
      | none => s)
    cases hx : s.get? h with
    | none => exact hs
    | some x =>
      simp only
      cases hf : f x s with
      | none => exact hs
      | some x' => exact put_allWF s h x' hs (hop x s x' (hs h x hx) hs hf)

/-- **every reachable store satisfies the invariant** -/
theorem history_invariant (ops : List (SOp α)) (s : SStore α) (hs : AllWF s) (hops : ∀ op ∈ ops, Sound op) :
    AllWF (s.run ops) := by
  unfold SStore.run
  induction ops generalizing s with
  | nil => exact hs
  | cons op ops ih =>
    simp only [List.foldl_cons]
    exact ih _ (step_invariant s op hs (hops op (by simp))) (fun o ho => hops o (by simp [ho]))

theorem empty_store_ok : AllWF ({} : SStore α) := by
  intro h x hx; simp [SStore.get?] at hx

/-! ## stocks and lifetime models -/

/-- the validators as they stand in the source compare whole dimension sets and require the time
dimension first — for stocks and for lifetime models (regenerated from the AST on every run) -/
theorem source_validators : Gen.stockValidatorComparesFullDims = true ∧ Gen.lifetimeRequiresTimeFirst = true := by
  decide

/-- a stock accepts only arrays and lifetime models over exactly its own dimensions, time first -/
theorem stock_accepts_only_matching (dims : DimSet) (t : Char) (arrs lms : List DimSet)
    (h : stockAccepts dims t arrs lms = true) :
    (∀ d ∈ arrs, d = dims) ∧ (∀ d ∈ lms, d = dims) ∧ (letters dims).head? = some t := by
  unfold stockAccepts at h
  have hfull : Gen.stockValidatorComparesFullDims = true := by decide
  simp only [hfull, if_true, Bool.and_eq_true, List.all_eq_true, beq_iff_eq] at h
  exact ⟨h.1.1.1, h.1.1.2, h.1.2⟩

theorem lifetime_requires_time_first (dims : DimSet) (t : Char) (ia : String)
    (h : lifetimeAccepts dims t ia = true) : (letters dims).head? = some t := by
  unfold lifetimeAccepts at h
  have hreq : Gen.lifetimeRequiresTimeFirst = true := by decide
  simp only [hreq, Bool.not_true, Bool.or_false, Bool.and_eq_true, beq_iff_eq] at h
  exact h.1.1

end Flodym.C13
