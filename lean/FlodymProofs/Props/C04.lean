import FlodymProofs.Lemmas.Shares
import FlodymProofs.Lemmas.GetSet
import FlodymProofs.Props.C05
/-!
# C04 — results do not depend on the storage order of dimensions

`LabelEq x x'` : `x'` is `x` with its dimension list permuted and its values transposed
accordingly — the same entries under the same labels. Each theorem says: feeding label-equal
operands to a public operation gives label-equal results, and states the result's own dimension
order (left operand first / the target's order / the requested order).
They are corollaries of the spec theorems of C01, C06 and C07 (each spec mentions its inputs only
through their label view) and of the permutation invariance of nested sums (`sumOver_perm`).
Assignment (`setitem_source_order_independent`, `setitem_whole_order_independent`) follows from the C05 specs,
the lifetime-parameter cast from `castTo_spec`. DataFrame export/import and stacking are covered in C11 and
by the streams that permute storage orders.
-/
namespace Flodym.C04
open Flodym DimSet SubArray

variable {α : Type}

/-- same entries under the same labels; dimension lists are permutations of each other -/
def LabelEq (x x' : FArr α) : Prop := x'.dims.Perm x.dims ∧ ∀ e, x'.at e = x.at e

/-- permuting the storage order (and transposing the values accordingly) -/
def permute (x : FArr α) (D' : DimSet) : FArr α :=
  ⟨D', { shape := DimSet.shape D',
         get := fun idx => x.at (bind (letters D') idx Env.zero) }⟩

/-- `permute` keeps every entry under its labels -/
theorem permute_labelEq (x : FArr α) (D' : DimSet) (hp : D'.Perm x.dims) (hnd : (letters D').Nodup) :
    LabelEq x (permute x D') ∧ WF (permute x D') := by
  refine ⟨⟨hp, fun e => ?_⟩, ⟨hnd, rfl⟩⟩
  show x.at (bind (letters D') ((letters D').map e) Env.zero) = x.at e
  unfold FArr.at
  apply congrArg
  apply map_congr_mem
  intro c hc
  apply bind_map_self _ _ _ hnd
  have : (letters D').Perm x.letters := hp.map _
  exact this.mem_iff.mpr hc

theorem summedOf_perm (D D' : DimSet) (h : D'.Perm D) (L : List Char) :
    (summedOf D' L).Perm (summedOf D L) :=
  (h.filter _).map _

theorem summedOf_congr_keep (D : DimSet) (L L' : List Char) (h : ∀ c, c ∈ L ↔ c ∈ L') :
    summedOf D L = summedOf D L' := by
  unfold summedOf
  congr 1
  apply List.filter_congr
  intro d _
  have := h d.letter
  by_cases hc : d.letter ∈ L
  · simp [hc, this.mp hc]
  · have hc' : d.letter ∉ L' := fun h' => hc (this.mpr h')
    simp [hc, hc']

/-- marginal sums do not depend on the storage order of the array, nor on the order in which the
kept letters are listed -/
theorem margin_labelEq [AddCommMonoid α] (x x' : FArr α) (hx' : WF x') (h : LabelEq x x')
    (L L' : List Char) (hL : ∀ c, c ∈ L ↔ c ∈ L') (e : Env) :
    margin x' L' e = margin x L e := by
  unfold margin
  have hf : x'.at = x.at := funext h.2
  rw [hf, summedOf_congr_keep x'.dims L' L (fun c => (hL c).symm)]
  apply sumOver_perm (summedOf_perm x.dims x'.dims h.1 L)
  rw [summedOf_fst]
  exact hx'.1.filter _

theorem compatible_of_perm {D1 D1' D2 D2' : DimSet} (h1 : D1'.Perm D1) (h2 : D2'.Perm D2)
    (hc : Compatible D1 D2) : Compatible D1' D2' :=
  fun d hd d' hd' hl => hc d (h1.mem_iff.mp hd) d' (h2.mem_iff.mp hd') hl

theorem mem_letters_perm {D D' : DimSet} (h : D'.Perm D) (c : Char) : c ∈ letters D' ↔ c ∈ letters D :=
  (h.map (·.letter)).mem_iff

/-- x + y, x - y, minimum, maximum -/
theorem addLike_order_independent [Ring α] (f : α → α → α) (x x' y y' : FArr α)
    (hx : WF x) (hx' : WF x') (hy : WF y) (hy' : WF y') (hc : Compatible x.dims y.dims)
    (hxx : LabelEq x x') (hyy : LabelEq y y') :
    ∃ r r', FArr.addLike? f x (.arr y) = some r ∧ FArr.addLike? f x' (.arr y') = some r' ∧
      r'.dims = x'.dims.filter (fun d => (letters y'.dims).contains d.letter) ∧   -- left operand's order
      LabelEq r r' := by
  obtain ⟨r, h1, h2, _, h4⟩ := addLike_arr_spec f x y hx hy hc
  obtain ⟨r', h1', h2', _, h4'⟩ := addLike_arr_spec f x' y' hx' hy' (compatible_of_perm hxx.1 hyy.1 hc)
  have hperm : r'.dims.Perm r.dims := by
    rw [h2, h2']
    unfold intersectWith
    have : (x'.dims.filter fun d => (letters y'.dims).contains d.letter)
        = x'.dims.filter fun d => (letters y.dims).contains d.letter := by
      apply List.filter_congr
      intro d _
      have := mem_letters_perm hyy.1 d.letter
      by_cases hm : d.letter ∈ letters y.dims <;> simp [hm, this]
    rw [this]
    exact hxx.1.filter _
  have hL : ∀ c, c ∈ r.letters ↔ c ∈ r'.letters := fun c => (mem_letters_perm hperm c).symm
  refine ⟨r, r', h1, h1', h2', hperm, fun e => ?_⟩
  rw [h4 e, h4' e, margin_labelEq x x' hx' hxx r.letters r'.letters hL e,
    margin_labelEq y y' hy' hyy r.letters r'.letters hL e]

/-- x * y -/
theorem mul_order_independent [Ring α] (x x' y y' : FArr α)
    (hx : WF x) (hx' : WF x') (hy : WF y) (hy' : WF y') (hc : Compatible x.dims y.dims)
    (hxx : LabelEq x x') (hyy : LabelEq y y') :
    ∃ r r', FArr.mul? x (.arr y) = some r ∧ FArr.mul? x' (.arr y') = some r' ∧
      r'.dims = x'.dims ++ y'.dims.filter (fun d => !((letters x'.dims).contains d.letter)) ∧
      (∀ e, r'.at e = r.at e) := by
  obtain ⟨r, h1, _, _, h4⟩ := mul_arr_spec x y hx hy hc
  obtain ⟨r', h1', h2', _, h4'⟩ := mul_arr_spec x' y' hx' hy' (compatible_of_perm hxx.1 hyy.1 hc)
  exact ⟨r, r', h1, h1', h2', fun e => by rw [h4 e, h4' e, hxx.2 e, hyy.2 e]⟩

/-- x / y -/
theorem div_order_independent [Field α] (x x' y y' : FArr α)
    (hx : WF x) (hx' : WF x') (hy : WF y) (hy' : WF y') (hc : Compatible x.dims y.dims)
    (hxx : LabelEq x x') (hyy : LabelEq y y') :
    ∃ r r', FArr.div? x (.arr y) = some r ∧ FArr.div? x' (.arr y') = some r' ∧
      (∀ e, r'.at e = r.at e) := by
  obtain ⟨r, h1, _, _, h4⟩ := div_arr_spec x y hx hy hc
  obtain ⟨r', h1', _, _, h4'⟩ := div_arr_spec x' y' hx' hy' (compatible_of_perm hxx.1 hyy.1 hc)
  exact ⟨r, r', h1, h1', fun e => by rw [h4 e, h4' e, hxx.2 e, hyy.2 e]⟩

/-- sum_to: the result has the *requested* order whatever the storage order -/
theorem sumTo_order_independent [AddCommMonoid α] (x x' : FArr α) (hx : WF x) (hx' : WF x')
    (hn : NamesOk x.dims) (hxx : LabelEq x x') (ds : List Dim) (hds : ∀ d ∈ ds, d ∈ x.dims)
    (hnd : (letters ds).Nodup) :
    ∃ r r', x.sumTo? ((letters ds).map fun l => .str l.toString) = some r ∧
      x'.sumTo? ((letters ds).map fun l => .str l.toString) = some r' ∧
      r.dims = ds ∧ r'.dims = ds ∧ ∀ e, r'.at e = r.at e := by
  have hn' : NamesOk x'.dims := fun d hd => hn d (hxx.1.mem_iff.mp hd)
  have hds' : ∀ d ∈ ds, d ∈ x'.dims := fun d hd => hxx.1.mem_iff.mpr (hds d hd)
  obtain ⟨r, h1, h2, _, h4⟩ := sumTo_spec x hx hn ds hds hnd _ (tupleToLetters?_letters x hx.1 hn ds hds)
  obtain ⟨r', h1', h2', _, h4'⟩ :=
    sumTo_spec x' hx' hn' ds hds' hnd _ (tupleToLetters?_letters x' hx'.1 hn' ds hds')
  exact ⟨r, r', h1, h1', h2, h2', fun e => by
    rw [h4 e, h4' e, margin_labelEq x x' hx' hxx _ _ (fun _ => Iff.rfl) e]⟩

/-- cast_to: the result has the *target's* order whatever the storage order of the source -/
theorem castTo_order_independent [AddCommMonoid α] (x x' : FArr α) (T : DimSet) (hx : WF x) (hx' : WF x')
    (hT : (letters T).Nodup) (hc : Compatible x.dims T) (hsub : ∀ l ∈ x.letters, l ∈ letters T)
    (hxx : LabelEq x x') :
    ∃ r r', x.castTo? T = some r ∧ x'.castTo? T = some r' ∧ r.dims = T ∧ r'.dims = T ∧
      ∀ e, Valid T e → r'.at e = r.at e := by
  have hc' : Compatible x'.dims T := fun d hd d' hd' hl => hc d (hxx.1.mem_iff.mp hd) d' hd' hl
  have hsub' : ∀ l ∈ x'.letters, l ∈ letters T :=
    fun l hl => hsub l ((mem_letters_perm hxx.1 l).mp hl)
  obtain ⟨r, h1, h2, _, h4⟩ := castTo_spec x T hx hT hc hsub
  obtain ⟨r', h1', h2', _, h4'⟩ := castTo_spec x' T hx' hT hc' hsub'
  exact ⟨r, r', h1, h1', h2, h2', fun e hv => by rw [h4 e hv, h4' e hv, hxx.2 e]⟩

/-- cumsum along a letter -/
theorem cumsum_order_independent [AddCommMonoid α] (x x' : FArr α) (hx : WF x) (hx' : WF x')
    (l : Char) (hl : l ∈ x.letters) (hxx : LabelEq x x') :
    ∃ r r', x.cumsum? l = some r ∧ x'.cumsum? l = some r' ∧ ∀ e, r'.at e = r.at e := by
  obtain ⟨r, h1, _, _, h4⟩ := cumsum_spec x hx l hl
  obtain ⟨r', h1', _, _, h4'⟩ := cumsum_spec x' hx' l ((mem_letters_perm hxx.1 l).mpr hl)
  refine ⟨r, r', h1, h1', fun e => ?_⟩
  rw [h4 e, h4' e]
  exact sumRange_congr _ _ _ (fun i _ => hxx.2 _)

/-- reading with a dict key: the result depends on the source only through its label view.
`S`/`S'` are the per-dimension selectors for the two storage orders; that they are "the same
selection" is expressed by `hsame`: both address, for every result label tuple, the same source
labels. -/
theorem getitem_order_independent (x x' : FArr α) (hx : WF x) (hx' : WF x')
    (kvs : List (String × Sel)) (S S' : List DSel)
    (hdec : Decodes x.dims kvs (x.dims.map fun _ => DSel.keep) S) (hok : SelsOK x.dims S)
    (hdec' : Decodes x'.dims kvs (x'.dims.map fun _ => DSel.keep) S') (hok' : SelsOK x'.dims S')
    (hxx : LabelEq x x')
    (hsame : ∀ e, ∃ e0, liftIdx x.dims S e = x.letters.map e0 ∧ liftIdx x'.dims S' e = x'.letters.map e0) :
    ∃ r r', x.getitem? (.dict kvs) = some r ∧ x'.getitem? (.dict kvs) = some r' ∧
      ∀ e, Valid r.dims e → Valid r'.dims e → r'.at e = r.at e := by
  obtain ⟨r, h1, _, _, h4⟩ := getitem_dict_spec x hx kvs S hdec hok
  obtain ⟨r', h1', _, _, h4'⟩ := getitem_dict_spec x' hx' kvs S' hdec' hok'
  refine ⟨r, r', h1, h1', fun e hv hv' => ?_⟩
  obtain ⟨e0, he, he'⟩ := hsame e
  rw [h4 e hv, h4' e hv', he, he']
  exact hxx.2 e0

/-- `target[key] = source`: what is written does not depend on the storage order of the *source*:
a source with permuted dimensions (values transposed accordingly) leaves the very same array behind
(the target's own dims and order are untouched, see C05 `setitem_array_by_label`) -/
theorem setitem_source_order_independent [AddCommMonoid α] (x y y' : FArr α) (hx : WF x) (hy : WF y)
    (hy' : WF y') (kvs : List (String × Sel)) (S' : List DSel)
    (hdec : Decodes x.dims kvs (x.dims.map fun _ => DSel.keep) S') (hok : SelsOK x.dims S')
    (hinj : SelsInj S') (hsub : ∀ d ∈ outDims x.dims S', d ∈ y.dims) (hyy : LabelEq y y') :
    ∃ r r', x.setitem? (.dict kvs) (.arr y) = some r ∧ x.setitem? (.dict kvs) (.arr y') = some r' ∧
      r.dims = x.dims ∧ r'.dims = x.dims ∧ ∀ idx, r'.values.get idx = r.values.get idx := by
  have hsub' : ∀ d ∈ outDims x.dims S', d ∈ y'.dims := fun d hd => hyy.1.mem_iff.mpr (hsub d hd)
  obtain ⟨r, h1, h2, _, h4, h5⟩ := setitem_arr_spec x y hx hy kvs S' hdec hok hinj hsub
  obtain ⟨r', h1', h2', _, h4', h5'⟩ := setitem_arr_spec x y' hx hy' kvs S' hdec hok hinj hsub'
  refine ⟨r, r', h1, h1', h2, h2', fun idx => ?_⟩
  by_cases hex : ∃ e, Valid (outDims x.dims S') e ∧ liftIdx x.dims S' e = idx
  · obtain ⟨e, hve, rfl⟩ := hex
    rw [h4 e hve, h4' e hve]
    exact margin_labelEq y y' hy' hyy _ _ (fun _ => Iff.rfl) e
  · have hno : ∀ e, Valid (outDims x.dims S') e → liftIdx x.dims S' e ≠ idx :=
      fun e hve h => hex ⟨e, hve, h⟩
    rw [h5 idx hno, h5' idx hno]

/-- whole-array assignment `target[...] = source`: neither the storage order of the pre-declared
*target* nor that of the source matters — two targets declared over the same dimensions in different
orders hold the same entries under the same labels afterwards -/
theorem setitem_whole_order_independent [AddCommMonoid α] (x x' y y' : FArr α) (hx : WF x) (hx' : WF x')
    (hy : WF y) (hy' : WF y') (hsub : ∀ d ∈ x.dims, d ∈ y.dims)
    (hxx : x'.dims.Perm x.dims) (hyy : LabelEq y y') :
    ∃ r r', x.setitem? .ellipsis (.arr y) = some r ∧ x'.setitem? .ellipsis (.arr y') = some r' ∧
      r.dims = x.dims ∧ r'.dims = x'.dims ∧ ∀ e, Valid x.dims e → r'.at e = r.at e := by
  have hsub' : ∀ d ∈ x'.dims, d ∈ y'.dims :=
    fun d hd => hyy.1.mem_iff.mpr (hsub d (hxx.mem_iff.mp hd))
  obtain ⟨r, h1, h2, _, h4⟩ := C05.setitem_whole_array x y hx hy hsub
  obtain ⟨r', h1', h2', _, h4'⟩ := C05.setitem_whole_array x' y' hx' hy' hsub'
  refine ⟨r, r', h1, h1', h2, h2', fun e hve => ?_⟩
  have hve' : Valid x'.dims e := fun d hd => hve d (hxx.mem_iff.mp hd)
  rw [h4 e hve, h4' e hve']
  exact margin_labelEq y y' hy' hyy _ _ (fun c => (mem_letters_perm hxx c).symm) e

/-- a parameter handed to a lifetime model is cast to the model's dimensions (`cast_any_to_np_array` =
`cast_to(model dims)`): the table of parameters the model works with has the model's order and the same
entry under every label combination, whatever order the parameter array stores its dimensions in -/
theorem lifetime_parameter_order_independent [AddCommMonoid α] (prm prm' : FArr α) (modelDims : DimSet)
    (hp : WF prm) (hp' : WF prm') (hT : (letters modelDims).Nodup) (hc : Compatible prm.dims modelDims)
    (hsub : ∀ l ∈ prm.letters, l ∈ letters modelDims) (hpp : LabelEq prm prm') :
    ∃ r r', prm.castTo? modelDims = some r ∧ prm'.castTo? modelDims = some r' ∧
      r.dims = modelDims ∧ r'.dims = modelDims ∧
      ∀ e, Valid modelDims e → r'.at e = prm.at e ∧ r.at e = prm.at e := by
  have hc' : Compatible prm'.dims modelDims :=
    fun d hd d' hd' hl => hc d (hpp.1.mem_iff.mp hd) d' hd' hl
  have hsub' : ∀ l ∈ prm'.letters, l ∈ letters modelDims :=
    fun l hl => hsub l ((mem_letters_perm hpp.1 l).mp hl)
  obtain ⟨r, h1, h2, _, h4⟩ := castTo_spec prm modelDims hp hT hc hsub
  obtain ⟨r', h1', h2', _, h4'⟩ := castTo_spec prm' modelDims hp' hT hc' hsub'
  exact ⟨r, r', h1, h1', h2, h2', fun e hv => ⟨by rw [h4' e hv, hpp.2 e], h4 e hv⟩⟩

/-! ### non-vacuity: a transposed pair with equal lengths -/
def dA : Dim := { letter := 'a', name := "aa", items := [.int 1, .int 2] }
def dB : Dim := { letter := 'b', name := "bb", items := [.str "x", .str "y"] }
def exX : FArr Int := ⟨[dA, dB], ND.ofFlat [2, 2] #[1, 2, 3, 4] 0⟩
example : WF exX ∧ ([dB, dA] : DimSet).Perm exX.dims ∧ (letters [dB, dA]).Nodup := by decide
example : (permute exX [dB, dA]).values.toList = [1, 3, 2, 4] := by decide

end Flodym.C04
