import FlodymProofs.Props.C20
#print axioms Flodym.C20.nodes_are_the_shown_processes
#print axioms Flodym.C20.excluded_flows_not_shown
#print axioms Flodym.C20.links_come_from_shown_flows
#print axioms Flodym.C20.unsplit_flow_link
#print axioms Flodym.C20.split_flow_links
#print axioms Flodym.C20.source_default_exclusion
#print axioms Flodym.C20.one_line
#print axioms Flodym.C20.slices_are_reads
#print axioms Flodym.C20.no_split_single
#print axioms Flodym.C20.missing_role_refused
