import FlodymProofs.Props.C09
#print axioms Flodym.C09.pdf_cumsum
#print axioms Flodym.C09.pdf_zero_before
#print axioms Flodym.C09.inflowDriven_tables
#print axioms Flodym.C09.inflowDriven_cohort_conservation
#print axioms Flodym.C09.inflowDriven_cohort_antitone
#print axioms Flodym.C09.stockDriven_sbc
#print axioms Flodym.C09.stockDriven_obc
#print axioms Flodym.C09.stockDriven_tables
#print axioms Flodym.C09.stockDriven_cohort_conservation
