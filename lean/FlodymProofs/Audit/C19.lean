import FlodymProofs.Props.C19
#print axioms Flodym.C19.strip_subset
#print axioms Flodym.C19.fileName_chars
#print axioms Flodym.C19.one_file_per_flow
#print axioms Flodym.C19.files_per_stock
#print axioms Flodym.C19.flow_files_distinct
#print axioms Flodym.C19.flow_exported
#print axioms Flodym.C19.name_inj
#print axioms Flodym.C19.stock_exported
#print axioms Flodym.C19.dictionary_sizes
#print axioms Flodym.C19.exported_rows_read_back
#print axioms Flodym.C19.defTables_flows
#print axioms Flodym.C19.defTables_no_empty_kind
#print axioms Flodym.C19.source_export_sites
