import FlodymProofs.Props.C05
#print axioms Flodym.C05.setitem_array_by_label
#print axioms Flodym.C05.setitem_array_missing_dim_rejected
#print axioms Flodym.C05.setitem_number_fills
#print axioms Flodym.C05.setitem_whole_array
#print axioms Flodym.C05.setitem_whole_ndarray
#print axioms Flodym.C05.source_empty_key_is_whole_array
#print axioms Flodym.C05.setitem_whole_ndarray_any_key
#print axioms Flodym.C05.list_key_array_rhs_is_positional_D10
#print axioms Flodym.C05.history_last_writer_wins
#print axioms Flodym.C05.history_last_write_value
