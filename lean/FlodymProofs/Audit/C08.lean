import FlodymProofs.Props.C08
import FlodymProofs.Props.C08Tables
#print axioms Flodym.C08.sf_lowerTri
#print axioms Flodym.C08.sf_entry
#print axioms Flodym.C08.sf_entry_at_ages
#print axioms Flodym.C08.age_nonneg_increasing
#print axioms Flodym.C08.sf_range
#print axioms Flodym.C08.sf_antitone
#print axioms Flodym.C08.pdf_nonneg
#print axioms Flodym.C08.sf_add_cumulative_pdf
#print axioms Flodym.C08.parameter_applies_by_label
#print axioms Flodym.C08.lognormal_mean
#print axioms Flodym.C08.lognormal_variance
#print axioms Flodym.C08.normal_args
#print axioms Flodym.C08.foldnorm_args
#print axioms Flodym.C08.weibull_args
#print axioms Flodym.C08.fixed_sf
#print axioms Flodym.C08.tables_shape
#print axioms Flodym.C08.nodes_weights_valid
#print axioms Flodym.C08.tables_symmetric
#print axioms Flodym.C08.weights_sum
#print axioms Flodym.C08.rules_exact
#print axioms Flodym.C08.rules_not_exact_beyond
#print axioms Flodym.C08.mapped_rules
#print axioms Flodym.C08.single_point_rules
