import FlodymProofs.Props.C12
import FlodymProofs.Props.C12Stages
#print axioms Flodym.C12.duplicate_refused
#print axioms Flodym.C12.unknown_item_refused
#print axioms Flodym.C12.missing_refused
#print axioms Flodym.C12.values_all
#print axioms Flodym.C12.fillRows_default_isSome
#print axioms Flodym.C12.fillRows_missing_isSome
#print axioms Flodym.C12.keepRows_default
#print axioms Flodym.C12.keepRows_extra
#print axioms Flodym.C12.complete_eq
#print axioms Flodym.C12.nan_refused
#print axioms Flodym.C12.success_iff
#print axioms Flodym.C12.allow_extra_ignores_unknown_rows
#print axioms Flodym.C12.allow_missing_fills_zero
#print axioms Flodym.C12.default_keeps_values
#print axioms Flodym.C12.setValuesFromDf_all_or_nothing
#print axioms Flodym.C12.missing_column_refused
#print axioms Flodym.C12.several_value_columns_refused
#print axioms Flodym.C12.no_value_column_refused
#print axioms Flodym.C12.source_keeps_fractional_labels
#print axioms Flodym.C12.fractional_label_kept
#print axioms Flodym.C12.fractional_label_unknown
#print axioms Flodym.C12.fractional_label_refused
