import FlodymProofs.Props.C15
#print axioms Flodym.C15.pure_op_preserves_inputs
#print axioms Flodym.C15.assign_touches_only_target
#print axioms Flodym.C15.history_preserves_untouched
#print axioms Flodym.C15.allocFresh_inv
#print axioms Flodym.C15.allocFresh_preserves_reads
#print axioms Flodym.C15.allocFresh_read_self
#print axioms Flodym.C15.fresh_result_independent
#print axioms Flodym.C15.write_isolated
#print axioms Flodym.C15.allocFresh_noSharing
#print axioms Flodym.C15.history_noSharing
