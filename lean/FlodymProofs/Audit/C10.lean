import FlodymProofs.Props.C10
#print axioms Flodym.C10.lapack_eq_manual
#print axioms Flodym.C10.manual_solves_system
#print axioms Flodym.C10.inflowDriven_stock_tri
#print axioms Flodym.C10.stockDriven_of_inflowDriven_inflow
#print axioms Flodym.C10.stockDriven_of_inflowDriven_tables
#print axioms Flodym.C10.inflowDriven_of_stockDriven
