import FlodymProofs.Props.C16
#print axioms Flodym.C16.sum_lowerTri
#print axioms Flodym.C16.inflowDriven_causal
#print axioms Flodym.C16.stockDriven_causal
#print axioms Flodym.C16.inflowDriven_linear
#print axioms Flodym.C16.stockDriven_linear
#print axioms Flodym.C16.inflowDriven_label_independent
#print axioms Flodym.C16.manual_label_independent
#print axioms Flodym.C16.stockDriven_label_independent
#print axioms Flodym.C16.shift_invariant
#print axioms Flodym.C16.impulse_response
