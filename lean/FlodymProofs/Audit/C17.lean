import FlodymProofs.Props.C17
#print axioms Flodym.C17.ensureSf_spec
#print axioms Flodym.C17.ensurePdf_spec
#print axioms Flodym.C17.step_inv
#print axioms Flodym.C17.run_inv
#print axioms Flodym.C17.compute_fresh_of_inv
#print axioms Flodym.C17.compute_eq_fresh
#print axioms Flodym.C17.compute_idempotent
#print axioms Flodym.C17.source_resets_caches
#print axioms Flodym.C17.stale_cache_counterexample
