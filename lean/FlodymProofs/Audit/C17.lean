import FlodymProofs.Props.C17
import FlodymProofs.Props.C17Failing
#print axioms Flodym.C17.ensureSf_spec
#print axioms Flodym.C17.ensurePdf_spec
#print axioms Flodym.C17.step_inv
#print axioms Flodym.C17.run_inv
#print axioms Flodym.C17.compute_fresh_of_inv
#print axioms Flodym.C17.compute_eq_fresh
#print axioms Flodym.C17.compute_idempotent
#print axioms Flodym.C17.source_resets_caches
#print axioms Flodym.C17.stale_cache_counterexample
#print axioms Flodym.C17.ensureSfE_spec
#print axioms Flodym.C17.ensurePdfE_spec
#print axioms Flodym.C17.stepE_inv
#print axioms Flodym.C17.runE_inv
#print axioms Flodym.C17.readSfE_of_inv
#print axioms Flodym.C17.computeE_of_inv
#print axioms Flodym.C17.computeE_eq_fresh
#print axioms Flodym.C17.stepE_total
#print axioms Flodym.C17.failed_setPrms_changes_nothing
#print axioms Flodym.C17.source_set_prms_atomic
#print axioms Flodym.C17.partial_set_prms_counterexample
#print axioms Flodym.C17.source_failed_build_discarded
#print axioms Flodym.C17.kept_failed_build_counterexample
