import FlodymProofs.Props.C04
#print axioms Flodym.C04.permute_labelEq
#print axioms Flodym.C04.summedOf_perm
#print axioms Flodym.C04.summedOf_congr_keep
#print axioms Flodym.C04.margin_labelEq
#print axioms Flodym.C04.compatible_of_perm
#print axioms Flodym.C04.mem_letters_perm
#print axioms Flodym.C04.addLike_order_independent
#print axioms Flodym.C04.mul_order_independent
#print axioms Flodym.C04.div_order_independent
#print axioms Flodym.C04.sumTo_order_independent
#print axioms Flodym.C04.castTo_order_independent
#print axioms Flodym.C04.cumsum_order_independent
#print axioms Flodym.C04.getitem_order_independent
#print axioms Flodym.C04.setitem_source_order_independent
#print axioms Flodym.C04.setitem_whole_order_independent
#print axioms Flodym.C04.lifetime_parameter_order_independent
