import FlodymProofs.Props.C07
#print axioms Flodym.C07.sumTo_marginals
#print axioms Flodym.C07.sumOver_marginals
#print axioms Flodym.C07.grand_total_preserved
#print axioms Flodym.C07.sumTo_unknown_rejected
#print axioms Flodym.C07.sumOver_unknown_rejected
#print axioms Flodym.C07.cumsum_along_letter
#print axioms Flodym.C07.cumsum_unknown_rejected
#print axioms Flodym.C07.castTo_replicates
#print axioms Flodym.C07.castTo_refuses
#print axioms Flodym.C07.sum_back
#print axioms Flodym.C07.shares_partial
#print axioms Flodym.C07.shares_all
#print axioms Flodym.C07.shares_foreign_rejected
