import FlodymProofs.Props.C06
#print axioms Flodym.C06.getitem_reads_addressed
#print axioms Flodym.C06.setitem_writes_addressed
#print axioms Flodym.C06.liftIdx_get
#print axioms Flodym.C06.single_item_key
#print axioms Flodym.C06.unknown_or_ambiguous_item_rejected
#print axioms Flodym.C06.tuple_with_unknown_item_rejected
#print axioms Flodym.C06.slice_rejected
#print axioms Flodym.C06.unknown_dimension_rejected
#print axioms Flodym.C06.bad_selector_rejected
#print axioms Flodym.C06.list_read_rejected
#print axioms Flodym.C06.itemsWhere_sound_complete
#print axioms Flodym.C06.split_pieces
