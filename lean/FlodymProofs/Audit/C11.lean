import FlodymProofs.Props.C11
#print axioms Flodym.C11.toDf_rows_dense
#print axioms Flodym.C11.toDf_rows_sparse
#print axioms Flodym.C11.entries_once
#print axioms Flodym.C11.labelsOf_getElem
#print axioms Flodym.C11.positions_labelsOf
#print axioms Flodym.C11.labelsOf_length
#print axioms Flodym.C11.fillRows_eq
#print axioms Flodym.C11.known_of_positions
#print axioms Flodym.C11.mem_placeRows
#print axioms Flodym.C11.placeRows_cons
#print axioms Flodym.C11.placeRows_nodup
#print axioms Flodym.C11.filterMap_length_of_some
#print axioms Flodym.C11.positions_nodup
#print axioms Flodym.C11.entry_from_unique_row
#print axioms Flodym.C11.row_order_irrelevant
#print axioms Flodym.C11.default_import_is_complete
#print axioms Flodym.C11.roundtrip_rows
