import Flodym.Driver.NpCmds
open Flodym.Driver

def step (s : Store) (line : String) : Store × String :=
  let toks := tokens line
  match toks with
  | [] => (s, "")
  | "case" :: rest => ({}, "case " ++ " ".intercalate rest)
  | _ =>
    match arrayStep s toks with
    | some r => r
    | none =>
    match arrayStep2 s toks with
    | some r => r
    | none =>
    match dimsStep s toks with
    | some r => r
    | none =>
    match npStep s toks with
    | some r => r
    | none => (s, "bad-op")

partial def loop (h : IO.FS.Stream) (out : IO.FS.Stream) (s : Store) : IO Unit := do
  let line ← h.getLine
  if line.isEmpty then return ()
  let (s', o) := step s line
  out.putStrLn o
  loop h out s'

def main : IO Unit := do
  let stdin ← IO.getStdin
  let stdout ← IO.getStdout
  loop stdin stdout {}
