import Flodym.Driver.NpCmds
import Flodym.Driver.DsmCmds
import Flodym.Driver.SysCmds
import Flodym.Driver.BuildCmds
import Flodym.Driver.TableCmds
import Flodym.Driver.ExportCmds
open Flodym.Driver

structure St where
  store : Store := {}
  dsm : DsmState := {}
  sys : SysState := {}
  build : BuildState := {}
  exp : ExportState := {}

def stepA (s : Store) (toks : List String) : Store × String :=
    match tableStep s toks with
    | some r => r
    | none =>
    match arrayStep s toks with
    | some r => r
    | none =>
    match arrayStep2 s toks with
    | some r => r
    | none =>
    match dimsStep s toks with
    | some r => r
    | none =>
    match npStep s toks with
    | some r => r
    | none => (s, "bad-op")

def step (s : St) (line : String) : St × String :=
  let toks := tokens line
  match toks with
  | [] => (s, "")
  | "case" :: rest => ({}, "case " ++ " ".intercalate rest)
  | _ =>
    match dsmStep s.dsm toks with
    | some (d, o) => ({ s with dsm := d }, o)
    | none =>
    match sysStep s.store s.sys toks with
    | some (y, o) => ({ s with sys := y }, o)
    | none =>
    match buildStep s.store s.build toks with
    | some (y, o) => ({ s with build := y }, o)
    | none =>
    match exportStep s.sys s.store s.exp toks with
    | some (y, o) => ({ s with exp := y }, o)
    | none => let (st, o) := stepA s.store toks; ({ s with store := st }, o)

partial def loop (h : IO.FS.Stream) (out : IO.FS.Stream) (s : St) : IO Unit := do
  let line ← h.getLine
  if line.isEmpty then return ()
  let (s', o) := step s line
  out.putStrLn o
  loop h out s'

def main : IO Unit := do
  let stdin ← IO.getStdin
  let stdout ← IO.getStdout
  loop stdin stdout {}
