"""Stream `dsm`: executes case specifications on the real flodym stock / lifetime classes and
produces (a) the protocol lines for the Lean model driver — including the survival-function values
returned by the real scipy calls, as exact rationals — and (b) the implementation's observation for
every line."""
import contextlib
import logging
import io
import itertools
import sys
from fractions import Fraction

from proto import REPO, fmt_num

sys.path.insert(0, REPO)
import numpy as np  # noqa: E402
import flodym  # noqa: E402
from flodym import Dimension, DimensionSet, FlodymArray, StockArray  # noqa: E402
from flodym import lifetime_models as lm_mod  # noqa: E402
from flodym.lifetime_models import UnevenTimeDim  # noqa: E402
from flodym.stocks import InflowDrivenDSM, StockDrivenDSM, SimpleFlowDrivenStock  # noqa: E402

logging.disable(logging.WARNING)

EXTRA = [("r", "region"), ("g", "good")]


def nums(a):
    return " ".join(fmt_num(x) for x in np.asarray(a, dtype=float).flatten())


def frac(tok):
    return float(Fraction(tok))


def make_dims(spec):
    its = list(spec["items"])
    if any(isinstance(i, str) for i in its):
        t = Dimension(name="time", letter="t", items=[float(frac(str(i))) for i in its], dtype=float)   # half years
    else:
        t = Dimension(name="time", letter="t", items=its, dtype=int)
    ds = [t]
    for (l, n), k in zip(EXTRA, spec["extra"]):
        ds.append(Dimension(name=n, letter=l, items=[f"{l}{i}" for i in range(k)], dtype=str))
    return DimensionSet(dim_list=ds)


def make_prm(p, dims):
    if p["kind"] == "scalar":
        return frac(p["v"])
    sub = dims.get_subset(tuple(p["dims"]))
    vals = np.array([frac(v) for v in p["vals"]], dtype=float).reshape(sub.shape)
    if p.get("int") and np.all(vals == np.round(vals)):
        vals = vals.astype(int)          # whole years, held with an integer dtype
    return FlodymArray(dims=sub, values=vals)


def make_lifetime(spec, dims):
    lt = spec["lt"]
    cls = getattr(lm_mod, lt["cls"])
    prms = {k: make_prm(v, dims) for k, v in lt["prms"].items()}
    model = cls(dims=dims, time_letter="t", inflow_at=lt["inflow_at"], n_pts_per_interval=lt["n_pts"], **prms)
    scramble(prms)
    if spec.get("id", 0) % 3 == 1:
        # the same parameters once more through set_prms, positionally, in the documented order
        from gen_dsm import MODELS
        again = {k: make_prm(v, dims) for k, v in lt["prms"].items()}
        model.set_prms(*[again[name] for name in MODELS[lt["cls"]]])
        scramble(again)
    return model


def scramble(prms):
    """the caller goes on using its parameter arrays for something else: the model keeps what it was given"""
    for v in prms.values():
        if isinstance(v, FlodymArray):
            v.values[...] = v.values * 3 + 1


class Recorder:
    """wraps `_survival_by_year_id` of one lifetime-model instance: records, per cohort and
    quadrature point, the ages handed to scipy and the values it returned"""

    def __init__(self, model):
        self.calls = {}
        self.count = {}
        cls = type(model)
        orig = cls._survival_by_year_id
        rec = self

        def wrapped(self_, t, m):
            out = orig(self_, t, m)
            q = rec.count.get(m, 0)
            rec.count[m] = q + 1
            rec.calls[(q, m)] = (np.array(t, dtype=float), np.broadcast_to(np.asarray(out, dtype=float), np.shape(t)).copy())
            return out

        object.__setattr__(model, "_survival_by_year_id", lambda t, m: wrapped(model, t, m))


def run_case(spec, lines, out):
    def emit(line, obs):
        lines.append(line.rstrip())
        out.append(obs.rstrip())

    emit(f"case {spec['id']} dsm", f"case {spec['id']} dsm")
    items = spec["items"]
    n = len(items)
    # ---- time grid
    gl = f"grid {n} " + " ".join(str(i) for i in items)
    try:
        dims = make_dims(spec)
        tdim = UnevenTimeDim(dim=dims["t"])
        b, d = tdim.bounds, tdim.interval_lengths
        emit(gl, f"ok B {nums(b)} | DT {nums(d)}")
    except Exception:
        emit(gl, "err")
        return
    m = int(np.prod(dims.shape[1:])) if len(dims.shape) > 1 else 1
    lt = spec["lt"]
    ql = f"quad {lt['inflow_at']} {lt['n_pts']}"
    try:
        model = make_lifetime(spec, dims)
        eta, w = model.get_quad_points_and_weights()
        emit(ql, f"ok E {nums(eta)} | W {nums(w)}")
    except Exception:
        emit(ql, "err")
        return
    emit(f"m {m}", "ok")
    # for the search oracles: the model class and its parameters per cohort and label
    emit(f"note cls {lt['cls']}", "ok")
    for pname, arr_ in model.prms.items():
        emit(f"note prm {pname} {nums(np.asarray(arr_, dtype=float))}", "ok")
    # the parameters as given (by label) and what `cast_any_to_np_array` made of them: the model
    # casts the same array to the model's dimensions (`cast_to`), the oracle expands it by label
    import json as _json
    from proto import fmt_arr, fmt_dim
    for i, d in enumerate(dims.dim_list):
        emit(f"dim ${i} {fmt_dim(d)}", "ok")
    emit("dset $10 " + " ".join(f"${i}" for i in range(len(dims.dim_list))), "ok " + __import__("proto").fmt_dimset(dims))
    for k, (pname, pspec) in enumerate(lt["prms"].items()):
        emit("note prmspec " + pname + " " + _json.dumps(pspec, separators=(",", ":")).replace(" ", ""), "ok")
        got = FlodymArray(dims=dims, values=np.asarray(getattr(model, pname), dtype=float))
        if pspec["kind"] == "scalar":
            emit(f"full ${40 + k} $10 {pspec['v']}", "ok " + fmt_arr(got))
        else:
            letters = list(dims.letters)
            emit(f"dset ${20 + k} " + " ".join(f"${letters.index(l)}" for l in pspec["dims"]),
                 "ok " + __import__("proto").fmt_dimset(dims.get_subset(tuple(pspec["dims"]))))
            sub = dims.get_subset(tuple(pspec["dims"]))
            from proto import fmt_shape
            emit(f"arr ${30 + k} ${20 + k} {fmt_shape(sub.shape)} " + " ".join(pspec["vals"]),
                 "ok " + fmt_arr(FlodymArray(dims=sub, values=np.array([frac(v) for v in pspec['vals']]).reshape(sub.shape))))
            emit(f"castto ${40 + k} ${30 + k} $10", "ok " + fmt_arr(got))
    # ---- survival table, with the values scipy returned
    rec = Recorder(model)
    try:
        sf = model.sf
    except Exception:
        emit("sf", "err")
        return
    for (q, c) in sorted(rec.calls, key=lambda k: (k[1], k[0])):
        ages, vals = rec.calls[(q, c)]
        a1 = ages.reshape(ages.shape[0], -1)[:, 0] if ages.size else np.zeros(0)
        emit(f"sval {q} {c} {nums(vals)}", f"ok A {nums(a1)}")
    emit("sf", "ok " + nums(sf))
    try:
        emit("pdf", "ok " + nums(model.pdf))
    except Exception:
        emit("pdf", "err")
        return
    shape = dims.shape

    def arr(tokens):
        return np.array([frac(v) for v in tokens], dtype=float).reshape(shape)

    last = None
    n_op = -1
    for op in spec["ops"]:
        kind = op["kind"]
        line = None
        n_op += 1
        try:
            k = int(op.get("scale", 0))
            f, g = 2.0 ** (-k), 2.0 ** k
            x = "x" if k else ""
            pre = f" {k}" if k else ""

            def driver_array(tokens):
                a = arr(tokens)
                if op.get("int") and k == 0 and np.all(a == np.round(a)):
                    return a.astype(int)          # counts held with an integer dtype
                return a * f
            if kind == "idsm":
                line = f"idsm{x}{pre} " + " ".join(op["inflow"])
                s = InflowDrivenDSM(dims=dims, lifetime_model=model, time_letter="t",
                                    inflow=StockArray(dims=dims, values=driver_array(op["inflow"])))
                s.compute()
                emit(line, f"ok S {nums(s.stock.values * g)} | O {nums(s.outflow.values * g)} | SC {nums(s.get_stock_by_cohort() * g)} | "
                           f"OC {nums(s.get_outflow_by_cohort() * g)} | D {nums(s.inflow.values * g)}")
                last = s
            elif kind == "sdsm":
                if float(np.min(np.abs(np.moveaxis(sf.diagonal(0, 0, 1), -1, 0)))) < 0.05:
                    continue  # the property is stated for first-interval survival >= 0.05
                if op.get("stock") == "from_idsm":
                    if last is None or k:
                        continue
                    st = np.asarray(last.stock.values, dtype=float).copy()
                    toks = [fmt_num(x_) for x_ in st.flatten()]
                else:
                    toks = op["stock"]
                    st = driver_array(toks)
                line = f"sdsm{x}{pre} " + " ".join(toks)
                how = (int(spec["id"]) + n_op) % 3 if (op.get("stock") == "from_idsm" and isinstance(last, InflowDrivenDSM)) else 0
                if how == 1:
                    # the library's own conversion of the computed inflow-driven stock
                    s = last.to_stock_type(StockDrivenDSM, solver=op["solver"])
                elif how == 2:
                    # both models set up first and wired through one StockArray, computed afterwards
                    first = InflowDrivenDSM(dims=dims, lifetime_model=model, time_letter="t",
                                            inflow=StockArray(dims=dims, values=np.array(last.inflow.values, dtype=float)))
                    s = StockDrivenDSM(dims=dims, lifetime_model=model, time_letter="t", solver=op["solver"], stock=first.stock)
                    first.compute()
                else:
                    s = StockDrivenDSM(dims=dims, lifetime_model=model, time_letter="t", solver=op["solver"],
                                       stock=StockArray(dims=dims, values=st))
                s.compute()
                emit(line, f"ok I {nums(s.inflow.values * g)} | O {nums(s.outflow.values * g)} | SC {nums(s.get_stock_by_cohort() * g)} | "
                           f"OC {nums(s.get_outflow_by_cohort() * g)} | D {nums(s.stock.values * g)}")
                last = s
                if m >= 2 and k == 0 and not op.get("int") and op["solver"] == "manual":
                    # label independence, probed with a driver that is not a number for one label: the other
                    # labels' results must be what they were (the model has no NaN: harness-level observation)
                    st2 = np.asarray(st, dtype=float).copy().reshape(shape[0], -1)
                    st2[:, 0] = np.nan
                    s2 = StockDrivenDSM(dims=dims, lifetime_model=model, time_letter="t", solver=op["solver"],
                                        stock=StockArray(dims=dims, values=st2.reshape(shape)))
                    try:
                        s2.compute()
                        a = np.asarray(s.inflow.values, dtype=float).reshape(shape[0], -1)[:, 1:]
                        b = np.asarray(s2.inflow.values, dtype=float).reshape(shape[0], -1)[:, 1:]
                        same = np.allclose(a, b, rtol=1e-9, atol=1e-12, equal_nan=False)
                    except Exception:
                        same = False
                    emit("note other_labels_unaffected_by_nan_label", "ok" if same else "CHANGED")
                if m >= 2 and k == 0 and not op.get("int") and type(model).__name__ == "FixedLifetime":
                    # label independence, probed with a lifetime that vanishes for one label (nothing of a cohort
                    # survives its first interval there): the other labels' results must be what they were
                    import warnings
                    mean2 = np.array(np.broadcast_to(np.asarray(model.mean, dtype=float), shape), dtype=float).reshape(shape[0], -1)
                    mean2[:, 0] = 0.25
                    try:
                        lm2 = type(model)(dims=dims, time_letter="t", inflow_at=model.inflow_at,
                                          n_pts_per_interval=model.n_pts_per_interval, mean=mean2.reshape(shape))
                        s3 = StockDrivenDSM(dims=dims, lifetime_model=lm2, time_letter="t", solver=op["solver"],
                                            stock=StockArray(dims=dims, values=np.asarray(st, dtype=float).copy()))
                        with warnings.catch_warnings():
                            warnings.simplefilter("ignore")
                            s3.compute()
                        a = np.asarray(s.inflow.values, dtype=float).reshape(shape[0], -1)[:, 1:]
                        b = np.asarray(s3.inflow.values, dtype=float).reshape(shape[0], -1)[:, 1:]
                        same = np.allclose(a, b, rtol=1e-9, atol=1e-12, equal_nan=False)
                        emit("note other_labels_unaffected_by_vanishing_label", "ok" if same else "CHANGED")
                    except Exception as e_:  # noqa: BLE001
                        # the lapack solver refuses the singular system as a whole; the manual one has no reason to raise
                        if op["solver"] == "manual":
                            emit("note other_labels_unaffected_by_vanishing_label", f"raised {type(e_).__name__}")
            elif kind == "fds":
                line = "fds " + " ".join(op["inflow"]) + " ; " + " ".join(op["outflow"])
                s = SimpleFlowDrivenStock(dims=dims, time_letter="t",
                                          inflow=StockArray(dims=dims, values=arr(op["inflow"])),
                                          outflow=StockArray(dims=dims, values=arr(op["outflow"])))
                s.compute()
                emit(line, f"ok S {nums(s.stock.values)}")
                last = s
            elif kind == "bal":
                # balance of the last computed stock, optionally with one perturbed entry
                if last is None:
                    continue
                s = last
                big = float(op.get("big", 1))
                stv, inv, outv = (np.asarray(s.stock.values, dtype=float) * big, np.asarray(s.inflow.values, dtype=float) * big,
                                  np.asarray(s.outflow.values, dtype=float) * big)
                if op.get("perturb"):
                    which, pos, delta = op["perturb"]
                    tgt = {"stock": stv, "inflow": inv, "outflow": outv}[which]
                    tgt.flat[pos % tgt.size] += frac(delta)
                line = ("bal " + " ".join(fmt_num(x) for x in stv.flatten()) + " ; "
                        + " ".join(fmt_num(x) for x in inv.flatten()) + " ; "
                        + " ".join(fmt_num(x) for x in outv.flatten()))
                probe = SimpleFlowDrivenStock(dims=dims, time_letter="t",
                                              stock=StockArray(dims=dims, values=stv),
                                              inflow=StockArray(dims=dims, values=inv),
                                              outflow=StockArray(dims=dims, values=outv))
                bal = probe.get_stock_balance()
                agg = float(np.max(np.abs(bal).sum(axis=0)))
                buf = io.StringIO()
                try:
                    with contextlib.redirect_stdout(buf):
                        probe.check_stock_balance()
                    verdict = "note" if buf.getvalue().strip() else "ok"
                except RuntimeError:
                    verdict = "raise"
                emit(line, f"ok B {nums(bal)} | agg {fmt_num(agg)} | {verdict}")
        except Exception:  # noqa: BLE001
            if line is not None:
                emit(line, "err")


def run(specs):
    lines, out = [], []
    for spec in specs:
        try:
            run_case(spec, lines, out)
        except Exception as e:  # noqa: BLE001
            # the implementation raised where the harness did not expect it to: an observation, not a tool failure
            lines.append("note case_ran_to_completion")
            out.append(f"raised {type(e).__name__}")
    return lines, out
