"""Generator for stream `index`: reads and writes through every key form, every combination of
per-dimension selector kinds (none / single item / subset Dimension / list) in every position,
with equal-length dimensions (so a silent transposition would keep the shape)."""
import itertools
from fractions import Fraction

from proto import rng

DIMS = {
    "a": ("aa", "i", ["i1", "i2"]),
    "b": ("bb", "s", ["sx", "sy"]),
    "c": ("cc", "s", ["sp", "sq"]),
    "d": ("dd", "n", ["su", "i2", "sx", "sw"]),   # shares the item x with b and the year 2 with a: ambiguous without a dict; four
                                                  # items, so that sub-selections can be runs in another order
    "e": ("ee", "s", ["sm"]),               # single item
}
H = {l: i for i, l in enumerate("abcde")}
SUBLETTER = {"a": "A", "b": "B", "c": "C", "d": "G", "e": "E"}


def dim_tok(l):
    n, ty, its = DIMS[l]
    return f"D:{l}:{n}:{ty}:{','.join(its)}"


def fnum(f):
    f = Fraction(f)
    return str(f.numerator) if f.denominator == 1 else f"{f.numerator}/{f.denominator}"


def vals(r, n):
    return " ".join(fnum(Fraction(r.randint(-20, 20), r.choice([1, 1, 2]))) for _ in range(n))


def shape_of(items_lists):
    return "-" if not items_lists else ",".join(str(len(x)) for x in items_lists)


def size_of(items_lists):
    n = 1
    for x in items_lists:
        n *= len(x)
    return n


class Case:
    def __init__(self, r, order, lines):
        self.r, self.order, self.lines = r, order, lines
        self.h = 30
        self.dh = 60

    def new(self):
        self.h += 1
        return self.h

    def newdim(self, tok):
        self.dh += 1
        self.lines.append(f"dim ${self.dh} {tok}")
        return self.dh


def selector(case, l, kind):
    """returns (key text for the dict, region dim descriptor or None when dropped)
    region descriptor = (letter, name, type, items) as the *result* of a read would carry it"""
    r = case.r
    name, ty, its = DIMS[l]
    if kind == "none":
        return None, (l, name, ty, its)
    if kind == "single":
        return f"i:{r.choice(its)}", None
    k = r.randint(1, len(its))
    sel = r.sample(its, k)
    if kind == "subset":
        sl = SUBLETTER[l]
        dh = case.newdim(f"D:{sl}:{name}sub:{ty}:{','.join(sel)}")
        return f"d:${dh}", (sl, name + "sub", ty, sel)
    if kind == "list":
        # a list, or a one-shot iterable (generator expression, filter, reversed …) of the same items
        form = "g" if r.random() < 0.3 else "l"
        return f"{form}:{','.join(sel)}", (l, name, ty, its)   # dims_out keeps the full dimension
    raise ValueError(kind)


def rhs_array(case, region, variant, dropped=()):
    """an array over the region's dimensions (permuted; optionally with a surplus dimension that
    must be summed away, or lacking one dimension -> refusal)"""
    r = case.r
    dims = list(region)
    r.shuffle(dims)
    if variant == "surplus":
        dims.insert(r.randint(0, len(dims)), ("z", "zz", "s", ["sk", "sl"]))
    if variant == "surplus_own":
        # the source still carries a dimension of the target that the key fixes to one item:
        # it is a dimension the region does not have, so it must be summed over
        if dropped:
            l = r.choice(list(dropped))
            n, ty, its = DIMS[l]
            dims.insert(r.randint(0, len(dims)), (l, n, ty, its))
        else:
            dims.insert(r.randint(0, len(dims)), ("z", "zz", "s", ["sk", "sl"]))
    if variant == "missing" and dims:
        dims.pop(r.randrange(len(dims)))
    hs = []
    for (l, n, ty, its) in dims:
        hs.append(case.newdim(f"D:{l}:{n}:{ty}:{','.join(its)}"))
    dsh = case.new()
    case.lines.append((f"dset ${dsh} " + " ".join(f"${x}" for x in hs)).rstrip())
    ah = case.new()
    its = [d[3] for d in dims]
    case.lines.append(f"arr ${ah} ${dsh} {shape_of(its)} {vals(r, size_of(its))}")
    return ah


def gen_index(tier, seed):
    r = rng(seed, "index")
    letters = "abcd"
    orders = []
    for k in range(0, 4):
        orders += list(itertools.permutations(letters, k))
    four = list(itertools.permutations(letters, 4))
    orders += r.sample(four, 3) if tier == "quick" else four
    if tier == "thorough":
        five = list(itertools.permutations("abcde", 5))
        orders += r.sample(five, 6)
    lines = []
    stats = {"cases": 0, "reads": 0, "writes": 0, "combos": 0, "kinds": {}}
    n = 0
    kinds = ["none", "single", "subset", "list"]
    for order in orders:
        combos = list(itertools.product(kinds, repeat=len(order)))
        if len(order) >= 5:
            combos = r.sample(combos, 200)
        # one case per array order, all selector combinations inside
        lines.append(f"case {n} index order={''.join(order) or '-'}")
        n += 1
        for l in "abcde":
            if r.random() < 0.4:
                # derived from a dimension that was in use, with the items in another order and one more of them
                name_, ty_, its_ = DIMS[l]
                parent = ([("i77" if ty_ == "i" else "szz")] + list(reversed(its_)))
                lines.append(f"dim ${95 + 'abcde'.index(l)} D:{l}:{name_}:{ty_}:{','.join(parent)}")
                lines.append(f"dimfrom ${H[l]} ${95 + 'abcde'.index(l)} {dim_tok(l)}")
                stats["derived_dimensions"] = stats.get("derived_dimensions", 0) + 1
            else:
                lines.append(f"dim ${H[l]} {dim_tok(l)}")
        lines.append((f"dset $10 " + " ".join(f"${H[l]}" for l in order)).rstrip())
        its = [DIMS[l][2] for l in order]
        lines.append(f"arr $20 $10 {shape_of(its)} {vals(r, size_of(its))}")
        case = Case(r, order, lines)
        for combo in combos:
            stats["combos"] += 1
            case.h, case.dh = 30, 200        # handles are reused from one combination to the next
            kv, region = [], []
            for l, kind in zip(order, combo):
                stats["kinds"][kind] = stats["kinds"].get(kind, 0) + 1
                key, reg = selector(case, l, kind)
                if key is not None:
                    kname = l if r.random() < 0.6 else DIMS[l][0]
                    kv.append(f"{kname}={key}")
                if reg is not None:
                    region.append(reg)
            r.shuffle(kv)  # dict order is arbitrary
            key = "K:" + ";".join(kv)
            lines.append(f"getitem ${case.new()} $20 {key}"); stats["reads"] += 1
            # writes on a fresh copy each
            dropped = [l for l, kind in zip(order, combo) if kind == "single"]
            for variant in r.sample(["num", "arr", "surplus", "surplus_own", "missing", "nd", "ndvar"], 3):
                t = case.new()
                lines.append(f"copy ${t} $20")
                if variant == "num":
                    lines.append(f"setitem ${t} {key} n:{fnum(Fraction(r.randint(-9, 9), 2))}")
                elif variant == "nd":
                    # an ndarray of the shape a read would have (lists keep their own length)
                    shp = []
                    for l, kind in zip(order, combo):
                        if kind == "none":
                            shp.append(len(DIMS[l][2]))
                    # subset/list lengths are taken from the region descriptors in order
                    shp = [len(reg[3]) if True else 0 for reg in region]
                    # list selectors: the addressed region has the list's length
                    j = 0
                    shp2 = []
                    for l, kind in zip(order, combo):
                        if kind == "single":
                            continue
                        if kind == "list":
                            # find the list length from the key text
                            txt = [x for x in kv if x.split("=")[0] in (l, DIMS[l][0])][0]
                            shp2.append(len(txt.split("=")[1][2:].split(",")))
                        else:
                            shp2.append(len(region[j][3]))
                        j += 1
                    cnt = 1
                    for s in shp2:
                        cnt *= s
                    st = "-" if not shp2 else ",".join(map(str, shp2))
                    lines.append(f"setitem ${t} {key} nd:{st}:{vals(r, cnt).replace(' ', ',')}")
                elif variant == "ndvar":
                    # whole-array assignment of an ndarray *object*, which is modified afterwards:
                    # the target must not follow (the assigned ndarray is copied)
                    full = [DIMS[l][2] for l in order]
                    vh = case.new()
                    lines.append(f"nd ${vh} {shape_of(full)} {vals(r, size_of(full))}")
                    lines.append(f"setitem ${t} E ${vh}")
                    lines.append(f"ndwrite ${vh} {r.randrange(max(1, size_of(full)))} 99")
                    lines.append(f"dump ${t}")
                    t2 = case.new()
                    lines.append(f"copy ${t2} $20")
                    lines.append(f"setitem ${t2} {key} n:1")
                    lines.append(f"dump ${t}")
                else:
                    ah = rhs_array(case, region, variant, dropped)
                    lines.append(f"setitem ${t} {key} ${ah}")
                stats["writes"] += 1
        # other key syntaxes on the same array
        lines.append(f"getitem ${case.new()} $20 E"); stats["reads"] += 1
        lines.append(f"getitem ${case.new()} $20 S"); stats["reads"] += 1
        for l in order:
            for it in DIMS[l][2]:
                lines.append(f"getitem ${case.new()} $20 I:{it}"); stats["reads"] += 1
        lines.append(f"getitem ${case.new()} $20 I:snope"); stats["reads"] += 1
        # labels that are numpy integers (years from np.arange / a DataFrame): equal to the int items
        for l in order:
            for it in DIMS[l][2]:
                if it[0] == "i":
                    lines.append(f"getitem ${case.new()} $20 I:j{it[1:]}"); stats["reads"] += 1
                    stats["numpy_int_labels"] = stats.get("numpy_int_labels", 0) + 1
                    if r.random() < 0.5:
                        t = case.new()
                        lines.append(f"copy ${t} $20")
                        lines.append(f"setitem ${t} I:j{it[1:]} n:7"); stats["writes"] += 1
        if len(order) >= 2:
            for _ in range(6):
                ls = r.sample(order, r.randint(1, len(order)))
                items = [r.choice(DIMS[l][2]) for l in ls]
                if r.random() < 0.3:
                    items.append(r.choice(DIMS[ls[0]][2]))  # two items of one dimension: a list
                if r.random() < 0.4:
                    items = [("j" + i[1:]) if i[0] == "i" else i for i in items]
                lines.append(f"getitem ${case.new()} $20 T:{','.join(items)}"); stats["reads"] += 1
                t = case.new()
                lines.append(f"copy ${t} $20")
                lines.append(f"setitem ${t} T:{','.join(items)} n:5"); stats["writes"] += 1
        # malformed dict keys: unknown dimension, unknown item, non-subset Dimension, letter clash
        lines.append(f"getitem ${case.new()} $20 K:z=i:sx")
        if order:
            l = order[0]
            name, ty, its = DIMS[l]
            lines.append(f"getitem ${case.new()} $20 K:{l}=i:snope")
            bad = case.newdim(f"D:{SUBLETTER[l]}:{name}sub:{ty}:{its[0]},{'i99' if ty == 'i' else 'snope'}")
            lines.append(f"getitem ${case.new()} $20 K:{l}=d:${bad}")
            # a list selector naming an item the dimension does not have: refused, nothing written
            t = case.new()
            lines.append(f"copy ${t} $20")
            lines.append(f"setitem ${t} K:{l}=l:{its[0]},{'i99' if ty == 'i' else 'snope'} n:0"); stats["writes"] += 1
            lines.append(f"dump ${t}")
            same = case.newdim(f"D:{l}:{name}sub:{ty}:{its[0]}")
            lines.append(f"getitem ${case.new()} $20 K:{l}=d:${same}")
            if len(order) > 1:
                clash = case.newdim(f"D:{order[1]}:{name}sub:{ty}:{its[0]}")
                lines.append(f"getitem ${case.new()} $20 K:{l}=d:${clash}")
            # whole-array assignment
            t = case.new()
            lines.append(f"copy ${t} $20")
            lines.append(f"setitem ${t} E nd:{shape_of([DIMS[x][2] for x in order])}:{vals(r, size_of([DIMS[x][2] for x in order])).replace(' ', ',')}")
            t = case.new()
            lines.append(f"copy ${t} $20")
            wrong = [DIMS[x][2] for x in order][::-1] + [["q"]]
            lines.append(f"setitem ${t} E nd:{shape_of(wrong)}:{vals(r, size_of(wrong)).replace(' ', ',')}")
            t = case.new()
            lines.append(f"copy ${t} $20")
            lines.append(f"setvalues ${t} nd:{shape_of(wrong)}:{vals(r, size_of(wrong)).replace(' ', ',')}")
            lines.append(f"split $20 {l}")
            lines.append(f"split $20 {name}")
            lines.append(f"itemswhere $20 gt 3")
            lines.append(f"itemswhere $20 lt -100")
        stats["cases"] += 1
    return [ln.rstrip() for ln in lines], stats
