"""Label-level reference for the array tier, used ONLY to search for / confirm a failing input after a
tie (proof or correspondence) has broken.  It is a direct executable reading of the property
statements C01, C04-C07: arrays are dicts from label tuples to Fractions; nothing of flodym's
internals (einsum strings, index tuples) appears here.

`expect(line, store)` returns
   ("arr", Ref)   the property fixes the result completely,
   ("err",)       the property demands an error,
   None           the property has no opinion on this operation (e.g. an ill-formed call whose
                  outcome the property does not name).
"""
import itertools
from fractions import Fraction


class Ref:
    def __init__(self, dims, data):
        self.dims = dims  # list of (letter, name, dtype, tuple(items))
        self.data = data  # dict: tuple(items) -> Fraction

    @property
    def letters(self):
        return [d[0] for d in self.dims]

    def labels(self):
        return list(itertools.product(*[d[3] for d in self.dims]))

    def fmt(self):
        ds = " ".join(f"D:{d[0]}:{d[1]}:{d[2]}:{','.join(d[3])}" for d in self.dims)
        shape = "-" if not self.dims else ",".join(str(len(d[3])) for d in self.dims)
        vals = " ".join(fnum(self.data[l]) for l in self.labels())
        return f"A [{ds}] {shape} | {vals}"


def fnum(f):
    return str(f.numerator) if f.denominator == 1 else f"{f.numerator}/{f.denominator}"


def pnum(tok):
    if "/" in tok:
        a, b = tok.split("/")
        return Fraction(int(a), int(b))
    return Fraction(int(tok))


def parse_dim(tok):
    _, l, name, ty, its = tok.split(":")
    return (l, name, ty, tuple(its.split(",")) if its else ())


def parse_arr(text):
    """`A [D:.. D:..] shape | v v v` -> Ref"""
    assert text.startswith("A [")
    close = text.index("]")
    dtoks = text[3:close].split(" ") if close > 3 else []
    dims = [parse_dim(t) for t in dtoks if t]
    rest = text[close + 2:]
    shape_tok, vals = rest.split(" | ") if " | " in rest else (rest.split(" |")[0], "")
    vs = [pnum(v) for v in vals.split(" ") if v]
    r = Ref(dims, {})
    labs = r.labels()
    if len(labs) != len(vs):
        raise ValueError("shape/values mismatch")
    r.data = dict(zip(labs, vs))
    return r


def project(lab, from_letters, to_letters):
    return tuple(lab[from_letters.index(l)] for l in to_letters)


def margin(x, keep):
    """x summed over its dimensions not in keep; result dims in the order of `keep`"""
    dims = [x.dims[x.letters.index(l)] for l in keep]
    out = Ref(dims, {})
    out.data = {lab: Fraction(0) for lab in out.labels()}
    for lab, v in x.data.items():
        out.data[project(lab, x.letters, keep)] += v
    return out


class Oracle:
    def __init__(self):
        self.dims = {}
        self.dsets = {}
        self.arrs = {}

    def dset_of(self, tok):
        return self.dsets.get(tok)

    def operand(self, tok, like):
        if tok.startswith(("n:", "I:", "F:")):
            c = pnum(tok[2:])
            return Ref(list(like.dims), {lab: c for lab in like.labels()})
        return self.arrs.get(tok)

    def dimkey_letter(self, tok, x):
        if tok.startswith("k:"):
            k = tok[2:]
            for d in x.dims:
                if d[0] == k or d[1] == k:
                    return d[0]
            return None
        if tok.startswith("d:"):
            d = self.dims.get(tok[2:])
            return d[0] if d else None
        return None

    def step(self, line):
        """update own store from a setup line; return expectation for an operation line"""
        t = line.split(" ")
        op = t[0]
        if op == "case":
            self.__init__()
            return None
        if op == "dim":
            self.dims[t[1]] = parse_dim(t[2])
            return None
        if op == "dimfrom":
            self.dims[t[1]] = parse_dim(t[3])
            return None
        if op == "dset":
            ds = [self.dims[x] for x in t[2:]]
            if len({d[0] for d in ds}) == len(ds):
                self.dsets[t[1]] = ds
            return None
        if op == "nd":
            self.arrs.pop(t[1], None)
            self.nds = getattr(self, "nds", {})
            self.nds[t[1]] = (t[2], [pnum(v) for v in t[3:]])
            return None
        if op == "ndwrite":
            nds = getattr(self, "nds", {})
            if t[1] in nds:
                sh, vs = nds[t[1]]
                vs = list(vs)
                vs[int(t[2])] = pnum(t[3])
                nds[t[1]] = (sh, vs)
            return None
        if op == "dump":
            x = self.arrs.get(t[1])
            return ("arr", x) if x is not None else None
        if op == "sarr":
            t = ["arr"] + t[2:]
            op = "arr"
        if op in ("arr", "iarr"):
            getattr(self, "nds", {}).pop(t[1], None)
            ds = self.dsets.get(t[2])
            if ds is None:
                return None
            r = Ref(list(ds), {})
            labs = r.labels()
            vs = [pnum(v) for v in t[4:]]
            shape = "-" if not ds else ",".join(str(len(d[3])) for d in ds)
            if t[3] != shape or len(vs) != len(labs):
                return ("err",)
            r.data = dict(zip(labs, vs))
            self.arrs[t[1]] = r
            return ("arr", r)
        exp = self.expect(t)
        if exp is not None and exp[0] == "arr":
            self.arrs[t[1]] = exp[1]
            getattr(self, "nds", {}).pop(t[1], None)
        elif op in ("setitem", "setvalues") and exp is None:
            self.arrs.pop(t[1], None)    # unknown state after an operation without expectation
        return exp

    # ------------------------------------------------------------------
    def expect(self, t):
        op = t[0]
        A = self.arrs
        if op in ("add", "sub", "min", "max"):
            x = A.get(t[2]); y = self.operand(t[3], x) if x else None
            if x is None or y is None:
                return None
            common = [l for l in x.letters if l in y.letters]
            mx, my = margin(x, common), margin(y, common)
            f = {"add": lambda a, b: a + b, "sub": lambda a, b: a - b, "min": min, "max": max}[op]
            return ("arr", Ref(mx.dims, {lab: f(mx.data[lab], my.data[lab]) for lab in mx.labels()}))
        if op in ("mul", "div"):
            x = A.get(t[2]); y = self.operand(t[3], x) if x else None
            if x is None or y is None:
                return None
            dims = list(x.dims) + [d for d in y.dims if d[0] not in x.letters]
            r = Ref(dims, {})
            for lab in r.labels():
                a = x.data[project(lab, r.letters, x.letters)]
                b = y.data[project(lab, r.letters, y.letters)]
                if op == "div" and b == 0:
                    return None
                r.data[lab] = a * b if op == "mul" else a / b
            return ("arr", r)
        if op == "pow":
            x = A.get(t[2]); y = self.operand(t[3], x) if x else None
            if x is None or y is None:
                return None
            if any(l not in x.letters for l in y.letters):
                return ("err",)
            r = Ref(list(x.dims), {})
            for lab in r.labels():
                b = y.data[project(lab, x.letters, y.letters)]
                if b.denominator != 1 or b < 0:
                    return None
                r.data[lab] = x.data[lab] ** int(b)
            return ("arr", r)
        if op in ("radd", "rsub", "rmul", "rdiv"):
            x = A.get(t[2])
            if x is None:
                return None
            c = pnum(t[3][2:])
            if op == "rdiv" and any(v == 0 for v in x.data.values()):
                return None
            f = {"radd": lambda v: c + v, "rsub": lambda v: c - v, "rmul": lambda v: c * v,
                 "rdiv": lambda v: c / v}[op]
            return ("arr", Ref(list(x.dims), {k: f(v) for k, v in x.data.items()}))
        if op in ("absi", "signi"):
            x = A.get(t[1])
            if x is None:
                return None
            f = abs if op == "absi" else (lambda v: Fraction((v > 0) - (v < 0)))
            x.data = {k: f(v) for k, v in x.data.items()}
            return ("arr", x)
        if op in ("neg", "abs", "absm", "sign"):
            x = A.get(t[2])
            if x is None:
                return None
            f = {"neg": lambda v: -v, "abs": abs, "absm": abs,
                 "sign": lambda v: Fraction((v > 0) - (v < 0))}[op]
            return ("arr", Ref(list(x.dims), {k: f(v) for k, v in x.data.items()}))
        if op == "sumto":
            x = A.get(t[2])
            if x is None:
                return None
            ls = [self.dimkey_letter(k, x) for k in t[3:]]
            if any(l is None or l not in x.letters for l in ls):
                return ("err",)
            if len(set(ls)) != len(ls):
                return None
            return ("arr", margin(x, ls))
        if op == "sumover":
            x = A.get(t[2])
            if x is None:
                return None
            ls = [self.dimkey_letter(k, x) for k in t[3:]]
            if any(l is None or l not in x.letters for l in ls):
                return ("err",)
            return ("arr", margin(x, [l for l in x.letters if l not in ls]))
        if op == "castto":
            x = A.get(t[2]); tg = self.dsets.get(t[3])
            if x is None or tg is None:
                return None
            tl = [d[0] for d in tg]
            if any(l not in tl for l in x.letters):
                return ("err",)
            r = Ref(list(tg), {})
            r.data = {lab: x.data[project(lab, tl, x.letters)] for lab in r.labels()}
            return ("arr", r)
        if op == "cumsum":
            x = A.get(t[2])
            if x is None:
                return None
            if t[3] not in x.letters:
                return ("err",)
            i = x.letters.index(t[3])
            items = x.dims[i][3]
            r = Ref(list(x.dims), {})
            for lab in r.labels():
                pos = items.index(lab[i])
                r.data[lab] = sum((x.data[lab[:i] + (it,) + lab[i + 1:]] for it in items[:pos + 1]), Fraction(0))
            return ("arr", r)
        if op == "shares":
            x = A.get(t[2])
            if x is None:
                return None
            ls = [] if t[3] == "-" else list(t[3])
            if any(l not in x.letters for l in ls):
                return None  # the property names no outcome for foreign letters
            keep = [l for l in x.letters if l not in ls]
            tot = margin(x, keep)
            r = Ref(list(x.dims), {})
            for lab in r.labels():
                d = tot.data[project(lab, x.letters, keep)]
                if d == 0:
                    return None
                r.data[lab] = x.data[lab] / d
            return ("arr", r)
        if op == "copy":
            x = A.get(t[2])
            return ("arr", Ref(list(x.dims), dict(x.data))) if x else None
        if op == "stack":
            nd = self.dims.get(t[2])
            xs = [A.get(h) for h in t[3:]]
            if nd is None or any(x is None for x in xs) or not xs:
                return None
            first = xs[0]
            if nd[0] in first.letters or len(xs) > len(nd[3]):
                return None
            if any(sorted(x.letters) != sorted(first.letters) for x in xs):
                return None
            r = Ref(list(first.dims) + [nd], {})
            for lab in r.labels():
                k = nd[3].index(lab[-1])
                if k < len(xs):
                    r.data[lab] = xs[k].data[project(lab[:-1], first.letters, xs[k].letters)]
                else:
                    r.data[lab] = Fraction(0)
            return ("arr", r)
        if op == "getitem":
            x = A.get(t[2])
            if x is None:
                return None
            sel = self.decode_key(x, t[3])
            if sel is None or sel == "err":
                return ("err",) if sel == "err" else None
            if any(s[0] == "list" for s in sel.values()):
                return ("err",)          # reads through a list of items are refused
            return self.read(x, sel)
        if op == "setitem":
            x = A.get(t[1])
            if x is None:
                return None
            sel = self.decode_key(x, t[2])
            if sel is None or sel == "err":
                return ("err",) if sel == "err" else None
            return self.write(x, sel, t[2], t[3])
        return None

    # ------------------------------------------------------------------ indexing by label
    def decode_key(self, x, tok):
        """-> dict letter -> ("item", it) | ("sub", dimtuple) | ("list", [items]); "err"; None"""
        if tok == "E":
            return {}
        if tok == "S":
            return "err"
        kind, body = tok[:2], tok[2:]
        if kind in ("I:", "T:"):
            items = [body] if kind == "I:" else (body.split(",") if body else [])
            items = ["i" + it[1:] if it[:1] == "j" else it for it in items]   # a numpy integer equals the int item
            by = {}
            for it in items:
                holders = [d for d in x.dims if it in d[3]]
                if len(holders) != 1:
                    return "err"
                by.setdefault(holders[0][0], []).append(it)
            return {l: (("item", v[0]) if len(v) == 1 else ("list", v)) for l, v in by.items()}
        if kind == "K:":
            out = {}
            if body == "":
                return out
            for kv in body.split(";"):
                k, v = kv.split("=")
                ds = [d for d in x.dims if d[0] == k or d[1] == k]
                if not ds:
                    return "err"
                d = ds[0]
                if d[0] in out:
                    return None          # the same dimension addressed twice: no opinion
                if v.startswith("i:"):
                    if v[2:] not in d[3]:
                        return "err"
                    out[d[0]] = ("item", v[2:])
                elif v.startswith("d:"):
                    nd = self.dims.get(v[2:])
                    if nd is None:
                        return None
                    if not set(nd[3]) <= set(d[3]):
                        return "err"
                    out[d[0]] = ("sub", nd)
                elif v.startswith(("l:", "g:")):
                    its = v[2:].split(",") if v[2:] else []
                    if any(i not in d[3] for i in its):
                        return "err"
                    out[d[0]] = ("list", its)
            # a replacing Dimension whose letter is already in use: the property names no outcome
            new_letters = [s[1][0] for s in out.values() if s[0] == "sub"]
            remaining = [d[0] for d in x.dims if out.get(d[0], ("keep",))[0] in ("keep", "list")]
            if len(set(new_letters + remaining)) != len(new_letters + remaining) or \
                    any(nl in [d[0] for d in x.dims] for nl in new_letters):
                return None
            return out
        return None

    def region(self, x, sel):
        """result dims and, for every result label tuple, the source label tuple"""
        dims, maps = [], []
        for d in x.dims:
            s = sel.get(d[0], ("keep",))
            if s[0] == "keep":
                dims.append(d)
            elif s[0] == "sub":
                dims.append(s[1])
            elif s[0] == "list":
                dims.append((d[0], d[1], d[2], tuple(s[1])))
        return dims

    def source_label(self, x, sel, rdims, rlab):
        lab = []
        rl = [d[0] for d in rdims]
        for d in x.dims:
            s = sel.get(d[0], ("keep",))
            if s[0] == "item":
                lab.append(s[1])
            elif s[0] == "sub":
                lab.append(rlab[rl.index(s[1][0])])
            else:
                lab.append(rlab[rl.index(d[0])])
        return tuple(lab)

    def read(self, x, sel):
        rdims = self.region(x, sel)
        r = Ref(rdims, {})
        for lab in r.labels():
            r.data[lab] = x.data[self.source_label(x, sel, rdims, lab)]
        return ("arr", r)

    def write(self, x, sel, keytok, rhstok):
        rdims = self.region(x, sel)
        has_list = any(s[0] == "list" for s in sel.values())
        reg = Ref(rdims, {})
        new = Ref(list(x.dims), dict(x.data))
        if rhstok.startswith("n:"):
            c = pnum(rhstok[2:])
            for lab in reg.labels():
                new.data[self.source_label(x, sel, rdims, lab)] = c
        elif rhstok.startswith("nd:"):
            if keytok != "E":
                return None              # numpy broadcasting of an ndarray into a region: no opinion
            _, sh, vals = rhstok.split(":")
            shape = "-" if not x.dims else ",".join(str(len(d[3])) for d in x.dims)
            if sh != shape:
                return ("err",)
            vs = [pnum(v) for v in vals.split(",")] if vals else []
            new.data = dict(zip(new.labels(), vs))
        elif rhstok in getattr(self, "nds", {}):
            # an ndarray object: its current value is assigned (and copied)
            if keytok != "E":
                return None
            sh, vs = self.nds[rhstok]
            shape = "-" if not x.dims else ",".join(str(len(d[3])) for d in x.dims)
            if sh != shape:
                return ("err",)
            new.data = dict(zip(new.labels(), vs))
        else:
            y = self.arrs.get(rhstok)
            if y is None:
                return None
            if has_list:
                return None              # recorded finding D10: positional placement, no opinion here
            rl = [d[0] for d in rdims]
            if any(l not in y.letters for l in rl):
                return ("err",)
            # the source's dimensions must be the region's dimensions (same items)
            for d in rdims:
                if y.dims[y.letters.index(d[0])][3] != d[3]:
                    return None
            m = margin(y, rl)
            for lab in reg.labels():
                new.data[self.source_label(x, sel, rdims, lab)] = m.data[lab]
        self.arrs_after = new
        return ("arr", new)


def split_expect(orc, t):
    """split(dim): one slice per item of that dimension, under its true labels"""
    x = orc.arrs.get(t[1])
    if x is None:
        return None
    ds = [d for d in x.dims if d[0] == t[2] or d[1] == t[2]]
    if not ds:
        return ("err",)
    d = ds[0]
    i = x.dims.index(d)
    parts = []
    for it in d[3]:
        r = Ref([q for q in x.dims if q != d], {})
        for lab in r.labels():
            r.data[lab] = x.data[lab[:i] + (it,) + lab[i:]]
        parts.append(f"{it} {r.fmt()}")
    return ("text", " ;; ".join(parts))


def check_case(case_lines, impl_outputs):
    """returns None or a dict describing the first operation on which the implementation's
    observation contradicts the property"""
    from proto import lines_equal
    orc = Oracle()
    for ln, got in zip(case_lines, impl_outputs):
        try:
            exp = split_expect(orc, ln.split(" ")) if ln.startswith("split ") else orc.step(ln)
        except Exception:
            exp = None
        if exp is None:
            continue
        if exp[0] == "err":
            if got != "err":
                return {"line": ln, "expected": "an error (the property demands a refusal)", "observed": got}
        elif exp[0] == "text":
            if not lines_equal("ok " + exp[1], got):
                return {"line": ln, "expected": "ok " + exp[1], "observed": got}
        else:
            want = "ok " + exp[1].fmt()
            if not lines_equal(want, got):
                return {"line": ln, "expected": want, "observed": got}
    return None
