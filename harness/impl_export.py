"""Streams `export` and `plot`: builds an MFASystem from protocol lines and observes
convert_to_dict (numpy / pandas), the pickle and CSV exports (files written, arrays read back with
from_df), the Sankey link assembly and the lines drawn by both array plotters."""
import logging
import math
import os
import pickle
import shutil
import sys
import tempfile
from fractions import Fraction

from proto import REPO, fmt_arr, fmt_dimset, fmt_num, fmt_shape

sys.path.insert(0, REPO)
import matplotlib  # noqa: E402

matplotlib.use("Agg")
import numpy as np  # noqa: E402
import pandas as pd  # noqa: E402
from flodym import Dimension, DimensionSet, Flow, FlodymArray, MFASystem, Process, StockArray  # noqa: E402
from flodym.stocks import SimpleFlowDrivenStock  # noqa: E402
from flodym.export import data_writer  # noqa: E402
from flodym.export.helper import to_valid_file_name  # noqa: E402
from flodym.export.sankey import PlotlySankeyPlotter  # noqa: E402
from flodym.export.array_plotter import PlotlyArrayPlotter, PyplotArrayPlotter  # noqa: E402

import impl_array  # noqa: E402
import impl_system  # noqa: E402
from impl_system import fmt_fv_arr  # noqa: E402
from impl_table import ser_df, tcell  # noqa: E402

logging.disable(logging.WARNING)


def untilde(s):
    return s.replace("~", " ")


def tilde(s):
    return str(s).replace(" ", "~")


def item_tok(x):
    return f"i{int(x)}" if isinstance(x, (int, np.integer)) else "s" + tilde(x)


class Impl(impl_system.Impl):
    def __init__(self):
        super().__init__()
        self.xdims = None
        self.cfg = None
        self.tmp = None
        self.variant = 0
        self.reset_cfg()

    def reset_cfg(self):
        self.cfg = {"slice": {}, "split": {}, "exclude_procs": ["sysenv"], "exclude_flows": []}

    def tmpdir(self):
        if self.tmp is None:
            self.tmp = tempfile.mkdtemp(prefix="flodym_verif_export_")
        d = tempfile.mkdtemp(dir=self.tmp)
        return d

    def cleanup(self):
        if self.tmp:
            shutil.rmtree(self.tmp, ignore_errors=True)
            self.tmp = None

    def build(self):
        """odd cases: one system object serves every export / plot of the case (exports are queries: they
        leave the system as it is); even cases: a fresh object per command"""
        if self.variant % 2 == 1 and getattr(self, "_built", None) is not None:
            return self._built
        self._built = self._build_fresh()
        return self._built

    def _build_fresh(self):
        # a system assembled by hand: process ids need not be positions (the environment keeps id 0), and
        # values need not be C-contiguous in memory
        n = len(self.procs)
        ids = list(range(n))
        if self.variant % 2 == 1 and n > 2 and self.procs[0] == "sysenv":
            ids = [0] + list(range(n - 1, 0, -1))
        processes = {nm: Process(name=nm, id=i) for i, nm in zip(ids, self.procs)}
        flows = {}
        for k, (name, fp, tp, dims, vals) in enumerate(self.flows):
            nm = untilde(name)
            v = np.array(vals, dtype=float).reshape(dims.shape)
            if (k + self.variant) % 2 == 0 and v.ndim >= 2:
                v = np.asfortranarray(v)
            flows[nm] = Flow(name=nm, from_process=processes[fp], to_process=processes[tp], dims=dims, values=v)
        stocks = {}
        for name, proc, dims, sv, iv, ov in self.stocks:
            nm = untilde(name)
            def mk(v, dims=dims):
                a = np.array(v, dtype=float).reshape(dims.shape)
                return StockArray(dims=dims, values=np.asfortranarray(a) if (self.variant % 2 == 0 and a.ndim >= 2) else a)
            tl = dims.letters[0] if dims.letters else "t"
            stocks[nm] = SimpleFlowDrivenStock(dims=dims, name=nm, process=None if proc == "-" else processes[proc],
                                                               time_letter=tl, stock=mk(sv), inflow=mk(iv), outflow=mk(ov))
        return MFASystem(dims=self.xdims, parameters={}, processes=processes, flows=flows, stocks=stocks)

    def show_dict(self, d):
        def arrs(dd, dimsof):
            return " ;; ".join(f"{tilde(n)}=A {fmt_dimset(dimsof[n])} {fmt_shape(np.shape(v))} | "
                               + " ".join(fmt_num(x) for x in np.asarray(v, dtype=float).flatten()) for n, v in dd.items())
        fdims = {n: f.dims for n, f in self._mfa.flows.items()}
        sdims = {n: s.stock.dims for n, s in self._mfa.stocks.items()}
        return ("DN " + ",".join(f"{k}:{v}" for k, v in d["dimension_names"].items())
                + " | DI " + ";".join(f"{k}={','.join(item_tok(i) for i in v)}" for k, v in d["dimension_items"].items())
                + " | P " + ",".join(d["processes"])
                + " | F " + arrs(d["flows"], fdims)
                + " | FD " + ";".join(f"{tilde(k)}={','.join(v)}" for k, v in d["flow_dimensions"].items())
                + " | FP " + ";".join(f"{tilde(k)}={v[0]}>{v[1]}" for k, v in d["flow_processes"].items())
                + " | S " + arrs(d["stocks"], sdims)
                + " | SD " + ";".join(f"{tilde(k)}={','.join(v)}" for k, v in d["stock_dimensions"].items())
                + " | SP " + ";".join(f"{tilde(k)}={v}" for k, v in d["stock_processes"].items()))

    def _exec(self, t):
        op = t[0]
        if op == "case":
            self.xdims = None
            self.reset_cfg()
            self.variant = int(t[1]) if t[1].isdigit() else 0
            return super()._exec(t)
        if op == "x_dims":
            self.xdims = self.get(t[1], DimensionSet)
            return "ok"
        if op in ("x_dict", "x_pickle"):
            mfa = self.build(); self._mfa = mfa
            if op == "x_dict":
                d = data_writer.convert_to_dict(mfa)
            else:
                path = os.path.join(self.tmpdir(), "mfa.pickle")
                data_writer.export_mfa_to_pickle(mfa, path)
                with open(path, "rb") as f:
                    d = pickle.load(f)
            return "ok " + self.show_dict(d)
        if op == "x_dictpd":
            mfa = self.build()
            d = data_writer.convert_to_dict(mfa, "pandas")
            return ("ok F " + " ;; ".join(f"{tilde(n)}={ser_df(df)}" for n, df in d["flows"].items())
                    + " | S " + " ;; ".join(f"{tilde(n)}={ser_df(df)}" for n, df in d["stocks"].items()))
        if op == "x_files":
            mfa = self.build()
            d = self.tmpdir()
            if t[1] == "flows":
                data_writer.export_mfa_flows_to_csv(mfa, d)
            else:
                data_writer.export_mfa_stocks_to_csv(mfa, d, with_in_and_out=(t[2] == "1"))
            return ("ok " + " ".join(sorted(os.listdir(d)))).rstrip()
        if op == "x_csvback":
            mfa = self.build()
            d1, d2 = self.tmpdir(), self.tmpdir()
            data_writer.export_mfa_flows_to_csv(mfa, d1)
            data_writer.export_mfa_stocks_to_csv(mfa, d2, with_in_and_out=(t[1] == "1"))
            fs = []
            for n, f in mfa.flows.items():
                fn = to_valid_file_name(n) + ".csv"
                back = FlodymArray.from_df(f.dims, pd.read_csv(os.path.join(d1, fn)))
                fs.append(f"{fn}={fmt_arr(back)}")
            ss = []
            for n, s in mfa.stocks.items():
                for attr in (["stock"] + (["inflow", "outflow"] if t[1] == "1" else [])):
                    fn = f"{to_valid_file_name(n)}_{attr}.csv"
                    back = FlodymArray.from_df(s.dims, pd.read_csv(os.path.join(d2, fn)))
                    ss.append(f"{fn}={fmt_arr(back)}")
            return "ok F " + " ;; ".join(fs) + " | S " + " ;; ".join(ss)
        if op == "k_begin":
            self.reset_cfg(); return "ok"
        if op == "k_slice":
            sl = {}
            for kv in t[1:]:
                k, v = kv.split("=")
                sl[k] = impl_array.items(v)[0]
            self.cfg["slice"] = sl
            return "ok"
        if op == "k_exclude_procs":
            self.cfg["exclude_procs"] = t[1:]; return "ok"
        if op == "k_exclude_flows":
            self.cfg["exclude_flows"] = [untilde(x) for x in t[1:]]; return "ok"
        if op == "k_split":
            self.cfg["split"][untilde(t[1])] = (t[2], [f"hsl({10 * k},50,50)" for k in range(int(t[3]))]); return "ok"
        if op == "k_sankey":
            mfa = self.build()
            colors = {"default": "gray"}
            colors.update(self.cfg["split"])
            p = PlotlySankeyPlotter(mfa=mfa, slice_dict=dict(self.cfg["slice"]), exclude_processes=list(self.cfg["exclude_procs"]),
                                    exclude_flows=list(self.cfg["exclude_flows"]), flow_color_dict=colors)
            fig = p.plot()
            # odd cases: the plotter object of the case's first plot is kept and re-used with the current
            # settings (a plot shows the settings and the system as they are when plot() is called)
            if self.variant % 2 == 1:
                prev = getattr(self, "_plotter", None)
                if prev is not None and prev[0] is mfa:
                    q = prev[1]
                    q.slice_dict = dict(self.cfg["slice"])
                    q.exclude_processes = list(self.cfg["exclude_procs"])
                    q.exclude_flows = list(self.cfg["exclude_flows"])
                    q.flow_color_dict = p.flow_color_dict          # as completed (defaults per flow / node) by the
                    q.node_color_dict = p.node_color_dict          # validators of the fresh plotter
                    fig = q.plot()
                else:
                    self._plotter = (mfa, p)
            sk = fig.data[0]
            links = []
            for s_, t_, v, lab in zip(sk.link.source, sk.link.target, sk.link.value, sk.link.label):
                links.append(f"{int(s_)}>{int(t_)}:{fmt_num(float(v))}:{tcell(lab.item() if hasattr(lab, 'item') else lab)}")
            return "ok N " + ",".join(sk.node.label) + " | L " + " ; ".join(links)
        if op == "p_lines":
            kind, a, intra, sub, line, x = t[1:]
            arr = self.get(a, FlodymArray)
            xa = None if x == "-" else self.get(x, FlodymArray)
            cls = PlotlyArrayPlotter if kind == "plotly" else PyplotArrayPlotter
            p = cls(array=arr, intra_line_dim=intra, subplot_dim=None if sub == "-" else sub,
                    linecolor_dim=None if line == "-" else line, x_array=xa)
            fig = p.plot()
            out = []

            def fmt_line(si, li, label, xs, ys):
                lab = "-" if label in (None, "") or str(label).startswith("_") else tilde(label)
                return (f"s{si}l{li} {lab} X " + ",".join(tcell(v.item() if hasattr(v, 'item') else v) for v in xs)
                        + " Y " + ",".join(fmt_num(float(v)) for v in ys))
            if kind == "plotly":
                per = {}
                for tr in fig.data:
                    si = 0 if tr.xaxis in (None, "x") else int(tr.xaxis[1:]) - 1
                    li = per.get(si, 0); per[si] = li + 1
                    out.append((si, li, fmt_line(si, li, tr.name, list(tr.x), list(tr.y))))
                out.sort(key=lambda z: (z[0], z[1]))
                out = [z[2] for z in out]
            else:
                import matplotlib.pyplot as plt
                for si, ax in enumerate(fig.axes):
                    for li, ln in enumerate(ax.lines):
                        out.append(fmt_line(si, li, ln.get_label(), list(ln.get_xdata()), list(ln.get_ydata())))
                plt.close(fig)
            return "ok " + " ; ".join(out)
        return super()._exec(t)


def run(lines):
    impl = Impl()
    try:
        return [impl.exec(ln) for ln in lines]
    finally:
        impl.cleanup()
