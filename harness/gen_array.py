"""Generators for the array tier: streams `array-ops` (arithmetic + reductions), exhaustive over
ordered dimension subsets (= every storage order), random dyadic values."""
import itertools
from fractions import Fraction

from proto import rng

# the common dimension set all operands draw from: equal lengths (a, b, e), a single-item
# dimension (c), a longer one (d); int, str and untyped items
UNIVERSE = {
    "a": "D:a:aa:i:i2001,i2000",      # numeric items, not stored in ascending order
    "b": "D:b:bb:s:sx,sy",
    "c": "D:c:cc:n:sp",
    "d": "D:d:dd:s:su,sv,sw",
    "e": "D:e:ee:i:i5,i7",
}
LENS = {"a": 2, "b": 2, "c": 1, "d": 3, "e": 2}
NAMES = {"a": "aa", "b": "bb", "c": "cc", "d": "dd", "e": "ee"}
HANDLE = {l: i for i, l in enumerate("abcde")}  # $0..$4 are the universe dimensions


def ordered_subsets(letters, maxlen):
    out = []
    for k in range(0, maxlen + 1):
        out.extend(itertools.permutations(letters, k))
    return out


def fnum(f):
    f = Fraction(f)
    return str(f.numerator) if f.denominator == 1 else f"{f.numerator}/{f.denominator}"


def rand_vals(r, n, nonzero=False, small_nonneg_int=False):
    out = []
    for _ in range(n):
        if small_nonneg_int:
            v = Fraction(r.choice([0, 1, 2, 3]))
        else:
            v = Fraction(r.randint(-12, 12), r.choice([1, 1, 2, 4]))
            if nonzero:
                while v == 0:
                    v = Fraction(r.randint(-12, 12), r.choice([1, 2, 4]))
        out.append(v)
    return out


def shape_tok(ls):
    return "-" if not ls else ",".join(str(LENS[l]) for l in ls)


def size(ls):
    n = 1
    for l in ls:
        n *= LENS[l]
    return n


# the same letters, names, dtypes and lengths with other items: one process sees both (a second
# scenario, another region set, another time axis)
UNIVERSE_ALT = {
    "a": "D:a:aa:i:i1990,i1995",
    "b": "D:b:bb:s:sCHN,sIND",
    "c": "D:c:cc:n:sq",
    "d": "D:d:dd:s:sk,sl,sm",
    "e": "D:e:ee:i:i3,i9",
}


def header(letters_used, variant=0):
    u = UNIVERSE_ALT if variant % 2 else UNIVERSE
    return [f"dim ${HANDLE[l]} {u[l]}" for l in letters_used]


def dset_line(h, ls):
    return f"dset ${h} " + " ".join(f"${HANDLE[l]}" for l in ls) if ls else f"dset ${h}"


def arr_line(h, dh, ls, vals):
    return f"arr ${h} ${dh} {shape_tok(ls)} " + " ".join(fnum(v) for v in vals)


def gen_arith(tier, seed, universe=None, maxlen=3):
    """every pair of ordered subsets x every operator form"""
    r = rng(seed, "array-ops/arith")
    letters = universe or ("abc" if tier == "quick" else "abcd")
    subs = ordered_subsets(letters, maxlen)
    lines = []
    n = 0
    stats = {"cases": 0, "ops": 0}
    for xs in subs:
        for ys in subs:
            lines.append(f"case {n} arith x={''.join(xs) or '-'} y={''.join(ys) or '-'}")
            n += 1
            lines += header(letters, n)
            lines.append(dset_line(10, xs))
            lines.append(dset_line(11, ys))
            # in one case out of five the operands have very different magnitudes (exact dyadic)
            sx = Fraction(2) ** r.choice([-40, 30]) if r.random() < 0.2 else 1
            sy = Fraction(2) ** r.choice([-45, 35]) if r.random() < 0.2 else 1
            lines.append(arr_line(20, 10, xs, [v * sx for v in rand_vals(r, size(xs))]))
            lines.append(arr_line(21, 11, ys, [v * sy for v in rand_vals(r, size(ys), nonzero=True)]))
            lines.append(arr_line(22, 11, ys, rand_vals(r, size(ys), small_nonneg_int=True)))
            lines.append(arr_line(23, 10, xs, rand_vals(r, size(xs), nonzero=True)))
            h = 30
            for op in ("add", "sub", "mul", "div", "min", "max"):
                lines.append(f"{op} ${h} $20 $21"); h += 1
            lines.append(f"pow ${h} $20 $22"); h += 1
            # a right operand that is all zeros (a flow not computed yet) follows the same dimension rules
            lines.append(arr_line(25, 11, ys, [Fraction(0)] * size(ys)))
            for op in ("add", "sub", "mul", "min", "max"):
                lines.append(f"{op} ${h} $20 $25"); h += 1
            lines.append(f"add ${h} $25 $20"); h += 1
            c = fnum(rand_vals(r, 1, nonzero=True)[0])
            for op in ("add", "sub", "mul", "div", "min", "max"):
                lines.append(f"{op} ${h} $20 n:{c}"); h += 1
            lines.append(f"pow ${h} $20 n:{r.choice([0, 1, 2, 3])}"); h += 1
            for op in ("radd", "rsub", "rmul"):
                lines.append(f"{op} ${h} $20 n:{c}"); h += 1
            lines.append(f"rdiv ${h} $23 n:{c}"); h += 1
            for op in ("neg", "abs", "absm", "sign"):
                lines.append(f"{op} ${h} $20"); h += 1
            # the same operations on an array held with an integer dtype (counts): results are real numbers
            ivals = [Fraction(r.randint(1, 9) * r.choice([1, -1])) for _ in range(size(xs))]
            lines.append(arr_line(24, 10, xs, ivals).replace("arr ", "iarr ", 1))
            c2 = fnum(Fraction(r.choice([1, 3, 5, 7, -3]), r.choice([2, 4])))
            for op in ("add", "sub", "mul", "div", "min", "max", "radd", "rsub", "rmul", "rdiv"):
                lines.append(f"{op} ${h} $24 n:{c2}"); h += 1
            for op in ("add", "sub", "mul", "div", "min", "max"):
                lines.append(f"{op} ${h} $24 $21"); h += 1
            lines.append(f"pow ${h} $24 n:2"); h += 1
            for op in ("neg", "absm", "sign"):
                lines.append(f"{op} ${h} $24"); h += 1
            # counts on the right as well (summed over their other dimensions, re-ordered to x's order)
            lines.append(arr_line(26, 11, ys, [Fraction(r.randint(1, 9)) for _ in range(size(ys))]).replace("arr ", "iarr ", 1))
            for op in ("add", "sub", "min", "max", "mul"):
                lines.append(f"{op} ${h} $20 $26"); h += 1
                lines.append(f"{op} ${h} $24 $26"); h += 1
            # subclasses on the left (Parameter, StockArray, Flow) and numpy scalars on the right
            for kind in ("param", "stock", "flow"):
                lines.append(arr_line(h, 10, xs, rand_vals(r, size(xs), nonzero=True)).replace("arr ", f"sarr {kind} ", 1)); sub = h; h += 1
                for op in ("add", "rsub", "mul", "max"):
                    lines.append(f"{op} ${h} ${sub} n:{c}"); h += 1
                lines.append(f"pow ${h} ${sub} n:2"); h += 1
                lines.append(f"add ${h} ${sub} $21"); h += 1
            for op in ("add", "sub", "mul", "div", "min", "max"):
                lines.append(f"{op} ${h} $20 I:{r.choice([2, 3, -5])}"); h += 1
                lines.append(f"{op} ${h} $20 F:{r.choice(['1/2', '3/4', '-5/2'])}"); h += 1
            lines.append(f"pow ${h} $20 I:2"); h += 1
            # in-place absolute value / sign of one array, then the out-of-place forms on another one of
            # the same shape: the first array keeps what the in-place call gave it
            for ip, oop in (("absi", "absm"), ("signi", "sign")):
                lines.append(f"copy ${h} $20"); keep = h; h += 1
                lines.append(f"{ip} ${keep}")
                lines.append(f"mul ${h} $20 n:3"); h += 1
                lines.append(f"{oop} ${h} ${h - 1}"); h += 1
                lines.append(f"dump ${keep}")
            stats["cases"] += 1
            stats["ops"] += h - 30
    return [ln.rstrip() for ln in lines], stats


def keyform(r, l, form):
    """name a dimension by letter, by name, or by Dimension object"""
    if form == 0:
        return f"k:{l}"
    if form == 1:
        return f"k:{NAMES[l]}"
    return f"d:${HANDLE[l]}"


def gen_reduce(tier, seed, universe=None, maxlen=3):
    """sum_to / sum_over / cast_to / cumsum / get_shares_over for every ordered subset"""
    r = rng(seed, "array-ops/reduce")
    letters = universe or ("abc" if tier == "quick" else "abcd")
    subs = ordered_subsets(letters, maxlen)
    all_targets = ordered_subsets(letters, len(letters) if tier == "quick" else 4)
    lines = []
    n = 0
    stats = {"cases": 0, "ops": 0}
    for xs in subs:
        lines.append(f"case {n} reduce x={''.join(xs) or '-'}")
        n += 1
        lines += header(letters)
        lines.append(dset_line(10, xs))
        lines.append(arr_line(20, 10, xs, rand_vals(r, size(xs), nonzero=True)))
        lines.append(arr_line(24, 10, xs, [abs(v) for v in rand_vals(r, size(xs), nonzero=True)]))
        # small and large magnitudes (exact dyadic): totals far from 1 must not be mistaken for zero
        tiny = Fraction(1, 2 ** r.choice([34, 40, 60]))
        lines.append(arr_line(25, 10, xs, [abs(v) * tiny for v in rand_vals(r, size(xs), nonzero=True)]))
        lines.append(arr_line(26, 10, xs, [v * 2 ** 40 for v in rand_vals(r, size(xs), nonzero=True)]))
        h = 30
        form = r.randint(0, 2)
        # sum_to: every ordered subset of x's letters (requested order), three naming forms
        for keep in ordered_subsets(xs, len(xs)):
            lines.append(f"sumto ${h} $20 " + " ".join(keyform(r, l, (form + i) % 3) for i, l in enumerate(keep)))
            h += 1; form += 1
        # sum_over: every subset
        for k in range(len(xs) + 1):
            for so in itertools.combinations(xs, k):
                lines.append(f"sumover ${h} $20 " + " ".join(keyform(r, l, (form + i) % 3) for i, l in enumerate(so)))
                h += 1; form += 1
        # unknown / foreign dimensions
        other = [l for l in letters if l not in xs]
        lines.append(f"sumto ${h} $20 k:z"); h += 1
        lines.append(f"sumover ${h} $20 k:zz"); h += 1
        if other:
            lines.append(f"sumto ${h} $20 k:{other[0]}"); h += 1
            lines.append(f"sumto ${h} $20 d:${HANDLE[other[0]]}"); h += 1
            lines.append(f"sumover ${h} $20 d:${HANDLE[other[0]]}"); h += 1
        if xs:
            lines.append(f"sumto ${h} $20 k:{xs[0]} k:{xs[0]}"); h += 1
        # cast_to: every ordered target
        dh = 100
        for tg in all_targets:
            lines.append(dset_line(dh, tg))
            lines.append(f"castto ${h} $20 ${dh}")
            if set(xs) <= set(tg):
                # sum back to x's letters: original times the number of added combinations
                lines.append(f"sumto ${h + 1} ${h} " + " ".join(f"k:{l}" for l in xs))
                h += 1
            h += 1; dh += 1
        if xs:
            # a target that lacks x's first letter but has a dimension of the same *name* under another
            # letter (dimensions are identified by letter): refused like any other missing dimension
            lines.append(f"dim $7 D:q:{NAMES[xs[0]]}:s:sm,sn")
            lines.append(f"dset $198 $7 " + " ".join(f"${HANDLE[l]}" for l in xs[1:]))
            lines.append(f"castto ${h} $20 $198"); h += 1
            lines.append(f"dset $199 $7 " + " ".join(f"${HANDLE[l]}" for l in letters if l != xs[0]))
            lines.append(f"castto ${h} $20 $199"); h += 1
            stats["same_name_other_letter_targets"] = stats.get("same_name_other_letter_targets", 0) + 2
        if xs:
            # the first dimension handed over as another Dimension object of the same letter and name whose
            # items come in another order: dimensions are picked by letter, labels and values stay the array's
            l0 = xs[0]
            u0 = UNIVERSE[l0].split(":")
            lines.append(f"dim $8 {':'.join(u0[:4])}:{','.join(reversed(u0[4].split(',')))}")
            lines.append(f"sumto ${h} $20 d:$8"); h += 1
            lines.append(f"sumover ${h} $20 d:$8"); h += 1
            # cast targets that add a dimension of another letter, first with its usual length, then
            # with another one (same letters, other number of items)
            if other:
                o = other[0]
                uo = UNIVERSE[o].split(":")
                lines.append(dset_line(195, list(xs) + [o]))
                lines.append(f"castto ${h} $20 $195"); h += 1
                lines.append(f"dim $9 {':'.join(uo[:4])}:{uo[4]},{'i77' if uo[3] == 'i' else 'sextra'}")
                lines.append(f"dset $196 " + " ".join(f"${HANDLE[l]}" for l in xs) + " $9")
                lines.append(f"castto ${h} $20 $196"); h += 1
            # entries that cancel over the whole array but not within the groups
            if LENS[l0] == 2:
                half = [abs(v) for v in rand_vals(r, size(xs) // 2, nonzero=True)]
                lines.append(arr_line(28, 10, xs, half + [-v for v in half]))
                for k in range(len(xs) + 1):
                    for so in itertools.combinations(xs, k):
                        lines.append(f"shares ${h} $28 {''.join(so) or '-'}"); h += 1
        # cumsum: every letter, a foreign letter, a name
        for l in xs:
            lines.append(f"cumsum ${h} $20 {l}"); h += 1
        lines.append(f"cumsum ${h} $20 z"); h += 1
        if xs:
            lines.append(f"cumsum ${h} $20 {NAMES[xs[0]]}"); h += 1
        # shares: every subset of letters (given in any order), plus a foreign letter
        for k in range(len(xs) + 1):
            for so in itertools.permutations(xs, k):
                lines.append(f"shares ${h} $24 {''.join(so) or '-'}")
                lines.append(f"sumto ${h + 1} ${h} " + " ".join(f"k:{l}" for l in xs if l not in so))
                h += 2
        # mixed signs: shares below 0 and above 1 are legitimate
        for k in range(len(xs) + 1):
            for so in itertools.combinations(xs, k):
                lines.append(f"shares ${h} $20 {''.join(so) or '-'}"); h += 1
        if other:
            lines.append(f"shares ${h} $24 {other[0]}"); h += 1
        for k in range(len(xs) + 1):
            for so in itertools.combinations(xs, k):
                lines.append(f"shares ${h} $25 {''.join(so) or '-'}"); h += 1
        lines.append(f"sumto ${h} $25"); h += 1
        lines.append(f"sumto ${h} $26"); h += 1
        # an array of counts (integer dtype): shares, totals and running totals are real numbers
        lines.append(arr_line(27, 10, xs, [Fraction(r.randint(1, 9)) for _ in range(size(xs))]).replace("arr ", "iarr ", 1))
        for k in range(len(xs) + 1):
            for so in itertools.combinations(xs, k):
                lines.append(f"shares ${h} $27 {''.join(so) or '-'}"); h += 1
        lines.append(f"sumto ${h} $27"); h += 1
        for keep in ordered_subsets(xs, len(xs)):
            if len(keep) >= 2:
                lines.append(f"sumto ${h} $27 " + " ".join(f"k:{l}" for l in keep)); h += 1
        for l in xs:
            lines.append(f"cumsum ${h} $27 {l}"); h += 1
        for l in xs:
            lines.append(f"cumsum ${h} $25 {l}"); h += 1
        stats["cases"] += 1
        stats["ops"] += h - 30
    return [ln.rstrip() for ln in lines], stats


def gen_stack(tier, seed):
    """flodym_array_stack / split: list elements that store the same dimensions in different orders"""
    r = rng(seed, "array-ops/stack")
    letters = "abe" if tier == "quick" else "abde"      # a, b, e have equal lengths
    lines, n = [], 0
    stats = {"cases": 0, "ops": 0}
    for k in range(0, 4 if tier == "quick" else 4):
        for base in itertools.combinations(letters, k):
            perms = list(itertools.permutations(base))
            for p1 in perms:
                for p2 in perms:
                    lines.append(f"case {n} stack first={''.join(p1) or '-'} second={''.join(p2) or '-'}")
                    n += 1
                    lines += header("abcde")
                    lines.append("dim $9 D:n:new:s:sfirst,ssecond,sthird")
                    lines.append(dset_line(10, p1))
                    lines.append(dset_line(11, p2))
                    lines.append(arr_line(20, 10, p1, rand_vals(r, size(p1))))
                    lines.append(arr_line(21, 11, p2, rand_vals(r, size(p2))))
                    lines.append(arr_line(22, 10, p1, rand_vals(r, size(p1))))
                    lines.append("stack $30 $9 $20 $21 $22")
                    lines.append("split $30 n")
                    lines.append("split $30 new")
                    if p1:
                        lines.append(f"split $30 {p1[-1]}")
                    lines.append("stack $31 $9 $21 $20")       # fewer arrays than items
                    stats["cases"] += 1
                    stats["ops"] += 5
    return [ln.rstrip() for ln in lines], stats
