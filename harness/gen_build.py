"""Generator for stream `build`: random definitions (process lists with and without sysenv first,
duplicates; flows with overriding names, all three naming functions; stocks of all three classes,
with/without lifetime model, all solvers and an unknown one, time letter first / elsewhere /
missing; parameters over arbitrary dimension subsets and orders; undefined letters and processes),
built directly and through CSV / Excel files, plus dimension files in both orientations, with and
without header, int / str dtype, numeric-looking strings, named and unnamed sheets."""
from proto import rng

DIMS = {
    "t": ("time", "i", [2000, 2001, 2002]),
    "h": ("historic", "i", [1990, 1995]),
    "r": ("region", "s", ["EU", "Asia"]),
    "g": ("good", "s", ["car", "bike", "bus"]),
    "m": ("material", "s", ["steel"]),
}
LMS = ["FixedLifetime", "NormalLifetime", "FoldedNormalLifetime", "LogNormalLifetime", "WeibullLifetime"]
PNAMES = ["use", "waste", "prod", "end~of~life", "shredder", "market~EU"]


def dim_line(h, l, items=None):
    name, ty, its = DIMS[l]
    its = items if items is not None else its
    return f"dim ${h} D:{l}:{name}:{ty}:" + ",".join(("i" if ty == "i" else "s") + str(x) for x in its)


def gen_defs(tier, seed):
    """definitions only, exported with to_dfs (stream `defs`, property C19)"""
    lines, stats = gen_build(tier, seed, todfs=True)
    return lines, stats


def gen_build(tier, seed, todfs=False):
    r = rng(seed, "defs" if todfs else "build")
    ncases = (60 if todfs else 300) if tier == "quick" else (600 if todfs else 2500)
    lines = []
    stats = {"cases": 0, "systems": 0, "route_direct": 0, "route_csv": 0, "route_xlsx": 0, "route_reader": 0, "bad_on_purpose": 0,
             "flows": 0, "stocks": 0, "params": 0, "process_lists": 0, "dimfiles": 0, "dimfile_bad": 0}
    for n in range(ncases):
        kind = r.random() if not todfs else 0.0
        lines.append(f"case {n} build")
        stats["cases"] += 1
        if kind < 0.6:
            stats["systems"] += 1
            letters = r.sample(list(DIMS), r.randint(1, 5))
            if "t" not in letters and r.random() < 0.85:
                letters.append("t")
            r.shuffle(letters)
            for k, l in enumerate(letters):
                lines.append(dim_line(k, l))
            route = r.choices(["direct", "csv", "xlsx", "reader"], [0.5, 0.22, 0.13, 0.15])[0] if tier != "quick" or n % 4 else "direct"
            if todfs:
                route = "direct"
            stats["route_" + route] += 1
            lines.append("b_begin")
            lines.append(f"b_route {route}")
            lines.append("b_dims " + " ".join(f"${k}" for k in range(len(letters))))
            bad = r.random() < (0.35 if not todfs else 0.1)
            badkind = r.choice(["sysenv", "letter", "process", "lm_missing", "lm_unused", "time_pos", "solver",
                                "stockproc", "prm_letter", "two_char", "defletters", "time_letter_missing"]) if bad else None
            if bad:
                stats["bad_on_purpose"] += 1
            procs = ["sysenv"] + r.sample(PNAMES, r.randint(0, 5))
            if badkind == "sysenv":
                v = r.random()
                if v < 0.4 and len(procs) > 1:
                    i = r.randrange(1, len(procs)); procs[0], procs[i] = procs[i], procs[0]
                elif v < 0.7:
                    procs = procs[1:] or ["use"]
                else:
                    procs[0] = "Sysenv"
            if r.random() < 0.08 and len(procs) > 1:
                procs.append(r.choice(procs[1:]))      # a duplicate name
            lines.append("b_procs " + " ".join(procs))
            if route == "direct":
                lines.append("b_naming " + r.choice(["arrow", "nospaces", "ids"]))
            if badkind == "defletters" and route == "direct" and not todfs:
                keep = [l for l in letters if r.random() < 0.6]
                lines.append(("b_defletters " + " ".join(keep)).rstrip())

            def subset(require_t_first=False, tl="t"):
                k = r.randint(0, len(letters))
                ls = r.sample(letters, k)
                if require_t_first:
                    if tl in ls:
                        ls.remove(tl)
                    ls.insert(0, tl)
                return ls

            def tok(ls):
                return ",".join(ls) if ls else "-"

            nflows = r.randint(0, 5)
            for i in range(nflows):
                f, t = r.choice(procs), r.choice(procs)
                if badkind == "process" and i == 0:
                    f = "nowhere"
                ls = subset()
                if badkind == "letter" and i == 0:
                    ls = ls + ["z"]
                if badkind == "two_char" and i == 0:
                    ls = ls + ["tr"]
                ov = "-" if r.random() < 0.7 else r.choice(["my~flow", "F_special", f"over{i}", "sysenv => use", "<empty>"]).replace(" ", "~")
                lines.append(f"b_flow {f} {t} {tok(ls)} {ov}")
                stats["flows"] += 1
            nstocks = r.randint(0, 3)
            for i in range(nstocks):
                cls = r.choice(["fds", "idsm", "sdsm", "sdsm", "sdsmsub", "idsmsub"] if not todfs else ["fds", "idsm", "sdsm"])
                tl = "t" if ("h" not in letters or r.random() < 0.8) else "h"
                if badkind == "time_letter_missing" and i == 0:
                    tl = "q"
                ls = subset(require_t_first=(tl in letters), tl=tl)
                if r.random() < 0.2:
                    # no time letter given: the default ("t") applies; dimensions in any order
                    tl = "-"
                    if r.random() < 0.5:
                        ls = subset()
                    stats["default_time_letter"] = stats.get("default_time_letter", 0) + 1
                if tl not in letters and tl != "q":
                    pass
                if badkind == "time_pos" and i == 0 and len(ls) > 1:
                    ls = ls[1:] + ls[:1] if r.random() < 0.7 else ls[1:]
                lm = "none" if cls == "fds" else r.choice(LMS)
                if badkind == "lm_missing" and i == 0:
                    cls, lm = r.choice(["idsm", "sdsm", "sdsmsub"] if not todfs else ["idsm", "sdsm"]), "none"
                if badkind == "lm_unused" and i == 0:
                    cls, lm = "fds", r.choice(LMS)
                solver = r.choice(["manual", "lapack", "manual"])
                if badkind == "solver" and i == 0:
                    solver = "cholesky"
                proc = "-" if r.random() < 0.25 else r.choice(procs)
                if badkind == "stockproc" and i == 0:
                    proc = "nowhere"
                name = r.choice(["in~use", "landfill", f"stock{i}"]) if r.random() < 0.9 else "in~use"
                lines.append(f"b_stock {name} {proc} {tok(ls)} {tl} {cls} {lm} {solver}")
                stats["stocks"] += 1
            nparams = r.randint(0, 3)
            for i in range(nparams):
                ls = subset()
                if route != "direct" and not ls:
                    ls = [r.choice(letters)]
                if badkind == "prm_letter" and i == 0:
                    ls = ls + ["y"]
                size = 1
                for l in ls:
                    size *= len(DIMS[l][2]) if l in DIMS else 1
                vals = [str(r.randint(-20, 60)) if r.random() < 0.6 else f"{r.randint(-99, 99)}/{r.choice([2, 4, 8])}" for _ in range(size)]
                lines.append(f"b_param p{i} {tok(ls)} " + " ".join(vals))
                stats["params"] += 1
            lines.append("b_build" if not todfs else "b_todfs")
        elif kind < 0.72:
            stats["process_lists"] += 1
            lines.append("b_begin")
            v = r.random()
            procs = ["sysenv"] + r.sample(PNAMES, r.randint(0, 6))
            if v < 0.15:
                procs = []
            elif v < 0.35:
                r.shuffle(procs)
            elif v < 0.45:
                procs = procs[1:]
            elif v < 0.55 and len(procs) > 1:
                procs.insert(r.randrange(1, len(procs) + 1), r.choice(procs))
            lines.append(("b_procs " + " ".join(procs)).rstrip())
            lines.append("b_processes")
        else:
            stats["dimfiles"] += 1
            fmt = r.choice(["csv", "csv", "xlsx", "xlsxsheet"])
            dt = r.choice("is")
            name = r.choice(["time", "region", "good", "Some~Name"]) if fmt != "csv" else r.choice(["time", "region", "good"])
            letter = r.choice("trgx")
            nitems = r.randint(1, 6)
            pool_i = [str(x) for x in r.sample(range(1900, 2100), nitems)]
            pool_s = r.sample(["EU", "Asia", "car", "bike", "steel", "Cu", "r5", "10a", "x~y", "Other", "NA", "null", "None", "N/A"], nitems)
            v = r.random()
            if dt == "i":
                items = pool_i
                if v < 0.1:
                    items = items[:-1] + ["2x"]           # not an integer
                    stats["dimfile_bad"] += 1
                elif v < 0.2:
                    items = items + [items[0]]            # duplicate item
                    stats["dimfile_bad"] += 1
                elif v < 0.3 and fmt != "csv":
                    items = items[:-1] + [items[-1] + ".5"]   # a float cell: int() truncates
            else:
                items = pool_s
                if v < 0.2:
                    items = pool_i                       # numeric-looking labels in a str dimension
                elif v < 0.3:
                    items = pool_s[:-1] + pool_i[:1]     # mixed column
                elif v < 0.4:
                    items = items + [items[0]]
                    stats["dimfile_bad"] += 1
            if dt == "s" and r.random() < 0.2 and len(items) >= 2:
                # an item spelled like the dimension itself (dimension "good" with an item "good"), not in first place
                items = list(items)
                items.insert(r.randint(1, len(items)), name)
            header = r.random() < 0.4
            cells = ([name] if header else []) + items
            if r.random() < 0.08:
                cells = []                               # an empty file
            orient = r.choice(["col", "row"])
            if r.random() < 0.1 and len(cells) >= 4 and len(cells) % 2 == 0:
                nr, nc = 2, len(cells) // 2              # a two-dimensional block: refused
                stats["dimfile_bad"] += 1
            elif orient == "col":
                nr, nc = len(cells), 1
            else:
                nr, nc = 1, len(cells)
            if not cells:
                nr, nc = 0, 0
            if fmt == "csv":
                toks = ["t:" + c for c in cells]
            else:
                toks = []
                for c in cells:
                    if c.lstrip("-").isdigit():
                        toks.append("i" + c)
                    elif c.replace(".", "", 1).lstrip("-").isdigit():
                        toks.append("f" + c)
                    else:
                        toks.append("s" + c)
            lines.append(f"b_dimfile {fmt} {name} {letter} {dt} {nr} {nc} " + " ".join(toks))
    return lines, stats
