"""Executes `np-semantics` protocol lines on numpy itself (the primitives the Lean model of numpy
in lean/Flodym/Np stands for)."""
import numpy as np

from proto import fmt_nd


def num(tok):
    if "/" in tok:
        a, b = tok.split("/")
        return int(a) / int(b)
    return float(int(tok))


def shape(tok):
    return () if tok == "-" else tuple(int(t) for t in tok.split(","))


def sub(tok):
    return "" if tok == "-" else tok


class Impl:
    def __init__(self):
        self.o = {}

    def ixs(self, toks):
        raw, mesh_pos, mesh_lists = [], [], []
        for i, t in enumerate(toks):
            if t == ":":
                raw.append(slice(None))
            elif t[0] == "i":
                raw.append(int(t[1:]))
            elif t[0] == "l":
                raw.append([int(x) for x in t[1:].split(",")] if len(t) > 1 else [])
            elif t[0] == "m":
                mesh_pos.append(i)
                mesh_lists.append([int(x) for x in t[1:].split(",")] if len(t) > 1 else [])
                raw.append(None)
            else:
                raise ValueError(t)
        if mesh_lists:
            for p, m in zip(mesh_pos, np.ix_(*mesh_lists)):
                raw[p] = m
        return tuple(raw)

    def exec(self, line):
        t = line.split(" ")
        try:
            return self._exec(t)
        except Exception:
            return "err"

    def _exec(self, t):
        if t[0] == "case":
            self.o = {}
            return "case " + " ".join(t[1:])
        if t[0] == "nd":
            self.o[t[1]] = np.array([num(v) for v in t[3:]], dtype=float).reshape(shape(t[2]))
            return "ok " + fmt_nd(self.o[t[1]])
        assert t[0] == "np"
        op = t[1]
        if op == "einsum1":
            r = np.einsum(f"{sub(t[3])}->{sub(t[4])}", self.o[t[5]])
        elif op == "einsum2":
            a, b = self.o[t[6]], self.o[t[7]]
            # the model refuses size-1 broadcasting of a shared letter; numpy would accept it
            r = np.einsum(f"{sub(t[3])},{sub(t[4])}->{sub(t[5])}", a, b)
        elif op == "index":
            a = self.o[t[3]]
            r = a[self.ixs(t[4:])]
            view = np.shares_memory(r, a) if isinstance(r, np.ndarray) and r.size > 0 else None
            r = np.array(r)
            self.o[t[2]] = r
            # emptiness makes shares_memory meaningless: report the rule (basic indexing = view)
            if view is None:
                view = not any(x[0] in "lm" for x in t[4:])
            return "ok " + fmt_nd(r) + f" view={'true' if view else 'false'}"
        elif op == "indexset":
            a = self.o[t[2]].copy()
            a[self.ixs(t[4:])] = self.o[t[3]]
            self.o[t[2]] = a
            return "ok " + fmt_nd(a)
        elif op == "tile":
            r = np.tile(self.o[t[3]], shape(t[4]))
        elif op == "cumsum":
            r = np.cumsum(self.o[t[3]], axis=int(t[4]))
        elif op == "sumaxis":
            r = self.o[t[3]].sum(axis=int(t[4]))
        elif op == "newaxis":
            idx = tuple(slice(None) if c == "1" else np.newaxis for c in t[4])
            r = self.o[t[3]][idx]
        elif op == "bcast":
            r = np.array(np.broadcast_to(self.o[t[3]], shape(t[4])))
        else:
            return "bad-op"
        r = np.asarray(r, dtype=float)
        self.o[t[2]] = r
        return "ok " + fmt_nd(r)


def run(lines):
    impl = Impl()
    return [impl.exec(ln) for ln in lines]
