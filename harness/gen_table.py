"""Generator for stream `table`: dimension sets of 1-4 dimensions (typed int / typed str / untyped
int / untyped str items, single-item dimensions, overlapping but different item sets, a dimension
named like an item of another), arrays with zeros, every to_df layout, and imports under layouts
x header styles x row/column permutations x index styles x CSV round trip x faults x flags."""
from fractions import Fraction

from proto import rng

POOLS_S = [["EU", "Asia", "Africa"], ["car", "bike", "bus", "truck"], ["steel", "Cu"], ["pp", "qq", "xx"], ["a1", "b2", "NA2"]]
NAMES = [("t", "time"), ("r", "region"), ("g", "good"), ("m", "material"), ("e", "element"), ("x", "xx")]


def fnum(f):
    f = Fraction(f)
    return str(f.numerator) if f.denominator == 1 else f"{f.numerator}/{f.denominator}"


def gen_dims(r):
    nd = r.choice([1, 2, 2, 2, 3, 3, 4])
    picks = r.sample(NAMES, nd)
    dims, used_pools = [], []
    int_starts = r.sample([1, 1990, 2000, 10, 2290], 3)
    for letter, name in picks:
        kind = r.choice(["int", "int", "str", "str", "uint", "ustr"])
        single = r.random() < 0.15
        if kind in ("int", "uint"):
            start = int_starts[len([d for d in dims if d[2] in ("int", "uint")]) % 3] + 100 * len(dims)
            n = 1 if single else r.randint(2, 4)
            step = r.choice([1, 1, 5])
            items = [start + step * i for i in range(n)]
            if r.random() < 0.3:
                r.shuffle(items)                 # items need not be sorted
            tok = ",".join(f"i{i}" for i in items)
            ty = "i" if kind == "int" else "n"
        else:
            pool = r.choice([p for p in POOLS_S if p not in used_pools and name not in p] or [POOLS_S[0]])
            used_pools.append(pool)
            n = 1 if single else r.randint(2, len(pool))
            items = r.sample(pool, n)
            tok = ",".join(f"s{i}" for i in items)
            ty = "s" if kind == "str" else "n"
        dims.append((letter, name, kind, items, f"D:{letter}:{name}:{ty}:{tok}"))
    return dims


def gen_values(r, size, style, dims=None):
    out = []
    if style == "near_items":
        # every value is an integer item of some dimension plus a fraction: truncation would make
        # the set of values equal that dimension's item set
        cand = [d for d in dims if d[2] in ("int", "uint")]
        if cand:
            d = r.choice(cand)
            base = [d[3][k % len(d[3])] for k in range(size)]
            r.shuffle(base)
            return [Fraction(b) + r.choice([Fraction(1, 4), Fraction(1, 2), Fraction(3, 4)]) for b in base]
        style = "fractional"
    for _ in range(size):
        if style == "fractional":
            v = Fraction(r.randint(-40, 200) * 4 + r.choice([1, 3]), 4)      # never an integer
        elif style == "like_items":
            v = Fraction(r.choice([1, 2, 3, 2000, 2001, 1990, 10, 11, 0]))
        else:
            v = Fraction(r.randint(-20, 60), r.choice([1, 1, 2, 4])) if r.random() < 0.8 else Fraction(0)
            if r.random() < 0.06:
                v = Fraction(r.choice([1, -1, 3]), 2 ** r.choice([30, 40]))      # tiny, but not zero
        out.append(v)
    return out


def gen_table(tier, seed):
    r = rng(seed, "table")
    ncases = 240 if tier == "quick" else 2500
    specs = []
    stats = {"cases": 0, "ndims": {}, "todf": 0, "imports": 0, "wide": 0, "csv": 0, "faulty": 0, "fault_kinds": {},
             "headers": {}, "index": {}, "flags": {}, "existing_target": 0}
    for cid in range(ncases):
        dims = gen_dims(r)
        size = 1
        for d in dims:
            size *= len(d[3])
        style = r.choice(["any", "any", "fractional", "like_items", "near_items"])
        values = gen_values(r, size, style, dims)
        ops = []
        names = [d[1] for d in dims]
        multi = [d for d in dims if len(d[3]) > 1]
        # ---- exports
        for _ in range(r.randint(1, 2)):
            col = None
            if len(dims) > 1 and r.random() < 0.5:
                d = r.choice(dims)
                col = d[1] if r.random() < 0.6 else d[0]
            elif r.random() < 0.1:
                col = r.choice(["nosuch", names[0]])
            ops.append({"op": "todf", "index": r.random() < 0.5, "col": col, "sparse": r.random() < 0.4})
            stats["todf"] += 1
        # ---- imports
        for _ in range(r.randint(2, 4)):
            lay = {"seed": r.randrange(10 ** 6)}
            wide = None
            if len(dims) > 1 and r.random() < 0.4:
                wide = r.choice(dims)[1]
                stats["wide"] += 1
            lay["wide"] = wide
            hs = r.choice(["name", "name", "letter", "none", "mixed"])
            header = {}
            for n in names:
                header[n] = hs if hs != "mixed" else r.choice(["name", "letter", "none"])
            lay["header"] = header
            stats["headers"][hs] = stats["headers"].get(hs, 0) + 1
            lay["drop_single"] = r.random() < 0.4
            lay["value_name"] = r.choice([None, None, "amount", "val", "v"])
            lay["perm_rows"] = r.random() < 0.6
            lay["keep_index"] = r.random() < 0.4        # a reordered frame keeps its original row labels
            lay["perm_cols"] = r.random() < 0.6
            lay["index"] = r.choice(["none", "none", "multi", "multi", "unnamed"]) if r.random() < 0.9 else "none"
            lay["index_col"] = r.randrange(4)
            lay["csv"] = r.random() < 0.2
            lay["dup_labels"] = r.random() < 0.2
            lay["via"] = r.choice([None, None, None, "csvreader", "xlsxreader"])     # through the parameter readers
            stats["index"][lay["index"]] = stats["index"].get(lay["index"], 0) + 1
            stats["csv"] += int(lay["csv"])
            faults = []
            if r.random() < 0.45:
                for _ in range(r.choice([1, 1, 1, 2])):
                    k = r.choice(["drop_row", "dup_row", "relabel", "blank", "drop_col", "extra_valcol", "dup_and_drop", "extra_textcol"])
                    faults.append({"kind": k, "pos": r.randrange(1000), "col": r.randrange(4),
                                   "change_value": r.random() < 0.5})
                    if k == "relabel" and r.random() < 0.4:
                        faults[-1]["frac"] = True          # an integer label becomes label + 0.75: not an item either
                        stats["fault_kinds"]["relabel_fractional"] = stats["fault_kinds"].get("relabel_fractional", 0) + 1
                    stats["fault_kinds"][k] = stats["fault_kinds"].get(k, 0) + 1
                stats["faulty"] += 1
            miss, extra = r.choice([(0, 0), (0, 0), (1, 0), (0, 1), (1, 1)])
            stats["flags"][f"{miss}{extra}"] = stats["flags"].get(f"{miss}{extra}", 0) + 1
            if extra and any(f["kind"] == "relabel" for f in faults) and r.random() < 0.7:
                # rows to be ignored in a hand-assembled frame whose row labels repeat
                lay["dup_labels"] = True
                lay["index"] = "none"
                if r.random() < 0.6:
                    miss = 1
                stats["dup_label_relabel"] = stats.get("dup_label_relabel", 0) + 1
                if r.random() < 0.7:
                    lay["wide"] = None
            if miss and any(f["kind"] == "blank" for f in faults) and r.random() < 0.6:
                # an empty cell in a sheet read by the Excel / CSV parameter reader with allow_missing_values
                lay["via"] = r.choice(["xlsxreader", "xlsxreader", "csvreader"])
                lay["index"] = "none"; lay["csv"] = False
                if len(dims) > 1 and r.random() < 0.7:
                    lay["wide"] = r.choice(dims)[1]
                stats["reader_blank"] = stats.get("reader_blank", 0) + 1
            target = "existing" if r.random() < 0.35 else "new"
            if any(f["kind"] in ("dup_row", "dup_and_drop") and not f["change_value"] for f in faults) and r.random() < 0.6:
                # a line repeated verbatim in a file read by the CSV / Excel parameter reader: refused like any duplicate
                lay["via"] = r.choice(["csvreader", "xlsxreader"])
                lay["index"] = "none"; lay["csv"] = False
                target = "new"
                stats["reader_repeated_line"] = stats.get("reader_repeated_line", 0) + 1
            stats["existing_target"] += int(target == "existing")
            ops.append({"op": "fromdf", "layout": lay, "faults": faults, "miss": miss, "extra": extra, "target": target})
            stats["imports"] += 1
        specs.append({"id": cid, "dims": [d[4] for d in dims], "values": [fnum(v) for v in values], "ops": ops,
                      "style": style})
        stats["cases"] += 1
        stats["ndims"][str(len(dims))] = stats["ndims"].get(str(len(dims)), 0) + 1
    return specs, stats
