"""Generator for stream `table`: dimension sets of 1-4 dimensions (typed int / typed str / untyped
int / untyped str items, single-item dimensions, overlapping but different item sets, a dimension
named like an item of another), arrays with zeros, every to_df layout, and imports under layouts
x header styles x row/column permutations x index styles x CSV round trip x faults x flags."""
from fractions import Fraction

from proto import rng

POOLS_S = [["EU", "Asia", "Africa"], ["car", "bike", "bus", "truck"], ["steel", "Cu"], ["pp", "qq", "xx"], ["a1", "b2", "NA2"]]
NAMES = [("t", "time"), ("r", "region"), ("g", "good"), ("m", "material"), ("e", "element"), ("x", "xx")]


def fnum(f):
    f = Fraction(f)
    return str(f.numerator) if f.denominator == 1 else f"{f.numerator}/{f.denominator}"


def gen_dims(r):
    nd = r.choice([1, 2, 2, 2, 3, 3, 4])
    picks = r.sample(NAMES, nd)
    dims, used_pools = [], []
    int_starts = r.sample([1, 1990, 2000, 10, 2290], 3)
    for letter, name in picks:
        kind = r.choice(["int", "int", "str", "str", "uint", "ustr"])
        single = r.random() < 0.15
        if kind in ("int", "uint"):
            start = int_starts[len([d for d in dims if d[2] in ("int", "uint")]) % 3] + 100 * len(dims)
            n = 1 if single else r.randint(2, 4)
            step = r.choice([1, 1, 5])
            items = [start + step * i for i in range(n)]
            if r.random() < 0.3:
                r.shuffle(items)                 # items need not be sorted
            tok = ",".join(f"i{i}" for i in items)
            ty = "i" if kind == "int" else "n"
        else:
            pool = r.choice([p for p in POOLS_S if p not in used_pools and name not in p] or [POOLS_S[0]])
            used_pools.append(pool)
            n = 1 if single else r.randint(2, len(pool))
            items = r.sample(pool, n)
            tok = ",".join(f"s{i}" for i in items)
            ty = "s" if kind == "str" else "n"
        dims.append((letter, name, kind, items, f"D:{letter}:{name}:{ty}:{tok}"))
    return dims


def gen_dims_tricky(r):
    dims = gen_dims(r)
    k = r.randrange(len(dims))
    letter, name = dims[k][0], dims[k][1]
    s0 = r.choice([3, 1990, 2020]) + 100 * k
    offs = r.choice([[0, 2, 1, 3], [0, 3, 1, 2, 4], [0, 6, 2], [3, 1, 2, 0], [1, 0, 2], [0, 2, 1, 3]])
    items = [s0 + o for o in offs]
    kind = r.choice(["int", "int", "uint"])
    tok = ",".join(f"i{i}" for i in items)
    dims[k] = (letter, name, kind, items, f"D:{letter}:{name}:{'i' if kind == 'int' else 'n'}:{tok}")
    return dims


def gen_values(r, size, style, dims=None):
    out = []
    if style == "near_items":
        # every value is an integer item of some dimension plus a fraction: truncation would make
        # the set of values equal that dimension's item set
        cand = [d for d in dims if d[2] in ("int", "uint")]
        if cand:
            d = r.choice(cand)
            base = [d[3][k % len(d[3])] for k in range(size)]
            r.shuffle(base)
            return [Fraction(b) + r.choice([Fraction(1, 4), Fraction(1, 2), Fraction(3, 4)]) for b in base]
        style = "fractional"
    for _ in range(size):
        if style == "fractional":
            v = Fraction(r.randint(-40, 200) * 4 + r.choice([1, 3]), 4)      # never an integer
        elif style == "like_items":
            v = Fraction(r.choice([1, 2, 3, 2000, 2001, 1990, 10, 11, 0]))
        else:
            v = Fraction(r.randint(-20, 60), r.choice([1, 1, 2, 4])) if r.random() < 0.8 else Fraction(0)
            if r.random() < 0.06:
                v = Fraction(r.choice([1, -1, 3]), 2 ** r.choice([30, 40]))      # tiny, but not zero
        out.append(v)
    return out


def gen_table(tier, seed):
    r = rng(seed, "table")
    ncases = 240 if tier == "quick" else 2500
    specs = []
    stats = {"cases": 0, "ndims": {}, "todf": 0, "imports": 0, "wide": 0, "csv": 0, "faulty": 0, "fault_kinds": {},
             "headers": {}, "index": {}, "flags": {}, "existing_target": 0}
    # after the ordinary cases: integer-typed dimensions whose items are consecutive but not ascending, or whose
    # first and last item are as far apart as consecutive ones would be (seed C11_r6_1: a "fast path" that takes
    # label - first item for the position). Drawn from their own generator so the cases above stay what they were.
    r2 = rng(seed, "table-tricky-int-items")
    nextra = 16 if tier == "quick" else 200
    for cid in range(ncases + nextra):
        rr = r if cid < ncases else r2
        dims = gen_dims(rr) if cid < ncases else gen_dims_tricky(rr)
        if cid >= ncases:
            stats["tricky_int_items"] = stats.get("tricky_int_items", 0) + 1
        size = 1
        for d in dims:
            size *= len(d[3])
        style = rr.choice(["any", "any", "fractional", "like_items", "near_items"])
        values = gen_values(rr, size, style, dims)
        ops = []
        names = [d[1] for d in dims]
        multi = [d for d in dims if len(d[3]) > 1]
        # ---- exports
        for _ in range(rr.randint(1, 2)):
            col = None
            if len(dims) > 1 and rr.random() < 0.5:
                d = rr.choice(dims)
                col = d[1] if rr.random() < 0.6 else d[0]
            elif rr.random() < 0.1:
                col = rr.choice(["nosuch", names[0]])
            ops.append({"op": "todf", "index": rr.random() < 0.5, "col": col, "sparse": rr.random() < 0.4})
            stats["todf"] += 1
        # ---- imports
        for _ in range(rr.randint(2, 4)):
            lay = {"seed": rr.randrange(10 ** 6)}
            wide = None
            if len(dims) > 1 and rr.random() < 0.4:
                wide = rr.choice(dims)[1]
                stats["wide"] += 1
            lay["wide"] = wide
            hs = rr.choice(["name", "name", "letter", "none", "mixed"])
            header = {}
            for n in names:
                header[n] = hs if hs != "mixed" else rr.choice(["name", "letter", "none"])
            lay["header"] = header
            stats["headers"][hs] = stats["headers"].get(hs, 0) + 1
            lay["drop_single"] = rr.random() < 0.4
            lay["value_name"] = rr.choice([None, None, "amount", "val", "v"])
            lay["perm_rows"] = rr.random() < 0.6
            lay["keep_index"] = rr.random() < 0.4        # a reordered frame keeps its original row labels
            lay["perm_cols"] = rr.random() < 0.6
            lay["index"] = rr.choice(["none", "none", "multi", "multi", "unnamed"]) if rr.random() < 0.9 else "none"
            lay["index_col"] = rr.randrange(4)
            lay["csv"] = rr.random() < 0.2
            lay["dup_labels"] = rr.random() < 0.2
            lay["via"] = rr.choice([None, None, None, "csvreader", "xlsxreader"])     # through the parameter readers
            stats["index"][lay["index"]] = stats["index"].get(lay["index"], 0) + 1
            stats["csv"] += int(lay["csv"])
            faults = []
            if rr.random() < 0.45:
                for _ in range(rr.choice([1, 1, 1, 2])):
                    k = rr.choice(["drop_row", "dup_row", "relabel", "blank", "drop_col", "extra_valcol", "dup_and_drop", "extra_textcol"])
                    faults.append({"kind": k, "pos": rr.randrange(1000), "col": rr.randrange(4),
                                   "change_value": rr.random() < 0.5})
                    if k == "relabel" and rr.random() < 0.4:
                        faults[-1]["frac"] = True          # an integer label becomes label + 0.75: not an item either
                        stats["fault_kinds"]["relabel_fractional"] = stats["fault_kinds"].get("relabel_fractional", 0) + 1
                    stats["fault_kinds"][k] = stats["fault_kinds"].get(k, 0) + 1
                stats["faulty"] += 1
            miss, extra = rr.choice([(0, 0), (0, 0), (1, 0), (0, 1), (1, 1)])
            stats["flags"][f"{miss}{extra}"] = stats["flags"].get(f"{miss}{extra}", 0) + 1
            if extra and any(f["kind"] == "relabel" for f in faults) and rr.random() < 0.7:
                # rows to be ignored in a hand-assembled frame whose row labels repeat
                lay["dup_labels"] = True
                lay["index"] = "none"
                if rr.random() < 0.6:
                    miss = 1
                stats["dup_label_relabel"] = stats.get("dup_label_relabel", 0) + 1
                if rr.random() < 0.7:
                    lay["wide"] = None
            if miss and any(f["kind"] == "blank" for f in faults) and rr.random() < 0.6:
                # an empty cell in a sheet read by the Excel / CSV parameter reader with allow_missing_values
                lay["via"] = rr.choice(["xlsxreader", "xlsxreader", "csvreader"])
                lay["index"] = "none"; lay["csv"] = False
                if len(dims) > 1 and rr.random() < 0.7:
                    lay["wide"] = rr.choice(dims)[1]
                stats["reader_blank"] = stats.get("reader_blank", 0) + 1
            target = "existing" if rr.random() < 0.35 else "new"
            if any(f["kind"] in ("dup_row", "dup_and_drop") and not f["change_value"] for f in faults) and rr.random() < 0.6:
                # a line repeated verbatim in a file read by the CSV / Excel parameter reader: refused like any duplicate
                lay["via"] = rr.choice(["csvreader", "xlsxreader"])
                lay["index"] = "none"; lay["csv"] = False
                target = "new"
                stats["reader_repeated_line"] = stats.get("reader_repeated_line", 0) + 1
            stats["existing_target"] += int(target == "existing")
            ops.append({"op": "fromdf", "layout": lay, "faults": faults, "miss": miss, "extra": extra, "target": target})
            stats["imports"] += 1
        specs.append({"id": cid, "dims": [d[4] for d in dims], "values": [fnum(v) for v in values], "ops": ops,
                      "style": style})
        stats["cases"] += 1
        stats["ndims"][str(len(dims))] = stats["ndims"].get(str(len(dims)), 0) + 1
    return specs, stats
