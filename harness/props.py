"""Per-property registry: which correspondence streams serve a property, which oracle searches for a
failing input, how evidence is assembled, known findings."""
import glob
import json
import os
import time

import corr
from proto import VERIF, split_cases

TRUSTED_BASE = [
    "Lean 4.33.0 kernel; axioms propext, Classical.choice, Quot.sound only (audited with #print axioms on every run)",
    "the statement of each theorem in lean/FlodymProofs/Props as a reading of the English property",
    "translate/gen_lean.py on its small grammar (constants, closed formulas, einsum subscript templates)",
    "the correspondence harness (generators, canonicalisation, tolerance 1e-9) tying the hand-written model to the code",
    "numpy / pandas / scipy primitives as modelled in lean/Flodym/Np (validated by correspondence, not verified)",
    "IEEE-754 rounding is not modelled: theorems are exact identities over rings/fields",
]


def _array_streams():
    import gen_array
    import impl_array
    import ref_array
    return gen_array, impl_array, ref_array


def streams_for(prop):
    """list of dicts(name, gen, impl, oracle)"""
    ga, ia, ra = _array_streams()
    S = []
    if prop == "C01":
        S.append(dict(name="array-ops/arith", gen=ga.gen_arith, impl=ia.run, oracle=ra.check_case))
    elif prop == "C07":
        S.append(dict(name="array-ops/reduce", gen=ga.gen_reduce, impl=ia.run, oracle=ra.check_case))
    elif prop in ("C06", "C05", "C04"):
        import gen_index
        if prop == "C06":
            import gen_np
            import impl_np
            S.append(dict(name="np-semantics", gen=gen_np.gen_np, impl=impl_np.run, oracle=None))
        if prop == "C04":
            S.append(dict(name="array-ops/arith", gen=ga.gen_arith, impl=ia.run, oracle=ra.check_case))
            S.append(dict(name="array-ops/reduce", gen=ga.gen_reduce, impl=ia.run, oracle=ra.check_case))
            S.append(dict(name="array-ops/stack", gen=ga.gen_stack, impl=ia.run, oracle=ra.check_case))
        if prop == "C04":
            # a parameter handed to a lifetime model in any storage order (cast to the model's dims)
            import gen_dsm
            import impl_dsm
            import ref_dsm
            from fractions import Fraction
            S.append(dict(name="dsm", gen=gen_dsm.gen_dsm, impl=impl_dsm.run, oracle=ref_dsm.CHECKS["C08"],
                          mode="spec", abs_tol=Fraction(1, 10 ** 9)))
        if prop == "C04":
            # exporting to / importing from a frame must not depend on the memory layout of the values
            import gen_table
            import impl_table
            import ref_table
            S.append(dict(name="table", gen=gen_table.gen_table, impl=impl_table.run, mode="spec",
                          oracle=ref_table.check_C11, always_oracle=True))
        if prop == "C05":
            # a refused assignment leaves the target as it was (dims and shape)
            import gen_history
            import ref_history
            S.append(dict(name="history", gen=gen_history.gen_history, impl=ia.run, oracle=ref_history.check_C13))
        if prop == "C06":
            S.append(dict(name="array-ops/stack", gen=ga.gen_stack, impl=ia.run, oracle=ra.check_case))
        S.append(dict(name="index", gen=gen_index.gen_index, impl=ia.run, oracle=ra.check_case))
    elif prop in ("C03", "C08", "C09", "C10", "C16"):
        import gen_dsm
        import impl_dsm
        import ref_dsm
        from fractions import Fraction
        S.append(dict(name="dsm", gen=gen_dsm.gen_dsm, impl=impl_dsm.run, oracle=ref_dsm.CHECKS[prop],
                      mode="spec", abs_tol=Fraction(1, 10 ** 9)))
        if prop in ref_dsm.HISTORY_CHECKS:
            # the same property on objects that are re-used: parameters and drivers changed, tables read, recomputed
            import gen_dsmhist
            import impl_dsmhist
            S.append(dict(name="dsm-history", gen=gen_dsmhist.gen_dsmhist, impl=impl_dsmhist.run,
                          oracle=ref_dsm.HISTORY_CHECKS[prop], mode="spec", abs_tol=Fraction(1, 10 ** 9)))
    elif prop == "C02":
        import gen_system
        import impl_system
        import ref_system
        S.append(dict(name="system", gen=gen_system.gen_system, impl=impl_system.run, oracle=ref_system.check_case,
                      always_oracle=True))
    elif prop == "C18":
        import gen_build
        import impl_build
        import ref_build
        S.append(dict(name="build", gen=gen_build.gen_build, impl=impl_build.run, oracle=ref_build.check_case,
                      always_oracle=True))
    elif prop == "C19":
        import gen_export
        import gen_build
        import impl_build
        import impl_export
        import ref_export
        S.append(dict(name="export", gen=gen_export.gen_export, impl=impl_export.run, oracle=ref_export.check_export,
                      always_oracle=True))
        import ref_build
        S.append(dict(name="defs", gen=gen_build.gen_defs, impl=impl_build.run, oracle=ref_build.check_defs, always_oracle=True))
    elif prop == "C20":
        import gen_export
        import impl_export
        import ref_export
        S.append(dict(name="plot", gen=gen_export.gen_plot, impl=impl_export.run, oracle=ref_export.check_plot,
                      always_oracle=True))
    elif prop in ("C11", "C12"):
        import gen_table
        import impl_table
        import ref_table
        S.append(dict(name="table", gen=gen_table.gen_table, impl=impl_table.run, mode="spec",
                      oracle=ref_table.check_C11 if prop == "C11" else ref_table.check_C12, always_oracle=True))
    elif prop in ("C13", "C15"):
        import gen_history
        import ref_history
        orc = ref_history.check_C13 if prop == "C13" else ref_history.check_C15
        S.append(dict(name="history", gen=gen_history.gen_history, impl=ia.run, oracle=orc))
        if prop == "C13":
            # a refused import from a DataFrame leaves the target array as it was
            import gen_table
            import impl_table
            import ref_table
            S.append(dict(name="table", gen=gen_table.gen_table, impl=impl_table.run, mode="spec",
                          oracle=ref_table.check_C12, always_oracle=True))
        if prop == "C15":
            import gen_index
            S.append(dict(name="index", gen=gen_index.gen_index, impl=ia.run, oracle=ra.check_case))
            import gen_table
            import impl_table
            import ref_table
            S.append(dict(name="table", gen=gen_table.gen_table, impl=impl_table.run, mode="spec",
                          oracle=ref_table.check_C15, always_oracle=True))
    elif prop == "C17":
        import gen_dsmhist
        import impl_dsmhist
        import ref_dsm
        from fractions import Fraction
        S.append(dict(name="dsm-history", gen=gen_dsmhist.gen_dsmhist, impl=impl_dsmhist.run,
                      oracle=ref_dsm.CHECKS["C17"], mode="spec", abs_tol=Fraction(1, 10 ** 9)))
    elif prop == "C14":
        import gen_dims
        import ref_dims
        S.append(dict(name="dims/pairs", gen=gen_dims.gen_pairs, impl=ia.run, oracle=ref_dims.check_case))
        S.append(dict(name="dims/queries", gen=gen_dims.gen_queries, impl=ia.run, oracle=ref_dims.check_case))
        S.append(dict(name="dims/histories", gen=gen_dims.gen_histories, impl=ia.run, oracle=ref_dims.check_case))
    return S


PROPS = {
    "C01": dict(title="arithmetic by label"),
    "C07": dict(title="summing, casting, shares"),
    "C13": dict(title="shape invariant, failed calls change nothing"),
    "C15": dict(title="inputs untouched, results independent"),
    "C14": dict(title="dimension sets as ordered sets"),
    "C02": dict(title="mass-balance and flow checks"),
    "C03": dict(title="stocks conserve mass"),
    "C08": dict(title="survival tables"),
    "C09": dict(title="cohort tables"),
    "C10": dict(title="inverse models, solver agreement"),
    "C16": dict(title="causal, linear, label-independent"),
    "C17": dict(title="recompute reflects current inputs"),
    "C04": dict(title="storage order independence"),
    "C05": dict(title="assignment keeps dims, sums by label"),
    "C06": dict(title="indexing by item labels"),
    "C18": dict(title="systems built from definitions and files"),
    "C11": dict(title="DataFrame import is faithful to labels"),
    "C19": dict(title="exports reproduce every flow and stock"),
    "C20": dict(title="Sankey links and plotted lines"),
    "C12": dict(title="import refuses incomplete or inconsistent data"),
}


# ------------------------------------------------------------------------------------------
def load_corpus(prop):
    """minimised past failures and regression witnesses of fixed defects: run first"""
    out = []
    for p in sorted(glob.glob(os.path.join(VERIF, "corpus", prop, "*.json"))):
        with open(p) as f:
            rec = json.load(f)
        rec["path"] = os.path.relpath(p, VERIF)
        out.append(rec)
    return out


def _safe_oracle(fn):
    """an oracle that cannot evaluate a case (the protocol lines lack what it needs, e.g. because the
    changed code no longer makes the calls that are recorded) has no opinion on it"""
    if fn is None:
        return None

    def wrapped(block, io):
        try:
            return fn(block, io)
        except Exception as e:       # noqa: BLE001
            return None if os.environ.get("VERIF_ORACLE_STRICT") is None else {"line": block[0] if block else "", "oracle_error": repr(e)}
    return wrapped


def run_streams(prop, tier, seed, search=False):
    result = {"streams": [], "oracle_failures": []}
    all_streams = streams_for(prop)
    for st in all_streams:
        st["oracle"] = _safe_oracle(st.get("oracle"))
    corpus = load_corpus(prop)
    for st in all_streams:
        if st.get("mode") == "spec":
            # the implementation run produces the protocol lines (they carry values returned by
            # external calls, e.g. scipy's survival functions)
            specs, gstats = st["gen"](tier, seed)
            extra_specs = []
            for rec in corpus:
                if rec.get("stream") == st["name"]:
                    extra_specs += rec["specs"]
            t_impl = time.time()
            lines, impl_pre = st["impl"](extra_specs + specs)
            t_impl = time.time() - t_impl
            extra = [ln for ln in lines[:0]]
            bad, stats, impl_out, model_out = corr.correspond(lines, None, abs_tol=st.get("abs_tol"),
                                                              impl_out=impl_pre, impl_s=t_impl)
            stats["corpus_specs"] = len(extra_specs)
        else:
            lines, gstats = st["gen"](tier, seed)
            extra = []
            for rec in corpus:
                if rec.get("stream") == st["name"]:
                    extra += rec["lines"]
            lines = extra + lines
            bad, stats, impl_out, model_out = corr.correspond(lines, st["impl"], abs_tol=st.get("abs_tol"))
        stats["generator"] = gstats
        stats["corpus_cases"] = sum(1 for ln in extra if ln.startswith("case "))
        if stats["bad_op"]:
            raise RuntimeError(f"stream {st['name']}: {stats['bad_op']} protocol lines were not understood")
        dis = []
        for b in bad:
            block = corr.case_block(lines, b)
            s0 = b["start"]
            io = impl_out[s0:s0 + len(block)]
            d = {"line": b["line"], "impl": b["impl"], "model": b["model"], "block": block, "oracle": None}
            if st.get("mode") != "spec":
                # the case that ran just before it in the same process (state kept between calls
                # - a cache, a shared default - only shows with it)
                k = s0 - 1
                while k > 0 and not lines[k].startswith("case "):
                    k -= 1
                d["earlier_case"] = lines[k:s0] if s0 > 0 else []
            if st.get("oracle"):
                d["oracle"] = st["oracle"](block, io)
            dis.append(d)
        cases = split_cases(lines)
        if st.get("always_oracle") and st.get("oracle"):
            # the property-level oracle looks at every case, also where model and implementation agree
            # (the model mirrors the code; where no theorem covers a stage, the oracle still does)
            flagged = {tuple(d["block"][:1]) for d in dis}
            pos = 0
            n_or = 0
            for c in cases:
                io = impl_out[pos:pos + len(c)]
                pos += len(c)
                if tuple(c[:1]) in flagged or n_or >= 5:
                    continue
                o = st["oracle"](c, io)
                if o:
                    n_or += 1
                    dis.append({"line": o["line"], "impl": o["observed"], "model": "(the model agrees with the implementation)",
                                "block": c, "oracle": o})
            stats["oracle_all_cases"] = True
        # samples for the evidence file: a few full cases with what was observed
        samples = []
        pos = 0
        for ci, c in enumerate(cases):
            if ci in (0, len(cases) // 2, len(cases) - 1):
                samples.append({"stream": st["name"], "lines": c[:14],
                                "observed": impl_out[pos:pos + min(len(c), 14)]})
            pos += len(c)
        distinct = len({(ln, o) for ln, o in zip(lines, impl_out) if o.startswith("ok ") and not ln.startswith(("dim ", "dset ", "case "))})
        result["streams"].append({"name": st["name"], "stats": stats, "disagreements": dis,
                                  "samples": samples, "distinct_ok": distinct})
        if (search or os.environ.get("VERIF_FORCE_SEARCH")) and st.get("oracle"):
            pos = 0
            for c in cases:
                io = impl_out[pos:pos + len(c)]
                pos += len(c)
                o = st["oracle"](c, io)
                if o:
                    result["oracle_failures"].append({"block": c, "oracle": o})
                    if len(result["oracle_failures"]) >= 3:
                        break
    return result


# ------------------------------------------------------------------------------------------
def known_findings(prop):
    p = os.path.join(VERIF, "known_findings.json")
    if not os.path.exists(p):
        return []
    with open(p) as f:
        data = json.load(f)
    return [k for k in data.get("findings", []) if k["property"] == prop or prop in k.get("also", [])]


def match_known_finding(prop, disagreement):
    """a disagreement is a known finding only when it is one of the listed witnesses"""
    for kf in known_findings(prop):
        if kf["status"] != "known":
            continue
        sig = kf.get("signature")
        if sig and sig in disagreement["line"]:
            return kf
    return None


def replay_known(kf):
    """replay the witness of a recorded (not repaired) finding on the implementation: is the
    defective observation still there?"""
    w = kf.get("witness")
    if not w:
        return False
    if w.get("runner") == "export":
        import impl_export
        out = impl_export.run(w["lines"])
        return bool(out) and out[-1] == w["defective_observation"]
    if w.get("runner") == "table":
        import impl_table
        lines, out = impl_table.run(w["specs"])
        return bool(out) and out[-1] == w["defective_observation"]
    ga, ia, ra = _array_streams()
    runner = {"array": ia.run}.get(w.get("runner", "array"))
    out = runner(w["lines"])
    return bool(out) and out[-1] == w["defective_observation"]


def replay(prop, path):
    with open(path if os.path.isabs(path) else os.path.join(VERIF, path)) as f:
        rec = json.load(f)
    print(json.dumps({k: rec[k] for k in rec if k not in ("case",)}, indent=1)[:3000])
    block = rec.get("case")
    if not block:
        print("replay names a broken proof obligation / translator site; nothing to re-execute")
        return 0
    st = [s for s in streams_for(prop) if s["name"] == rec.get("stream")] or streams_for(prop)[:1]
    ctx = rec.get("earlier_case_in_the_same_process") or []
    bad, stats, io, mo = corr.correspond(ctx + block, st[0]["impl"])
    io, mo = io[len(ctx):], mo[len(ctx):]
    for ln, a, b in zip(block, io, mo):
        print(ln); print("   impl :", a[:400]); print("   model:", b[:400])
    if st[0].get("oracle"):
        o = st[0]["oracle"](block, io)
        print("oracle:", o)
        return 1 if (o or bad) else 0
    return 1 if bad else 0


# ------------------------------------------------------------------------------------------
def evidence(prop, tier, seed, lean, corr_res, wall, n_viol):
    streams = corr_res["streams"]
    evaluations = sum(s["stats"]["observations"] for s in streams)
    distinct = sum(s["distinct_ok"] for s in streams)
    samples = []
    for s in streams:
        samples += s["samples"][:2]
    samples.append({"obligations": lean["theorems"][:6]})
    cov = {
        "obligations": lean["obligations"],
        "discharged": lean["discharged"],
        "checker_cmd": f"cd lean && lake build FlodymProofs.Props.{prop} && lake env lean FlodymProofs/Audit/{prop}.lean"
                       + (" && lake env leanchecker FlodymProofs.Props." + prop if tier == "thorough" else ""),
        "trusted_base": TRUSTED_BASE,
        "theorems": lean["theorems"],
        "axioms_used": sorted({a for v in lean["axioms"].values() for a in v}),
        "translator": lean["translator"],
        "traces_validated_against_impl": sum(s["stats"]["cases"] for s in streams),
        "evaluations": evaluations,
        "distinct_nontrivial": distinct,
        "rule": "evaluations = operation lines executed on both the implementation and the Lean model driver; "
                "distinct_nontrivial = distinct (operation line, successful observation) pairs, i.e. operations "
                "that returned an array or a value rather than an error",
        "exhaustive": False,
        "streams": [{"name": s["name"], **s["stats"], "disagreements": len(s["disagreements"])} for s in streams],
        "samples": samples,
    }
    if "leanchecker" in lean:
        cov["leanchecker"] = lean["leanchecker"]
    return {
        "property_id": prop,
        "tier": tier,
        "seed": seed,
        "level": "proof",
        "coverage": cov,
        "assumptions": TRUSTED_BASE,
        "wall_s": round(wall, 2),
        "violations": n_viol,
    }
