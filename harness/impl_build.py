"""Stream `build`: systems from definitions (directly, or through CSV / Excel dimension and
parameter files written to a temporary directory) and dimension files on their own."""
import itertools
import os
import shutil
import sys
import tempfile

from proto import REPO, fmt_dim, fmt_dimset, fmt_num

sys.path.insert(0, REPO)
import numpy as np  # noqa: E402
import pandas as pd  # noqa: E402
import flodym  # noqa: E402
from flodym import Dimension, DimensionSet, MFASystem  # noqa: E402
from flodym import lifetime_models as lm_mod  # noqa: E402
from flodym.data_reader import CSVDimensionReader, ExcelDimensionReader  # noqa: E402
from flodym.flow_helper import make_empty_flows  # noqa: E402
from flodym.flow_naming import process_ids, process_names_no_spaces, process_names_with_arrow  # noqa: E402
from flodym.mfa_definition import (DimensionDefinition, FlowDefinition, MFADefinition,  # noqa: E402
                                   ParameterDefinition, StockDefinition)
from flodym.processes import make_processes  # noqa: E402
from flodym.stock_helper import make_empty_stocks  # noqa: E402
from flodym.stocks import InflowDrivenDSM, SimpleFlowDrivenStock, StockDrivenDSM  # noqa: E402

import impl_array  # noqa: E402

class UserStockDrivenDSM(StockDrivenDSM):
    """a user's own stock class: inherits every field, adds none"""


class UserInflowDrivenDSM(InflowDrivenDSM):
    pass


CLS = {"fds": SimpleFlowDrivenStock, "idsm": InflowDrivenDSM, "sdsm": StockDrivenDSM,
       "sdsmsub": UserStockDrivenDSM, "idsmsub": UserInflowDrivenDSM}
CLSNAME = {SimpleFlowDrivenStock: "fds", InflowDrivenDSM: "idsm", StockDrivenDSM: "sdsm",
           UserStockDrivenDSM: "sdsm", UserInflowDrivenDSM: "idsm"}
NAMING = {"arrow": process_names_with_arrow, "nospaces": process_names_no_spaces, "ids": process_ids}


def tilde(s):
    return s.replace(" ", "~")


def untilde(s):
    return s.replace("~", " ")


def letters_of(tok):
    return () if tok == "-" else tuple(tok.split(","))


class Impl(impl_array.Impl):
    def __init__(self):
        super().__init__()
        self.tmp = None
        self.reset_build()

    def reset_build(self):
        self.b = {"dims": [], "procs": [], "flows": [], "stocks": [], "params": [], "naming": "arrow",
                  "route": "direct", "defletters": None}

    def tmpdir(self):
        if self.tmp is None:
            self.tmp = tempfile.mkdtemp(prefix="flodym_verif_build_")
        return self.tmp

    def cleanup(self):
        if self.tmp is not None:
            shutil.rmtree(self.tmp, ignore_errors=True)
            self.tmp = None

    def show_system(self, mfa):
        ps = ",".join(f"{tilde(n)}:{p.id}" for n, p in mfa.processes.items())
        fs = " ; ".join(
            f"{tilde(n)}:{tilde(f.from_process.name)}>{tilde(f.to_process.name)}:{fmt_dimset(f.dims)}:"
            f"{'zero' if (f.values.shape == f.dims.shape and not np.any(f.values)) else 'nonzero'}"
            for n, f in mfa.flows.items())
        ss = []
        for n, s in mfa.stocks.items():
            lm = type(s.lifetime_model).__name__ if hasattr(s, "lifetime_model") else "none"
            solver = getattr(s, "solver", "none")
            ok = all(a.dims == s.dims and not np.any(a.values) for a in (s.stock, s.inflow, s.outflow))
            ss.append(f"{tilde(n)}:{CLSNAME[type(s)]}:{lm}:{solver}:{s.time_letter}:"
                      f"{tilde(s.process.name) if s.process is not None else 'none'}:{fmt_dimset(s.dims)}"
                      + ("" if ok else ":BAD-ARRAYS"))
        rs = " ; ".join(f"{tilde(n)}:{fmt_dimset(p.dims)}:{' '.join(fmt_num(x) for x in np.asarray(p.values, dtype=float).flatten())}"
                        for n, p in mfa.parameters.items())
        return f"ok P {ps} | F {fs} | S {' ; '.join(ss)} | R {rs} | D {','.join(mfa.dims.letters)}"

    def definition(self):
        b = self.b
        dim_objs = [self.get(h, Dimension) for h in b["dims"]]
        dimdefs = [DimensionDefinition(name=d.name, letter=d.letter, dtype=d.dtype if d.dtype is not None else str)
                   for d in dim_objs]
        if b["defletters"] is not None:
            raise ValueError("to_dfs cases do not restrict the defined letters")
        flowdefs = [FlowDefinition(from_process_name=f, to_process_name=t, dim_letters=ls, name_override=ov)
                    for f, t, ls, ov in b["flows"]]
        stockdefs = [StockDefinition(name=name, process_name=proc, dim_letters=ls, **({} if tl == "-" else {"time_letter": tl}), subclass=CLS[cls],
                                     lifetime_model_class=None if lm == "none" else getattr(lm_mod, lm), solver=solver)
                     for name, proc, ls, tl, cls, lm, solver in b["stocks"]]
        paramdefs = [ParameterDefinition(name=n, dim_letters=ls) for n, ls, _ in b["params"]]
        return MFADefinition(dimensions=dimdefs, processes=b["procs"], flows=flowdefs, stocks=stockdefs, parameters=paramdefs)

    def todfs(self):
        dfs = self.definition().to_dfs()

        def cell(v):
            if v is None:
                return "None"
            if isinstance(v, tuple):
                return "+".join(v) if v else "()"
            if isinstance(v, type):
                return v.__name__
            return tilde(str(v))
        out = []
        for kind, df in dfs.items():
            rows = [",".join(cell(v) for v in row) for row in df.itertuples(index=False, name=None)]
            out.append(f"{kind}: {','.join(df.columns)} | " + " ; ".join(rows))
        return "ok " + " || ".join(out)

    def build(self):
        b = self.b
        dim_objs = [self.get(h, Dimension) for h in b["dims"]]
        dimdefs = [DimensionDefinition(name=d.name, letter=d.letter, dtype=d.dtype if d.dtype is not None else str)
                   for d in dim_objs]
        if b["defletters"] is not None:
            dimdefs = [dd for dd in dimdefs if dd.letter in b["defletters"]] + \
                      [DimensionDefinition(name="extra" + l, letter=l, dtype=str) for l in b["defletters"]
                       if l not in [dd.letter for dd in dimdefs]]
        flowdefs = [FlowDefinition(from_process_name=f, to_process_name=t, dim_letters=ls, name_override=ov)
                    for f, t, ls, ov in b["flows"]]
        stockdefs = []
        for name, proc, ls, tl, cls, lm, solver in b["stocks"]:
            stockdefs.append(StockDefinition(name=name, process_name=proc, dim_letters=ls, **({} if tl == "-" else {"time_letter": tl}), subclass=CLS[cls],
                                             lifetime_model_class=None if lm == "none" else getattr(lm_mod, lm), solver=solver))
        paramdefs = [ParameterDefinition(name=n, dim_letters=ls) for n, ls, _ in b["params"]]
        definition = MFADefinition(dimensions=dimdefs, processes=b["procs"], flows=flowdefs, stocks=stockdefs,
                                   parameters=paramdefs)
        dims = DimensionSet(dim_list=dim_objs)
        route = b["route"]
        if route == "direct":
            params = {}
            for n, ls, vals in b["params"]:
                sub = dims.get_subset(ls)
                params[n] = flodym.Parameter(dims=sub, name=n, values=np.array([impl_array.num(v) for v in vals], dtype=float).reshape(sub.shape))
            processes = make_processes(definition.processes)
            flows = make_empty_flows(processes=processes, flow_definitions=definition.flows, dims=dims, naming=NAMING[b["naming"]])
            stocks = make_empty_stocks(processes=processes, stock_definitions=definition.stocks, dims=dims)
            return MFASystem(dims=dims, parameters=params, processes=processes, flows=flows, stocks=stocks)
        if route == "reader":
            # a user-written data reader: it returns the dimensions and plain, unnamed parameters
            from flodym.data_reader import DataReader

            prm_values = {n: (ls, vals) for n, ls, vals in b["params"]}

            class UserReader(DataReader):
                def read_dimension(self, definition):
                    return [d for d in dim_objs if d.name == definition.name][0]

                def read_parameter_values(self, parameter_name, dims):
                    ls, vals = prm_values[parameter_name]
                    return flodym.Parameter(dims=dims, values=np.array([impl_array.num(v) for v in vals], dtype=float).reshape(dims.shape))
            return MFASystem.from_data_reader(definition, UserReader())
        # ---- through files
        tmp = self.tmpdir()
        ext = "csv" if route == "csv" else "xlsx"
        dimfiles, prmfiles = {}, {}
        for k, d in enumerate(dim_objs):
            path = os.path.join(tmp, f"dim{k}.{ext}")
            col = pd.DataFrame(d.items)
            if route == "csv":
                col.to_csv(path, header=False, index=False)
            else:
                col.to_excel(path, header=False, index=False)
            dimfiles[d.name] = path
        for k, (n, ls, vals) in enumerate(b["params"]):
            sub = dims.get_subset(ls)
            rows = list(itertools.product(*[d.items for d in sub.dim_list]))
            df = pd.DataFrame(rows, columns=list(sub.names))
            df["value"] = [impl_array.num(v) for v in vals]
            df = df.iloc[::-1]                      # row order is arbitrary
            path = os.path.join(tmp, f"prm{k}.{ext}")
            if route == "csv":
                df.to_csv(path, index=False)
            else:
                df.to_excel(path, index=False)
            prmfiles[n] = path
        if route == "csv":
            return MFASystem.from_csv(definition, dimension_files=dimfiles, parameter_files=prmfiles)
        return MFASystem.from_excel(definition, dimension_files=dimfiles, parameter_files=prmfiles)

    def dimfile(self, t):
        fmt, name, letter, dt, nr, nc = t[1], untilde(t[2]), t[3], t[4], int(t[5]), int(t[6])
        cells = t[7:]
        tmp = self.tmpdir()
        definition = DimensionDefinition(name=name, letter=letter, dtype=int if dt == "i" else str)
        if fmt == "csv":
            texts = [untilde(c[2:]) for c in cells]
            path = os.path.join(tmp, "dimfile.csv")
            with open(path, "w") as f:
                for i in range(nr):
                    f.write(",".join(texts[i * nc:(i + 1) * nc]) + "\n")
            reader = CSVDimensionReader(dimension_files={name: path})
        else:
            from openpyxl import Workbook
            wb = Workbook()
            ws = wb.active
            sheet = None
            if fmt == "xlsxsheet":
                ws.title = "other"
                ws2 = wb.create_sheet("items")
                ws_target, sheet = ws2, {name: "items"}
                ws["A1"] = "decoy"
            else:
                ws_target = ws
                wb.create_sheet("second")["A1"] = "decoy"
            vals = []
            for c in cells:
                vals.append(int(c[1:]) if c[0] == "i" else (float(c[1:]) if c[0] == "f" else untilde(c[1:])))
            for i in range(nr):
                for j in range(nc):
                    ws_target.cell(row=i + 1, column=j + 1, value=vals[i * nc + j])
            path = os.path.join(tmp, "dimfile.xlsx")
            wb.save(path)
            reader = ExcelDimensionReader(dimension_files={name: path}, dimension_sheets=sheet)
        return "ok " + tilde(fmt_dim(reader.read_dimension(definition)))

    def _exec(self, t):
        op = t[0]
        if op == "case":
            self.reset_build()
            return super()._exec(t)
        if op == "b_begin":
            self.reset_build(); return "ok"
        if op == "b_route":
            self.b["route"] = t[1]; return "ok"
        if op == "b_dims":
            self.b["dims"] = t[1:]; return "ok"
        if op == "b_defletters":
            self.b["defletters"] = t[1:]; return "ok"
        if op == "b_procs":
            self.b["procs"] = [untilde(x) for x in t[1:]]; return "ok"
        if op == "b_naming":
            if t[1] not in NAMING:
                raise ValueError
            self.b["naming"] = t[1]; return "ok"
        if op == "b_flow":
            self.b["flows"].append((untilde(t[1]), untilde(t[2]), letters_of(t[3]), None if t[4] == "-" else ("" if t[4] == "<empty>" else untilde(t[4])))); return "ok"
        if op == "b_stock":
            if t[5] not in CLS:
                raise ValueError
            self.b["stocks"].append((untilde(t[1]), None if t[2] == "-" else untilde(t[2]), letters_of(t[3]), t[4], t[5], t[6], t[7])); return "ok"
        if op == "b_param":
            self.b["params"].append((untilde(t[1]), letters_of(t[2]), t[3:])); return "ok"
        if op == "b_build":
            return self.show_system(self.build())
        if op == "b_todfs":
            return self.todfs()
        if op == "b_processes":
            ps = make_processes(self.b["procs"])
            return "ok " + ",".join(f"{tilde(n)}:{p.id}" for n, p in ps.items())
        if op == "b_dimfile":
            return self.dimfile(t)
        return super()._exec(t)


def run(lines):
    impl = Impl()
    try:
        return [impl.exec(ln) for ln in lines]
    finally:
        impl.cleanup()
