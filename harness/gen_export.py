"""Generators for streams `export` (dictionary / pickle / CSV exports of random systems whose flow
and stock names contain spaces, arrows and punctuation) and `plot` (Sankey link assembly under slice
dictionaries, exclusion lists and colour splits; line decomposition of both array plotters for every
assignment of dimensions to the subplot / line / x roles, by name or by letter)."""
import itertools
from fractions import Fraction

from proto import rng

DIMS = {"t": "D:t:time:i:i2000,i2001,i2002", "r": "D:r:region:s:sEU,sAsia", "g": "D:g:good:s:scar,sbike,sbus"}
ITEMS = {"t": ["i2000", "i2001", "i2002"], "r": ["sEU", "sAsia"], "g": ["scar", "sbike", "sbus"]}
NAME = {"t": "time", "r": "region", "g": "good"}
LEN = {"t": 3, "r": 2, "g": 3}
H = {"t": 0, "r": 1, "g": 2}
FLOW_NAMES = ["sysenv~=>~use", "use~=>~waste", "F1_2", "Waste~(mixed)~->~Landfill!", "scrap", "re-use", "Import:~steel", "a.b", "End~of~Life",
              "x__y", "Flow#7", "UPPER~case"]
STOCK_NAMES = ["in~use", "landfill", "Stock-A", "obsolete~(hibernating)"]


def fnum(f):
    f = Fraction(f)
    return str(f.numerator) if f.denominator == 1 else f"{f.numerator}/{f.denominator}"


def size(ls):
    n = 1
    for l in ls:
        n *= LEN[l]
    return n


def vals(r, n, zero=0.2):
    return [fnum(Fraction(r.randint(-20, 80), r.choice([1, 2, 4]))) if r.random() > zero else "0" for _ in range(n)]


ALT = {"t": [["i2000", "i2001", "i2002"], ["i2010", "i2011", "i2012"], ["i2002", "i2000", "i2001"]],
       "r": [["sEU", "sAsia"], ["sAsia", "sEU"], ["sUS", "sCN"]],
       "g": [["scar", "sbike", "sbus"], ["sbus", "scar", "sbike"], ["svan", "struck", "sbike"],
             ["spre", "i1950", "i1980"]]}      # age cohorts of mixed type, in a dimension without dtype
TY = {"t": "i", "r": "s", "g": "s"}


class Case:
    def __init__(self, lines, n, stream, r=None, zero_item=False):
        self.lines = lines
        lines.append(f"case {n} {stream}")
        # same dimension names and sizes from case to case, other items or another item order
        # (items of mixed type only in the export stream: a plotted axis shows labels as text anyway)
        pool = {l: [a for a in ALT[l] if stream == "export" or len({i[0] for i in a}) == 1] for l in "trg"}
        self.items = {l: (r.choice(pool[l]) if r is not None else ITEMS[l]) for l in "trg"}
        if zero_item:
            # an item that is falsy in Python (age 0 among 0, 1, 2): a slice by it is a slice like any other
            self.items["t"] = r.choice([["i0", "i1", "i2"], ["i1", "i0", "i2"], ["i2", "i1", "i0"]])
        for l in "trg":
            ty = "n" if len({i[0] for i in self.items[l]}) > 1 else TY[l]
            lines.append(f"dim ${H[l]} D:{l}:{NAME[l]}:{ty}:{','.join(self.items[l])}")
        self.dh = 10
        self.dsets = {}

    def dset(self, ls):
        key = "".join(ls)
        if key not in self.dsets:
            self.dsets[key] = self.dh
            self.lines.append((f"dset ${self.dh} " + " ".join(f"${H[l]}" for l in ls)).rstrip())
            self.dh += 1
        return self.dsets[key]


def gen_system(r, c, lines, stats, allow_scalar=True):
    nproc = r.randint(1, 4)
    procs = ["sysenv"] + [f"p{i}" for i in range(nproc)]
    lines.append("sys_begin")
    lines.append("procs " + " ".join(procs))
    all_ls = r.sample("trg", r.randint(1, 3))
    if "t" in all_ls:
        all_ls.remove("t")
    all_ls.insert(0, "t")
    lines.append(f"x_dims ${c.dset(all_ls)}")
    flows = []
    for name in r.sample(FLOW_NAMES, r.randint(1, 5)):
        ls = r.sample(all_ls, r.randint(0 if allow_scalar and r.random() < 0.15 else 1, len(all_ls)))
        a, b = r.choice(procs), r.choice(procs)
        lines.append(f"flow {name} {a} {b} ${c.dset(ls)} " + " ".join(vals(r, size(ls))))
        flows.append((name, a, b, ls))
        stats["flows"] += 1
        if not ls:
            stats["scalar_flows"] += 1
    stocks = []
    for name in r.sample(STOCK_NAMES, r.randint(0, 3)):
        ls = ["t"] + r.sample([l for l in all_ls if l != "t"], r.randint(0, len(all_ls) - 1))
        proc = r.choice(procs + ["-"])
        n = size(ls)
        lines.append(f"stock {name} {proc} ${c.dset(ls)} " + " ".join(vals(r, n)) + " | " + " ".join(vals(r, n)) + " | " + " ".join(vals(r, n)))
        stocks.append((name, proc, ls))
        stats["stocks"] += 1
    return procs, all_ls, flows, stocks


def gen_export(tier, seed):
    r = rng(seed, "export")
    ncases = 120 if tier == "quick" else 1200
    lines = []
    stats = {"cases": 0, "flows": 0, "stocks": 0, "scalar_flows": 0}
    for n in range(ncases):
        c = Case(lines, n, "export", r)
        gen_system(r, c, lines, stats)
        lines += ["x_dict", "x_pickle", "x_dictpd", "x_files flows", "x_files stocks 0", "x_files stocks 1",
                  f"x_csvback {r.choice([0, 1])}", "x_dict"]
        stats["cases"] += 1
    return lines, stats


def gen_plot(tier, seed):
    r = rng(seed, "plot")
    ncases = 150 if tier == "quick" else 1500
    lines = []
    stats = {"cases": 0, "flows": 0, "stocks": 0, "scalar_flows": 0, "sankeys": 0, "splits": 0, "slices": 0, "plots": 0,
             "x_arrays": 0, "invalid_on_purpose": 0}
    # after the ordinary cases: Sankey slices by an item that is falsy in Python (seed C20_r6_1: a slice entry tested
    # by truthiness). Drawn from a generator of their own so the cases above stay what they were.
    r2 = rng(seed, "plot-zero-item")
    nextra = 12 if tier == "quick" else 150
    for n in range(ncases + nextra):
        extra = n >= ncases
        if extra:
            r = r2
            stats["falsy_item_cases"] = stats.get("falsy_item_cases", 0) + 1
        c = Case(lines, n, "plot", r, zero_item=extra)
        if extra or r.random() < 0.5:
            procs, all_ls, flows, stocks = gen_system(r, c, lines, stats, allow_scalar=True)
            for _ in range(r.randint(1, 3)):
                lines.append("k_begin")
                if extra:
                    ks = ["t"] + r.sample([l for l in all_ls if l != "t"], r.randint(0, len(all_ls) - 1))
                    lines.append("k_slice " + " ".join(f"{l}={'i0' if l == 't' and r.random() < 0.8 else r.choice(c.items[l])}" for l in ks))
                    stats["slices"] += 1
                elif r.random() < 0.6:
                    ks = r.sample(all_ls, r.randint(1, len(all_ls)))
                    lines.append("k_slice " + " ".join(f"{l}={r.choice(c.items[l])}" for l in ks))
                    stats["slices"] += 1
                elif r.random() < 0.15:
                    l = r.choice(all_ls)
                    lines.append(f"k_slice {NAME[l]}={r.choice(c.items[l])}")   # keyed by name, not letter: refused
                    stats["invalid_on_purpose"] += 1
                elif r.random() < 0.1:
                    lines.append("k_slice z=i1")                     # unknown dimension: refused
                    stats["invalid_on_purpose"] += 1
                v = r.random()
                if v < 0.3:
                    lines.append("k_exclude_procs " + " ".join(r.sample(procs, r.randint(1, len(procs)))))
                elif v < 0.4:
                    lines.append("k_exclude_procs")                   # nothing excluded: sysenv is shown
                elif v < 0.45:
                    lines.append("k_exclude_procs nowhere")
                    stats["invalid_on_purpose"] += 1
                if r.random() < 0.3:
                    lines.append("k_exclude_flows " + " ".join(f[0] for f in r.sample(flows, r.randint(1, len(flows)))))
                for f in flows:
                    if f[3] and r.random() < 0.35:
                        l = r.choice(f[3]) if r.random() < 0.9 else r.choice(all_ls)
                        key = l if r.random() < 0.5 else NAME[l]
                        # colour lists shorter than the dimension (also by more than one) are refused, not recycled
                        ncol = LEN[l] + r.choice([0, 0, 1, 2]) if r.random() < 0.75 else r.randint(1, max(1, LEN[l] - 1))
                        stats["short_colour_lists"] = stats.get("short_colour_lists", 0) + int(ncol < LEN[l])
                        lines.append(f"k_split {f[0]} {key} {ncol}")
                        stats["splits"] += 1
                lines.append("k_sankey")
                stats["sankeys"] += 1
        else:
            nd = r.choice([1, 2, 2, 3, 3])
            ls = r.sample("trg", nd)
            lines.append(f"arr $300 ${c.dset(ls)} {','.join(str(LEN[l]) for l in ls)} " + " ".join(vals(r, size(ls), zero=0.05)))
            x = "-"
            if r.random() < 0.4:
                xl = r.sample(ls, r.randint(1, nd))
                lines.append(f"arr $301 ${c.dset(xl)} {','.join(str(LEN[l]) for l in xl)} " + " ".join(vals(r, size(xl), zero=0)))
                x = "$301"
                stats["x_arrays"] += 1
            for _ in range(r.randint(1, 3)):
                roles = list(ls)
                r.shuffle(roles)
                key = lambda l: l if r.random() < 0.5 else NAME[l]      # noqa: E731
                intra = key(roles[0])
                sub = key(roles[1]) if nd >= 2 and (nd == 3 or r.random() < 0.5) else "-"
                line = key(roles[2]) if nd == 3 else (key(roles[1]) if nd == 2 and sub == "-" else "-")
                if r.random() < 0.08:
                    # a role too few / a dimension twice / an unknown dimension
                    v = r.random()
                    if v < 0.4 and nd >= 2:
                        line = "-" if line != "-" else line; sub = "-" if line == "-" and nd == 2 else sub
                    elif v < 0.7:
                        sub = intra
                    else:
                        intra = "nosuch"
                    stats["invalid_on_purpose"] += 1
                for kind in ("plotly", "pyplot"):
                    lines.append(f"p_lines {kind} $300 {intra} {sub} {line} {x}")
                    stats["plots"] += 1
        stats["cases"] += 1
    return lines, stats
