"""Correspondence runner: executes protocol lines on the implementation and on the Lean model
driver and reports the first disagreement per case."""
import time

from proto import run_driver, diff_streams, split_cases


def correspond(lines, impl_run, abs_tol=None, impl_out=None, impl_s=None):
    t0 = time.time()
    if impl_out is None:
        impl_out = impl_run(lines)
    t1 = time.time()
    if impl_s is not None:
        t0 = t1 - impl_s
    model_out = run_driver(lines)
    t2 = time.time()
    bad = diff_streams(lines, impl_out, model_out, abs_tol)
    n_err = sum(1 for o in impl_out if o == "err")
    n_obs = sum(1 for ln in lines if not ln.startswith("case ") and not ln.startswith("dim ")
                and not ln.startswith("dset "))
    stats = {
        "lines": len(lines),
        "cases": sum(1 for ln in lines if ln.startswith("case ")),
        "observations": n_obs,
        "err_observations": n_err,
        "bad_op": sum(1 for o in impl_out if o == "bad-op") + sum(1 for o in model_out if o == "bad-op"),
        "impl_s": round(t1 - t0, 2),
        "model_s": round(t2 - t1, 2),
    }
    return bad, stats, impl_out, model_out


def case_block(lines, bad_entry):
    """the lines of the disagreeing case"""
    start = bad_entry["start"]
    end = start + 1
    while end < len(lines) and not lines[end].startswith("case "):
        end += 1
    return lines[start:end]
