"""Executes array-tier protocol lines (streams array-ops, index, dims, history) on the real flodym
imported from the repository under test, and prints one canonical observation per line.

Canonicalisation: every exception of any type is the single token `err`; arrays are printed with
their full dimension set (letter, name, dtype, items) and values in stored (row-major) order as
exact rationals (`Fraction(float)`).
"""
import os
import sys
from fractions import Fraction

from proto import REPO, fmt_arr, fmt_dim, fmt_dimset, fmt_item, fmt_shape, fmt_nd

sys.path.insert(0, REPO)
import numpy as np  # noqa: E402
import flodym  # noqa: E402
from flodym import Dimension, DimensionSet, FlodymArray  # noqa: E402
from flodym.flodym_array_helper import flodym_array_stack  # noqa: E402

assert os.path.realpath(flodym.__file__).startswith(os.path.realpath(REPO)), flodym.__file__


def num(tok):
    if "/" in tok:
        a, b = tok.split("/")
        return int(a) / int(b)
    return float(int(tok))


def item(tok):
    if tok[0] == "i":
        return int(tok[1:])
    if tok[0] == "s":
        return tok[1:]
    if tok[0] == "j":
        return np.int64(int(tok[1:]))     # a label taken from a numpy array / DataFrame
    raise ValueError(tok)


def items(tok):
    return [] if tok == "" else [item(t) for t in tok.split(",")]


def shape(tok):
    return () if tok == "-" else tuple(int(t) for t in tok.split(","))


class Impl:
    def __init__(self):
        self.objs = {}

    # ------------------------------------------------------------------ parsing helpers
    def h(self, tok):
        assert tok[0] == "$"
        return int(tok[1:])

    def get(self, tok, cls=None):
        o = self.objs[self.h(tok)]
        if cls is not None and not isinstance(o, cls):
            raise TypeError(tok)
        return o

    def operand(self, tok):
        if tok.startswith("n:"):
            return num(tok[2:])
        if tok.startswith("I:"):
            return np.int64(int(tok[2:]))
        if tok.startswith("F:"):
            return np.float32(num(tok[2:]))
        return self.get(tok, FlodymArray)

    def dimkey(self, tok):
        if tok.startswith("k:"):
            return tok[2:]
        if tok.startswith("d:"):
            return self.get(tok[2:], Dimension)
        raise ValueError(tok)

    def sel(self, tok):
        kind, body = tok[:2], tok[2:]
        if kind == "i:":
            return item(body)
        if kind == "d:":
            return self.get(body, Dimension)
        if kind == "l:":
            return items(body)
        if kind == "g:":
            return (x for x in items(body))       # can be walked once only
        raise ValueError(tok)

    def key(self, tok):
        if tok == "E":
            return Ellipsis
        if tok == "S":
            return slice(None)
        kind, body = tok[:2], tok[2:]
        if kind == "I:":
            return item(body)
        if kind == "T:":
            return tuple(items(body))
        if kind == "K:":
            if body == "":
                return {}
            d = {}
            for kv in body.split(";"):
                k, v = kv.split("=")
                d[k] = self.sel(v)
            return d
        raise ValueError(tok)

    def ndlit(self, tok):
        _, sh, vals = tok.split(":")
        vs = [] if vals == "" else [num(v) for v in vals.split(",")]
        return np.array(vs, dtype=float).reshape(shape(sh))

    def rhs(self, tok):
        if tok.startswith("n:"):
            return num(tok[2:])
        if tok.startswith("nd:"):
            return self.ndlit(tok)
        return self.get(tok, (FlodymArray, np.ndarray))

    # ------------------------------------------------------------------ results
    def put_arr(self, htok, a, divides=False):
        if not isinstance(a, FlodymArray):
            raise TypeError("not an array")
        if divides and not np.all(np.isfinite(a.values)):
            return "divzero"      # a zero divisor: numpy's inf/nan is not modelled
        self.objs[self.h(htok)] = a
        return "ok " + fmt_arr(a)

    def put_dset(self, htok, d):
        if not isinstance(d, DimensionSet):
            raise TypeError("not a dimension set")
        self.objs[self.h(htok)] = d
        return "ok " + fmt_dimset(d)

    def dumpall(self):
        parts = []
        for k in sorted(self.objs):
            o = self.objs[k]
            if isinstance(o, FlodymArray):
                parts.append(f"${k}={fmt_arr(o)}")
            elif isinstance(o, DimensionSet):
                parts.append(f"${k}={fmt_dimset(o)}")
        return "ok " + " ; ".join(parts)

    # ------------------------------------------------------------------ dispatch
    def exec(self, line):
        t = line.split(" ")
        try:
            return self._exec(t)
        except Exception:
            return "err"

    def _exec(self, t):
        op = t[0]
        if op == "case":
            self.objs = {}
            return "case " + " ".join(t[1:])
        if op == "dim":
            _, l, name, ty, its = t[2].split(":")
            d = Dimension(letter=l, name=name, items=items(its), dtype={"i": int, "s": str, "n": None}[ty])
            self.objs[self.h(t[1])] = d
            return "ok"
        if op == "dimfrom":
            # a dimension derived from another one that has been in use: same letter / name / dtype, other items
            src = self.get(t[2], Dimension)
            _, l, name, ty, its = t[3].split(":")
            src.index(src.items[0])
            FlodymArray(dims=DimensionSet(dim_list=[src]), values=np.zeros(len(src.items)))[{src.letter: src.items[-1]}]
            self.objs[self.h(t[1])] = src.model_copy(update={"items": items(its)})
            return "ok"
        if op == "dset":
            return self.put_dset(t[1], DimensionSet(dim_list=[self.get(x, Dimension) for x in t[2:]]))
        if op == "sarr":
            from flodym import Flow, Parameter, Process, StockArray
            dims = self.get(t[3], DimensionSet)
            vals = np.array([num(v) for v in t[5:]], dtype=float).reshape(shape(t[4]))
            if t[1] == "flow":
                a = Flow(dims=dims, values=vals, from_process=Process(name="sysenv", id=0), to_process=Process(name="use", id=1))
            else:
                a = {"param": Parameter, "stock": StockArray}[t[1]](dims=dims, values=vals)
            return self.put_arr(t[2], a)
        if op == "iarr":
            dims = self.get(t[2], DimensionSet)
            vals = np.array([int(num(v)) for v in t[4:]], dtype=int).reshape(shape(t[3]))
            return self.put_arr(t[1], FlodymArray(dims=dims, values=vals))
        if op in ("absi", "signi"):
            x = self.get(t[1], FlodymArray)
            (x.abs if op == "absi" else x.sign)(inplace=True)
            return "ok " + fmt_arr(x)
        if op == "arr":
            dims = self.get(t[2], DimensionSet)
            vals = np.array([num(v) for v in t[4:]], dtype=float).reshape(shape(t[3]))
            return self.put_arr(t[1], FlodymArray(dims=dims, values=vals))
        if op == "full":
            return self.put_arr(t[1], FlodymArray.full(self.get(t[2], DimensionSet), num(t[3])))
        if op in ("fullnd", "fulllike"):
            v = self.get(t[3], np.ndarray)
            if op == "fullnd":
                return self.put_arr(t[1], FlodymArray.full(self.get(t[2], DimensionSet), v))
            return self.put_arr(t[1], FlodymArray.full_like(self.get(t[2], FlodymArray), v))
        if op == "scalar":
            return self.put_arr(t[1], FlodymArray.scalar(num(t[2])))
        if op == "copy":
            return self.put_arr(t[1], self.get(t[2], FlodymArray).copy())
        if op in ("add", "sub", "mul", "div", "pow", "min", "max"):
            x, y = self.get(t[2], FlodymArray), self.operand(t[3])
            r = {"add": lambda: x + y, "sub": lambda: x - y, "mul": lambda: x * y,
                 "div": lambda: x / y, "pow": lambda: x ** y, "min": lambda: x.minimum(y),
                 "max": lambda: x.maximum(y)}[op]()
            return self.put_arr(t[1], r, divides=(op == "div"))
        if op in ("radd", "rsub", "rmul", "rdiv"):
            x, c = self.get(t[2], FlodymArray), num(t[3][2:])
            r = {"radd": lambda: c + x, "rsub": lambda: c - x, "rmul": lambda: c * x,
                 "rdiv": lambda: c / x}[op]()
            return self.put_arr(t[1], r, divides=(op == "rdiv"))
        if op == "neg":
            return self.put_arr(t[1], -self.get(t[2], FlodymArray))
        if op == "abs":
            return self.put_arr(t[1], abs(self.get(t[2], FlodymArray)))
        if op == "absm":
            return self.put_arr(t[1], self.get(t[2], FlodymArray).abs())
        if op == "sign":
            return self.put_arr(t[1], self.get(t[2], FlodymArray).sign())
        if op == "sumto":
            return self.put_arr(t[1], self.get(t[2], FlodymArray).sum_to(tuple(self.dimkey(k) for k in t[3:])))
        if op == "sumover":
            return self.put_arr(t[1], self.get(t[2], FlodymArray).sum_over(tuple(self.dimkey(k) for k in t[3:])))
        if op == "castto":
            return self.put_arr(t[1], self.get(t[2], FlodymArray).cast_to(self.get(t[3], DimensionSet)))
        if op == "cumsum":
            return self.put_arr(t[1], self.get(t[2], FlodymArray).cumsum(t[3]))
        if op == "shares":
            ls = () if t[3] == "-" else tuple(t[3])
            return self.put_arr(t[1], self.get(t[2], FlodymArray).get_shares_over(ls), divides=True)
        if op == "getitem":
            return self.put_arr(t[1], self.get(t[2], FlodymArray)[self.key(t[3])])
        if op == "setitem":
            x = self.get(t[1], FlodymArray)
            x[self.key(t[2])] = self.rhs(t[3])
            return "ok " + fmt_arr(x)
        if op == "setvalues":
            x = self.get(t[1], FlodymArray)
            x.set_values(self.ndlit(t[2]) if t[2].startswith("nd:") else self.get(t[2]))
            return "ok " + fmt_arr(x)
        if op == "split":
            x = self.get(t[1], FlodymArray)
            parts = x.split(t[2])
            shown = " ;; ".join(f"{fmt_item(k)} {fmt_arr(v)}" for k, v in parts.items())
            # the parts are arrays of their own: writing into the source afterwards does not reach them, nor the reverse
            before = [np.array(v.values, copy=True) for v in parts.values()]
            src = np.array(x.values, copy=True)
            indep = True
            if x.values.size:
                x.values[...] = x.values + 1000
                indep = all(np.array_equal(b, v.values) for b, v in zip(before, parts.values()))
                x.values[...] = src
                for v in parts.values():
                    if v.values.size:
                        v.values[...] = v.values - 500
                indep = indep and np.array_equal(src, x.values)
            return "ok " + shown + (" | independent" if indep else " | ALIASED")
        if op == "stack":
            d = self.get(t[2], Dimension)
            return self.put_arr(t[1], flodym_array_stack([self.get(x, FlodymArray) for x in t[3:]], d))
        if op == "itemswhere":
            x, c = self.get(t[1], FlodymArray), num(t[3])
            f = {"lt": lambda v: v < c, "gt": lambda v: v > c, "ne": lambda v: v != c}[t[2]]
            rows = x.items_where(f)
            return "ok " + "|".join(",".join(fmt_item(i) for i in r) for r in rows_as_items(rows, x))
        if op == "nd":
            self.objs[self.h(t[1])] = np.array([num(v) for v in t[3:]], dtype=float).reshape(shape(t[2]))
            return "ok " + fmt_nd(self.objs[self.h(t[1])])
        if op == "ndwrite":
            a = self.get(t[1], np.ndarray)
            a.flat[int(t[2])] = num(t[3])
            return "ok " + fmt_nd(a)
        if op == "probe_write":
            x = self.get(t[1], FlodymArray)
            x.values.flat[int(t[2])] = num(t[3])
            return "ok " + fmt_arr(x)
        if op == "probe_dims":
            x = self.get(t[1], FlodymArray)
            nd_ = self.get(t[2], Dimension)
            x.dims.append(nd_, inplace=True)
            # no other array (or set) learns of the new dimension: neither in what it lists nor in what it answers
            leak = False
            for o in self.objs.values():
                ds_ = o.dims if isinstance(o, FlodymArray) else (o if isinstance(o, DimensionSet) else None)
                if ds_ is None or ds_ is x.dims or nd_.letter in ds_.letters:
                    continue
                try:
                    if (nd_.letter in ds_) or (nd_.name in ds_):
                        leak = True
                    ds_.shape
                except Exception:
                    leak = True
            return "ok " + fmt_arr(x) + (" | others_unaffected" if not leak else " | LOOKUP-LEAK")
        if op == "mkstock":
            from flodym.stocks import SimpleFlowDrivenStock, InflowDrivenDSM
            from flodym.lifetime_models import FixedLifetime
            from flodym import StockArray
            dims = self.get(t[1], DimensionSet)
            kw = {}
            names = ["inflow", "outflow", "stock"]
            lm = None
            for r in t[3:]:
                if r.startswith("a:"):
                    a = self.get(r[2:], FlodymArray)
                    kw[names.pop(0)] = StockArray(dims=a.dims, values=a.values.copy())
                elif r.startswith("p:"):
                    kw[names.pop(0)] = self.get(r.split(":", 2)[2], FlodymArray)      # the object as it is
                elif r.startswith("l:"):
                    lm = FixedLifetime(dims=self.get(r[2:], DimensionSet), time_letter=t[2], mean=2.0)
            if lm is not None:
                InflowDrivenDSM(dims=dims, time_letter=t[2], lifetime_model=lm, **kw)
            else:
                SimpleFlowDrivenStock(dims=dims, time_letter=t[2], **kw)
            return "ok"
        if op == "mklt":
            from flodym.lifetime_models import NormalLifetime
            NormalLifetime(dims=self.get(t[1], DimensionSet), time_letter=t[2], inflow_at=t[3], mean=3.0, std=1.0)
            return "ok"
        if op == "mkltp":
            from flodym.lifetime_models import NormalLifetime
            NormalLifetime(dims=self.get(t[1], DimensionSet), time_letter=t[2], inflow_at=t[3],
                           mean=self.get(t[4], FlodymArray), std=1.0)
            return "ok"
        if op == "dump":
            return "ok " + fmt_arr(self.get(t[1], FlodymArray))
        if op == "dumpall":
            return self.dumpall()
        if op == "ds":
            return self.ds(t[1], t[2:])
        return "bad-op"

    def ds(self, op, a):
        D = lambda tok: self.get(tok, DimensionSet)  # noqa: E731
        dim = lambda tok: self.get(tok, Dimension)  # noqa: E731
        if op in ("union", "inter", "diff", "xor", "add"):
            x, y = D(a[1]), D(a[2])
            r = {"union": lambda: x | y, "inter": lambda: x & y, "diff": lambda: x - y,
                 "xor": lambda: x ^ y, "add": lambda: x + y}[op]()
            return self.put_dset(a[0], r)
        if op == "dimadd":
            return self.put_dset(a[0], dim(a[1]) + D(a[2]))
        if op == "dimadd2":
            return self.put_dset(a[0], dim(a[1]) + dim(a[2]))
        if op == "subset":
            return self.put_dset(a[0], D(a[1]).get_subset(tuple(a[2:])))
        if op == "subsetiter":
            return self.put_dset(a[0], D(a[1]).get_subset(iter(a[2:])))      # a selection that can be walked once only
        if op == "subsetnone":
            return self.put_dset(a[0], D(a[1]).get_subset())
        if op == "copy":
            return self.put_dset(a[0], D(a[1]).copy())
        if op == "expand":
            return self.put_dset(a[0], D(a[1]).expand_by([dim(x) for x in a[2:]]))
        if op == "expand!":
            D(a[0]).expand_by([dim(x) for x in a[1:]], inplace=True)
            return "ok " + fmt_dimset(D(a[0]))
        if op == "append":
            return self.put_dset(a[0], D(a[1]).append(dim(a[2])))
        if op == "append!":
            D(a[0]).append(dim(a[1]), inplace=True)
            return "ok " + fmt_dimset(D(a[0]))
        if op == "prepend":
            return self.put_dset(a[0], D(a[1]).prepend(dim(a[2])))
        if op == "prepend!":
            D(a[0]).prepend(dim(a[1]), inplace=True)
            return "ok " + fmt_dimset(D(a[0]))
        if op == "insert":
            return self.put_dset(a[0], D(a[1]).insert(int(a[2]), dim(a[3])))
        if op == "insert!":
            D(a[0]).insert(int(a[1]), dim(a[2]), inplace=True)
            return "ok " + fmt_dimset(D(a[0]))
        if op == "drop":
            return self.put_dset(a[0], D(a[1]).drop(a[2]))
        if op == "drop!":
            D(a[0]).drop(a[1], inplace=True)
            return "ok " + fmt_dimset(D(a[0]))
        if op == "replace":
            return self.put_dset(a[0], D(a[1]).replace(a[2], dim(a[3])))
        if op == "replace!":
            D(a[0]).replace(a[1], dim(a[2]), inplace=True)
            return "ok " + fmt_dimset(D(a[0]))
        if op == "query":
            d = D(a[0])
            return ("ok " + f"letters={''.join(d.letters)} names={','.join(d.names)} shape={fmt_shape(d.shape)} "
                    f"ndim={d.ndim} total={d.total_size} bool={'true' if bool(d) else 'false'}")
        if op == "lookup":
            return "ok " + fmt_dim(D(a[0])[a[1]])
        if op == "getidx":
            return "ok " + fmt_dim(D(a[0])[int(a[1])])
        if op == "index":
            return "ok " + str(D(a[0]).index(a[1]))
        if op == "size":
            return "ok " + str(D(a[0]).size(a[1]))
        if op == "contains":
            return "ok " + ("true" if ("" if a[1] == "<empty>" else a[1]) in D(a[0]) else "false")
        if op == "ofarr":
            return self.put_dset(a[0], self.get(a[1], FlodymArray).dims.copy())
        return "bad-op"


def rows_as_items(rows, x):
    """items_where returns a numpy array (of strings when item types are mixed); map the cells
    back to the dimension's own items by position-wise string comparison"""
    out = []
    for r in rows:
        row = []
        for cell, d in zip(r, x.dims.dim_list):
            match = [it for it in d.items if str(it) == str(cell)]
            row.append(match[0] if match else cell)
        out.append(row)
    return out


def run(lines):
    impl = Impl()
    return [impl.exec(ln) for ln in lines]


if __name__ == "__main__":
    for ln in sys.stdin.read().split("\n"):
        if ln:
            print(Impl().exec(ln))
