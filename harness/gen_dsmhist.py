"""Generator for stream `dsm-history`."""
from fractions import Fraction

import gen_dsm
from gen_dsm import MODELS, driver, fnum, grid, prm_spec, prm_value
from proto import rng


BAD = {"WeibullLifetime": "weibull_shape", "NormalLifetime": "mean", "FoldedNormalLifetime": "mean"}


def gen_dsmhist(tier, seed):
    r = rng(seed, "dsm-history")
    ncases, maxops = (100, 10) if tier == "quick" else (1500, 30)
    specs = []
    stats = {"cases": 0, "ops": {}, "kinds": {}, "via_definition": 0}
    for cid in range(ncases):
        n = r.randint(3, 6)
        items = grid(r, r.choice(["unit", "const", "uneven", "uneven", "halves"]), n)
        extra = [r.choice([1, 2, 3]) for _ in range(r.choice([0, 1, 1, 2]))]
        letters = ["t", "r", "g"][: 1 + len(extra)]
        shape = [n] + extra
        m = 1
        for e in extra:
            m *= e
        cls = r.choice(list(MODELS))
        span = gen_dsm.item_span(items)
        npsets = r.randint(2, 3)
        psets = [{p: prm_spec(r, p, letters, shape, span) for p in MODELS[cls]} for _ in range(npsets)]
        npsets0 = npsets
        if len(letters) > 1 and r.random() < 0.25:
            # the first parameter set in whole numbers, handed over as integer arrays; fractional ones follow
            for p_ in MODELS[cls]:
                ls_ = [l for l in letters if l != "t"][:1]
                n_ = shape[letters.index(ls_[0])]
                base = {"mean": 3, "std": 1, "weibull_shape": 2, "weibull_scale": 4}[p_] * max(1, span // 8)
                psets[0][p_] = {"kind": "array", "dims": ls_, "vals": [str(base + i) for i in range(n_)], "int": True}
            stats["integer_first_set"] = stats.get("integer_first_set", 0) + 1
        # a parameter set that cannot be used (the table build raises): never the initial one
        if cls in BAD and r.random() < 0.4:
            bad = {p: prm_spec(r, p, letters, shape, span) for p in MODELS[cls]}
            bad[BAD[cls]] = {"kind": "scalar", "v": "-1"}
            psets.append(bad)
            stats["bad_psets"] = stats.get("bad_psets", 0) + 1
        kind = r.choice(["idsm", "sdsm"])
        lowsurv = r.random() < 0.1
        if lowsurv:
            # a stock-driven model whose second parameter set lets (some) cohorts vanish within their first interval
            cls, kind = "FixedLifetime", "sdsm"
            short = ({"kind": "scalar", "v": "1/4"} if m == 1 or r.random() < 0.5 else
                     {"kind": "array", "dims": [letters[1]], "vals": ["1/4"] + [fnum(Fraction(5, 2))] * (shape[1] - 1)})
            psets = [{"mean": prm_spec(r, "mean", letters, shape, span)}, {"mean": short}]
            npsets0 = 2
            stats["low_survival"] = stats.get("low_survival", 0) + 1
        dk = "nonneg" if kind == "idsm" else "any"
        ops = []
        for _ in range(r.randint(3, maxops)):
            o = r.choice(["setprms", "setdriver", "readsf", "readpdf", "compute", "compute"])
            if o == "setprms":
                ops.append(["setprms", r.randrange(npsets)])
            elif o == "setdriver":
                if r.random() < 0.25:
                    ops.append(["setdriver", ["0"] * (n * m)])      # an all-zero driver after earlier runs
                    stats["zero_driver"] = stats.get("zero_driver", 0) + 1
                else:
                    ops.append(["setdriver", driver(r, n, m, dk)])
            else:
                ops.append([o])
            stats["ops"][o] = stats["ops"].get(o, 0) + 1
        if len(psets) > npsets0:
            # use the unusable set: failed reads / computes, then usable parameters again
            at = r.randrange(len(ops) + 1)
            seq = [["setprms", len(psets) - 1]] + [[r.choice(["readsf", "readpdf", "compute"])] for _ in range(r.randint(1, 3))]
            if r.random() < 0.7:
                seq += [["setprms", r.randrange(npsets0)], ["compute"]]
            ops[at:at] = seq
        if lowsurv:
            # usable and vanishing lifetimes in turn on one object
            ops = [["compute"], ["setprms", 1], ["compute"], ["setdriver", driver(r, n, m, dk)], ["compute"],
                   ["setprms", 0], ["compute"], ["setprms", 1], ["compute"]]
        if len(MODELS[cls]) == 2 and not lowsurv:
            # set_prms calls that raise halfway (the second value cannot be cast): nothing may change
            first = MODELS[cls][0]
            k_now, out_ops = 0, []
            for o in ops:
                if r.random() < 0.12:
                    j = r.randrange(npsets0)
                    mixed = dict(psets[k_now])
                    mixed[first] = psets[j][first]
                    psets.append(mixed)
                    out_ops.append(["setprms_fail", j, len(psets) - 1])
                    if r.random() < 0.7:
                        out_ops.append(["compute"])
                    stats["failed_set_prms"] = stats.get("failed_set_prms", 0) + 1
                out_ops.append(o)
                if o[0] == "setprms":
                    k_now = o[1]
            ops = out_ops
        ops.append(["compute"])
        via = r.random() < 0.3
        specs.append({"id": cid, "items": items, "extra": extra, "cls": cls,
                      "inflow_at": r.choice(["start", "middle", "end"]), "n_pts": r.choice([1, 1, 2, 3, 5]),
                      "psets": psets, "kind": kind, "solver": "manual" if lowsurv else r.choice(["manual", "lapack"]),
                      "via_definition": via, "k0": 0, "driver0": driver(r, n, m, dk), "ops": ops})
        stats["cases"] += 1
        stats["kinds"][kind] = stats["kinds"].get(kind, 0) + 1
        stats["via_definition"] += int(via)
    # equal raw numbers over other dimensions: two non-time dimensions of one length; the second parameter set
    # carries the very numbers of the first, but along the other dimension (or over both in the other order), so
    # a set_prms that compares what it is handed instead of what it means keeps stale tables (seed C17_r6_1).
    # Drawn from a generator of their own, after the others, so the cases above stay what they were.
    r2 = rng(seed, "dsm-history-sameraw")
    for j in range(12 if tier == "quick" else 120):
        n = r2.randint(3, 5)
        items = grid(r2, r2.choice(["unit", "const", "uneven"]), n)
        k = r2.choice([2, 2, 3])
        letters, shape, m = ["t", "r", "g"], [n, k, k], k * k
        cls = r2.choice(list(MODELS))
        span = gen_dsm.item_span(items)
        both = r2.random() < 0.4
        d0, d1 = (["r", "g"], ["g", "r"]) if both else (["r"], ["g"])
        ps0, ps1 = {}, {}
        for p_ in MODELS[cls]:
            vals = []
            while len(set(vals)) < 2:
                vals = [fnum(prm_value(r2, p_, span)) for _ in range(m if both else k)]
            ps0[p_] = {"kind": "array", "dims": d0, "vals": vals}
            ps1[p_] = {"kind": "array", "dims": d1, "vals": list(vals)}
        kind = r2.choice(["idsm", "sdsm"])
        dk = "nonneg" if kind == "idsm" else "any"
        ops = [["compute"], ["setprms", 1], ["compute"], ["setprms", 0], ["readsf"], ["compute"],
               ["setprms", 1], ["setdriver", driver(r2, n, m, dk)], ["compute"]]
        specs.append({"id": ncases + j, "items": items, "extra": [k, k], "cls": cls,
                      "inflow_at": r2.choice(["start", "middle", "end"]), "n_pts": r2.choice([1, 2, 3]),
                      "psets": [ps0, ps1], "kind": kind, "solver": r2.choice(["manual", "lapack"]),
                      "via_definition": r2.random() < 0.3, "k0": 0, "driver0": driver(r2, n, m, dk), "ops": ops})
        stats["cases"] += 1
        stats["same_raw_numbers_other_dims"] = stats.get("same_raw_numbers_other_dims", 0) + 1
        stats["kinds"][kind] = stats["kinds"].get(kind, 0) + 1
    return specs, stats
