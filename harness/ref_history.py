"""Oracles for the history stream (properties C13 and C15), used only to search for / confirm a
failing input. They read the implementation's own dumps of the whole store."""
from proto import lines_equal

INPLACE = ("setitem", "setvalues", "probe_write", "probe_dims", "ndwrite", "absi", "signi")
INDEPENDENT_RESULT = ("copy", "add", "sub", "mul", "div", "min", "max", "pow", "neg", "abs", "absm", "sign",
                      "castto", "getitem", "full", "fullnd", "fulllike", "radd", "rsub", "rmul", "rdiv", "shares", "cumsum", "stack")


def parse_dump(ob):
    out = {}
    if not ob.startswith("ok"):
        return out
    for part in ob[3:].split(" ; "):
        if "=" in part:
            h, v = part.split("=", 1)
            if v.startswith("A ["):       # arrays only
                out[h] = v
    return out


def arr_shape_ok(text):
    """`A [D:.. D:..] shape | vals` : shape = lens of dims, letters distinct, count = product"""
    if not text.startswith("A ["):
        return True
    close = text.index("]")
    dtoks = [t for t in text[3:close].split(" ") if t]
    letters = [t.split(":")[1] for t in dtoks]
    lens = [len(t.split(":")[4].split(",")) if t.split(":")[4] else 0 for t in dtoks]
    rest = text[close + 2:]
    shape_tok = rest.split(" |")[0].strip()
    vals = [v for v in rest.split("|", 1)[1].split(" ") if v] if "|" in rest else []
    want = "-" if not lens else ",".join(map(str, lens))
    n = 1
    for k in lens:
        n *= k
    return len(set(letters)) == len(letters) and shape_tok == want and len(vals) == n


def fail(line, what, expected, observed):
    return {"line": line[:300], "property_demands": what, "expected": str(expected)[:300], "observed": str(observed)[:300]}


def walk(lines, obs):
    """yield (op line, op observation, dump before, dump after) for every op followed by a dumpall"""
    prev = {}
    i = 0
    while i < len(lines):
        ln = lines[i]
        if ln == "dumpall":
            prev = parse_dump(obs[i])
            i += 1
            continue
        if i + 1 < len(lines) and lines[i + 1] == "dumpall":
            after = parse_dump(obs[i + 1])
            yield ln, obs[i], prev, after
            prev = after
            i += 2
        else:
            i += 1


def validator_expectations(lines, obs):
    """stocks / lifetime models reject arrays or models whose dimensions differ from their own or
    whose time dimension is not first"""
    dims, dsets, arrd = {}, {}, {}
    for ln, ob in zip(lines, obs):
        t = ln.split(" ")
        if t[0] == "dim":
            dims[t[1]] = t[2]
        elif t[0] == "dset" and ob.startswith("ok"):
            dsets[t[1]] = [dims[x] for x in t[2:]]
        elif t[0] in ("full", "arr") and ob.startswith("ok") and t[2] in dsets:
            arrd[t[1]] = dsets[t[2]]
        elif t[0] == "sarr" and ob.startswith("ok") and t[3] in dsets:
            arrd[t[2]] = dsets[t[3]]
        elif t[0] == "mkstock" and t[1] in dsets:
            own = dsets[t[1]]
            ok = bool(own) and own[0].split(":")[1] == t[2]
            loose = False
            for r in t[3:]:
                if r.startswith("p:"):
                    # an object handed over as it is: with other dimensions it must be refused; whether an
                    # array of another class with the right dimensions is taken is not the property's business
                    other = arrd.get(r.split(":", 2)[2])
                    if other is not None and other == own and r.startswith("p:other:"):
                        loose = True
                    if other is None:
                        ok = None
                        break
                    if other != own:
                        ok = False
                    continue
                other = arrd.get(r[2:]) if r.startswith("a:") else dsets.get(r[2:])
                if other is None:
                    ok = None
                    break
                if other != own:
                    ok = False
            if ok is None or (ok and loose):
                continue
            if ok and ob != "ok":
                return fail(ln, "a stock over matching dimensions (time first) is accepted", "ok", ob)
            if not ok and ob != "err":
                return fail(ln, "stocks reject arrays or models whose dimensions differ from their own or whose time dimension is not first", "err", ob)
        elif t[0] == "mklt" and t[1] in dsets:
            own = dsets[t[1]]
            ok = bool(own) and own[0].split(":")[1] == t[2] and t[3] in ("start", "middle", "end")
            if ok and ob != "ok":
                return fail(ln, "a lifetime model over dimensions with time first is accepted", "ok", ob)
            if not ok and ob != "err":
                return fail(ln, "lifetime models reject dimension sets whose time dimension is not first", "err", ob)
        elif t[0] == "mkltp" and t[1] in dsets and t[4] in arrd:
            own = dsets[t[1]]
            ok = bool(own) and own[0].split(":")[1] == t[2] and t[3] in ("start", "middle", "end")
            own_letters = [d.split(":")[1] for d in own]
            foreign = [d for d in arrd[t[4]] if d.split(":")[1] not in own_letters]
            if ok and foreign and ob != "err":
                return fail(ln, "a lifetime parameter over a dimension the model does not have is refused (labels decide, not lengths)", "err", ob)
            if ok and not foreign and all(d in own for d in arrd[t[4]]) and ob != "ok":
                return fail(ln, "a lifetime parameter over dimensions of the model, in any order, is accepted", "ok", ob)
    return None


def check_C13(lines, obs):
    v = validator_expectations(lines, obs)
    if v:
        return v
    for ln, ob in zip(lines, obs):
        if ln == "dumpall" and not ob.startswith("ok"):
            return fail(ln, "every array can be read back: values is a numpy array of the dimensions' shape",
                        "a dump of the store", ob)
    for ln, ob, before, after in walk(lines, obs):
        op = ln.split(" ")[0]
        if op == "probe_dims":
            continue     # editing an array's own dimension set in place is outside the contract
        t = ln.split(" ")
        # set_values / whole-array assignment of an ndarray of any other shape must be rejected
        nd_tok = None
        if op == "setvalues" and len(t) == 3:
            nd_tok = t[2]
        elif op == "setitem" and len(t) == 4 and t[2] in ("E", "K:", "T:") and t[3].startswith("nd:"):
            nd_tok = t[3]
        if nd_tok is not None and t[1] in before:
            cur = before[t[1]]
            close = cur.index("]")
            cur_shape = cur[close + 2:].split(" |")[0].strip()
            if nd_tok.startswith("nd:"):
                given = nd_tok.split(":")[1]
                if given != cur_shape and ob != "err":
                    return fail(ln, "set_values / whole-array assignment reject an ndarray of any other shape (no broadcasting)",
                                "err", ob)
            elif ob != "err":
                return fail(ln, "set_values rejects anything that is not an ndarray of the array's shape", "err", ob)
        probed = {l.split(" ")[1] for l in lines if l.startswith("probe_dims ")}
        for h, text in after.items():
            if h in probed:
                continue
            if not arr_shape_ok(text):
                return fail(ln, "every array has a values array whose shape equals the lengths of its dimensions, over distinct letters",
                            "shape = lens(dims)", f"{h}={text}")
        if ob == "err":
            for h, text in before.items():
                if h in after and not lines_equal(after[h], text):
                    return fail(ln, "an operation that raises leaves every array involved exactly as it was", f"{h}={text}", f"{h}={after[h]}")
            t = ln.split(" ")
            if len(t) > 1 and t[1].startswith("$") and t[1] in after and t[1] not in before and t[0] not in INPLACE:
                return fail(ln, "a refused call leaves no new array behind", "no " + t[1], f"{t[1]}={after[t[1]]}")
        t_ = ln.split(" ")
        if op in ("setitem", "getitem"):
            src = t_[1] if op == "setitem" else (t_[2] if len(t_) > 2 else None)
            key = t_[2] if op == "setitem" else (t_[3] if len(t_) > 3 else "")
            if src in before and key.startswith("K:") and ob != "err":
                import re as _re
                known = set()
                for m_ in _re.finditer(r"D:([^:]+):([^:]+):", before[src]):
                    known.add(m_.group(1)); known.add(m_.group(2))
                for kv_ in [x for x in key[2:].split(";") if x]:
                    k_ = kv_.split("=", 1)[0]
                    if k_ not in known:
                        return fail(ln, "a key naming a dimension the array does not have is refused (nothing is read or written)",
                                    "err", ob[:200])
        if (op == "setitem" and len(t_) == 4 and t_[2] in ("E", "K:", "T:") and t_[3].startswith("n:") and t_[1] in before and ob == "err"):
            return fail(ln, "a well-formed array (values of the shape of its dimensions) can be assigned a number as a whole",
                        "ok", f"err; {t_[1]}={before[t_[1]]}")
    return None


def check_C15(lines, obs):
    for ln, ob in zip(lines, obs):
        if ln.startswith("probe_dims ") and ob.endswith("LOOKUP-LEAK"):
            return fail(ln, "a result's dimension set can be modified in place without affecting the source or any other array "
                            "(what the other sets list and what they answer to lookups)", "others unaffected", ob[-60:])
        if ln.startswith("split ") and ob.endswith("ALIASED"):
            return fail(ln, "the parts returned by split are independent of the array that was split", "independent", "ALIASED")
    for ln, ob, before, after in walk(lines, obs):
        t = ln.split(" ")
        op = t[0]
        target = None
        if op in ("setitem", "setvalues", "probe_write", "probe_dims"):
            target = t[1]
        elif op == "ndwrite":
            target = None      # modifies an ndarray object: no array may change
        elif op in ("dset", "ds", "dim", "mkstock", "mklt", "nd", "split", "itemswhere", "dump"):
            target = None
        else:
            target = t[1] if len(t) > 1 and t[1].startswith("$") else None   # result handle of a pure op
        for h, text in before.items():
            if h == target:
                continue
            if h in after and not lines_equal(after[h], text):
                # reductions without summation return a view of their source (numpy einsum): a later
                # in-place write into the *source* shows in them; the property lists neither
                if op in INPLACE and _is_reduction_view(lines, h, target):
                    continue
                what = ("operations that are not in-place never change their inputs" if op not in INPLACE
                        else "writing into one array (or editing its dimension set) never changes another array")
                return fail(ln, what, f"{h}={text}", f"{h}={after[h]}")
    return None


def _is_reduction_view(lines, h, target):
    """was handle h produced by sum_to / sum_over of `target` (or vice versa)?"""
    for l in lines:
        t = l.split(" ")
        if t[0] in ("sumto", "sumover") and len(t) > 2:
            if (t[1] == h and t[2] == target) or (t[1] == target and t[2] == h):
                return True
            # chains of views
            if t[1] == h or t[1] == target:
                return True
    return False
