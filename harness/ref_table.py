"""Property-level oracle for C11 / C12 (independent of the Lean model). It works from the ground
truth the harness wrote into `note layout …` lines (which layout, which faults, which labels the
faults touch) and the original array, and says what the property demands of the observation."""
import itertools
from fractions import Fraction


def fail(line, what, expected, observed):
    return {"line": line[:400], "property_demands": what, "expected": str(expected)[:600], "observed": str(observed)[:600]}


def pv(tok):
    if "/" in tok:
        a, b = tok.split("/")
        return Fraction(int(a), int(b))
    return Fraction(int(tok))


def parse_arr_obs(ob):
    """`ok A [dims] shape | values` -> list of Fractions (or None)"""
    if not ob.startswith("ok A "):
        return None
    vals = ob.split(" | ", 1)[1].split() if " | " in ob else []
    try:
        return [pv(v) for v in vals]
    except Exception:
        return None


def parse_cell(tok):
    if tok == "n":
        return None
    if tok[0] == "i":
        return Fraction(int(tok[1:]))
    if tok[0] == "f":
        return pv(tok[1:])
    return tok[1:]


def parse_df(toks):
    # K kind C n cells R m cells
    kind = toks[1]
    n = int(toks[3])
    cols = [parse_cell(t) for t in toks[4:4 + n]]
    rest = toks[4 + n:]
    m = int(rest[1])
    cells = [parse_cell(t) for t in rest[2:] if t != ""]
    rows = [cells[i * n:(i + 1) * n] for i in range(m)]
    return kind, cols, rows


def check_case(lines, obs, want=("C11", "C12")):
    dims = []          # (letter, name, type, [item tokens])
    truth = None
    lay = None
    prev_dump = None
    for idx, (ln, ob) in enumerate(zip(lines, obs)):
        t = ln.split(" ")
        if t[0] == "dim":
            _, l, name, ty, its = t[2].split(":")
            dims.append((l, name, ty, its.split(",")))
        elif t[0] == "arr" and t[1] == "$300" and ob.startswith("ok"):
            vals = [pv(x) for x in t[4:]]
            labs = list(itertools.product(*[d[3] for d in dims]))
            truth = dict(zip(labs, vals))
        elif t[0] == "todf" and "C11" in want and truth is not None and ob == "err":
            key = t[3]
            if key != "-" and any(key in (d[0], d[1]) for d in dims):
                if len(dims) == 1:
                    return fail(ln + "   # to_df with the only dimension spread over the columns",
                                "every layout of an array with at least one dimension can be exported", "a frame", "err")
                wd = [d for d in dims if key in (d[0], d[1])][0]
                texts = set(i[1:] for i in wd[3])
                mixed = any(len(set(i[0] for i in d[3])) > 1 for d in dims)
                if not mixed and not (texts & (set(d[1] for d in dims) | set(d[0] for d in dims) | {"value", "index"})):
                    return fail(ln, "every layout of an array with at least one dimension can be exported", "a frame", "err")
            elif key == "-":
                return fail(ln, "the long layout can always be exported", "a frame", "err")
        elif t[0] == "todf" and "C11" in want and truth is not None and ob.startswith("ok "):
            # to_df lists every entry once under its true labels (sparse: exactly the non-zero ones)
            if t[3] != "-":
                continue              # the pivoted layout is checked through the import round trip
            kind, cols, rows = parse_df(ob.split(" ")[1:])
            names = [d[1] for d in dims]
            if cols != names + ["value"]:
                return fail(ln, "the long frame has one column per dimension, named, and a value column", names + ["value"], cols)
            seen = {}
            for r in rows:
                key = []
                for d, c in zip(dims, r[:-1]):
                    tok = ("i" + str(int(c))) if isinstance(c, Fraction) else "s" + c.replace(" ", "~")
                    key.append(tok)
                key = tuple(key)
                if key in seen:
                    return fail(ln, "every entry is listed once", "one row for " + str(key), "repeated")
                seen[key] = r[-1]
            expected = {k: v for k, v in truth.items() if not (t[4] == "1" and v == 0)}
            if seen != expected:
                bad = [k for k in set(seen) | set(expected) if seen.get(k) != expected.get(k)][:3]
                return fail(ln, "every entry under its true labels" + (" (sparse: exactly the non-zero entries)" if t[4] == "1" else ""),
                            {k: str(expected.get(k)) for k in bad}, {k: str(seen.get(k)) for k in bad})
        elif ln == "note zero_dim_import_refuses_faulty_data" and ob != "ok" and "C12" in want:
            return fail(ln, "an empty value or a duplicated entry is refused under the default flags (here: an array without dimensions), "
                            "and nothing is altered by the refused call", "refused", ob)
        elif ln == "note infinite_value_round_trip" and ob != "ok" and "C11" in want:
            return fail(ln, "importing an exported frame returns the identical array (one entry is infinite)", "the array", ob)
        elif t[0] == "note" and len(t) > 1 and t[1] == "layout":
            lay = dict(kv.split("=", 1) for kv in t[2:] if "=" in kv)
        elif t[0] == "dumpall":
            # after a refused set_values_from_df the target still holds what it held (all 7)
            if lay is not None and lay.get("_refused"):
                h = lay["_refused"]
                part = [p for p in ob.split(" ; ") if p.startswith(h + "=")]
                if part:
                    vals = part[0].split(" | ", 1)[1].split() if " | " in part[0] else []
                    if any(v != "7" for v in vals) and "C12" in want:
                        return fail(ln, "a refused import leaves no partially filled array behind", "all entries still 7", part[0][:200])
        elif t[0] in ("fromdf", "setdf") and lay is not None and truth is not None:
            is_set = t[0] == "setdf"
            miss, extra = (t[2], t[3]) if is_set else (t[3], t[4])
            lay["_refused"] = t[1] if (is_set and ob == "err") else None
            dftoks = t[4:] if is_set else t[5:]
            faults = [f for f in lay.get("faults", "").split(",") if f]
            items_only = [x for x in lay.get("itemsonly", "").split(",") if x]
            present = [x for x in lay.get("present", "").split(",") if x]
            try:
                kind, cols, rows = parse_df(dftoks)
            except Exception:
                continue
            names = [d[1] for d in dims]
            dmap = {d[1]: d for d in dims}
            wide = lay.get("wide")
            wide = None if wide in (None, "None") else wide
            # ---------- where the property has no opinion
            if kind == "U" and lay.get("index") == "none":
                # leftover row labels (not a dimension, not calendar years): they carry no information
                if rows and all(isinstance(r[0], Fraction) and r[0] < 1700 for r in rows):
                    cols, rows, kind = cols[1:], [r[1:] for r in rows], "R"
            if kind == "U":
                idxvals = [r[0] for r in rows]
                if not (idxvals and all(isinstance(v, Fraction) and 1700 <= v <= 2300 for v in idxvals)):
                    continue            # an unnamed integer index that is not read as labels
            # values that can be mistaken for the items of a dimension identified only by its items
            absent = [n for n in names if n not in present and n != (dmap[wide][1] if wide in dmap else None)
                      and not (wide is not None and any(d[0] == wide and d[1] == n for d in dims))]
            if items_only or absent:
                colvals = {}
                for j in range(len(cols)):
                    colvals[j] = set(r[j] for r in rows if r[j] is not None)
                mistakable = False
                for dn in items_only:
                    d = dmap[dn]
                    iset = set(Fraction(int(i[1:])) if i[0] == "i" else i[1:].replace("~", " ") for i in d[3])
                    # how many columns carry exactly this item set? more than one => ambiguous
                    hits = 0
                    for j in range(len(cols)):
                        vs = colvals[j]
                        if d[2] == "s":
                            vs = set(str(int(v)) if isinstance(v, Fraction) and v.denominator == 1 else v for v in vs)
                        if d[2] == "i":
                            try:
                                vs = set(Fraction(int(v)) if isinstance(v, str) else v for v in vs)
                            except ValueError:
                                pass
                        if vs == iset:
                            hits += 1
                    if hits != 1:
                        mistakable = True
                for dn in absent:
                    d = dmap[dn]
                    iset = set(Fraction(int(i[1:])) if i[0] == "i" else i[1:].replace("~", " ") for i in d[3])
                    for j in range(len(cols)):
                        vs = colvals[j]
                        if d[2] == "s":
                            vs = set(str(int(v)) if isinstance(v, Fraction) and v.denominator == 1 else v for v in vs)
                        if vs == iset:
                            mistakable = True      # a left-out dimension whose item some column happens to hold
                if mistakable:
                    continue
            if wide is not None:
                wd = dmap[wide] if wide in dmap else [d for d in dims if d[0] == wide][0]
                # the dimension spread over the columns is not named anywhere: a column whose *values* happen to be
                # exactly its items can be mistaken for it (the property's hypothesis excludes that)
                wset = set(Fraction(int(i[1:])) if i[0] == "i" else i[1:].replace("~", " ") for i in wd[3])
                clash = False
                for j in range(len(cols)):
                    vs = set(r[j] for r in rows if r[j] is not None)
                    if wd[2] == "s":
                        vs = set(str(int(v)) if isinstance(v, Fraction) and v.denominator == 1 else v for v in vs)
                    if vs == wset:
                        clash = True
                if clash:
                    continue
                texts = set(i[1:] for i in wd[3])
                if texts & (set(d[1] for d in dims) | set(d[0] for d in dims) | {"value", "index"}):
                    continue            # a column labelled like a dimension: ambiguous by construction
            # the first column's label together with its values reads like the items of a dimension
            if cols and kind in ("R", "U", "V") or True:
                j0 = 1 if kind == "U" and not (rows and all(isinstance(r[0], Fraction) and 1700 <= r[0] <= 2300 for r in rows)) else 0
                if j0 < len(cols) and cols[j0] not in [d[1] for d in dims] and cols[j0] not in [d[0] for d in dims]:
                    first = set(r[j0] for r in rows if r[j0] is not None) | {cols[j0]}
                    amb = False
                    for d in dims:
                        iset = set(Fraction(int(i[1:])) if i[0] == "i" else i[1:].replace("~", " ") for i in d[3])
                        if first == iset:
                            amb = True
                    if amb:
                        continue
            if (lay.get("csv") == "True" or lay.get("via") == "csvreader") and any(d[2] == "n" for d in dims):
                continue                # CSV text cannot carry the type of untyped items
            # ---------- what the faults demand
            demand_err = None
            affected = []
            for a in [x for x in lay.get("affected", "").split(";") if x]:
                affected.append({} if a == "*" else dict(kv.split(":", 1) for kv in a.split(",")))
            kinds = [f.split(":")[0] for f in faults]
            kinds = [k for k in kinds if k != "none"]
            faults = [f for f in faults if f != "none"]
            if len(kinds) > 1:
                # several faults may mask one another: an opinion only where they cannot
                hard = "extra_valcol" in kinds or "extra_textcol" in kinds or (kinds.count("dup_and_drop") == 1 and set(kinds) <= {"dup_and_drop", "blank"}) or any(f.startswith("drop_col:") and len(dmap[f.split(":")[1]][3]) > 1 for f in faults)
                if not hard and not set(kinds) <= {"drop_row", "blank"}:
                    continue
            for f in faults:
                k = f.split(":")[0]
                if k in ("dup_row", "dup_and_drop"):
                    demand_err = "a label combination occurs twice"
                elif k in ("extra_valcol", "extra_textcol"):
                    demand_err = "several value columns that match no dimension"
                elif k == "drop_col":
                    dn = f.split(":")[1]
                    if len(dmap[dn][3]) > 1:
                        demand_err = f"the column of dimension {dn} (more than one item) is missing"
                elif k == "relabel":
                    if items_only:
                        demand_err = demand_err or "SKIP"
                    elif extra != "1":
                        demand_err = demand_err or "an item unknown to the dimension"
                    elif miss != "1":
                        demand_err = demand_err or "a label combination is missing (its row carried an unknown item)"
                elif k == "drop_row":
                    if miss != "1":
                        demand_err = demand_err or "a label combination is missing"
                elif k == "blank":
                    if miss != "1":
                        demand_err = demand_err or "an empty / NaN value"
            if demand_err == "SKIP":
                continue
            if "drop_col" in kinds and items_only and demand_err is None:
                continue
            if demand_err:
                if ob != "err" and "C12" in want:
                    return fail(ln, "the import is refused: " + demand_err, "err", ob[:300])
                continue
            # ---------- success demanded: every entry under its labels, touched ones zero
            if faults and "C12" not in want:
                continue
            if not faults and "C11" not in want:
                continue
            got = parse_arr_obs(ob)
            labs = list(truth.keys())
            expected = []
            for lab in labs:
                ld = {d[1]: it for d, it in zip(dims, lab)}
                hit = any(all(ld.get(k) == v for k, v in a.items()) for a in affected)
                expected.append(Fraction(0) if hit else truth[lab])
            if got is None or got != expected:
                what = ("importing an exported frame returns the identical array" if not faults else
                        "tolerated faults: touched entries become zero, every other entry stays under its labels")
                bad = [(labs[i], str(expected[i]), str(got[i]) if got and i < len(got) else None)
                       for i in range(len(labs)) if got is None or i >= len(got) or got[i] != expected[i]][:3]
                return fail(ln, what, bad if got is not None else "the array", ob[:300] if got is None else bad)
    return None


def check_C11(lines, obs):
    return check_case(lines, obs, want=("C11",))


def check_C12(lines, obs):
    return check_case(lines, obs, want=("C12",))


def check_C15(lines, obs):
    """from_df / set_values_from_df leave the frame handed in as it was"""
    prev = None
    for ln, ob in zip(lines, obs):
        if ln == "note input_unchanged" and ob != "ok":
            return fail(prev or ln, "importing from a DataFrame does not alter the DataFrame handed in", "frame unchanged", ob)
        if ln == "note export_leaves_array_unchanged" and ob != "ok":
            return fail(prev or ln, "exporting an array (also one holding NaN) to a DataFrame does not alter the array", "array unchanged", ob)
        if ln.startswith(("fromdf", "setdf", "todf")):
            prev = ln
    return None
