"""Stream `dsm-history`: sequences of {set_prms, set driver, read sf/pdf, compute} on one stock
object, for every DSM class; a freshly built object with the same current inputs is computed next
to every `compute` (its results travel in a `note fresh …` line for the search oracle)."""
import sys

import numpy as np

import impl_dsm
from impl_dsm import Recorder, frac, make_dims, make_prm, nums, scramble
from proto import REPO

sys.path.insert(0, REPO)
from flodym import StockArray, FlodymArray, Dimension, DimensionSet  # noqa: E402
from flodym import lifetime_models as lm_mod  # noqa: E402
from flodym.lifetime_models import UnevenTimeDim  # noqa: E402
from flodym.mfa_definition import StockDefinition  # noqa: E402
from flodym.stock_helper import make_empty_stocks  # noqa: E402
from flodym.stocks import InflowDrivenDSM, StockDrivenDSM  # noqa: E402


def results(s, kind):
    first = f"S {nums(s.stock.values)}" if kind == "idsm" else f"I {nums(s.inflow.values)}"
    return (f"ok {first} | O {nums(s.outflow.values)} | SC {nums(s.get_stock_by_cohort())} | "
            f"OC {nums(s.get_outflow_by_cohort())}")


def run_case(spec, lines, out):
    def emit(line, obs):
        lines.append(line)
        out.append(obs)

    emit(f"case {spec['id']} dsm-history", f"case {spec['id']} dsm-history")
    dims = make_dims(spec)
    n = len(spec["items"])
    tdim = UnevenTimeDim(dim=dims["t"])
    emit(f"grid {n} " + " ".join(str(i) for i in spec["items"]), f"ok B {nums(tdim.bounds)} | DT {nums(tdim.interval_lengths)}")
    cls = getattr(lm_mod, spec["cls"])
    kw = dict(dims=dims, time_letter="t", inflow_at=spec["inflow_at"], n_pts_per_interval=spec["n_pts"])
    probe = cls(**kw)
    eta, w = probe.get_quad_points_and_weights()
    emit(f"quad {spec['inflow_at']} {spec['n_pts']}", f"ok E {nums(eta)} | W {nums(w)}")
    m = int(np.prod(dims.shape[1:])) if len(dims.shape) > 1 else 1
    emit(f"m {m}", "ok")
    prm_objs = []
    min_diag = 1.0

    def given(k):
        """fresh parameter objects for set k (the ones handed over are scrambled right afterwards)"""
        return {name: make_prm(v, dims) for name, v in spec["psets"][k].items()}

    for k, pk in enumerate(spec["psets"]):
        prms = {name: make_prm(v, dims) for name, v in pk.items()}
        prm_objs.append(prms)
        fresh = cls(**kw, **prms)
        rec = Recorder(fresh)
        try:
            sf = fresh.sf
        except Exception:
            # a fresh object with these parameters cannot build its table
            prm_objs[-1] = None
            emit(f"psetbad {k}", "ok")
            continue
        min_diag = min(min_diag, float(np.min(np.abs(np.moveaxis(sf.diagonal(0, 0, 1), -1, 0)))))
        for (q, c) in sorted(rec.calls, key=lambda kk: (kk[1], kk[0])):
            ages, vals = rec.calls[(q, c)]
            a1 = ages.reshape(ages.shape[0], -1)[:, 0]
            emit(f"sval {q} {c} {nums(vals)}", f"ok A {nums(a1)}")
        emit(f"psetend {k}", "ok")
    kind = spec["kind"]
    # the stock-driven results are stated for first-interval survival >= 0.05; below that the model is not
    # driven (division by a vanishing survival: inf / nan), but a recompute must still equal a fresh object:
    # harness-level observation `note recompute_equals_fresh_at_low_survival`
    silent = kind == "sdsm" and min_diag < 0.05
    emit_all = emit

    def emit(line, obs):  # noqa: F811
        if silent and line.startswith("h_"):
            return
        emit_all(line, obs)
    shape = dims.shape

    def arr(tokens):
        return np.array([frac(v) for v in tokens], dtype=float).reshape(shape)

    k_cur = spec["k0"]
    drv = spec["driver0"]
    # ---- the object under test
    if spec.get("via_definition"):
        sd = StockDefinition(name="s", dim_letters=tuple(dims.letters), time_letter="t",
                             subclass=InflowDrivenDSM if kind == "idsm" else StockDrivenDSM,
                             lifetime_model_class=cls, solver=spec.get("solver", "manual"))
        # a second stock of the same kind over the same dimensions is defined next to it: each has a lifetime model of its own
        sd2 = StockDefinition(name="s_twin", dim_letters=tuple(dims.letters), time_letter="t",
                              subclass=InflowDrivenDSM if kind == "idsm" else StockDrivenDSM,
                              lifetime_model_class=cls, solver=spec.get("solver", "manual"))
        built = make_empty_stocks([sd, sd2], processes={}, dims=dims)
        stock, twin = built["s"], built["s_twin"]
        # the definition route builds the lifetime model with default inflow_at / n_pts
        stock.lifetime_model.inflow_at = spec["inflow_at"]
        stock.lifetime_model.n_pts_per_interval = spec["n_pts"]
        g_ = given(k_cur)
        stock.lifetime_model.set_prms(**g_)
        scramble(g_)
        other_k = [k for k in range(len(spec["psets"])) if k != k_cur and prm_objs[k] is not None]
        if other_k:
            twin.lifetime_model.set_prms(**given(other_k[-1]))      # the twin's parameters are the twin's business
    else:
        g_ = given(k_cur)
        lm = cls(**kw, **g_)
        scramble(g_)
        if kind == "idsm":
            stock = InflowDrivenDSM(dims=dims, lifetime_model=lm, time_letter="t")
        else:
            stock = StockDrivenDSM(dims=dims, lifetime_model=lm, time_letter="t", solver=spec.get("solver", "manual"))
    target = stock.inflow if kind == "idsm" else stock.stock
    target.values[...] = arr(drv)
    emit(f"h_new {kind} {k_cur} " + " ".join(drv), "ok")
    for op in spec["ops"]:
        try:
            if op[0] == "setprms":
                k_cur = op[1]
                g_ = given(k_cur)
                stock.lifetime_model.set_prms(**g_)
                scramble(g_)
                emit(f"h_setprms {k_cur}", "ok")
            elif op[0] == "setprms_fail":
                j, mixed_k = op[1], op[2]
                g_ = given(j)
                names = list(spec["psets"][j].keys())
                lm_ = stock.lifetime_model
                before = {n_: np.array(v_, copy=True) for n_, v_ in lm_.prms.items()}
                foreign = FlodymArray(dims=DimensionSet(dim_list=[Dimension(letter="z", name="zz", items=["k", "l", "m"])]),
                                      values=np.ones(3))
                try:
                    lm_.set_prms(**{names[0]: g_[names[0]], names[1]: foreign})
                    raised = False
                except Exception:
                    raised = True
                emit(f"h_setprms_fail {mixed_k}", "err" if raised else "ok")
                same = all(np.array_equal(before[n_], np.asarray(lm_.prms[n_])) for n_ in before)
                emit("note failed_set_prms_changes_nothing", "ok" if same else "CHANGED")
            elif op[0] == "setdriver":
                drv = op[1]
                target.values[...] = arr(drv)
                emit("h_setdriver " + " ".join(drv), "ok")
            elif op[0] in ("readsf", "readpdf"):
                which = op[0][4:]
                try:
                    emit(f"h_{op[0]}", "ok " + nums(getattr(stock.lifetime_model, which)))
                except Exception:
                    emit(f"h_{op[0]}", "err")
                # the same table of a freshly built lifetime model with the current parameters (for the search oracles)
                if not silent:
                    try:
                        emit(f"note fresh_{which} " + nums(getattr(cls(**kw, **given(k_cur)), which)), "ok")
                    except Exception:
                        emit(f"note fresh_{which} err", "ok")
            elif op[0] == "compute":
                try:
                    if not silent:
                        stock.compute()
                        emit("h_compute", results(stock, kind))
                except Exception:
                    emit("h_compute", "err")
                # a freshly built stock with the same current inputs
                if prm_objs[k_cur] is None:
                    try:
                        cls(**kw, **given(k_cur)).sf
                        emit("note fresh_unexpectedly_usable", "violated")
                    except Exception:
                        emit("note fresh err", "ok")
                    continue
                lmf = cls(**kw, **prm_objs[k_cur])
                if silent:
                    import warnings
                    f = StockDrivenDSM(dims=dims, lifetime_model=lmf, time_letter="t", solver=spec.get("solver", "manual"),
                                       stock=StockArray(dims=dims, values=arr(drv)))
                    with warnings.catch_warnings():
                        warnings.simplefilter("ignore")
                        try:
                            f.compute()
                            fresh_ok = True
                        except Exception:
                            fresh_ok = False
                        try:
                            stock.compute()
                            re_ok = True
                        except Exception:
                            re_ok = False
                    same = fresh_ok == re_ok and (not fresh_ok or all(
                        np.allclose(np.asarray(a, dtype=float), np.asarray(b, dtype=float), rtol=1e-9, atol=1e-12, equal_nan=True)
                        for a, b in ((f.inflow.values, stock.inflow.values), (f.outflow.values, stock.outflow.values),
                                     (f.get_outflow_by_cohort(), stock.get_outflow_by_cohort()))))
                    emit("note recompute_equals_fresh_at_low_survival", "ok" if same else "CHANGED")
                    continue
                if kind == "idsm":
                    f = InflowDrivenDSM(dims=dims, lifetime_model=lmf, time_letter="t",
                                        inflow=StockArray(dims=dims, values=arr(drv)))
                else:
                    f = StockDrivenDSM(dims=dims, lifetime_model=lmf, time_letter="t", solver=spec.get("solver", "manual"),
                                       stock=StockArray(dims=dims, values=arr(drv)))
                f.compute()
                emit("note fresh " + results(f, kind)[3:], "ok")
        except Exception:
            emit(f"h_{op[0]}" if op[0] not in ("setprms", "setprms_fail") else f"h_{op[0]} {op[-1]}", "err")


def run(specs):
    lines, out = [], []
    for spec in specs:
        try:
            run_case(spec, lines, out)
        except Exception as e:  # noqa: BLE001
            lines.append("note case_ran_to_completion")
            out.append(f"raised {type(e).__name__}")
    return lines, out
