"""Generator for stream `system`: random process graphs (parallel, opposing and self-loop flows,
flows of differing dimensionality and storage order, stocks with / without process, processes
without any flow), balanced by construction or not, single-entry perturbations on both sides of
the tolerance, NaN injection, explicit and default tolerance, both raise_error modes."""
import itertools
from fractions import Fraction

from proto import rng

DIMS = {"t": "D:t:time:i:i2000,i2001,i2002", "r": "D:r:region:s:sa,sb", "g": "D:g:good:s:sx,sy"}
LEN = {"t": 3, "r": 2, "g": 2}
H = {"t": 0, "r": 1, "g": 2}
EPS = Fraction(1, 2 ** 52)


def fnum(f):
    if f == "nan":
        return "nan"
    f = Fraction(f)
    return str(f.numerator) if f.denominator == 1 else f"{f.numerator}/{f.denominator}"


def labels(ls):
    return list(itertools.product(*[range(LEN[l]) for l in ls]))


def by_label_values(ls, table, full):
    """values for storage order `ls`, from a table keyed by labels in the order `full`"""
    out = []
    for lab in labels(ls):
        key = dict(zip(ls, lab))
        # sum the table over the letters of `full` that ls does not have
        s = 0
        for flab in labels(full):
            fk = dict(zip(full, flab))
            if all(fk[l] == key[l] for l in ls):
                s += table[flab]
        out.append(s)
    return out


def gen_system(tier, seed):
    r = rng(seed, "system")
    ncases = 250 if tier == "quick" else 3000
    lines = []
    stats = {"cases": 0, "balanced": 0, "nan": 0, "no_stocks": 0, "lonely": 0, "perturbed": 0, "flows": 0, "selfloops": 0}
    for n in range(ncases):
        lines.append(f"case {n} system")
        for l in "trg":
            lines.append(f"dim ${H[l]} {DIMS[l]}")
        dh = [10]
        dsets = {}

        def dset(ls):
            key = "".join(ls)
            if key not in dsets:
                dsets[key] = dh[0]
                lines.append((f"dset ${dh[0]} " + " ".join(f"${H[l]}" for l in ls)).rstrip())
                dh[0] += 1
            return dsets[key]

        lines.append("sys_begin")
        nproc = r.randint(1, 4)
        procs = ["sysenv"] + [f"p{i}" for i in range(nproc)]
        lonely = r.random() < 0.15
        if lonely:
            procs.append("idle")
            stats["lonely"] += 1
        lines.append("procs " + " ".join(procs))
        active = [p for p in procs if p != "idle"]
        full = r.sample("trg", r.randint(1, 3))
        if "t" in full:
            full.remove("t"); full.insert(0, "t")
        table = {lab: Fraction(r.randint(0, 40), r.choice([1, 2, 4])) for lab in labels(full)}
        flows = []
        balanced = r.random() < 0.55
        nan_first = None
        fid = 0
        if balanced:
            # a cycle through all active processes carrying the same quantities; every flow may store
            # its dimensions in its own order, and may carry fewer dimensions (then: the marginal)
            cyc = active[:]
            r.shuffle(cyc)
            for a, b in zip(cyc, cyc[1:] + cyc[:1]):
                if len(cyc) == 1:
                    break
                ls = list(full)
                r.shuffle(ls)
                flows.append([f"f{fid}", a, b, ls, by_label_values(ls, table, full)]); fid += 1
            # parallel / opposing pairs that cancel
            if len(active) > 1 and r.random() < 0.5:
                a, b = r.sample(active, 2)
                ls = r.sample(full, r.randint(0, len(full)))
                v = by_label_values(ls, table, full)
                flows.append([f"f{fid}", a, b, ls, v]); fid += 1
                flows.append([f"f{fid}", b, a, list(reversed(ls)), by_label_values(list(reversed(ls)), table, full)]); fid += 1
            if r.random() < 0.2:
                a = r.choice(active)
                flows.append([f"f{fid}", a, a, list(full), by_label_values(full, table, full)]); fid += 1
                stats["selfloops"] += 1
            if len(active) > 1 and r.random() < 0.3:
                # a pair of flows without dimensions (totals only) that cancel, listed after the others
                a, b = r.sample(active, 2)
                v = Fraction(r.randint(1, 40), r.choice([1, 2]))
                flows.append([f"f{fid}", a, b, [], [v]]); fid += 1
                flows.append([f"f{fid}", b, a, [], [v]]); fid += 1
                stats["scalar_pairs"] = stats.get("scalar_pairs", 0) + 1
        else:
            for _ in range(r.randint(0, 5)):
                a, b = r.choice(active), r.choice(active)
                ls = r.sample("trg", r.randint(0, 3))
                flows.append([f"f{fid}", a, b, ls, [Fraction(r.randint(-3, 30), r.choice([1, 2])) for _ in labels(ls)]]); fid += 1
            if r.random() < 0.35:
                # a flow without dimensions, sometimes negative (check_flows must see it)
                a, b = r.choice(active), r.choice(active)
                flows.append([f"f{fid}", a, b, [], [Fraction(r.choice([-7, -1, 2, 9]), r.choice([1, 2]))]]); fid += 1
        stocks = []
        if r.random() < 0.5:
            for k in range(r.randint(1, 2)):
                ls = ["t"] + r.sample("rg", r.randint(0, 2))
                proc = r.choice(active + ["-"]) if r.random() < 0.8 else "-"
                if k == 1 and stocks[0][1] != "-" and r.random() < 0.5:
                    proc = stocks[0][1]            # several stocks at one process
                    stats["shared_stock_process"] = stats.get("shared_stock_process", 0) + 1
                if balanced and proc != "-":
                    # a stock whose net addition is matched by a flow from the environment
                    inflow = [Fraction(r.randint(0, 20), 2) for _ in labels(ls)]
                    outflow = [Fraction(r.randint(0, 20), 2) for _ in labels(ls)]
                    if proc != "sysenv":
                        net = [a - b for a, b in zip(inflow, outflow)]
                        flows.append([f"f{fid}", "sysenv", proc, list(ls), net]); fid += 1
                else:
                    inflow = [Fraction(r.randint(0, 20), 2) for _ in labels(ls)]
                    outflow = [Fraction(r.randint(0, 20), 2) for _ in labels(ls)]
                sv = [Fraction(r.randint(0, 90), 2) for _ in labels(ls)]
                if proc == "-" and r.random() < 0.5:
                    # a stock outside every process that dominates the magnitudes (default tolerance)
                    sv = [v * 4096 for v in sv]
                    stats["big_free_stock"] = stats.get("big_free_stock", 0) + 1
                stocks.append([f"s{k}", proc, ls, sv, inflow, outflow])
        else:
            stats["no_stocks"] += 1
        # explicit tolerance and a single-entry perturbation on either side of it
        tol = Fraction(1, 1024)
        use_default = r.random() < 0.5
        allv = [abs(v) for f in flows for v in f[4]] + [abs(v) for s in stocks for v in s[3]]
        mx = max(allv) if allv else Fraction(0)
        deftol = 100 * EPS * mx
        if balanced and flows and r.random() < 0.7:
            f = r.choice(flows)
            if f[4]:
                k = r.randrange(len(f[4]))
                t_used = deftol if use_default else tol
                side = r.choice(["above", "below"])
                # keep every intermediate float sum exact: the perturbation is a multiple of 2^-44
                u = Fraction(1, 2 ** 44)
                if side == "above":
                    delta = -((-(4 * t_used)) // u) * u          # ceil(4t/u)*u  > t
                else:
                    delta = ((t_used / 4) // u) * u               # floor(t/4/u)*u < t (possibly 0)
                f[4][k] = f[4][k] + delta * r.choice([1, -1])
                stats["perturbed"] += 1
        if r.random() < 0.12 and flows:
            f = r.choice(flows)
            if f[4]:
                f[4][r.randrange(len(f[4]))] = "nan"
                stats["nan"] += 1
            if len(flows) >= 2 and r.random() < 0.6 and flows[0][4] and flows[-1][4]:
                # missing data in the first flow, a clearly negative entry in a later one: both are reported
                flows[0][4][0] = "nan"
                flows[-1][4][-1] = Fraction(-5)
                nan_first = flows[0][0]
                stats["nan_first_and_negative_later"] = stats.get("nan_first_and_negative_later", 0) + 1
        if r.random() < 0.05 and stocks:
            s = r.choice(stocks)
            s[r.choice([3, 4, 5])][0] = "nan"
        for name, a, b, ls, v in flows:
            lines.append(f"flow {name} {a} {b} ${dset(ls)} " + " ".join(fnum(x) for x in v))
        for name, proc, ls, sv, iv, ov in stocks:
            lines.append(f"stock {name} {proc} ${dset(ls)} " + " ".join(fnum(x) for x in sv) + " | "
                         + " ".join(fnum(x) for x in iv) + " | " + " ".join(fnum(x) for x in ov))
        stats["flows"] += len(flows)
        stats["balanced"] += int(balanced)
        lines.append("balance")
        lines.append("tol")
        for t_, rr in (("-", 1), ("-", 0), (fnum(tol), 1), (fnum(tol), 0), ("0", 1), ("0", 0)):
            lines.append(f"cmb {t_} {rr}")
        lines.append("cf - 0")
        lines.append("cf - 1")
        if flows:
            ex = r.choice([flows[0][0], flows[0][1], flows[-1][2]])
            lines.append(f"cf {ex} 0")
            if nan_first:
                lines.append(f"cf {nan_first} 0")       # the flow with the missing data is excepted: the others still are checked
                lines.append(f"cf {nan_first} 1")
        # the checks are queries: the balance computed afterwards is the one computed before
        lines.append("balance")
        lines.append("cmb - 0")
        if r.random() < 0.35:
            # the same system with every value rescaled (other units, a later scenario): tolerance and verdicts follow
            k = r.choice([40, 30, -30, -40, 20])
            lines.append("sys_scale " + (str(2 ** k) if k > 0 else f"1/{2 ** (-k)}"))
            lines += ["tol", "cmb - 0", "cmb - 1", "cf - 0", "balance"]
            stats["rescaled"] = stats.get("rescaled", 0) + 1
        stats["cases"] += 1
    return [ln.rstrip() for ln in lines], stats
