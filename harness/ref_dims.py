"""Ordered-list reference for dimension sets (property C14), used only to search for / confirm a
failing input once a tie has broken. A dimension set is a Python list of dimension tokens."""
from proto import lines_equal


def letter(tok):
    return tok.split(":")[1]


def name(tok):
    return tok.split(":")[2]


def nitems(tok):
    its = tok.split(":")[4]
    return len(its.split(",")) if its else 0


def fmt(ds):
    return "[" + " ".join(ds) + "]"


class Oracle:
    def __init__(self):
        self.dims = {}
        self.sets = {}
        self.arr_dims = {}

    def find(self, ds, key):
        for d in ds:
            if letter(d) == key or name(d) == key:
                return d
        return None

    def uniq(self, ds):
        return len({letter(d) for d in ds}) == len(ds)

    def step(self, line):
        t = line.split(" ")
        if t[0] == "case":
            self.__init__()
            return None
        if t[0] == "dim":
            self.dims[t[1]] = t[2]
            return None
        if t[0] == "dset":
            ds = [self.dims[x] for x in t[2:]]
            if self.uniq(ds):
                self.sets[t[1]] = ds
                return ("set", ds)
            return ("err",)
        if t[0] == "full":
            ds = self.sets.get(t[2])
            if ds is not None:
                self.arr_dims[t[1]] = list(ds)
            return None
        if t[0] == "dumpall":
            parts = []
            return ("dump", {k: list(v) for k, v in self.sets.items()}, {k: list(v) for k, v in self.arr_dims.items()})
        if t[0] != "ds":
            return None
        op, a = t[1], t[2:]
        S = self.sets

        def put(h, ds, inplace=False):
            if ds is None:
                return ("err",)
            if not self.uniq(ds):
                return ("err",)
            S[h] = list(ds)
            return ("set", list(ds))

        if op in ("union", "inter", "diff", "xor", "add"):
            x, y = S.get(a[1]), S.get(a[2])
            if x is None or y is None:
                return None
            lx, ly = [letter(d) for d in x], [letter(d) for d in y]
            if op == "union":
                return put(a[0], x + [d for d in y if letter(d) not in lx])
            if op == "inter":
                return put(a[0], [d for d in x if letter(d) in ly])
            if op == "diff":
                return put(a[0], [d for d in x if letter(d) not in ly])
            if op == "xor":
                return put(a[0], [d for d in x if letter(d) not in ly] + [d for d in y if letter(d) not in lx])
            if op == "add":
                if any(l in ly for l in lx):
                    return ("err",)
                return put(a[0], x + y)
        if op in ("dimadd", "dimadd2"):
            # `+` refuses overlapping letters whatever stands on its left
            d = self.dims.get(a[1])
            y = S.get(a[2]) if op == "dimadd" else ([self.dims[a[2]]] if a[2] in self.dims else None)
            if d is None or y is None:
                return None
            if letter(d) in [letter(e) for e in y]:
                return ("err",)
            return put(a[0], [d] + list(y))
        if op in ("subset", "subsetiter"):
            x = S.get(a[1])
            if x is None:
                return None
            sel = [self.find(x, k) for k in a[2:]]
            if any(s is None for s in sel):
                return ("err",)
            return put(a[0], sel)
        if op in ("subsetnone", "copy"):
            x = S.get(a[1])
            return put(a[0], list(x)) if x is not None else None
        if op in ("expand", "expand!"):
            tgt = a[1] if op == "expand" else a[0]
            x = S.get(tgt)
            if x is None:
                return None
            added = [self.dims[k] for k in (a[2:] if op == "expand" else a[1:])]
            new = x + added
            if not self.uniq(new):
                return ("err",)
            return put(a[0], new)
        if op in ("append", "prepend", "append!", "prepend!"):
            inplace = op.endswith("!")
            x = S.get(a[0] if inplace else a[1])
            d = self.dims[a[1] if inplace else a[2]]
            if x is None:
                return None
            if letter(d) in [letter(q) for q in x]:
                return ("err",)
            return put(a[0], x + [d] if op.startswith("append") else [d] + x)
        if op in ("insert", "insert!"):
            inplace = op.endswith("!")
            x = S.get(a[0] if inplace else a[1])
            if x is None:
                return None
            i = int(a[1] if inplace else a[2])
            d = self.dims[a[2] if inplace else a[3]]
            if letter(d) in [letter(q) for q in x]:
                return ("err",)
            new = list(x)
            new.insert(i, d)
            return put(a[0], new)
        if op in ("drop", "drop!"):
            inplace = op.endswith("!")
            x = S.get(a[0] if inplace else a[1])
            if x is None:
                return None
            d = self.find(x, a[1] if inplace else a[2])
            if d is None:
                return ("err",)
            return put(a[0], [q for q in x if q != d])
        if op in ("replace", "replace!"):
            inplace = op.endswith("!")
            x = S.get(a[0] if inplace else a[1])
            if x is None:
                return None
            key = a[1] if inplace else a[2]
            d = self.dims[a[2] if inplace else a[3]]
            old = self.find(x, key)
            if letter(d) in [letter(q) for q in x]:
                return ("err",)
            if old is None:
                return ("err",)
            return put(a[0], [d if q == old else q for q in x])
        if op == "query":
            x = S.get(a[0])
            if x is None:
                return None
            shape = "-" if not x else ",".join(str(nitems(d)) for d in x)
            tot = 1
            for d in x:
                tot *= nitems(d)
            return ("text", f"letters={''.join(letter(d) for d in x)} names={','.join(name(d) for d in x)} "
                            f"shape={shape} ndim={len(x)} total={tot} bool={'true' if x else 'false'}")
        if op in ("lookup", "index", "size", "contains"):
            x = S.get(a[0])
            if x is None:
                return None
            d = self.find(x, a[1])
            if op == "contains":
                return ("text", "true" if d is not None else "false")
            if d is None:
                return ("err",)
            return ("text", {"lookup": d, "index": str(x.index(d)), "size": str(nitems(d))}[op])
        if op == "getidx":
            x = S.get(a[0])
            if x is None:
                return None
            i = int(a[1])
            if -len(x) <= i < len(x):
                return ("text", x[i])
            return ("err",)
        if op == "ofarr":
            x = self.arr_dims.get(a[1])
            return put(a[0], list(x)) if x is not None else None
        return None


def check_case(case_lines, impl_outputs):
    orc = Oracle()
    for ln, got in zip(case_lines, impl_outputs):
        try:
            exp = orc.step(ln)
        except Exception:
            exp = None
        if exp is None:
            continue
        if exp[0] == "err":
            if got != "err":
                return {"line": ln, "expected": "an error (refusal)", "observed": got}
        elif exp[0] == "set":
            want = "ok " + fmt(exp[1])
            if got != want:
                return {"line": ln, "expected": want, "observed": got}
        elif exp[0] == "text":
            if got != "ok " + exp[1]:
                return {"line": ln, "expected": "ok " + exp[1], "observed": got}
        elif exp[0] == "dump":
            # every live set (and the dimension set of every array) must be what the ordered-list
            # model says: receivers of out-of-place operations and arrays are never changed
            seen = {}
            for part in got[3:].split(" ; "):
                if "=" not in part:
                    continue
                h, v = part.split("=", 1)
                seen[h] = v
            for h, ds in exp[1].items():
                if h in seen and seen[h] != fmt(ds):
                    return {"line": ln, "expected": f"{h}={fmt(ds)}", "observed": f"{h}={seen[h]}"}
            for h, ds in exp[2].items():
                if h in seen and not seen[h].startswith("A " + fmt(ds) + " "):
                    return {"line": ln, "expected": f"{h} keeps dims {fmt(ds)}", "observed": f"{h}={seen[h][:200]}"}
    return None
