"""Property-level oracles for the stock / lifetime properties (C03, C08, C09, C10, C16), used only
to search for / confirm a failing input after a tie has broken. They read the implementation's
observations of a `dsm` case and test the property statements directly, with exact rationals and a
tolerance for float rounding."""
from fractions import Fraction

TOL = Fraction(1, 10 ** 8)


def pnum(tok):
    if "/" in tok:
        a, b = tok.split("/")
        return Fraction(int(a), int(b))
    return Fraction(int(tok))


def close(a, b, scale=1):
    return abs(a - b) <= TOL * max(1, abs(a), abs(b), scale)


def sections(obs):
    """'ok S a b | O c d' -> {'S': [...], 'O': [...]}"""
    out = {}
    body = obs[3:]
    for part in body.split(" | "):
        toks = [x for x in part.split(" ") if x]
        if not toks:
            continue
        if len(toks) >= 1 and not toks[0].replace("/", "").replace("-", "").isdigit():
            out[toks[0]] = toks[1:]
        else:
            out["_"] = toks
    return out


class Case:
    def __init__(self, lines, obs):
        self.ok = False
        self.n = self.m = None
        self.sf = self.pdf = None
        self.runs = []
        self.bals = []
        self.svals = {}
        self.ages = {}
        self.eta = self.w = None
        self.cls = None
        self.prms = {}
        self.prmspecs = {}
        self.dimlens = []
        for ln, ob in zip(lines, obs):
            t = ln.split(" ")
            if t[0] == "grid":
                if not ob.startswith("ok"):
                    return
                self.n = int(t[1])
                self.items = [pnum(x) for x in t[2:]]
                sec = sections(ob)
                self.bounds = [pnum(x) for x in sec["B"]]
                self.dt_impl = [pnum(x) for x in sec["DT"]]
                # the documented interval lengths, computed independently of the implementation
                it_, n_ = self.items, self.n
                if n_ >= 3:
                    mids = [Fraction(it_[k] + it_[k + 1], 2) for k in range(n_ - 1)]
                    bd = [mids[0] - (mids[1] - mids[0])] + mids + [mids[-1] + (mids[-1] - mids[-2])]
                    self.dt = [bd[k + 1] - bd[k] for k in range(n_)]
                    self.bounds_doc = bd
                else:
                    self.dt = self.dt_impl
            elif t[0] == "quad":
                if not ob.startswith("ok"):
                    return
                sec = sections(ob)
                self.eta = [pnum(x) for x in sec["E"]]
                self.w = [pnum(x) for x in sec["W"]]
                self.inflow_at, self.n_pts = t[1], int(t[2])
            elif t[0] == "m":
                self.m = int(t[1])
            elif t[0] == "note" and t[1] == "cls":
                self.cls = t[2]
            elif t[0] == "note" and t[1] == "prm":
                self.prms[t[2]] = [pnum(x) for x in t[3:] if x]
            elif t[0] == "note" and t[1] == "prmspec":
                import json as _json
                self.prmspecs[t[2]] = _json.loads(t[3])
            elif t[0] == "dim" and len(t) == 3:
                self.dimlens.append((t[2].split(":")[1], len(t[2].split(":")[4].split(","))))
            elif t[0] == "sval" and ob.startswith("ok"):
                self.svals[(int(t[1]), int(t[2]))] = [pnum(x) for x in t[3:] if x]
                self.ages[(int(t[1]), int(t[2]))] = [pnum(x) for x in sections(ob).get("A", []) if x]
            elif t[0] == "sf" and ob.startswith("ok"):
                self.sf = [pnum(x) for x in ob[3:].split(" ")]
                self.ok = True
            elif t[0] == "pdf" and ob.startswith("ok"):
                self.pdf = [pnum(x) for x in ob[3:].split(" ")]
            elif t[0] in ("idsm", "sdsm", "fds", "idsmx", "sdsmx"):
                if t[0].endswith("x"):
                    # driver of magnitude 2^-k; results are reported at the scale of the listed values
                    t = [t[0][:-1]] + t[2:]
                self.runs.append((t, ob, ln))
            elif t[0] == "bal":
                self.bals.append((t, ob, ln))

    def a2(self, flat):
        return lambda t, j: flat[t * self.m + j]

    def a3(self, flat):
        n, m = self.n, self.m
        return lambda t, c, j: flat[(t * n + c) * m + j]


def fail(line, what, expected, observed):
    return {"line": line[:300], "property_demands": what, "expected": str(expected), "observed": str(observed)}


def check_balance(c, line, stock, inflow, outflow):
    n, m = c.n, c.m
    scale = max([abs(x) for x in stock] + [1])
    S, I, O = c.a2(stock), c.a2(inflow), c.a2(outflow)
    for j in range(m):
        for t in range(n):
            lhs = S(t, j) - (S(t - 1, j) if t > 0 else 0)
            rhs = c.dt[t] * (I(t, j) - O(t, j))
            if not close(lhs, rhs, scale):
                return fail(line, f"stock(t)-stock(t-1) = dt(t)*(inflow(t)-outflow(t)) at t={t}, j={j}", float(rhs), float(lhs))
    return None


def check_C03(lines, obs):
    c = Case(lines, obs)
    if c.n is None:
        return None
    # the documented grid: bounds at midpoints, ends mirrored
    it, n = c.items, c.n
    mids = [Fraction(it[k] + it[k + 1], 2) for k in range(n - 1)]
    want = [mids[0] - (mids[1] - mids[0])] + mids + [mids[-1] + (mids[-1] - mids[-2])]
    if any(not close(a, b) for a, b in zip(want, c.bounds)):
        return fail(lines[1], "interval bounds at the midpoints, first and last mirrored", want, c.bounds)
    if any(not close(a, b) for a, b in zip(c.dt, c.dt_impl)):
        return fail(lines[1], "interval lengths = differences of the documented bounds (first and last mirror their neighbour)",
                    [float(x) for x in c.dt], [float(x) for x in c.dt_impl])
    if not c.ok:
        return None
    for t, ob, ln in c.runs:
        if not ob.startswith("ok"):
            return fail(ln, "compute() succeeds on admissible inputs", "ok", ob)
        sec = sections(ob)
        if t[0] == "idsm":
            inflow = [pnum(x) for x in t[1:]]
            r = check_balance(c, ln, [pnum(x) for x in sec["S"]], inflow, [pnum(x) for x in sec["O"]])
        elif t[0] == "sdsm":
            stock = [pnum(x) for x in t[1:]]
            r = check_balance(c, ln, stock, [pnum(x) for x in sec["I"]], [pnum(x) for x in sec["O"]])
        else:
            k = t.index(";")
            inflow, outflow = [pnum(x) for x in t[1:k]], [pnum(x) for x in t[k + 1:]]
            r = check_balance(c, ln, [pnum(x) for x in sec["S"]], inflow, outflow)
        if r:
            return r
    for t, ob, ln in c.bals:
        if not ob.startswith("ok"):
            return fail(ln, "get_stock_balance works", "ok", ob)
        parts = " ".join(t[1:]).split(" ; ")
        stock, inflow, outflow = [[pnum(x) for x in p.split(" ")] for p in parts]
        S, I, O = c.a2(stock), c.a2(inflow), c.a2(outflow)
        agg = 0
        for j in range(c.m):
            col = sum(abs(c.dt[tt] * (I(tt, j) - O(tt, j)) - (S(tt, j) - (S(tt - 1, j) if tt > 0 else 0))) for tt in range(c.n))
            agg = max(agg, col)
        verdict = ob.split(" | ")[-1]
        # away from the thresholds only
        if agg > Fraction(1001, 1000) and verdict != "raise":
            return fail(ln, "check_stock_balance rejects a balance beyond the threshold", "raise", verdict)
        if agg < Fraction(1, 10 ** 6) and verdict != "ok":
            return fail(ln, "check_stock_balance accepts a balanced stock", "ok", verdict)
    return None


def check_C09(lines, obs):
    c = Case(lines, obs)
    if not c.ok:
        return None
    n, m = c.n, c.m
    sf = c.a3(c.sf)
    try:
        v = own_parameters(c, lines)      # "its survival share": the one of the cohort's own parameters
    except Exception:
        v = None
    if v:
        return v
    for t, ob, ln in c.runs:
        if t[0] == "fds" or not ob.startswith("ok"):
            continue
        sec = sections(ob)
        if t[0] == "idsm":
            inflow = [pnum(x) for x in t[1:]]
            stock = [pnum(x) for x in sec["S"]]
        else:
            inflow = [pnum(x) for x in sec["I"]]
            stock = [pnum(x) for x in t[1:]]
        outflow = [pnum(x) for x in sec["O"]]
        sc, oc = c.a3([pnum(x) for x in sec["SC"]]), c.a3([pnum(x) for x in sec["OC"]])
        S, I, O = c.a2(stock), c.a2(inflow), c.a2(outflow)
        scale = max([abs(x) for x in stock] + [1])
        for j in range(m):
            for tt in range(n):
                if not close(sum(sc(tt, cc, j) for cc in range(n)), S(tt, j), scale):
                    return fail(ln, f"stock = sum over cohorts of stock-by-cohort at t={tt}, j={j}", float(S(tt, j)), float(sum(sc(tt, cc, j) for cc in range(n))))
                if not close(sum(oc(tt, cc, j) for cc in range(n)), O(tt, j), scale):
                    return fail(ln, f"outflow = sum over cohorts of outflow-by-cohort at t={tt}, j={j}", float(O(tt, j)), float(sum(oc(tt, cc, j) for cc in range(n))))
                for cc in range(n):
                    if cc > tt and (sc(tt, cc, j) != 0 or oc(tt, cc, j) != 0):
                        return fail(ln, "cohort tables are zero for cohorts later than the year", 0, (float(sc(tt, cc, j)), float(oc(tt, cc, j))))
                    if cc <= tt and not close(sc(tt, cc, j), I(cc, j) * c.dt[cc] * sf(tt, cc, j), scale):
                        return fail(ln, f"cohort stock = inflow*dt*survival share at t={tt}, c={cc}, j={j}", float(I(cc, j) * c.dt[cc] * sf(tt, cc, j)), float(sc(tt, cc, j)))
                    if cc < tt and I(cc, j) >= 0 and sc(tt, cc, j) > sc(tt - 1, cc, j) + TOL * scale:
                        return fail(ln, f"a cohort's stock never increases over time for non-negative inflow (t={tt}, c={cc}, j={j})",
                                    "<= " + str(float(sc(tt - 1, cc, j))), float(sc(tt, cc, j)))
                    if cc <= tt:
                        left = sum(oc(s, cc, j) * c.dt[s] for s in range(tt + 1))
                        if not close(I(cc, j) * c.dt[cc], sc(tt, cc, j) + left, scale):
                            return fail(ln, f"cohort conservation at t={tt}, c={cc}, j={j}", float(I(cc, j) * c.dt[cc]), float(sc(tt, cc, j) + left))
    return None


def check_C10(lines, obs):
    c = Case(lines, obs)
    if not c.ok:
        return None
    last_idsm = None
    by_stock = {}
    for t, ob, ln in c.runs:
        if not ob.startswith("ok"):
            continue
        sec = sections(ob)
        if t[0] == "idsm":
            last_idsm = (t, sec, ln)
        elif t[0] == "sdsm":
            key = " ".join(t[1:])
            if key in by_stock:
                # second solver on the same stock: must agree
                o = by_stock[key]
                for k in ("I", "O", "SC", "OC"):
                    a, b = [pnum(x) for x in o[k]], [pnum(x) for x in sec[k]]
                    scale = max([abs(x) for x in a] + [1])
                    if any(not close(x, y, scale) for x, y in zip(a, b)):
                        return fail(ln, f"'manual' and 'lapack' give the same {k}", a[:6], b[:6])
            by_stock[key] = sec
            if last_idsm is not None and key == " ".join(last_idsm[1]["S"]):
                inflow = [pnum(x) for x in last_idsm[0][1:]]
                got = [pnum(x) for x in sec["I"]]
                scale = max([abs(x) for x in inflow] + [1])
                if any(not close(x, y, scale) for x, y in zip(inflow, got)):
                    return fail(ln, "stock-driven(inflow-driven(i).stock) returns the inflow i", [float(x) for x in inflow[:6]], [float(x) for x in got[:6]])
                for k in ("O", "SC", "OC"):
                    a, b = [pnum(x) for x in last_idsm[1][k]], [pnum(x) for x in sec[k]]
                    if any(not close(x, y, scale) for x, y in zip(a, b)):
                        return fail(ln, f"the inverse model reproduces {k}", [float(x) for x in a[:6]], [float(x) for x in b[:6]])
    return None


def prm_by_label(c, spec, cc, j):
    """the parameter value for cohort cc and label position j, read off the specification by label"""
    if spec["kind"] == "scalar":
        return pnum(spec["v"])
    letters = [d[0] for d in c.dimlens]
    lens = [d[1] for d in c.dimlens]
    # position of j among the non-time labels, row-major
    idx = {"t": cc}
    rem = j
    for l, n in reversed(list(zip(letters[1:], lens[1:]))):
        idx[l] = rem % n
        rem //= n
    pos = 0
    for l in spec["dims"]:
        pos = pos * lens[letters.index(l)] + idx[l]
    return pnum(spec["vals"][pos])


def closed_form_sf(cls, age, p):
    """survival function of the declared distribution (floats; the scipy-independent reference)"""
    import math
    a = float(age)
    if cls == "FixedLifetime":
        return 1.0 if a < p["mean"] else 0.0
    if cls == "NormalLifetime":
        return 0.5 * math.erfc((a - p["mean"]) / (p["std"] * math.sqrt(2)))
    if cls == "FoldedNormalLifetime":
        if a < 0:
            return 1.0
        mu, sd = p["mean"], p["std"]
        return 1 - 0.5 * (math.erf((a + mu) / (sd * math.sqrt(2))) + math.erf((a - mu) / (sd * math.sqrt(2))))
    if cls == "LogNormalLifetime":
        if a <= 0:
            return 1.0
        mean, sd = p["mean"], p["std"]
        s2 = math.log(1 + sd * sd / (mean * mean))       # variance of the underlying normal
        mu = math.log(mean) - s2 / 2                      # so that exp(mu + s2/2) = mean
        return 0.5 * math.erfc((math.log(a) - mu) / math.sqrt(2 * s2))
    if cls == "WeibullLifetime":
        if a <= 0:
            return 1.0
        return math.exp(-((a / p["weibull_scale"]) ** p["weibull_shape"]))
    return None


def own_parameters(c, lines):
    """the values handed back by scipy are those of the declared distribution with the given
    mean / standard deviation (shape / scale) of the cohort and label itself"""
    m = c.m
    if c.cls and c.prms:
        for (q, cc), vals in c.svals.items():
            ages = c.ages[(q, cc)]
            for k, a in enumerate(ages):
                for j in range(m):
                    if c.prmspecs and c.dimlens:
                        p = {name: float(prm_by_label(c, sp, cc, j)) for name, sp in c.prmspecs.items()}
                    else:
                        p = {name: float(v[cc * m + j]) for name, v in c.prms.items()}
                    if c.cls in ("NormalLifetime", "FoldedNormalLifetime", "LogNormalLifetime") and p.get("std", 1) == 0:
                        continue
                    want = closed_form_sf(c.cls, a, p)
                    got = float(vals[k * m + j])
                    if want is not None and abs(want - got) > 1e-7:
                        return fail(lines[1], f"entry = survival function of {c.cls} with parameters {p} (those of cohort {cc}) at age {float(a)}", want, got)
    return None


def check_C08(lines, obs):
    c = Case(lines, obs)
    if not c.ok:
        return None
    n, m = c.n, c.m
    v = own_parameters(c, lines)
    if v:
        return v
    doc = getattr(c, "bounds_doc", None)
    if doc is not None and [Fraction(b) for b in c.bounds] != doc:
        return fail(lines[1], "ages run to the end of year t: interval bounds lie at the midpoints between consecutive time items, "
                              "the first and last interval mirroring their neighbour", [str(b) for b in doc], [str(b) for b in c.bounds])
    sf, pdf = c.a3(c.sf), (c.a3(c.pdf) if c.pdf else None)
    wsum = sum(c.w)
    # quadrature rule: documented points
    if c.n_pts <= 1:
        want = {"start": 0, "middle": Fraction(1, 2), "end": 1}[c.inflow_at]
        if c.eta != [want] or c.w != [1]:
            return fail(lines[2], "the inflow instant is the start, middle or end of the interval", want, c.eta)
    else:
        if len(c.eta) != c.n_pts or c.eta[0] != 0 or c.eta[-1] != 1 or abs(wsum - 1) > Fraction(1, 10 ** 15):
            return fail(lines[2], "n-point Gauss-Lobatto rule on [0,1] (end points included, weights sum to one)", c.n_pts, (c.eta, c.w))
        # it is *the* n-point Gauss-Lobatto rule: exact for polynomials up to degree 2n-3
        for k in range(2 * c.n_pts - 2):
            mom = sum(w * e ** k for e, w in zip(c.eta, c.w))
            if abs(mom - Fraction(1, k + 1)) > Fraction(1, 10 ** 14):
                return fail(lines[2], f"the documented n-point Gauss-Lobatto average (exact for degree {k} <= 2n-3)",
                            float(Fraction(1, k + 1)), float(mom))
    for (q, cc), ages in c.ages.items():
        for k, a in enumerate(ages):
            t = cc + k
            want = c.bounds[t + 1] - (c.eta[q] * c.bounds[cc + 1] + (1 - c.eta[q]) * c.bounds[cc])
            if not close(a, want):
                return fail(lines[1], f"age from the inflow instant to the end of year t (q={q}, c={cc}, t={t})", float(want), float(a))
    for j in range(m):
        for cc in range(n):
            for t in range(n):
                v = sf(t, cc, j)
                if t < cc:
                    if v != 0:
                        return fail("sf", "survival table is zero for cohorts later than the year", 0, float(v))
                    continue
                def sval(q):
                    # what scipy returned when the code asked; where the code did not ask (it is
                    # expected to, for every cohort and quadrature point), the closed form
                    vals = c.svals.get((q, cc))
                    if vals is not None and (t - cc) * m + j < len(vals):
                        return vals[(t - cc) * m + j]
                    age = c.bounds[t + 1] - (c.eta[q] * c.bounds[cc + 1] + (1 - c.eta[q]) * c.bounds[cc])
                    if c.prmspecs and c.dimlens:
                        p = {name: float(prm_by_label(c, sp, cc, j)) for name, sp in c.prmspecs.items()}
                    else:
                        p = {name: float(v[cc * m + j]) for name, v in c.prms.items()}
                    cf = closed_form_sf(c.cls, age, p)
                    if cf is None:
                        raise KeyError((q, cc))
                    return Fraction(cf)
                want = sum(c.w[q] * sval(q) for q in range(len(c.w)))
                if not close(v, want):
                    return fail("sf", f"entry = quadrature average of the survival function (t={t}, c={cc}, j={j})", float(want), float(v))
                if v < -TOL or v > 1 + TOL:
                    return fail("sf", "survival in [0,1]", "[0,1]", float(v))
                if t > cc and v > sf(t - 1, cc, j) + TOL:
                    return fail("sf", "survival never increases with age", float(sf(t - 1, cc, j)), float(v))
                if pdf is not None:
                    if pdf(t, cc, j) < -TOL:
                        return fail("pdf", "outflow probabilities are non-negative", ">=0", float(pdf(t, cc, j)))
                    cum = sum(pdf(s, cc, j) for s in range(t + 1))
                    if not close(v + cum, 1):
                        return fail("pdf", f"survival + cumulative outflow probability = 1 (t={t}, c={cc}, j={j})", 1, float(v + cum))
    return None


def check_C16(lines, obs):
    c = Case(lines, obs)
    if not c.ok:
        return None
    n, m = c.n, c.m
    sf = c.a3(c.sf)
    for t, ob, ln in c.runs:
        if t[0] != "idsm" or not ob.startswith("ok"):
            continue
        inflow = [pnum(x) for x in t[1:]]
        nz = [k for k, v in enumerate(inflow) if v != 0]
        if len(nz) == 1 and inflow[nz[0]] == 1:
            cc, j = divmod(nz[0], m)
            stock = c.a2([pnum(x) for x in sections(ob)["S"]])
            for tt in range(n):
                for jj in range(m):
                    want = sf(tt, cc, j) * c.dt[cc] if jj == j else 0
                    if not close(stock(tt, jj), want):
                        return fail(ln, f"unit impulse response = survival column × interval length, other labels untouched (t={tt}, j={jj})", float(want), float(stock(tt, jj)))
    return None


def check_C17(lines, obs):
    """after every compute: the results equal those of a freshly built stock with the same inputs"""
    prev = None
    for ln, ob in zip(lines, obs):
        if ln == "note failed_set_prms_changes_nothing" and ob != "ok":
            return fail(ln, "a set_prms call that raises leaves the lifetime model as it was (the next recompute reflects the "
                            "current parameters: the old ones)", "parameters unchanged", ob)
        if ln == "note recompute_equals_fresh_at_low_survival" and ob != "ok":
            return fail(ln, "results of a recompute equal those of a freshly built stock with the same parameters and driver "
                            "(also where a cohort does not survive its first interval)", "the fresh results", ob)
        if ln == "h_compute":
            prev = (ln, ob)
        elif ln.startswith("note fresh ") and prev is not None:
            want = "ok " + ln[len("note fresh "):]
            got = prev[1]
            if ln == "note fresh err":
                # the current parameters cannot be used: a fresh object raises, so must the recompute
                if got != "err":
                    return fail(prev[0], "compute() raises like a fresh object with the same (unusable) parameters", "err", got[:200])
                prev = None
                continue
            if got == "err":
                return fail(prev[0], "compute() succeeds and equals a fresh object", want[:200], "err")
            tw, tg = want.split(" "), got.split(" ")
            if len(tw) != len(tg):
                return fail(prev[0], "results of a recompute equal those of a freshly built stock", want[:200], got[:200])
            vals = [pnum(x) for x in tw if x not in ("ok", "S", "I", "O", "SC", "OC", "|")]
            scale = max([abs(v) for v in vals] + [1])
            for a, b in zip(tw, tg):
                if a == b:
                    continue
                if not close(pnum(a), pnum(b), scale):
                    return fail(prev[0], "results of a recompute equal those of a freshly built stock with the same parameters and driver",
                                want[:300], got[:300])
            prev = None
    return None


def check_tables_history(lines, obs):
    """a table read from a re-used lifetime model is the table a fresh model with the current parameters builds"""
    prev = None
    for ln, ob in zip(lines, obs):
        if ln in ("h_readsf", "h_readpdf"):
            prev = (ln, ob)
        elif ln.startswith("note fresh_sf ") or ln.startswith("note fresh_pdf "):
            if prev is None:
                continue
            want = ln.split(" ", 2)[2]
            got = prev[1]
            what = "the survival / outflow table read after any history equals the table of the declared distribution with the current parameters"
            if want == "err":
                if got != "err":
                    return fail(prev[0], what + " (here: none, the parameters are unusable)", "err", got[:200])
            elif got == "err":
                return fail(prev[0], what, want[:200], "err")
            else:
                tw, tg = want.split(" "), got.split(" ")[1:]
                if len(tw) != len(tg) or any(not close(pnum(a), pnum(b), 1) for a, b in zip(tw, tg)):
                    return fail(prev[0], what, want[:300], " ".join(tg)[:300])
            prev = None
    return None


def check_balance_history(lines, obs):
    """C03 on re-used objects: after every recompute, stock change = interval length x (inflow - outflow)"""
    c = Case(lines, obs)
    if not getattr(c, "dt", None) or not c.n:
        return None
    n, dt = c.n, c.dt
    driver, kind = None, None
    for ln, ob in zip(lines, obs):
        t = ln.split(" ")
        if t[0] == "h_new":
            kind, driver = t[1], [pnum(x) for x in t[3:]]
        elif t[0] == "h_setdriver":
            driver = [pnum(x) for x in t[1:]]
        elif t[0] == "h_compute" and ob.startswith("ok") and driver is not None:
            sec = sections(ob)
            if kind == "idsm":
                inflow, stock = driver, [pnum(x) for x in sec["S"]]
            else:
                inflow, stock = [pnum(x) for x in sec["I"]], driver
            outflow = [pnum(x) for x in sec["O"]]
            m = len(stock) // n
            scale = max([abs(x) for x in stock + inflow + outflow] + [1])
            for j in range(m):
                for tt in range(n):
                    prev_s = stock[(tt - 1) * m + j] if tt > 0 else 0
                    lhs = stock[tt * m + j] - prev_s
                    rhs = dt[tt] * (inflow[tt * m + j] - outflow[tt * m + j])
                    if not close(lhs, rhs, scale * max(dt)):
                        return fail(ln, f"after a recompute: stock change = interval length x (inflow - outflow) at t={tt}, j={j}",
                                    float(rhs), float(lhs))
    return None


def driver_untouched(lines, obs):
    """compute() reads its driver (the prescribed inflow or stock) and leaves it as given"""
    for ln, ob in zip(lines, obs):
        t = ln.split(" ")
        if t[0] in ("idsm", "sdsm", "idsmx", "sdsmx") and ob.startswith("ok"):
            given = [pnum(x) for x in (t[2:] if t[0].endswith("x") else t[1:])]
            sec = sections(ob)
            if "D" not in sec:
                continue
            got = [pnum(x) for x in sec["D"]]
            scale = max([abs(v) for v in given] + [1])
            if len(got) != len(given) or any(not close(a, b, scale) for a, b in zip(given, got)):
                return fail(ln, "the prescribed driver is still what was given after compute()", [str(v) for v in given][:8], [str(v) for v in got][:8])
    return None


def _guard(fn):
    def run(lines, obs):
        try:
            sf_ok = False
            for ln, ob in zip(lines, obs):
                if ln == "sf":
                    sf_ok = ob.startswith("ok")
                if ln == "pdf" and ob == "err" and sf_ok:
                    return fail(ln, "the outflow-probability table exists whenever the survival table does (any number and lengths of extra dimensions)",
                                "a table", "err")
                if ln == "note case_ran_to_completion" and ob != "ok":
                    return fail(lines[0], "computing a stock model over admissible inputs does not raise", "results", ob)
            r = driver_untouched(lines, obs)
            if r:
                return r
            return fn(lines, obs)
        except ValueError as e:
            if "nan" in str(e) or "inf" in str(e):
                bad = [ln for ln, ob in zip(lines, obs) if "nan" in ob.split(" ") or "inf" in ob.split(" ") or "nan" in ln.split(" ")]
                return fail(bad[0] if bad else lines[0], "all results are finite numbers satisfying the property",
                            "finite values", "NaN / inf in the implementation's results")
            raise
    return run


def notes_ok(lines, obs):
    for ln, ob in zip(lines, obs):
        if ln == "note other_labels_unaffected_by_nan_label" and ob != "ok":
            return fail(ln, "results for one label do not depend on the driver of another label (here: another label's stock is NaN)",
                        "the other labels' inflow as before", ob)
        if ln == "note other_labels_unaffected_by_vanishing_label" and ob != "ok":
            return fail(ln, "every combination of non-time labels evolves as if computed alone with its own parameters "
                            "(here: another label's lifetime is so short that nothing survives the first interval)",
                        "the other labels' inflow as before", ob)
    return None


def check_C16_with_inverse(lines, obs):
    """C16 proper (impulse responses, superposition of the inflow-driven model), then the
    stock-driven model as the inverse of that linear map: a stock-driven result that does not
    reproduce its driver through the linear inflow-driven model is not linear in the driver either"""
    return notes_ok(lines, obs) or check_C16(lines, obs) or check_C10(lines, obs)


HISTORY_CHECKS = {"C03": lambda l, o: check_balance_history(l, o) or check_C17(l, o),
                  "C08": lambda l, o: check_tables_history(l, o),
                  "C10": lambda l, o: check_C17(l, o),     # a re-used stock-driven model still inverts / agrees across solvers
                  "C16": lambda l, o: check_C17(l, o)}
CHECKS = {k: _guard(v) for k, v in {"C03": check_C03, "C08": check_C08, "C09": check_C09,
                                    "C10": check_C10, "C16": check_C16_with_inverse, "C17": check_C17}.items()}
