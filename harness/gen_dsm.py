"""Generator for stream `dsm`: time grids (unit / constant non-unit / uneven, shifted), extra
dimensions 0-2, all five lifetime models with scalar / per-label / per-cohort parameters in
permuted storage order, inflow_at x n_pts 1..10, drivers incl. unit impulses and stocks implying
negative inflow, balance checks with perturbations on both sides of the thresholds."""
import itertools
from fractions import Fraction

from proto import rng

MODELS = {
    "FixedLifetime": ["mean"],
    "NormalLifetime": ["mean", "std"],
    "FoldedNormalLifetime": ["mean", "std"],
    "LogNormalLifetime": ["mean", "std"],
    "WeibullLifetime": ["weibull_shape", "weibull_scale"],
}


def fnum(f):
    f = Fraction(f)
    return str(f.numerator) if f.denominator == 1 else f"{f.numerator}/{f.denominator}"


def grid(r, kind, n):
    start = r.choice([0, 1990, 2000, 2023])
    if kind == "unit":
        return [start + i for i in range(n)]
    if kind == "const":
        step = r.choice([2, 5, 10])
        return [start + step * i for i in range(n)]
    if kind == "halves":
        # time items that are not whole numbers (half years), unevenly spaced; every other time the
        # average step is exactly one although no two neighbouring steps are equal
        steps = [Fraction(r.choice([1, 3, 2, 5]), 2) for _ in range(n - 1)]
        if r.random() < 0.5:
            rest = Fraction(n - 1) - sum(steps[:-1])
            if rest > 0:
                steps[-1] = rest
        items, cur = [Fraction(start)], Fraction(start)
        for st in steps:
            cur += st
            items.append(cur)
        return [int(i) if i.denominator == 1 else f"{i.numerator}/{i.denominator}" for i in items]
    items, cur = [start], start
    for _ in range(n - 1):
        cur += r.choice([1, 1, 2, 3, 4, 5])
        items.append(cur)
    return items


def item_span(items):
    f = [Fraction(i) for i in items]
    return max(1, int(f[-1] - f[0]))


def prm_value(r, name, span):
    """admissible parameter values on the scale of the grid"""
    if name == "mean":
        return Fraction(r.randint(2, 12) * max(1, span // 8), 2) + Fraction(1, 4)
    if name == "std":
        return Fraction(r.randint(1, 6) * max(1, span // 10), 2)
    if name == "weibull_shape":
        return Fraction(r.randint(2, 8), 2)
    if name == "weibull_scale":
        return Fraction(r.randint(2, 12) * max(1, span // 8), 2)
    raise ValueError(name)


def prm_spec(r, name, dims_letters, shape, span):
    kind = r.choice(["scalar", "label", "label", "cohort", "all", "diverge"])
    if kind == "diverge":
        # the same value for every label in the first cohort, different ones later (lifetime extension)
        if len(dims_letters) < 2:
            kind = "cohort"
        else:
            m = 1
            for k in shape[1:]:
                m *= k
            v0 = fnum(prm_value(r, name, span))
            vals = [v0] * m + [fnum(prm_value(r, name, span)) for _ in range((shape[0] - 1) * m)]
            return {"kind": "array", "dims": list(dims_letters), "vals": vals}
    if kind == "scalar" or len(dims_letters) == 0:
        return {"kind": "scalar", "v": fnum(prm_value(r, name, span))}
    if kind == "label":
        ls = [l for l in dims_letters if l != "t"]
        if not ls:
            return {"kind": "scalar", "v": fnum(prm_value(r, name, span))}
        ls = r.sample(ls, len(ls) if r.random() < 0.6 else r.randint(1, len(ls)))
    elif kind == "cohort":
        ls = ["t"]
    else:
        ls = list(dims_letters)
    r.shuffle(ls)  # any storage order
    n = 1
    for l in ls:
        n *= shape[dims_letters.index(l)]
    return {"kind": "array", "dims": ls, "vals": [fnum(prm_value(r, name, span)) for _ in range(n)]}


def driver(r, n, m, kind):
    if kind == "impulse":
        c, j = r.randrange(n), r.randrange(m)
        return [("1" if (t == c and k == j) else "0") for t in range(n) for k in range(m)]
    if kind == "nonneg":
        return [fnum(Fraction(r.randint(0, 40), r.choice([1, 2, 4]))) for _ in range(n * m)]
    return [fnum(Fraction(r.randint(-20, 40), r.choice([1, 2, 4]))) for _ in range(n * m)]


def gen_dsm(tier, seed):
    r = rng(seed, "dsm")
    ncases = 120 if tier == "quick" else 2500
    specs = []
    stats = {"cases": 0, "models": {}, "grids": {}, "prm_kinds": {}, "n_pts": {}}
    for cid in range(ncases):
        n = r.randint(3, 6 if tier == "quick" else 8)
        short = r.random() < 0.15
        if short:
            n = r.randint(7, 10)
        gk = r.choice(["unit", "const", "uneven", "uneven", "halves"]) if not short else r.choice(["unit", "unit", "uneven"])
        items = grid(r, gk, n)
        if r.random() < 0.03:
            items = items[: r.choice([1, 2])]          # too short: must be refused
            n = len(items)
        extra = [r.choice([1, 2, 3]) for _ in range(r.choice([0, 0, 1, 1, 2]))]
        if r.random() < 0.25:
            k = r.choice([2, 2, 3])
            extra = [k, k]          # two extra dimensions of equal length: a silent transposition keeps the shape
        letters = ["t", "r", "g"][: 1 + len(extra)]
        shape = [n] + extra
        m = 1
        for e in extra:
            m *= e
        cls = r.choice(list(MODELS))
        span = item_span(items) if n > 1 else 1
        prms = {p: prm_spec(r, p, letters, shape, span) for p in MODELS[cls]}
        if short and n >= 4:
            # short-lived early cohorts, longer-lived later ones: the first cohorts die out completely
            # within the span (survival below machine precision) while later ones are still around
            step = r.choice([Fraction(3, 2), Fraction(2), Fraction(3), Fraction(4)])
            grow = [fnum(Fraction(5, 4) + step * k) for k in range(n)]
            for pname in MODELS[cls]:
                if pname in ("mean", "weibull_scale"):
                    prms[pname] = {"kind": "array", "dims": ["t"], "vals": grow}
                elif pname == "std":
                    prms[pname] = {"kind": "scalar", "v": fnum(r.choice([Fraction(1, 8), Fraction(1, 4)]))}
                elif pname == "weibull_shape":
                    prms[pname] = {"kind": "scalar", "v": fnum(r.choice([Fraction(8), Fraction(12)]))}
            stats["short_lived"] = stats.get("short_lived", 0) + 1
        n_pts = r.choice([1, 1, 1, 2, 3, 4, 5, 6, 7, 8, 9, 10]) if r.random() < 0.97 else r.choice([0, 11, 12])
        inflow_at = r.choice(["start", "middle", "end"]) if r.random() < 0.97 else "centre"
        ops = []
        ops.append({"kind": "idsm", "inflow": driver(r, n, m, "nonneg")})
        ops.append({"kind": "bal"})
        ops.append({"kind": "bal", "perturb": [r.choice(["stock", "inflow", "outflow"]), r.randrange(10 ** 6),
                                               fnum(r.choice([Fraction(3, 2), Fraction(-2), Fraction(1, 100), Fraction(1, 10 ** 5)]))]})
        ops.append({"kind": "sdsm", "solver": "manual", "stock": "from_idsm"})
        ops.append({"kind": "sdsm", "solver": "lapack", "stock": "from_idsm"})
        ops.append({"kind": "idsm", "inflow": driver(r, n, m, "impulse")})
        ops.append({"kind": "idsm", "inflow": driver(r, n, m, "any")})
        st = driver(r, n, m, "any")
        ops.append({"kind": "sdsm", "solver": "manual", "stock": st})
        ops.append({"kind": "bal"})
        ops.append({"kind": "sdsm", "solver": "lapack", "stock": st})
        # drivers given as whole numbers held with an integer dtype (counts), and drivers of very small
        # magnitude (another unit): the same model, the same answers
        ints = [str(r.randint(0, 60)) for _ in range(n * m)]
        ops.append({"kind": "sdsm", "solver": "manual", "stock": ints, "int": True})
        ops.append({"kind": "sdsm", "solver": "lapack", "stock": ints, "int": True})
        ops.append({"kind": "idsm", "inflow": [str(r.randint(0, 30)) for _ in range(n * m)], "int": True})
        sc = r.choice([30, 40, 50])
        ops.append({"kind": "idsm", "inflow": driver(r, n, m, "nonneg"), "scale": sc})
        ops.append({"kind": "sdsm", "solver": r.choice(["manual", "lapack"]), "stock": driver(r, n, m, "any"), "scale": sc})
        ops.append({"kind": "fds", "inflow": driver(r, n, m, "nonneg"), "outflow": driver(r, n, m, "nonneg")})
        ops.append({"kind": "bal"})
        ops.append({"kind": "bal", "perturb": [r.choice(["stock", "inflow", "outflow"]), r.randrange(10 ** 6),
                                               fnum(r.choice([Fraction(5, 4), Fraction(1, 200), Fraction(7, 10 ** 5)]))]})
        # the same balance at the scale of kilograms: a deviation of 50 is far beyond the documented threshold
        ops.append({"kind": "bal", "big": 2 ** 24, "perturb": [r.choice(["stock", "inflow", "outflow"]), r.randrange(10 ** 6), r.choice(["50", "-500", "5"])]})
        specs.append({"id": cid, "items": items, "extra": extra,
                      "lt": {"cls": cls, "prms": prms, "inflow_at": inflow_at, "n_pts": n_pts}, "ops": ops})
        stats["cases"] += 1
        stats["models"][cls] = stats["models"].get(cls, 0) + 1
        stats["grids"][gk] = stats["grids"].get(gk, 0) + 1
        stats["n_pts"][str(n_pts)] = stats["n_pts"].get(str(n_pts), 0) + 1
        for p in prms.values():
            k = p["kind"] if p["kind"] == "scalar" else "array:" + "".join(p["dims"])
            stats["prm_kinds"][k] = stats["prm_kinds"].get(k, 0) + 1
    return specs, stats
