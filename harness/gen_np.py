"""Generator for stream `np-semantics`: random shapes (<= 4 axes), einsum strings, index tuples of
every kind mix (ints / slices / lists / np.ix_ meshes), tile, cumsum, newaxis, broadcasting."""
from fractions import Fraction

from proto import rng

LET = "abcdef"


def fnum(f):
    f = Fraction(f)
    return str(f.numerator) if f.denominator == 1 else f"{f.numerator}/{f.denominator}"


def vals(r, n):
    return " ".join(fnum(Fraction(r.randint(-9, 9), r.choice([1, 1, 2]))) for _ in range(n))


def prod(sh):
    n = 1
    for s in sh:
        n *= s
    return n


def stok(sh):
    return "-" if not sh else ",".join(map(str, sh))


def gen_np(tier, seed):
    r = rng(seed, "np-semantics")
    ncases = 400 if tier == "quick" else 8000
    lines = []
    stats = {"cases": 0, "ops": 0, "index_kinds": {}}
    for n in range(ncases):
        lines.append(f"case {n} np")
        nd = r.randint(0, 4)
        sh = [r.choice([1, 2, 2, 3]) for _ in range(nd)]
        lines.append(f"nd $1 {stok(sh)} {vals(r, prod(sh))}".rstrip())
        h = 10
        # einsum1: permutation + summation
        ls = LET[:nd]
        keep = [l for l in ls if r.random() < 0.7]
        r.shuffle(keep)
        lines.append(f"np einsum1 ${h} {ls or '-'} {''.join(keep) or '-'} $1"); h += 1
        # einsum2 with a second operand sharing some letters (equal sizes on shared letters)
        sizes = dict(zip(ls, sh))
        ls2 = [l for l in LET if r.random() < 0.5][:3]
        r.shuffle(ls2)
        sh2 = [sizes.get(l, r.choice([1, 2, 3])) for l in ls2]
        lines.append(f"nd $2 {stok(sh2)} {vals(r, prod(sh2))}".rstrip())
        allL = list(dict.fromkeys(list(ls) + ls2))
        out = [l for l in allL if r.random() < 0.75]
        r.shuffle(out)
        lines.append(f"np einsum2 ${h} {ls or '-'} {''.join(ls2) or '-'} {''.join(out) or '-'} $1 $2"); h += 1
        # index tuples of every kind mix
        for _ in range(4):
            ix, kinds = [], []
            mode = r.choice(["basic", "onelist", "mesh", "mixed"])
            for s in sh:
                k = r.choice({"basic": "i:", "onelist": "i:", "mesh": "i:m", "mixed": "i:lm"}[mode])
                kinds.append(k)
            if mode == "onelist" and sh:
                kinds[r.randrange(len(sh))] = "l"
            if mode == "mixed":
                # numpy broadcasts several lists together; the model (like flodym) only ever uses
                # one plain list or np.ix_ meshes: keep at most one 'l' and no 'l' with 'm'
                if "m" in kinds:
                    kinds = [("m" if k == "l" else k) for k in kinds]
                else:
                    seen = False
                    for i, k in enumerate(kinds):
                        if k == "l":
                            if seen:
                                kinds[i] = ":"
                            seen = True
            for s, k in zip(sh, kinds):
                if k == "i":
                    ix.append(f"i{r.randrange(s + (1 if r.random() < 0.03 else 0))}")
                elif k == ":":
                    ix.append(":")
                else:
                    m = r.randint(1, 3)
                    ix.append(k + ",".join(str(r.randrange(s)) for _ in range(m)))
            key = "".join(kinds)
            stats["index_kinds"][key] = stats["index_kinds"].get(key, 0) + 1
            lines.append(f"np index ${h} $1 {' '.join(ix)}".rstrip())
            # write the same region with a value of the region's shape, a scalar, and a broadcastable value
            lines.append(f"nd $3 - {vals(r, 1)}")
            lines.append(f"np indexset $1 $3 {' '.join(ix)}".rstrip())
            h += 1
        if nd:
            reps = [r.choice([1, 1, 2, 3]) for _ in sh]
            lines.append(f"np tile ${h} $1 {stok(reps)}"); h += 1
            lines.append(f"np cumsum ${h} $1 {r.randrange(nd)}"); h += 1
            lines.append(f"np sumaxis ${h} $1 {r.randrange(nd)}"); h += 1
        flags = ["1"] * nd
        for _ in range(r.randint(0, 2)):
            flags.insert(r.randint(0, len(flags)), "0")
        lines.append(f"np newaxis ${h} $1 {''.join(flags) or '-'}" if flags else f"np bcast ${h} $1 -"); h += 1
        # broadcasting: to a shape with extra leading axes / from size-1 axes
        tgt = [r.choice([1, 2, 3]) for _ in range(r.randint(0, 2))] + [s if r.random() < 0.8 else r.choice([1, 2, 3]) for s in sh]
        lines.append(f"np bcast ${h} $1 {stok(tgt)}"); h += 1
        stats["cases"] += 1
        stats["ops"] += h - 10
    return [ln.rstrip() for ln in lines], stats
