"""Stream `table`: executes case specifications (an array, then exports / imports in a chosen layout
with chosen faults) on the real flodym + pandas, serialises every DataFrame that is handed to
`from_df` / `set_values_from_df` (or returned by `to_df`) into a protocol line for the Lean model,
and records the implementation's observation for every line. Ground truth for the oracle travels in
`note` lines."""
import io
import math
import os
import random
import sys
from fractions import Fraction

from proto import REPO, fmt_num, fmt_arr

sys.path.insert(0, REPO)
import numpy as np  # noqa: E402
import pandas as pd  # noqa: E402
import flodym  # noqa: E402
from flodym import Dimension, DimensionSet, FlodymArray  # noqa: E402

import impl_array  # noqa: E402
import logging  # noqa: E402

logging.disable(logging.WARNING)      # flodym announces every refused import on the root logger


def tcell(x):
    if x is None:
        return "n"
    if isinstance(x, (bool, np.bool_)):
        return "s" + str(x)
    if isinstance(x, (int, np.integer)):
        return f"i{int(x)}"
    if isinstance(x, (float, np.floating)):
        if math.isnan(x):
            return "n"
        if math.isinf(x):
            return "s" + str(x)
        f = Fraction(float(x))
        return "f" + (str(f.numerator) if f.denominator == 1 else f"{f.numerator}/{f.denominator}")
    if isinstance(x, str):
        return "s" + x.replace(" ", "~")
    if x is pd.NA or (isinstance(x, float) and math.isnan(x)):
        return "n"
    return "s<" + type(x).__name__ + ">"


def ser_df(df):
    """`K kind C n cells R m cells`; index levels become leading columns"""
    idx = df.index
    if isinstance(idx, pd.MultiIndex):
        kind = f"N{idx.nlevels}"
        lead_names = list(idx.names)
        lead = [list(idx.get_level_values(i)) for i in range(idx.nlevels)]
    elif idx.name is not None:
        kind, lead_names, lead = "N1", [idx.name], [list(idx)]
    elif isinstance(idx, pd.RangeIndex) and idx.start == 0 and idx.step == 1:
        kind, lead_names, lead = "R", [], []
    else:
        kind, lead_names, lead = ("U" if idx.dtype == np.int64 else "V"), [None], [list(idx)]
    cols = lead_names + list(df.columns)
    m = len(df)
    body = [[v.item() if hasattr(v, "item") else v for v in df.iloc[:, j].tolist()] for j in range(df.shape[1])]
    allcols = lead + body
    cells = []
    for i in range(m):
        for c in allcols:
            cells.append(tcell(c[i]))
    return f"K {kind} C {len(cols)} " + " ".join(tcell(c) for c in cols) + f" R {m} " + " ".join(cells)


def build_layout(arr, dims, lay):
    """the DataFrame of `arr` in the layout `lay` (no faults yet); returns df"""
    rnd = random.Random(lay["seed"])
    wide = lay.get("wide")
    df = arr.to_df(index=False, dim_to_columns=wide, sparse=False)
    names = [d.name for d in dims.dim_list]
    idcols = [n for n in names if wide is None or n != dims[wide].name]
    # single-item dimensions may be left out
    if lay.get("drop_single"):
        for d in dims.dim_list:
            if len(d.items) == 1 and d.name in idcols and len(idcols) > 1:
                df = df.drop(columns=[d.name]); idcols.remove(d.name)
    # a different name for the value column (long form only)
    if wide is None and lay.get("value_name"):
        df = df.rename(columns={"value": lay["value_name"]})
    # headers: names, letters, or nothing but the items
    ren = {}
    for k, n in enumerate(list(idcols)):
        h = lay["header"].get(n, "name")
        if h == "letter":
            ren[n] = dims[n].letter
        elif h == "none":
            ren[n] = f"c{k}"
    df = df.rename(columns=ren)
    iddims = list(idcols)
    idcols = [ren.get(n, n) for n in idcols]
    df.columns.name = None
    # permutations of rows and columns
    if lay.get("perm_rows"):
        order = list(range(len(df))); rnd.shuffle(order)
        df = df.iloc[order]
        if lay.get("keep_index"):
            pass
        else:
            df = df.reset_index(drop=True)
    if lay.get("perm_cols"):
        cols = list(df.columns); rnd.shuffle(cols)
        df = df[cols]
    if lay.get("value_first"):
        df = df[[c for c in df.columns if c not in idcols] + [c for c in df.columns if c in idcols]]
    return df, idcols, iddims


def item_tok(x):
    return ("i" + str(int(x))) if isinstance(x, (int, np.integer)) else "s" + str(x).replace(" ", "~")


def apply_faults(df, idcols, iddims, faults, dims, wide):
    """returns the faulty frame and the (partial) labels whose entries the fault touches"""
    affected = []

    def labels_of(i, vc=None):
        lab = {dn: item_tok(df[c].iloc[i]) for c, dn in zip(idcols, iddims)}
        if wide is not None and vc is not None:
            lab[dims[wide].name] = item_tok(vc)
        return lab

    for f in faults:
        kind = f["kind"]
        if len(df) == 0:
            f["kind"] = "none"
            continue
        i = f.get("pos", 0) % len(df)
        df = df.reset_index(drop=True)
        if kind == "drop_row":
            affected.append(labels_of(i))
            df = df.drop(df.index[i]).reset_index(drop=True)
        elif kind == "dup_row":
            df = pd.concat([df, df.iloc[[i]]]).reset_index(drop=True)
            if f.get("change_value"):
                vc = [c for c in df.columns if c not in idcols][0]
                df.loc[len(df) - 1, vc] = 987.5
        elif kind == "dup_and_drop":
            # one label combination twice, another one missing: the row count is that of a complete table
            if len(df) < 2:
                f["kind"] = "none"
                continue
            j = (i + 1 + f.get("col", 0)) % len(df)
            if j == i:
                j = (i + 1) % len(df)
            df = pd.concat([df, df.iloc[[i]]]).reset_index(drop=True)
            if f.get("change_value"):
                vc = [c for c in df.columns if c not in idcols][0]
                df.loc[len(df) - 1, vc] = 987.5
            df = df.drop(df.index[j]).reset_index(drop=True)
        elif kind == "relabel":
            c = idcols[f.get("col", 0) % len(idcols)]
            affected.append(labels_of(i))
            old = df.loc[i, c]
            new = 9999 if isinstance(old, (int, np.integer)) else "zz_unknown"
            if f.get("frac") and isinstance(old, (int, np.integer)):
                new = float(old) + 0.75
            df[c] = df[c].astype(object)
            df.loc[i, c] = new
        elif kind == "blank":
            vcs = [c for c in df.columns if c not in idcols]
            vc = vcs[f.get("col", 0) % len(vcs)]
            affected.append(labels_of(i, vc))
            df.loc[i, vc] = np.nan
        elif kind == "drop_col":
            k = f.get("col", 0) % len(idcols)
            df = df.drop(columns=[idcols[k]])
            f["dropped_dim"] = iddims[k]
            idcols = idcols[:k] + idcols[k + 1:]
            iddims = iddims[:k] + iddims[k + 1:]
        elif kind == "extra_valcol":
            df = df.copy()
            df["other_value"] = 1.5
        elif kind == "extra_textcol":
            df = df.copy()
            df["unit"] = "t"          # an annotation column: a second value column that matches no dimension
    return df, idcols, iddims, affected


def to_index(df, idcols, lay, rnd, info):
    """dimensions in the index instead of columns"""
    how = lay.get("index")
    if how == "multi" and idcols:
        cols = list(idcols)
        if lay.get("perm_cols"):
            rnd.shuffle(cols)
        df = df.set_index(cols)
        info["indexed"] = True
    elif how == "unnamed" and idcols:
        k = lay.get("index_col", 0) % len(idcols)
        c = idcols[k]
        df = df.set_index(c)
        df.index.name = None
        info["unnamed_col"] = k
        info["indexed"] = True
    return df


def csv_roundtrip(df, lay, info):
    # the index is written only when it carries a dimension; leftover row numbers are not data
    keep_index = bool(info.get("indexed"))
    text = df.to_csv(index=keep_index)
    back = pd.read_csv(io.StringIO(text), float_precision="round_trip")   # pandas' default float parser may be off by one ulp
    return back


def run_case(spec, lines, out):
    def emit(line, obs):
        lines.append(line.rstrip())
        out.append(obs.rstrip())

    impl = impl_array.Impl()

    def do(line):
        emit(line, impl.exec(line))

    emit(f"case {spec['id']} table", f"case {spec['id']} table")
    for k, d in enumerate(spec["dims"]):
        do(f"dim ${k} {d}")
    nd = len(spec["dims"])
    do("dset $100 " + " ".join(f"${k}" for k in range(nd)))
    try:
        dims = impl.get("$100", DimensionSet)
    except Exception:
        return
    do(f"arr $300 $100 {','.join(str(n) for n in dims.shape) if dims.shape else '-'} " + " ".join(spec["values"]))
    try:
        arr = impl.get("$300", FlodymArray)
    except Exception:
        return
    if spec["id"] % 2 == 1 and arr.values.ndim >= 2:
        arr.values = np.asfortranarray(arr.values)        # same entries, another memory order
    # an infinite value survives export and import (the table model has no infinity: harness-level observation)
    if arr.values.size > 0 and arr.values.ndim >= 1:
        try:
            a2 = arr.copy()
            a2.values.flat[0] = np.inf
            back = FlodymArray.from_df(dims, a2.to_df(), allow_missing_values=bool(spec["id"] % 2))
            same = np.array_equal(back.values, a2.values)
        except Exception:
            same = False
        emit("note infinite_value_round_trip", "ok" if same else "CHANGED")
    if spec["id"] % 10 == 0:
        # an array without dimensions: data with an empty value, or with two rows for its one entry, is refused
        # under the default flags, and a refused set_values_from_df leaves the array as it was (harness-level)
        verdict = "ok"
        for frame in (pd.DataFrame({"value": [np.nan]}), pd.DataFrame({"value": [1.0, 2.0]})):
            try:
                FlodymArray.from_df(DimensionSet(dim_list=[]), frame)
                verdict = "ACCEPTED"
            except Exception:
                pass
            z = FlodymArray(dims=DimensionSet(dim_list=[]), values=np.array(7.0))
            try:
                z.set_values_from_df(frame)
                verdict = "ACCEPTED"
            except Exception:
                if not (isinstance(z.values, np.ndarray) and z.values.shape == () and float(z.values) == 7.0):
                    verdict = "ALTERED"
        emit("note zero_dim_import_refuses_faulty_data", verdict)
    nxt = 301
    for op in spec["ops"]:
        if op["op"] == "todf":
            col = op.get("col") or "-"
            line = f"todf $300 {int(op['index'])} {col} {int(op['sparse'])}"
            try:
                before = np.array(arr.values, copy=True)
                df = arr.to_df(index=op["index"], dim_to_columns=op.get("col"), sparse=op["sparse"])
                emit(line, "ok " + ser_df(df))
                same = np.array_equal(before, arr.values)
                # an array holding NaN (missing data) is exported too: it keeps its NaN (harness-level: no NaN in the model)
                if arr.values.size > 0:
                    a3 = arr.copy()
                    a3.values.flat[arr.values.size - 1] = np.nan
                    keep = np.array(a3.values, copy=True)
                    try:
                        a3.to_df(index=op["index"], dim_to_columns=op.get("col"), sparse=op["sparse"])
                    except Exception:
                        pass
                    same = same and np.array_equal(keep, a3.values, equal_nan=True)
                emit("note export_leaves_array_unchanged", "ok" if same else "CHANGED")
            except Exception:
                emit(line, "err")
            continue
        # ---- import
        lay = op["layout"]
        rnd = random.Random(lay["seed"] + 1)
        try:
            info = {}
            df, idcols, iddims = build_layout(arr, dims, lay)
            df, idcols, iddims, affected = apply_faults(df, idcols, iddims, op.get("faults", []), dims, lay.get("wide"))
            valcols = [c for c in df.columns if c not in idcols]
            if lay.get("dup_labels") and lay.get("index") == "none" and len(df) > 1:
                # row labels that repeat (as after pd.concat without ignore_index): they carry no meaning
                df.index = [i // 2 for i in range(len(df))]
            df = to_index(df, idcols, lay, rnd, info)
            if lay.get("csv"):
                df = csv_roundtrip(df, lay, info)
            via = lay.get("via") if (lay.get("index") == "none" and not lay.get("csv") and op.get("target") != "existing") else None
            if via == "xlsxreader" and np.any((np.abs(arr.values) < 1e-6) & (arr.values != 0)):
                via = "csvreader"        # a sheet keeps 15-16 significant digits: 2^-30 does not survive it exactly
                lay = dict(lay); lay["via"] = via          # the `note layout` line tells the oracle what was really done
            reader = None
            if via:
                # through the parameter readers: the file is written here, read by the reader; the model
                # sees the frame a plain pandas read of that file gives
                import tempfile
                from flodym.data_reader import CSVParameterReader, ExcelParameterReader
                tmpd = tempfile.mkdtemp(prefix="flodym_verif_table_")
                df = df.reset_index(drop=True)
                if via == "csvreader":
                    path = os.path.join(tmpd, "p.csv")
                    df.to_csv(path, index=False)
                    df = pd.read_csv(path, float_precision="round_trip")
                    reader = CSVParameterReader({"p": path}, allow_missing_values=bool(op["miss"]), allow_extra_values=bool(op["extra"]),
                                                float_precision="round_trip")
                else:
                    path = os.path.join(tmpd, "p.xlsx")
                    df.to_excel(path, index=False)
                    df = pd.read_excel(path)
                    reader = ExcelParameterReader({"p": path}, allow_missing_values=bool(op["miss"]), allow_extra_values=bool(op["extra"]))
            ser = ser_df(df)
        except Exception as e:          # the harness could not build this layout: skip the op
            emit(f"note skipped {type(e).__name__}", "ok")
            continue
        m, e = int(op["miss"]), int(op["extra"])
        # dimensions the converter can only find through their items
        items_only = [dn for c, dn in zip(idcols, iddims) if c != dn and c != dims[dn].letter]
        if "unnamed_col" in info and iddims[info["unnamed_col"]] not in items_only:
            items_only.append(iddims[info["unnamed_col"]])
        emit("note layout " + " ".join(f"{k}={v}" for k, v in sorted(lay.items()) if k not in ("header", "seed"))
             + " header=" + ",".join(f"{k}:{v}" for k, v in sorted(lay["header"].items()))
             + " faults=" + ",".join(f["kind"] + (":" + f["dropped_dim"] if "dropped_dim" in f else "") for f in op.get("faults", []))
             + " present=" + ",".join(iddims) + " itemsonly=" + ",".join(items_only)
             + " affected=" + ";".join((",".join(f"{k}:{v}" for k, v in a.items()) or "*") for a in affected), "ok")
        before = df.copy(deep=True)
        if op.get("target") == "existing":
            h = f"${nxt}"; nxt += 1
            do(f"full {h} $100 7")
            line = f"setdf {h} {m} {e} {ser}"
            try:
                tgt = impl.get(h, FlodymArray)
                tgt.set_values_from_df(df, allow_missing_values=bool(m), allow_extra_values=bool(e))
                emit(line, "ok " + fmt_arr(tgt))
            except Exception:
                emit(line, "err")
            do("dumpall")
        else:
            h = f"${nxt}"; nxt += 1
            line = f"fromdf {h} $100 {m} {e} {ser}"
            try:
                if reader is not None:
                    res = reader.read_parameter_values("p", dims)
                else:
                    res = FlodymArray.from_df(dims, df, allow_missing_values=bool(m), allow_extra_values=bool(e))
                impl.objs[impl.h(h)] = res
                emit(line, "ok " + fmt_arr(res))
            except Exception:
                emit(line, "err")
        # the frame handed in is left as it was
        same = before.equals(df) and list(before.columns) == list(df.columns) and before.index.equals(df.index)
        emit("note input_unchanged", "ok" if same else "CHANGED")
        if reader is not None:
            import shutil
            shutil.rmtree(tmpd, ignore_errors=True)


def run(specs):
    lines, out = [], []
    for spec in specs:
        run_case(spec, lines, out)
    return lines, out
