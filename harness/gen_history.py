"""Generator for stream `history`: random sequences of public constructors, operators, assignments,
slicings, conversions and deliberately ill-formed calls over a store of arrays, with a dump of
every live array after every step and write-through probes on returned arrays."""
from fractions import Fraction

from gen_array import UNIVERSE, LENS, NAMES, HANDLE, fnum
from proto import rng

LET = "abcde"
SUB = {"a": ("A", "D:A:aasub:i:i2001,i2000"), "b": ("B", "D:B:bbsub:s:sy"), "d": ("G", "D:G:ddsub:s:sw,su")}


def gen_history(tier, seed):
    r = rng(seed, "history")
    ncases, maxops = (250, 12) if tier == "quick" else (2500, 40)
    lines = []
    stats = {"cases": 0, "ops": {}, "probes": 0}

    def cnt(k):
        stats["ops"][k] = stats["ops"].get(k, 0) + 1

    for n in range(ncases):
        lines.append(f"case {n} history")
        for l in LET:
            lines.append(f"dim ${HANDLE[l]} {UNIVERSE[l]}")
        lines.append("dim $5 D:z:zz:s:sk,sl")                 # extra dimension for dims probes
        lines.append("dim $6 D:a:a2:i:i1,i2,i3")              # same letter as a, other items (3)
        lines.append("dim $7 D:t:time:i:i2000,i2001,i2002")
        lines.append("dim $8 D:t:time:i:i2000,i2001,i2002,i2003")
        lines.append("dim $9 D:t:time:i:i2010,i2011,i2012")   # same name, letter and length as $7, other items
        for k, (l, (sl, tok)) in enumerate(SUB.items()):
            lines.append(f"dim ${90 + k} {tok}")
        subh = {l: 90 + k for k, l in enumerate(SUB)}
        dsets, arrs = {}, {}     # handle -> letters
        nxt = [100, 300]

        def new_dset(ls):
            h = nxt[0]; nxt[0] += 1
            lines.append((f"dset ${h} " + " ".join(f"${HANDLE[l]}" for l in ls)).rstrip())
            dsets[h] = list(ls)
            return h

        def size(ls):
            s = 1
            for l in ls:
                s *= LENS[l]
            return s

        def shape(ls):
            return "-" if not ls else ",".join(str(LENS[l]) for l in ls)

        def vals(k, nonzero=False):
            out = []
            for _ in range(k):
                v = Fraction(r.randint(-9, 9), r.choice([1, 2]))
                if nonzero and v == 0:
                    v = Fraction(1)
                out.append(fnum(v))
            return " ".join(out)

        def new_arr(ls, bad_shape=False):
            d = new_dset(ls)
            h = nxt[1]; nxt[1] += 1
            ctor = "arr" if r.random() < 0.6 else f"sarr {r.choice(['param', 'stock', 'flow'])}"   # base class or a subclass
            if bad_shape and not ls:
                # an array without dimensions holds one number of shape (): (1,) and (1, 1) are other shapes
                lines.append(f"{ctor} ${h} ${d} {r.choice(['1', '1,1'])} {vals(1)}")
            elif bad_shape:
                wrong = list(ls)[::-1] + ["e"]
                lines.append(f"{ctor} ${h} ${d} {shape(wrong)} {vals(size(wrong))}".rstrip())
            else:
                lines.append(f"{ctor} ${h} ${d} {shape(ls)} {vals(size(ls), nonzero=True)}".rstrip())
                arrs[h] = list(ls)
            lines.append("dumpall")
            return h

        for _ in range(2):
            new_arr(r.sample("abcd", r.randint(0, 3)))
        for _ in range(r.randint(3, maxops)):
            roll = r.random()
            a = r.choice(list(arrs))
            la = arrs[a]
            h = nxt[1]
            result_fresh = None
            if roll < 0.08:
                new_arr(r.sample("abcd", r.randint(0, 3)), bad_shape=r.random() < 0.3); cnt("arr"); continue
            elif roll < 0.30:
                b = r.choice(list(arrs))
                op = r.choice(["add", "sub", "mul", "div", "min", "max"])
                lines.append(f"{op} ${h} ${a} " + (f"${b}" if r.random() < 0.8 else f"n:{r.randint(1, 3)}"))
                cnt(op); result_fresh = h
            elif roll < 0.36:
                op = r.choice(["neg", "abs", "absm", "copy", "sign", "absi", "signi", "radd0"])
                if op in ("absi", "signi"):
                    # in place on one array; later out-of-place calls must not touch it
                    lines.append(f"{op} ${a}"); cnt(op)
                    lines.append("dumpall")
                    # an out-of-place call of the same kind on another array of the same shape
                    lines.append(f"mul ${h} ${a} n:3"); lines.append("dumpall")
                    lines.append(f"{'absm' if op == 'absi' else 'sign'} ${h + 1} ${h}"); lines.append("dumpall")
                    nxt[1] += 2
                    continue
                if op == "radd0":
                    lines.append(f"radd ${h} ${a} n:0"); cnt(op); result_fresh = h
                else:
                    lines.append(f"{op} ${h} ${a}"); cnt(op); result_fresh = h
            elif roll < 0.46:
                keep = r.sample(la, r.randint(0, len(la))) if r.random() < 0.8 else [r.choice("abcde")]
                op = r.choice(["sumto", "sumover"])
                lines.append((f"{op} ${h} ${a} " + " ".join(f"k:{l}" for l in keep)).rstrip()); cnt(op)
            elif roll < 0.54:
                tg = r.sample("abcd", r.randint(0, 4))
                if "a" in la and r.random() < 0.25:
                    # a target that has the letter a with another number of items ($6): not the array's dimension
                    d = nxt[0]; nxt[0] += 1
                    rest_ = [l for l in tg if l != "a"] + [l for l in la if l not in tg and l != "a"]
                    lines.append((f"dset ${d} $6 " + " ".join(f"${HANDLE[l]}" for l in rest_)).rstrip())
                    cnt("castto_same_letter_other_items")
                else:
                    d = new_dset(tg)
                lines.append(f"castto ${h} ${a} ${d}"); cnt("castto"); result_fresh = h
            elif roll < 0.58:
                lines.append(f"cumsum ${h} ${a} {r.choice(la + ['e']) if la else 'a'}"); cnt("cumsum"); result_fresh = h
            elif roll < 0.70:
                # slice read
                kv = []
                for l in la:
                    k = r.random()
                    if k < 0.3:
                        kv.append(f"{l}=i:{UNIVERSE[l].split(':')[4].split(',')[r.randrange(LENS[l])]}")
                    elif k < 0.45 and l in SUB:
                        kv.append(f"{l}=d:${subh[l]}")
                    elif k < 0.5:
                        kv.append(f"{l}=i:snope")
                if r.random() < 0.1:
                    kv.insert(r.randint(0, len(kv)), "z=i:sk")      # a dimension the array does not have: refused
                lines.append(f"getitem ${h} ${a} K:{';'.join(kv)}"); cnt("getitem"); result_fresh = h
            elif roll < 0.86:
                # assignment into a
                kv = []
                for l in la:
                    k = r.random()
                    if k < 0.3:
                        kv.append(f"{l}=i:{UNIVERSE[l].split(':')[4].split(',')[r.randrange(LENS[l])]}")
                    elif k < 0.4:
                        kv.append(f"{l}=i:snope")
                if r.random() < 0.1:
                    kv.insert(r.randint(0, len(kv)), "z=i:sk")      # a dimension the array does not have: refused
                if r.random() < 0.15:
                    # whole-array assignment from an array over the same dimensions; later writes into the
                    # source must not show in the target
                    lines.append(f"copy ${h} ${a}"); lines.append("dumpall")
                    lines.append(f"mul ${h + 1} ${h} n:2"); lines.append("dumpall")
                    lines.append(f"setitem ${a} E ${h + 1}"); cnt("setitem"); lines.append("dumpall")
                    lines.append(f"probe_write ${h + 1} 0 {r.randint(50, 99)}"); stats["probes"] += 1
                    lines.append("dumpall")
                    nxt[1] += 2
                    continue
                key = "K:" + ";".join(kv) if (kv or r.random() < 0.5) else "E"
                kind = r.random()
                if kind < 0.35:
                    rhs = f"n:{fnum(Fraction(r.randint(-9, 9), 2))}"
                elif kind < 0.75:
                    rhs = f"${r.choice(list(arrs))}"
                elif kind < 0.9:
                    rhs = f"nd:{shape(la)}:{vals(size(la)).replace(' ', ',')}"
                else:
                    wrong = la[::-1] + ["e"]
                    rhs = f"nd:{shape(wrong)}:{vals(size(wrong)).replace(' ', ',')}"
                lines.append(f"setitem ${a} {key} {rhs}"); cnt("setitem")
                lines.append("dumpall")
                continue
            elif roll < 0.92:
                k = r.random()
                verb = r.choice(["setvalues ${a}", "setitem ${a} E", "setitem ${a} K:", "setitem ${a} T:"]).replace("${a}", f"${a}")
                if k < 0.35:
                    lines.append(f"{verb} nd:{shape(la)}:{vals(size(la)).replace(' ', ',')}")
                elif k < 0.5:
                    wrong = la[::-1] + ["e"]
                    lines.append(f"{verb} nd:{shape(wrong)}:{vals(size(wrong)).replace(' ', ',')}")
                elif k < 0.85:
                    # shapes numpy would happily broadcast: a size-1 axis, fewer leading axes, a 0-d array
                    lens = [LENS[l] for l in la]
                    variant = r.choice(["one", "drop", "scalar"])
                    if variant == "one" and lens:
                        i = r.randrange(len(lens)); lens[i] = 1
                    elif variant == "drop" and lens:
                        lens = lens[r.randint(1, len(lens)):]
                    elif not lens:
                        lens = r.choice([[1], [1, 1]])        # one number, but not of shape ()
                    else:
                        lens = []
                    cnt_ = 1
                    for x in lens:
                        cnt_ *= x
                    st_ = "-" if not lens else ",".join(map(str, lens))
                    lines.append(f"{verb} nd:{st_}:{vals(cnt_).replace(' ', ',')}")
                else:
                    # set_values handed a FlodymArray instead of an ndarray: refused, nothing changes
                    lines.append(f"setvalues ${a} ${r.choice(list(arrs))}")
                cnt("setvalues")
                lines.append("dumpall")
                continue
            elif roll < 0.935:
                # full / full_like filled from an ndarray of the complete shape: the new array is a
                # constant of its own (neither follows the ndarray nor leads it)
                vh = nxt[1]; nxt[1] += 1
                bad = r.random() < 0.15
                shp = la + ["e"] if bad else la
                lines.append(f"nd ${vh} {shape(shp)} {vals(size(shp))}")
                hr = nxt[1]; nxt[1] += 1
                if r.random() < 0.5:
                    lines.append(f"fulllike ${hr} ${a} ${vh}")
                else:
                    lines.append(f"fullnd ${hr} ${new_dset(la)} ${vh}")
                cnt("full_from_ndarray")
                lines.append("dumpall")
                lines.append(f"ndwrite ${vh} {r.randrange(max(1, size(shp)))} 77")
                lines.append("dumpall")
                lines.append(f"probe_write ${hr} 0 55")
                lines.append("dumpall")
                lines.append(f"ndwrite ${vh} {max(0, size(shp) - 1)} 66")     # shows the whole ndarray again
                if not bad:
                    arrs[hr] = list(la)
                continue
            elif roll < 0.96:
                # stocks and lifetime models built from existing arrays / dimension sets
                tl = r.choice(["t", "t", "a"])
                base = r.choice([[7, 1], [7], [1, 7], [8, 1], [0, 1]])
                other = r.choice([[7, 1], [8, 1], [1, 7], [7], [7, 1], [9, 1], [9]])
                how = r.random()
                if r.random() < 0.35:
                    # other dimensions whose lengths happen to fit: labels decide, not shapes
                    base, other = r.choice([([7, 1], [9, 1]), ([7], [9]), ([7, 1], [7, 0]), ([9, 1], [7, 1])])
                hb = nxt[0]; nxt[0] += 1
                lines.append(f"dset ${hb} " + " ".join(f"${x}" for x in base))
                ho = nxt[0]; nxt[0] += 1
                lines.append(f"dset ${ho} " + " ".join(f"${x}" for x in other))
                ha = nxt[1]; nxt[1] += 1
                if how < 0.6:
                    lines.append(f"full ${ha} ${ho} 1")
                    ref = f"a:${ha}"                       # wrapped into a StockArray over its own dimensions
                else:
                    # handed over as the object it is: a StockArray, or a Parameter / Flow / plain array
                    kind = r.choice(["stock", "param", "flow", "plain"])
                    sz = 1
                    for x in other:
                        sz *= {0: 2, 1: 2, 7: 3, 8: 4, 9: 3}[x]
                    shp = ",".join(str({0: 2, 1: 2, 7: 3, 8: 4, 9: 3}[x]) for x in other)
                    ctor = "arr" if kind == "plain" else f"sarr {kind}"
                    lines.append(f"{ctor} ${ha} ${ho} {shp} " + " ".join(["1"] * sz))
                    ref = f"p:{'stock' if kind == 'stock' else 'other'}:${ha}"
                    cnt("mkstock_object_as_is")
                if r.random() < 0.5:
                    lines.append(f"mkstock ${hb} {tl} {ref}")
                else:
                    lines.append(f"mkstock ${hb} {tl} {ref} l:${ho}")
                lines.append(f"mklt ${ho} {tl} {r.choice(['start', 'middle', 'end', 'centre'])}")
                # a lifetime parameter given as an array: over dimensions of the model (any order), or over
                # foreign ones that happen to have the same lengths
                pd_ = r.choice([[7, 1], [1, 7], [7], [1], [7, 4], [4, 7], [7, 4], [0, 1]])
                hp = nxt[0]; nxt[0] += 1
                lines.append(f"dset ${hp} " + " ".join(f"${x}" for x in pd_))
                hpa = nxt[1]; nxt[1] += 1
                lines.append(f"full ${hpa} ${hp} 4")
                lines.append(f"mkltp ${hb} {tl} middle ${hpa}")
                cnt("mkstock")
                lines.append("dumpall")
                continue
            else:
                xs = r.sample(list(arrs), min(len(arrs), 2))
                lines.append(f"stack ${h} $4 " + " ".join(f"${x}" for x in xs)); cnt("stack"); result_fresh = h
            nxt[1] += 1
            lines.append("dumpall")
            # the model's store follows: register the result optimistically (a failed op leaves
            # no object; later uses of the handle then fail on both sides alike)
            if result_fresh is not None:
                arrs_guess = True
                # write-through probes on the returned array: nothing else may change
                if r.random() < 0.6:
                    lines.append(f"probe_write ${h} 0 {r.randint(50, 99)}"); stats["probes"] += 1
                    lines.append("dumpall")
                if r.random() < 0.25:
                    lines.append(f"probe_dims ${h} $5"); stats["probes"] += 1
                    lines.append("dumpall")
        stats["cases"] += 1
    return [ln.rstrip() for ln in lines], stats
