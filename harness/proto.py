"""Shared pieces of the correspondence harness: PRNG, token formats, driver invocation, diffing.

Every random choice comes from one `random.Random(seed)`; the seed is VERIF_SEED.
"""
import os
import random
import subprocess
import sys
from fractions import Fraction

HERE = os.path.dirname(os.path.abspath(__file__))
VERIF = os.path.dirname(HERE)
LEAN_DIR = os.path.join(VERIF, "lean")
DRIVER = os.path.join(LEAN_DIR, ".lake", "build", "bin", "fdriver")
REPO = os.environ.get("VERIF_REPO", "/repo")


def seed_from_env():
    try:
        return int(os.environ.get("VERIF_SEED", "0"))
    except ValueError:
        return 0


def rng(seed, stream):
    return random.Random(f"{seed}/{stream}")


# ---------------------------------------------------------------------------- tokens
def fmt_num(x):
    """exact token for a Python/numpy number (floats are dyadic rationals)"""
    import math
    if isinstance(x, Fraction):
        f = x
    else:
        xf = float(x)
        if math.isnan(xf):
            return "nan"
        if math.isinf(xf):
            return "inf" if xf > 0 else "-inf"
        f = Fraction(xf)
    return str(f.numerator) if f.denominator == 1 else f"{f.numerator}/{f.denominator}"


def fmt_item(it):
    import numpy as np
    if isinstance(it, (bool, np.bool_)):
        return f"b{it}"
    if isinstance(it, (int, np.integer)):
        return f"i{int(it)}"
    if isinstance(it, str):
        return f"s{it}"
    if isinstance(it, (float, np.floating)):
        return f"f{fmt_num(it)}"
    return f"?{type(it).__name__}"


def fmt_dim(d):
    if d.dtype is float:
        # items that are not whole numbers (half years): labels only, shown as texts of their exact value
        return f"D:{d.letter}:{d.name}:n:{','.join('sH' + fmt_num(float(i)) for i in d.items)}"
    ty = {int: "i", str: "s", None: "n"}.get(d.dtype, "?")
    return f"D:{d.letter}:{d.name}:{ty}:{','.join(fmt_item(i) for i in d.items)}"


def fmt_dimset(ds):
    return "[" + " ".join(fmt_dim(d) for d in ds.dim_list) + "]"


def fmt_shape(sh):
    return "-" if len(sh) == 0 else ",".join(str(int(n)) for n in sh)


def fmt_nd(v):
    import numpy as np
    v = np.asarray(v)
    return f"{fmt_shape(v.shape)} | {' '.join(fmt_num(x) for x in v.flatten())}"


def fmt_arr(a):
    return f"A {fmt_dimset(a.dims)} {fmt_nd(a.values)}"


# ---------------------------------------------------------------------------- driver
def run_driver(lines, timeout=600):
    """pipe protocol lines to the compiled Lean driver, return its output lines"""
    if not os.path.exists(DRIVER):
        raise RuntimeError(f"driver not built: {DRIVER}")
    data = "\n".join(lines) + "\n"
    p = subprocess.run([DRIVER], input=data.encode(), stdout=subprocess.PIPE, stderr=subprocess.PIPE,
                       timeout=timeout)
    if p.returncode != 0:
        raise RuntimeError(f"driver failed rc={p.returncode}: {p.stderr.decode()[:500]}")
    out = p.stdout.decode().split("\n")
    if out and out[-1] == "":
        out.pop()
    return out


# ---------------------------------------------------------------------------- comparison
def parse_num(tok):
    if tok in ("nan", "inf", "-inf"):
        return tok
    try:
        if "/" in tok:
            a, b = tok.split("/")
            return Fraction(int(a), int(b))
        return Fraction(int(tok))
    except (ValueError, ZeroDivisionError):
        return None


REL_TOL = Fraction(1, 10**9)
# absolute tolerance: 0 for the array streams (inputs are dyadic rationals, results are compared
# relatively, exact zeros compare equal); streams with longer float computations pass their own
ABS_TOL = Fraction(0)


def tokens_equal(a, b, abs_tol=None):
    if a == b:
        return True
    na, nb = parse_num(a), parse_num(b)
    if na is None or nb is None or isinstance(na, str) or isinstance(nb, str):
        return False
    d = abs(na - nb)
    return d <= (ABS_TOL if abs_tol is None else abs_tol) or d <= REL_TOL * max(abs(na), abs(nb))


def lines_equal(a, b, abs_tol=None):
    if a == b:
        return True
    ta, tb = a.split(" "), b.split(" ")
    if len(ta) != len(tb):
        return False
    return all(tokens_equal(x, y, abs_tol) for x, y in zip(ta, tb))


def split_cases(lines):
    """group protocol lines into cases (each starts with a `case` line)"""
    cases, cur = [], None
    for ln in lines:
        if ln.startswith("case "):
            if cur is not None:
                cases.append(cur)
            cur = [ln]
        else:
            if cur is None:
                cur = []
            cur.append(ln)
    if cur:
        cases.append(cur)
    return cases


def diff_streams(lines, impl_out, model_out, abs_tol=None):
    """returns list of (case_index, line_index_in_case, line, impl, model) for the first
    disagreement of every disagreeing case"""
    assert len(lines) == len(impl_out), (len(lines), len(impl_out))
    if len(model_out) != len(lines):
        raise RuntimeError(f"driver answered {len(model_out)} lines for {len(lines)} inputs")
    bad = []
    ci, start = -1, 0
    seen_bad_case = set()
    for i, ln in enumerate(lines):
        if ln.startswith("case "):
            ci += 1
            start = i
        if ci in seen_bad_case:
            continue
        if not lines_equal(impl_out[i], model_out[i], abs_tol):
            seen_bad_case.add(ci)
            bad.append({"case": ci, "offset": i - start, "line": ln, "impl": impl_out[i],
                        "model": model_out[i], "start": start})
    return bad
