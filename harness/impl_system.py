"""Stream `system`: builds MFASystem objects from protocol lines and observes the mass balance,
the default tolerance, check_mass_balance and check_flows (outcome, and the names mentioned in
WARNING records)."""
import logging
import re
import sys

from proto import REPO, fmt_dimset, fmt_num, fmt_shape

sys.path.insert(0, REPO)
import numpy as np  # noqa: E402
import flodym  # noqa: E402
from flodym import Dimension, DimensionSet, Flow, MFASystem, Process, StockArray  # noqa: E402
from flodym.stocks import SimpleFlowDrivenStock  # noqa: E402
from flodym.mfa_definition import StockDefinition  # noqa: E402
from flodym.stock_helper import make_empty_stocks  # noqa: E402

import impl_array  # noqa: E402


def fv(tok):
    return float("nan") if tok == "nan" else impl_array.num(tok)


def fmt_fv_arr(a):
    vals = " ".join(fmt_num(x) for x in np.asarray(a.values, dtype=float).flatten())
    return f"A {fmt_dimset(a.dims)} {fmt_shape(a.values.shape)} | {vals}"


class Capture(logging.Handler):
    def __init__(self):
        super().__init__(level=logging.WARNING)
        self.records = []

    def emit(self, record):
        self.records.append(record.getMessage())


class Impl(impl_array.Impl):
    def __init__(self):
        super().__init__()
        self.case_odd = False
        self.reset_sys()

    def reset_sys(self):
        self.procs, self.flows, self.stocks = [], [], []
        self._built = None

    def build(self):
        """odd cases: one system object serves every query of the case (checks must leave the system as
        it is); even cases: a fresh object per query"""
        if self.case_odd and self._built is not None:
            return self._built
        self._built = self._build()
        return self._built

    def _build(self):
        processes = {n: Process(name=n, id=i) for i, n in enumerate(self.procs)}
        alld = {}
        for _, _, _, dims, _ in self.flows:
            for d in dims.dim_list:
                alld[d.letter] = d
        for _, _, dims, *_ in self.stocks:
            for d in dims.dim_list:
                alld[d.letter] = d
        dims_all = DimensionSet(dim_list=list(alld.values()))
        flows = {}
        for name, fp, tp, dims, vals in self.flows:
            flows[name] = Flow(name=name, from_process=processes[fp], to_process=processes[tp], dims=dims,
                               values=np.array(vals, dtype=float).reshape(dims.shape))
        stocks = {}
        for name, proc, dims, sv, iv, ov in self.stocks:
            mk = lambda v: StockArray(dims=dims, values=np.array(v, dtype=float).reshape(dims.shape))  # noqa: E731
            if len(stocks) % 3 == 1 and len(set(dims.letters)) == len(dims.letters):
                # the way a user's model gets its stocks: from a definition (either spelling of the
                # process keyword), values filled in afterwards
                kw = {("process_name" if len(stocks) % 2 else "process"): None if proc == "-" else proc}
                sd = StockDefinition(name=name, dim_letters=tuple(dims.letters), time_letter=dims.letters[0],
                                     subclass=SimpleFlowDrivenStock, **kw)
                st = make_empty_stocks([sd], processes=processes, dims=dims_all)[name]
                for attr, v in (("stock", sv), ("inflow", iv), ("outflow", ov)):
                    getattr(st, attr).values[...] = np.array(v, dtype=float).reshape(dims.shape)
                stocks[name] = st
                continue
            stocks[name] = SimpleFlowDrivenStock(dims=dims, name=name, process=None if proc == "-" else processes[proc],
                                                 time_letter=dims.letters[0], stock=mk(sv), inflow=mk(iv), outflow=mk(ov))
        return MFASystem(dims=dims_all, parameters={}, processes=processes, flows=flows, stocks=stocks)

    def observe(self, fn, kind):
        cap = Capture()
        root = logging.getLogger()
        old_level = root.level
        root.addHandler(cap)
        root.setLevel(logging.WARNING)
        try:
            try:
                fn()
            except ValueError as e:
                # the check's own error, or a ValueError from somewhere inside: tell them apart by the text
                if "Mass balance check failed" in str(e) or "found in flow" in str(e) or "value in flow" in str(e):
                    return "raised"
                return "crashed"
            except Exception:
                return "crashed"
        finally:
            root.removeHandler(cap)
            root.setLevel(old_level)
        if not cap.records:
            return "ok"
        names = []
        for msg in cap.records:
            if kind == "cmb":
                body = msg.split("processes: ", 1)[1] if "processes: " in msg else ""
                names += re.findall(r"(\S+) \(max error", body)
            else:
                m = re.search(r"flow (\S+)!", msg)
                if m:
                    names.append(m.group(1))
        return "warned " + ",".join(names)

    def _exec(self, t):
        op = t[0]
        if op == "case":
            self.reset_sys()
            self.case_odd = (int(t[1]) % 2 == 1) if t[1].isdigit() else False
            return super()._exec(t)
        if op == "sys_begin":
            self.reset_sys()
            return "ok"
        if op == "procs":
            self.procs = t[1:]
            self._built = None
            return "ok"
        if op == "flow":
            dims = self.get(t[4], DimensionSet)
            vals = [fv(x) for x in t[5:]]
            if len(vals) != int(np.prod(dims.shape)):
                raise ValueError("count")
            self.flows.append((t[1], t[2], t[3], dims, vals))
            self._built = None
            return "ok"
        if op == "stock":
            dims = self.get(t[3], DimensionSet)
            parts = " ".join(t[4:]).split(" | ")
            sv, iv, ov = [[fv(x) for x in p.split(" ") if x] for p in parts]
            self.stocks.append((t[1], t[2], dims, sv, iv, ov))
            self._built = None
            return "ok"
        if op == "sys_scale":
            q = impl_array.num(t[1])
            sc = lambda vs: [v * q for v in vs]  # noqa: E731
            self.flows = [(n, a, b, d, sc(v)) for n, a, b, d, v in self.flows]
            self.stocks = [(n, p_, d, sc(sv), sc(iv), sc(ov)) for n, p_, d, sv, iv, ov in self.stocks]
            if self._built is not None:
                # the object the user holds: its arrays are updated in place (a later scenario, other units)
                for f in self._built.flows.values():
                    f.values *= q
                for s_ in self._built.stocks.values():
                    for a_ in (s_.stock, s_.inflow, s_.outflow):
                        a_.values *= q
            return "ok"
        if op == "balance":
            mfa = self.build()
            b = mfa._get_mass_balance()
            return "ok " + " ; ".join(f"{k}={fmt_fv_arr(v)}" for k, v in b.items())
        if op == "tol":
            return "ok " + fmt_num(self.build()._absolute_float_precision)
        if op == "cmb":
            try:
                mfa = self.build()
            except Exception:
                return "crashed"
            tol = None if t[1] == "-" else fv(t[1])
            return self.observe(lambda: mfa.check_mass_balance(tolerance=tol, raise_error=(t[2] == "1")), "cmb")
        if op == "cf":
            try:
                mfa = self.build()
            except Exception:
                return "crashed"
            if t[1] == "-":
                # as users call it: no list of exceptions given at all
                return self.observe(lambda: mfa.check_flows(raise_error=(t[2] == "1")), "cf")
            exc = t[1].split(",")
            return self.observe(lambda: mfa.check_flows(exceptions=exc, raise_error=(t[2] == "1")), "cf")
        return super()._exec(t)


def run(lines):
    impl = Impl()
    return [impl.exec(ln) for ln in lines]
