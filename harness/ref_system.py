"""Label-level oracle for C02 (mass-balance and flow checks), used only to search for / confirm a
failing input after a tie has broken."""
import itertools
from fractions import Fraction

EPS = Fraction(1, 2 ** 52)


def pv(tok):
    if tok == "nan":
        return "nan"
    if "/" in tok:
        a, b = tok.split("/")
        return Fraction(int(a), int(b))
    return Fraction(int(tok))


def fail(line, what, expected, observed):
    return {"line": line[:300], "property_demands": what, "expected": str(expected)[:300], "observed": str(observed)[:300]}


class Arr:
    def __init__(self, dims, vals):
        self.dims = dims          # list of (letter, items)
        labs = list(itertools.product(*[d[1] for d in dims]))
        self.data = dict(zip(labs, vals))

    @property
    def letters(self):
        return [d[0] for d in self.dims]


def add(a, b):
    if a == "nan" or b == "nan":
        return "nan"
    return a + b


def margin(arr, keep_dims, sign=1):
    """arr summed to the dims in keep_dims (list of (letter, items)), by label"""
    out = {}
    kl = [d[0] for d in keep_dims]
    for lab in itertools.product(*[d[1] for d in keep_dims]):
        out[lab] = Fraction(0)
    for lab, v in arr.data.items():
        key = tuple(lab[arr.letters.index(l)] for l in kl)
        vv = v if v == "nan" else sign * v
        out[key] = add(out[key], vv)
    return out


def check_case(lines, obs):
    dims, dsets = {}, {}
    procs, flows, stocks = [], [], []
    for ln, ob in zip(lines, obs):
        t = ln.split(" ")
        if t[0] == "dim":
            _, l, _, _, its = t[2].split(":")
            dims[t[1]] = (l, tuple(its.split(",")))
        elif t[0] == "dset":
            dsets[t[1]] = [dims[x] for x in t[2:]]
        elif t[0] == "sys_begin":
            procs, flows, stocks = [], [], []
        elif t[0] == "procs":
            procs = t[1:]
        elif t[0] == "flow" and ob == "ok":
            flows.append((t[1], t[2], t[3], Arr(dsets[t[4]], [pv(x) for x in t[5:]])))
        elif t[0] == "stock" and ob == "ok":
            parts = " ".join(t[4:]).split(" | ")
            sv, iv, ov = [[pv(x) for x in p.split(" ") if x] for p in parts]
            d = dsets[t[3]]
            stocks.append((t[1], t[2], Arr(d, sv), Arr(d, iv), Arr(d, ov)))
        elif t[0] == "sys_scale":
            q = pv(t[1])
            for f in flows:
                f[3].data = {k: (v if v == "nan" else v * q) for k, v in f[3].data.items()}
            for s_ in stocks:
                for a_ in s_[2:5]:
                    a_.data = {k: (v if v == "nan" else v * q) for k, v in a_.data.items()}
        elif t[0] == "balance" and ob.startswith("ok "):
            # the balance of every process: all its contributions, each summed to the dimensions
            # common to all of them (in the order of the first one), added up by label
            contrib = {p: [] for p in procs}
            for name, a, b, arr in flows:
                contrib[a].append((arr, -1))
                contrib[b].append((arr, 1))
            for name, proc, sv, iv, ov in stocks:
                if proc == "-":
                    continue
                contrib[proc].append((iv, -1)); contrib[proc].append((ov, 1))
                contrib["sysenv"].append((iv, 1)); contrib["sysenv"].append((ov, -1))
            got = {}
            for part in ob[3:].split(" ; "):
                nm, body = part.split("=", 1)
                got[nm] = body
            for p in procs:
                cs = contrib[p]
                if p not in got:
                    return fail(ln, "every process has a balance", p, sorted(got))
                vals_txt = got[p].split(" | ", 1)[1].split() if " | " in got[p] else []
                if not cs:
                    if any(pv(v) != 0 for v in vals_txt if v != "nan"):
                        return fail(ln, f"a process without flows or stocks ({p}) balances to zero", 0, got[p])
                    continue
                common = [d for d in cs[0][0].dims if all(d[0] in c[0].letters for c in cs)]
                total = {}
                for arr, sign in cs:
                    for k, v in margin(arr, common, sign).items():
                        total[k] = add(total.get(k, Fraction(0)), v)
                labs = list(itertools.product(*[d[1] for d in common]))
                want = [total[l] for l in labs]
                have = [("nan" if v == "nan" else pv(v)) for v in vals_txt]
                if have != want:
                    return fail(ln, f"the balance of {p}: inflows minus outflows minus stock changes, summed to the common dimensions by label",
                                [str(w) for w in want][:8], [str(h) for h in have][:8])
        elif t[0] == "tol" and ob.startswith("ok "):
            vals = [v for f in flows for v in f[3].data.values()] + [v for s in stocks for v in s[2].data.values()]
            # NaN entries are not magnitudes: the tolerance is scaled to the largest *number*
            want = EPS * max([abs(v) for v in vals if v != "nan"] + [Fraction(0)])
            got = ob.split(" ")[1]
            if got in ("nan", "inf", "-inf") or abs(pv(got) - want) > want / 10 ** 9:
                return fail(ln, "the default tolerance is scaled to the largest flow or stock magnitude (every flow, every stock)", want, got)
        elif t[0] in ("cmb", "cf"):
            # contributions per process: (array, sign)
            contrib = {p: [] for p in procs}
            for name, a, b, arr in flows:
                contrib[a].append((arr, -1))
                contrib[b].append((arr, 1))
            for name, proc, sv, iv, ov in stocks:
                if proc == "-":
                    continue
                contrib[proc].append((iv, -1)); contrib[proc].append((ov, 1))
                contrib["sysenv"].append((iv, 1)); contrib["sysenv"].append((ov, -1))
            allvals = [v for f in flows for v in f[3].data.values()] + [v for s in stocks for v in s[2].data.values()]
            has_nan_in_tol = any(v == "nan" for v in allvals)
            mx = max([abs(v) for v in allvals if v != "nan"] + [Fraction(0)])
            if t[0] == "cmb":
                if t[1] == "-":
                    tol = 100 * EPS * mx
                else:
                    tol = pv(t[1])
                failing, unsure = [], False
                for p in procs:
                    cs = contrib[p]
                    if not cs:
                        continue
                    common = [d for d in cs[0][0].dims if all(d[0] in c[0].letters for c in cs)]
                    total = {}
                    for arr, sign in cs:
                        m = margin(arr, common, sign)
                        for k, v in m.items():
                            total[k] = add(total.get(k, Fraction(0)), v)
                    vals = list(total.values())
                    if any(v == "nan" for v in vals):
                        failing.append(p)
                        continue
                    worst = max([abs(v) for v in vals] + [Fraction(0)])
                    if worst > tol * Fraction(11, 10):
                        failing.append(p)
                    elif worst > tol * Fraction(9, 10) and worst != 0:
                        unsure = True
                if unsure:
                    continue
                if not failing and ob != "ok":
                    return fail(ln, "check_mass_balance succeeds when every process balance stays within the tolerance", "ok", ob)
                if failing:
                    if t[2] == "1" and ob != "raised":
                        return fail(ln, f"check_mass_balance raises: processes {failing} are out of balance (NaN is never success)", "raised", ob)
                    if t[2] == "0":
                        want = "warned " + ",".join(failing)
                        if ob.split(" ")[0] != "warned" or sorted(ob.split(" ")[1].split(",")) != sorted(failing):
                            return fail(ln, "check_mass_balance logs a warning naming exactly the unbalanced processes", want, ob)
            else:
                tol = 100 * EPS * mx
                exc = [] if t[1] == "-" else t[1].split(",")
                flagged_nan, flagged_neg, unsure = [], [], False
                for name, a, b, arr in flows:
                    if name in exc or a in exc or b in exc:
                        continue
                    vals = list(arr.data.values())
                    if any(v == "nan" for v in vals):
                        flagged_nan.append(name)
                    nums = [v for v in vals if v != "nan"]
                    if any(v < -tol * Fraction(11, 10) for v in nums):
                        flagged_neg.append(name)
                    elif any(-tol * Fraction(11, 10) <= v < -tol * Fraction(9, 10) and v != 0 for v in nums):
                        unsure = True
                if unsure:
                    continue
                flagged = flagged_nan + flagged_neg
                if not flagged and ob != "ok":
                    return fail(ln, "check_flows flags nothing else", "ok", ob)
                if flagged:
                    if t[2] == "1" and ob != "raised":
                        return fail(ln, f"check_flows raises: {flagged}", "raised", ob)
                    if t[2] == "0":
                        got = ob.split(" ")
                        if got[0] != "warned" or sorted(set(got[1].split(","))) != sorted(set(flagged)):
                            return fail(ln, "check_flows flags exactly the non-excepted flows with NaN or an entry below minus the tolerance", flagged, ob)
    return None
