"""Property-level oracles for C19 (exports) and C20 (Sankey links, plotted lines), independent of
the Lean model: expected observations computed directly from the system written in the protocol
lines."""
import itertools
import re
from fractions import Fraction


def fail(line, what, expected, observed):
    return {"line": line[:400], "property_demands": what, "expected": str(expected)[:600], "observed": str(observed)[:600]}


def pv(tok):
    if "/" in tok:
        a, b = tok.split("/")
        return Fraction(int(a), int(b))
    return Fraction(int(tok))


def sanitise(name):
    """the documented behaviour of to_valid_file_name for ASCII names"""
    v = name.lower()
    v = re.sub(r"[^a-z0-9_\s-]", "", v)
    v = re.sub(r"[-\s]", "_", v)
    return v.strip("-_")


class Items(list):
    """the items of a dimension, with the dtype token it was declared with (i / s / n)"""
    ty = None


class Sys:
    def __init__(self):
        self.dims = {}      # handle -> (letter, name, [items])
        self.dsets = {}
        self.procs = []
        self.flows = []     # (name, from, to, dims, {labels: value})
        self.stocks = []    # (name, proc, dims, stock, inflow, outflow)
        self.xdims = None
        self.arrs = {}

    def arr(self, dims, toks):
        labs = list(itertools.product(*[d[2] for d in dims]))
        return dict(zip(labs, [pv(x) for x in toks]))

    def feed(self, t):
        if t[0] == "dim":
            _, l, name, ty, its = t[2].split(":")
            items = Items(its.split(","))
            items.ty = ty
            self.dims[t[1]] = (l, name, items)
        elif t[0] == "dset":
            self.dsets[t[1]] = [self.dims[x] for x in t[2:]]
        elif t[0] == "sys_begin":
            self.procs, self.flows, self.stocks = [], [], []
        elif t[0] == "procs":
            self.procs = t[1:]
        elif t[0] == "x_dims":
            self.xdims = self.dsets[t[1]]
        elif t[0] == "flow":
            d = self.dsets[t[4]]
            self.flows.append((t[1], t[2], t[3], d, self.arr(d, t[5:])))
        elif t[0] == "stock":
            d = self.dsets[t[3]]
            parts = " ".join(t[4:]).split(" | ")
            a, b, c = [self.arr(d, [x for x in p.split(" ") if x]) for p in parts]
            self.stocks.append((t[1], t[2], d, a, b, c))
        elif t[0] == "arr":
            d = self.dsets[t[2]]
            self.arrs[t[1]] = (d, self.arr(d, t[4:]))


def show_arr(dims, data):
    ds = " ".join(f"D:{l}:{n}:{getattr(its, 'ty', None) or ('i' if its and its[0][0] == 'i' else 's')}:{','.join(its)}" for l, n, its in dims)
    shape = ",".join(str(len(d[2])) for d in dims) if dims else "-"
    labs = list(itertools.product(*[d[2] for d in dims]))
    return f"A [{ds}] {shape} | " + " ".join(str(data[l]) for l in labs)


def expected_dict(s):
    return ("DN " + ",".join(f"{l}:{n}" for l, n, _ in s.xdims)
            + " | DI " + ";".join(f"{n}={','.join(its)}" for _, n, its in s.xdims)
            + " | P " + ",".join(s.procs)
            + " | F " + " ;; ".join(f"{f[0]}={show_arr(f[3], f[4])}" for f in s.flows)
            + " | FD " + ";".join(f"{f[0]}={','.join(d[0] for d in f[3])}" for f in s.flows)
            + " | FP " + ";".join(f"{f[0]}={f[1]}>{f[2]}" for f in s.flows)
            + " | S " + " ;; ".join(f"{k[0]}={show_arr(k[2], k[3])}" for k in s.stocks)
            + " | SD " + ";".join(f"{k[0]}={','.join(d[0] for d in k[2])}" for k in s.stocks)
            + " | SP " + ";".join(f"{k[0]}={k[1]}" for k in s.stocks if k[1] != "-"))


def canon_nums(text):
    """fractions in lowest terms so that `10/4` and `5/2` compare equal"""
    def fix(m):
        return str(pv(m.group(0)))
    return re.sub(r"-?\d+/\d+", fix, text)


def check_export(lines, obs):
    s = Sys()
    for ln, ob in zip(lines, obs):
        t = ln.split(" ")
        s.feed(t)
        scalar = any(not f[3] for f in s.flows)
        tag = "   # a flow or stock without dimensions" if scalar else ""
        mixed = any(len({i[0] for i in d[2]}) > 1 for o in ([f[3] for f in s.flows] + [k[2] for k in s.stocks]) for d in o)
        if t[0] == "x_csvback" and mixed and not scalar:
            # CSV text carries no types: 1950 comes back as the text "1950" next to "pre-war"
            tag = "   # CSV read-back of a dimension without dtype holding items of mixed type"
        if t[0] in ("x_dict", "x_pickle"):
            want = "ok " + expected_dict(s)
            if canon_nums(ob) != canon_nums(want):
                return fail(ln, "the exported dictionary holds every flow and stock with exactly its values, its dimension letters, "
                                "the dimension names and items, the processes, sources/targets and stock processes "
                                "(also after the other exports: exporting does not alter the system)", want, ob)
        elif t[0] == "x_dictpd":
            if not ob.startswith("ok "):
                return fail(ln + tag, "the pandas form of the export exists for every system", "one frame per flow and stock", ob)
            body = ob[3:]
            fpart, spart = body.split(" | S ", 1) if " | S " in body else (body, "")
            entries = [e for e in fpart[2:].split(" ;; ") if e] + [e for e in spart.split(" ;; ") if e]
            objs = [(f[0], f[3], f[4]) for f in s.flows] + [(k[0], k[2], k[3]) for k in s.stocks]
            if len(entries) != len(objs):
                return fail(ln, "one frame per flow and per stock", len(objs), len(entries))
            for e, (name, dims, data) in zip(entries, objs):
                nm, ser = e.split("=K ", 1)
                ser = "K " + ser
                if nm != name:
                    return fail(ln, "frames are keyed by the flow / stock names", name, nm)
                tk = ser.split(" ")
                n = int(tk[3])
                rest = tk[4 + n:]
                cells = rest[2:]
                rows = [cells[i * n:(i + 1) * n] for i in range(int(rest[1]))]
                got = {tuple(r[:-1]): pv(r[-1][1:]) for r in rows}
                if got != data:
                    return fail(ln, f"the frame of {name} lists every entry under its labels", "entries of " + name, ser[:200])
        elif t[0] == "x_files":
            if not ob.startswith("ok"):
                return fail(ln + tag, "the CSV export writes one file per flow / exported stock quantity", "files", ob)
            if t[1] == "flows":
                want = sorted(sanitise(f[0].replace("~", " ")) + ".csv" for f in s.flows)
            else:
                attrs = ["stock"] + (["inflow", "outflow"] if t[2] == "1" else [])
                want = sorted(f"{sanitise(k[0].replace('~', ' '))}_{a}.csv" for k in s.stocks for a in attrs)
            if len(set(want)) != len(want):
                continue                  # names that collide after sanitising: outside the property
            got = [x for x in ob.split(" ")[1:] if x]
            if got != want:
                return fail(ln, "one CSV file per flow and per exported stock quantity, named after it", want, got)
        elif t[0] == "x_csvback":
            if not ob.startswith("ok "):
                return fail(ln + tag, "every exported CSV file can be read back with from_df", "arrays", ob)
            attrs = ["stock"] + (["inflow", "outflow"] if t[1] == "1" else [])
            want_f = [f"{sanitise(f[0].replace('~', ' '))}.csv={show_arr(f[3], f[4])}" for f in s.flows]
            want_s = [f"{sanitise(k[0].replace('~', ' '))}_{a}.csv={show_arr(k[2], k[3 + i])}" for k in s.stocks for i, a in enumerate(attrs)]
            names = [w.split("=")[0] for w in want_f] + [w.split("=")[0] for w in want_s]
            if len(set(names)) != len(names):
                continue
            want = "ok F " + " ;; ".join(want_f) + " | S " + " ;; ".join(want_s)
            if canon_nums(ob) != canon_nums(want):
                return fail(ln, "the CSV files read back with from_df into arrays identical to the flows and stocks", want, ob)
    return None


def check_plot(lines, obs):
    s = Sys()
    cfg = None
    for ln, ob in zip(lines, obs):
        t = ln.split(" ")
        s.feed(t)
        if t[0] == "k_begin":
            cfg = {"slice": {}, "split": {}, "xp": ["sysenv"], "xf": []}
        elif t[0] == "k_slice":
            cfg["slice"] = dict(kv.split("=") for kv in t[1:])
        elif t[0] == "k_exclude_procs":
            cfg["xp"] = t[1:]
        elif t[0] == "k_exclude_flows":
            cfg["xf"] = t[1:]
        elif t[0] == "k_split":
            cfg["split"][t[1]] = (t[2], int(t[3]))
        elif t[0] == "k_sankey":
            letters = {d[0]: d for d in s.xdims}
            bykey = dict(letters); bykey.update({d[1]: d for d in s.xdims})
            refuse = (any(k not in letters for k in cfg["slice"]) or any(p not in s.procs for p in cfg["xp"])
                      or any(f not in [x[0] for x in s.flows] for f in cfg["xf"]))
            shown_p = [p for p in s.procs if p not in cfg["xp"]]
            shown_f = [f for f in s.flows if f[0] not in cfg["xf"] and f[1] not in cfg["xp"] and f[2] not in cfg["xp"]]
            unsure = False
            for f in shown_f:
                if f[0] in cfg["split"]:
                    key, ncol = cfg["split"][f[0]]
                    d = bykey.get(key)
                    if d is None or d[0] not in [x[0] for x in f[3]] or ncol < len(d[2]):
                        refuse = True
                    elif d[0] in cfg["slice"]:
                        unsure = True          # split by a dimension the slice fixes: the property does not say
            if unsure and not refuse:
                continue
            if refuse:
                if ob != "err":
                    return fail(ln, "unknown slice dimensions / excluded processes / excluded flows and unusable colour splits are refused", "err", ob)
                continue
            links = []
            for f in shown_f:
                src, tgt = shown_p.index(f[1]), shown_p.index(f[2])
                fl = [d[0] for d in f[3]]
                sel = {l: it for l, it in cfg["slice"].items() if l in fl}
                def total(extra=None):
                    tot = Fraction(0)
                    for lab, v in f[4].items():
                        ld = dict(zip(fl, lab))
                        if all(ld[l] == it for l, it in sel.items()) and (extra is None or ld[extra[0]] == extra[1]):
                            tot += v
                    return tot
                if f[0] in cfg["split"]:
                    d = bykey[cfg["split"][f[0]][0]]
                    for it in d[2]:
                        links.append(f"{src}>{tgt}:{total((d[0], it))}:{it}")
                else:
                    links.append(f"{src}>{tgt}:{total()}:s{f[0]}")
            want = "ok N " + ",".join(shown_p) + " | L " + " ; ".join(links)
            if canon_nums(ob) != canon_nums(want):
                return fail(ln, "one link per shown flow (one per item when split) carrying the flow's total after the slice, "
                                "from the source's node to the target's node; excluded processes and flows never appear", want, ob)
        elif t[0] == "p_lines":
            kind, a, intra, sub, line, x = t[1:]
            dims, data = s.arrs[a]
            bykey = {d[0]: d for d in dims}; bykey.update({d[1]: d for d in dims})
            roles = [k for k in (line, sub, intra) if k != "-"]
            ok_roles = all(k in bykey for k in roles) and sorted(bykey[k][0] for k in roles) == sorted(d[0] for d in dims)
            if not ok_roles:
                if ob != "err":
                    return fail(ln, "an array whose dimensions are not each given exactly one role is refused", "err", ob)
                continue
            di = bykey[intra]
            ds = bykey[sub] if sub != "-" else None
            dl = bykey[line] if line != "-" else None
            order = [d[0] for d in dims]
            xinfo = s.arrs.get(x) if x != "-" else None
            if xinfo is not None and any(d[0] not in order for d in xinfo[0]):
                continue
            want = []
            for si, sit in enumerate(ds[2] if ds else [None]):
                for li, lit in enumerate(dl[2] if dl else [None]):
                    ys, xs = [], []
                    for it in di[2]:
                        lab = {di[0]: it}
                        if ds:
                            lab[ds[0]] = sit
                        if dl:
                            lab[dl[0]] = lit
                        ys.append(str(data[tuple(lab[l] for l in order)]))
                        if xinfo is None:
                            xs.append(it)
                        else:
                            xs.append("f" + str(xinfo[1][tuple(lab[d[0]] for d in xinfo[0])]))
                    label = "-" if lit is None else lit[1:]
                    want.append(f"s{si}l{li} {label} X {','.join(xs)} Y {','.join(ys)}")
            want = "ok " + " ; ".join(want)
            if canon_nums(ob) != canon_nums(want):
                return fail(ln, "for every subplot item and line item a line whose y-data are the array's entries for those labels "
                                "along the chosen dimension and whose x-data are its items or the matching entries of the x array", want, ob)
    return None
