"""Generators for stream `dims`: exhaustive pairs of ordered dimension sub-lists for every set
operator, read-only queries, and random histories of in-place / out-of-place operations with a
full-store dump after every step (so aliasing and partial updates are visible)."""
import itertools

from proto import rng

UNI = {
    "a": "D:a:aa:i:i1,i2",
    "b": "D:b:bb:s:sx,sy",
    "c": "D:c:cc:n:sp",
    "d": "D:d:dd:s:su,sv,sw",
    "e": "D:e:ee:i:i5,i7",
}
# alternative dimensions: same letter as a / b but another name and other items (clashes)
ALT = {
    "A": "D:a:a2:i:i7,i8,i9",
    "B": "D:b:b2:s:sq",
}
ORDER = "abcdeAB"
H = {k: i for i, k in enumerate(ORDER)}
NAME = {"a": "aa", "b": "bb", "c": "cc", "d": "dd", "e": "ee", "A": "a2", "B": "b2"}
LETTER = {"a": "a", "b": "b", "c": "c", "d": "d", "e": "e", "A": "a", "B": "b"}


def header(keys):
    out = []
    for k in keys:
        out.append(f"dim ${H[k]} {(UNI | ALT)[k]}")
    return out


def ordered_subsets(letters, maxlen):
    out = []
    for k in range(0, maxlen + 1):
        out.extend(itertools.permutations(letters, k))
    return out


def dset(h, ks):
    return (f"dset ${h} " + " ".join(f"${H[k]}" for k in ks)).rstrip()


def gen_pairs(tier, seed):
    r = rng(seed, "dims/pairs")
    letters = "abcd" if tier == "quick" else "abcde"
    subs = ordered_subsets(letters, 3)
    lines, n = [], 0
    stats = {"cases": 0, "ops": 0}
    for xs in subs:
        for ys in subs:
            lines.append(f"case {n} dims-pairs a={''.join(xs) or '-'} b={''.join(ys) or '-'}")
            n += 1
            lines += header(letters)
            lines.append(dset(10, xs))
            lines.append(dset(11, ys))
            h = 20
            for op in ("union", "inter", "diff", "xor", "add"):
                lines.append(f"ds {op} ${h} $10 $11"); h += 1
            # a single Dimension on the left of `+`
            for l in xs:
                lines.append(f"ds dimadd ${h} ${H[l]} $11"); h += 1
                for l2 in ys[:1]:
                    lines.append(f"ds dimadd2 ${h} ${H[l]} ${H[l2]}"); h += 1
            if any(l in "ab" for l in ys):
                # the right operand holds *another* dimension under a letter the left one may have as well
                # (other name, other items): what both have is taken from the left
                lines += [f"dim ${H['A']} {ALT['A']}", f"dim ${H['B']} {ALT['B']}"]
                lines.append(dset(12, [l.upper() if l in "ab" else l for l in ys]))
                for op in ("union", "inter", "diff", "xor", "add"):
                    lines.append(f"ds {op} ${h} $10 $12"); h += 1
                    lines.append(f"ds {op} ${h} $12 $10"); h += 1
                stats["ops"] += 10
            lines.append("dumpall")
            stats["cases"] += 1
            stats["ops"] += 6
    return lines, stats


def gen_queries(tier, seed):
    """subset selection in the requested order (letters and names mixed), lookups, index, size,
    shape, membership, positional access incl. negative and out-of-range"""
    r = rng(seed, "dims/queries")
    letters = "abcd" if tier == "quick" else "abcde"
    subs = ordered_subsets(letters, 3 if tier == "quick" else 4)
    lines, n = [], 0
    stats = {"cases": 0, "ops": 0}
    for xs in subs:
        lines.append(f"case {n} dims-queries a={''.join(xs) or '-'}")
        n += 1
        lines += header(letters)
        lines.append(dset(10, xs))
        start = len(lines)
        lines.append("ds query $10")
        h = 20
        # every ordered selection of up to 3 of its dimensions, by letter / by name
        for sel in ordered_subsets(xs, min(3, len(xs))):
            keys = [k if r.random() < 0.5 else NAME[k] for k in sel]
            verb = "subsetiter" if (keys and r.random() < 0.3) else "subset"
            lines.append((f"ds {verb} ${h} $10 " + " ".join(keys)).rstrip()); h += 1
        lines.append(f"ds subsetnone ${h} $10"); h += 1
        lines.append(f"ds copy ${h} $10"); h += 1
        for k in letters + "z":
            key = k if r.random() < 0.5 else NAME.get(k, "zz")
            lines.append(f"ds lookup $10 {key}")
            lines.append(f"ds index $10 {key}")
            lines.append(f"ds size $10 {key}")
            lines.append(f"ds contains $10 {key}")
        # keys that merely contain / are contained in letters and names: several letters at once, a
        # name cut short or extended, the empty text
        odd = ["<empty>", "".join(xs) or "ab", "".join(letters[:2]), "zz"]
        if xs:
            odd += [NAME[xs[0]] + NAME[xs[0]][:1], NAME[xs[-1]][:-1] + "q", xs[0] + "z"]
        for key in odd:
            if len(key) == 1 or key in NAME.values():
                continue
            lines.append(f"ds contains $10 {key}")
            lines.append(f"ds lookup $10 {key}")
        for i in range(-len(xs) - 1, len(xs) + 1):
            lines.append(f"ds getidx $10 {i}")
        # a requested dimension that is missing
        other = [l for l in letters if l not in xs]
        if other and xs:
            lines.append(f"ds subset ${h} $10 {xs[0]} {other[0]}"); h += 1
        stats["cases"] += 1
        stats["ops"] += len(lines) - start
    return lines, stats


OUT_OPS = ["union", "inter", "diff", "xor", "add", "subset", "subsetnone", "copy", "expand", "append",
           "prepend", "insert", "drop", "replace"]
IN_OPS = ["expand!", "append!", "prepend!", "insert!", "drop!", "replace!"]


def gen_histories(tier, seed):
    r = rng(seed, "dims/histories")
    ncases, maxlen = (600, 8) if tier == "quick" else (3000, 30)
    keys = "abcdeAB"
    lines = []
    stats = {"cases": 0, "ops": 0, "inplace": 0, "outofplace": 0, "arrays": 0}
    for n in range(ncases):
        lines.append(f"case {n} dims-history")
        lines += header(keys)
        live = []
        for h in (10, 11):
            ks = r.sample("abcde", r.randint(0, 3))
            lines.append(dset(h, ks)); live.append(h)
        nxt = 12
        arr_h = 50
        for _ in range(r.randint(2, maxlen)):
            roll = r.random()
            a = r.choice(live)
            if roll < 0.12:
                # an array built from a set: later in-place edits of the set must not reach it
                lines.append(f"full ${arr_h} ${a} {r.randint(1, 5)}")
                lines.append(f"ds ofarr ${nxt} ${arr_h}")
                live.append(nxt); nxt += 1; arr_h += 1
                stats["arrays"] += 1
            elif roll < 0.55:
                op = r.choice(OUT_OPS)
                stats["outofplace"] += 1
                if op in ("union", "inter", "diff", "xor", "add"):
                    lines.append(f"ds {op} ${nxt} ${a} ${r.choice(live)}")
                elif op == "subset":
                    ks = [r.choice("abcde") for _ in range(r.randint(0, 3))]
                    ks = [k if r.random() < 0.5 else NAME[k] for k in ks]
                    lines.append((f"ds subset ${nxt} ${a} " + " ".join(ks)).rstrip())
                elif op in ("subsetnone", "copy"):
                    lines.append(f"ds {op} ${nxt} ${a}")
                elif op == "expand":
                    ks = r.sample(keys, r.randint(0, 3))
                    lines.append((f"ds expand ${nxt} ${a} " + " ".join(f"${H[k]}" for k in ks)).rstrip())
                elif op in ("append", "prepend"):
                    lines.append(f"ds {op} ${nxt} ${a} ${H[r.choice(keys)]}")
                elif op == "insert":
                    lines.append(f"ds insert ${nxt} ${a} {r.randint(-4, 5)} ${H[r.choice(keys)]}")
                elif op == "drop":
                    k = r.choice("abcde")
                    lines.append(f"ds drop ${nxt} ${a} {k if r.random() < 0.5 else NAME[k]}")
                elif op == "replace":
                    k = r.choice("abcde")
                    lines.append(f"ds replace ${nxt} ${a} {k if r.random() < 0.5 else NAME[k]} ${H[r.choice(keys)]}")
                live.append(nxt); nxt += 1
            else:
                op = r.choice(IN_OPS)
                stats["inplace"] += 1
                if op == "expand!":
                    ks = [r.choice(keys) for _ in range(r.randint(0, 3))]
                    lines.append((f"ds expand! ${a} " + " ".join(f"${H[k]}" for k in ks)).rstrip())
                elif op in ("append!", "prepend!"):
                    lines.append(f"ds {op} ${a} ${H[r.choice(keys)]}")
                elif op == "insert!":
                    lines.append(f"ds insert! ${a} {r.randint(-4, 5)} ${H[r.choice(keys)]}")
                elif op == "drop!":
                    k = r.choice("abcde")
                    lines.append(f"ds drop! ${a} {k if r.random() < 0.5 else NAME[k]}")
                elif op == "replace!":
                    k = r.choice("abcde")
                    lines.append(f"ds replace! ${a} {k if r.random() < 0.5 else NAME[k]} ${H[r.choice(keys)]}")
            lines.append("dumpall")
            stats["ops"] += 1
        if r.random() < 0.5 and live:
            # one dimension dropped and another one added in place, nothing asked in between
            a = live[0]
            lines.append(f"ds drop! ${a} {r.choice('abcde')}")
            lines.append(f"ds expand! ${a} ${H[r.choice(keys)]}")
            lines.append("dumpall")
        # what the sets answer after the history: lookups by letter and name agree with the order shown
        for h_ in live[:4]:
            lines.append(f"ds query ${h_}")
            for k in "abcdeAB":
                key = k if r.random() < 0.5 else NAME.get(k, k)
                lines.append(f"ds contains ${h_} {key}")
                lines.append(f"ds size ${h_} {key}")
                lines.append(f"ds index ${h_} {key}")
        stats["cases"] += 1
    return lines, stats
